(* GenEqRtlil.v — the definitions regenerated from /repo/amaranth/back/rtlil.py (and hdl/_ir.py `_add_name`) by
   translator/unit_rtlil.py (coq/Gen/RtlilGen.v) agree with the hand-written model Model/Rtlil.v on ALL inputs.

   Shape of the statements.  The source writes TEXT; the model keeps the PARSED form (pval / param / attr / wire /
   memory).  Model/RtlilText.v gives the concrete syntax of the parsed form (print_const, print_param, print_attr,
   print_wire, print_memory).  Each lemma says: the text the regenerated source function produces for a value is
   exactly the concrete syntax of what the model predicts (Rtlil.emit_xval / xparam_text / xattr_text), for all
   values.  The naming functions are compared directly (Rtlil.find_index / add_name).

   Guards.
     * xval_wf x (RtlilP): a Const has a well-formed shape (width >= 0, >= 1 when signed) — Shape.__init__ rejects
       anything else, so no other Const object exists.
     * fuel >= 2: `_const` of an int outside [0, 2^31-1) calls `_const` once more on a Const; depth 2 is never
       exceeded (gen_const_eq holds for every fuel >= 2).
     * XReal r in a `parameter real` line: the source writes repr(float) between quotes WITHOUT escaping; the parsed
       form is the same string when r contains none of quote, backslash, tab, CR, LF (esc_string r = r) — true of every
       float repr (digits . e + - inf nan).
     * XReal as an attribute value / as an argument of _const or _signed: the source raises (assert False); the
       generated functions return None there (stated in the lemmas), the model's XReal entry is only used for
       parameters.
     * Undef(w) (memory read port init): w > 0 in gen_const_undef; for w = 0 the source writes "0'" (no digit)
       whereas the syntax of a zero-width constant is 0'0 — a read port of a zero-width memory; stated separately. *)
From Coq Require Import ZArith List Bool String Ascii Lia ZifyBool.
From V.Model Require Import Bits Rtlil RtlilText.
From V.Model Require Shape.
From V.Proofs Require Import BitsP RtlilP.
From V.Gen Require RtlilGen.
Import ListNotations.
Open Scope string_scope.
Open Scope Z_scope.

(* ------------------------------------------------------------------ strings *)
Lemma sapp_assoc : forall a b c : string, (a ++ b) ++ c = a ++ (b ++ c).
Proof. induction a as [|x a IH]; intros b c; simpl; [reflexivity|]. rewrite IH. reflexivity. Qed.

Lemma sapp_nil_r : forall a : string, a ++ "" = a.
Proof. induction a as [|x a IH]; simpl; [reflexivity|]. rewrite IH. reflexivity. Qed.

Lemma slength_app : forall a b : string, String.length (a ++ b) = (String.length a + String.length b)%nat.
Proof. induction a as [|x a IH]; intro b; simpl; [reflexivity|]. rewrite IH. reflexivity. Qed.

(* a run of one character commutes with one more of it *)
Lemma repeat_char_comm : forall c n acc,
  str_repeat (String c "") n ++ String c acc = String c (str_repeat (String c "") n ++ acc).
Proof. induction n as [|n IH]; intro acc; simpl; [reflexivity|]. rewrite IH. reflexivity. Qed.

Lemma repeat_char_snoc : forall c n, str_repeat (String c "") n ++ String c "" = str_repeat (String c "") (S n).
Proof. intros c n. rewrite repeat_char_comm, sapp_nil_r. reflexivity. Qed.

(* ------------------------------------------------------------------ _escape_map / str.translate *)
Lemma gen_escape_eq : forall s, py_translate RtlilGen.escape_map s = esc_string s.
Proof.
  induction s as [|c s IH]; [reflexivity|].
  cbn [py_translate esc_string]. rewrite IH. f_equal.
  unfold esc_char, RtlilGen.escape_map, tab_char, cr_char, lf_char. cbn [assoc_ascii].
  repeat match goal with |- context [Ascii.eqb c ?k] => destruct (Ascii.eqb c k); try reflexivity end.
Qed.

(* ------------------------------------------------------------------ _signed *)
Lemma gen_signed_eq : forall x,
  RtlilGen.signed (of_xval x) = match x with XReal _ => None | _ => Some (fst (emit_xval x) =? 1) end.
Proof.
  destruct x as [v|v w sg|s|r]; cbn [of_xval RtlilGen.signed emit_xval fst]; try reflexivity.
  - f_equal. unfold emit_int. destruct ((0 <=? v) && (v <? 2 ^ 31 - 1)) eqn:R; cbn [fst].
    + lia.
    + destruct (v <? 0); reflexivity.
  - destruct sg; reflexivity.
Qed.

(* ------------------------------------------------------------------ binary digits *)
Lemma bits_lsb_mod : forall n v, bits_lsb n (v mod 2 ^ Z.of_nat n) = bits_lsb n v.
Proof.
  induction n as [|n IH]; intro v; [reflexivity|].
  cbn [bits_lsb]. rewrite Nat2Z.inj_succ, Z.pow_succ_r by lia.
  assert (P : 0 < 2 ^ Z.of_nat n) by (apply pow2_pos; lia).
  rewrite Z.rem_mul_r by lia.
  pose proof (Z.mod_pos_bound v 2 ltac:(lia)) as B.
  assert (E1 : (v mod 2 + 2 * ((v / 2) mod 2 ^ Z.of_nat n)) mod 2 = v mod 2).
  { rewrite (Z.mul_comm 2), Z.mod_add by lia. apply Z.mod_mod. lia. }
  assert (E2 : (v mod 2 + 2 * ((v / 2) mod 2 ^ Z.of_nat n)) / 2 = (v / 2) mod 2 ^ Z.of_nat n).
  { rewrite (Z.mul_comm 2), Z.div_add by lia. rewrite (Z.div_small (v mod 2)) by lia. lia. }
  rewrite E1, E2, IH. reflexivity.
Qed.

Lemma msb_zero : forall n acc, msb_string (bits_lsb n 0) acc = str_repeat "0" n ++ acc.
Proof.
  induction n as [|n IH]; intro acc; [reflexivity|].
  cbn [bits_lsb]. change (0 mod 2) with 0. change (0 / 2) with 0. cbn [msb_string].
  rewrite IH. change (digit_char 0) with "0"%char. rewrite repeat_char_comm. reflexivity.
Qed.

Lemma pos_half : forall q, (Zpos q~0 mod 2 = 0 /\ Zpos q~0 / 2 = Zpos q) /\ (Zpos q~1 mod 2 = 1 /\ Zpos q~1 / 2 = Zpos q).
Proof.
  intro q. repeat split.
  - rewrite Zmod_even. reflexivity.
  - rewrite <- Z.div2_div. reflexivity.
  - rewrite Zmod_odd. reflexivity.
  - rewrite <- Z.div2_div. reflexivity.
Qed.

Lemma msb_pos : forall p n acc, (Pos.size_nat p <= n)%nat ->
  msb_string (bits_lsb n (Zpos p)) acc = str_repeat "0" (n - Pos.size_nat p) ++ bin_pos p acc.
Proof.
  induction p as [q IH|q IH|]; intros n acc Hn; cbn [Pos.size_nat] in Hn;
    (destruct n as [|k]; [lia|]); cbn [bits_lsb Pos.size_nat bin_pos].
  - destruct (pos_half q) as [_ [E1 E2]]. rewrite E1, E2. cbn [msb_string].
    rewrite IH by lia. reflexivity.
  - destruct (pos_half q) as [[E1 E2] _]. rewrite E1, E2. cbn [msb_string].
    rewrite IH by lia. reflexivity.
  - change (1 mod 2) with 1. change (1 / 2) with 0. cbn [msb_string]. rewrite msb_zero.
    replace (S k - 1)%nat with k by lia. reflexivity.
Qed.

Lemma size_nat_bound : forall p n, Zpos p < 2 ^ Z.of_nat n -> (Pos.size_nat p <= n)%nat.
Proof.
  induction p as [q IH|q IH|]; intros n H; cbn [Pos.size_nat].
  - destruct n as [|k]; [simpl in H; lia|]. rewrite Nat2Z.inj_succ, Z.pow_succ_r in H by lia.
    rewrite Pos2Z.inj_xI in H. specialize (IH k). lia.
  - destruct n as [|k]; [simpl in H; lia|]. rewrite Nat2Z.inj_succ, Z.pow_succ_r in H by lia.
    rewrite Pos2Z.inj_xO in H. specialize (IH k). lia.
  - destruct n as [|k]; [simpl in H; lia|]. lia.
Qed.

Lemma bin_pos_length : forall p acc, String.length (bin_pos p acc) = (Pos.size_nat p + String.length acc)%nat.
Proof.
  induction p as [q IH|q IH|]; intro acc; cbn [bin_pos Pos.size_nat]; try rewrite IH; simpl; lia.
Qed.

(* "{:0{}b}".format(v & ((1 << w) - 1), w) writes the w low bits of v, most significant first *)
Lemma fmt_0b_bits : forall w v, 0 < w ->
  py_fmt_0b (v mod 2 ^ w) w = msb_string (bits_lsb (Z.to_nat w) v) "".
Proof.
  intros w v Hw.
  assert (Ew : w = Z.of_nat (Z.to_nat w)) by lia.
  rewrite <- (bits_lsb_mod (Z.to_nat w) v), <- Ew.
  pose proof (Z.mod_pos_bound v (2 ^ w) (pow2_pos w ltac:(lia))) as B.
  destruct (v mod 2 ^ w) as [|p|p] eqn:E; [| |lia].
  - cbn [py_fmt_0b]. rewrite msb_zero, sapp_nil_r. unfold py_repeat.
    replace (Z.to_nat w) with (S (Z.to_nat (w - 1))) by lia.
    apply (repeat_char_snoc "0"%char).
  - cbn [py_fmt_0b].
    assert (S : (Pos.size_nat p <= Z.to_nat w)%nat) by (apply size_nat_bound; rewrite <- Ew; lia).
    rewrite msb_pos by exact S. rewrite bin_pos_length. unfold py_repeat. simpl String.length.
    f_equal. f_equal. lia.
Qed.

Lemma twos_compl : forall v w sg, wf_shape (Sh w sg) = true ->
  Z.land (norm (Sh w sg) v) (Z.shiftl 1 w - 1) = v mod 2 ^ w.
Proof.
  intros v w sg W. unfold wf_shape in W. cbn [sgn width] in W.
  destruct sg.
  - rewrite mask_land by lia. rewrite norm_signed, mask_sext by lia. reflexivity.
  - rewrite mask_land by lia. rewrite norm_unsigned, mask_idem by lia. reflexivity.
Qed.

(* the text of a W'bits constant is the syntax of the model's bit list *)
Lemma const_bits_text : forall v w, 0 <= w ->
  py_fmt_d w ++ "'" ++ py_fmt_0b (v mod 2 ^ w) w = print_const (PBits (bits_lsb (Z.to_nat w) v)).
Proof.
  intros v w Hw. destruct (Z.eq_dec w 0) as [->|Hn].
  - change (2 ^ 0) with 1. rewrite Z.mod_1_r. reflexivity.
  - rewrite fmt_0b_bits by lia. unfold print_const.
    destruct (bits_lsb (Z.to_nat w) v) as [|b r] eqn:E.
    + apply (f_equal (@List.length Z)) in E. rewrite bits_lsb_length in E. simpl in E. lia.
    + rewrite <- E, bits_lsb_length, Z2Nat.id by lia. reflexivity.
Qed.

(* ------------------------------------------------------------------ _const *)
Lemma gen_const_const : forall fuel v w sg, wf_shape (Sh w sg) = true ->
  RtlilGen.const (S fuel) (PyConst v w sg) = Some (print_const (PBits (bits_lsb (Z.to_nat w) v))).
Proof.
  intros fuel v w sg W. cbn [RtlilGen.const]. cbv zeta. rewrite twos_compl by exact W.
  f_equal. apply const_bits_text. unfold wf_shape in W. cbn [sgn width] in W. destruct sg; lia.
Qed.

Theorem gen_const_eq : forall fuel x, (2 <= fuel)%nat -> xval_wf x = true ->
  RtlilGen.const fuel (of_xval x) =
  match x with XReal _ => None | _ => Some (print_const (snd (emit_xval x))) end.
Proof.
  intros fuel x Hf W. destruct fuel as [|fuel]; [lia|].
  destruct x as [v|v w sg|s|r]; cbn [of_xval emit_xval snd].
  - cbn [RtlilGen.const]. unfold emit_int.
    change (Z.sub (Z.pow 2 31) 1) with (2 ^ 31 - 1).
    destruct ((0 <=? v) && (v <? 2 ^ 31 - 1)) eqn:R; cbn [snd]; [reflexivity|].
    cbv zeta. fold (const_width v).
    assert (Wc : wf_shape (Sh (const_width v) false) = true).
    { unfold wf_shape, const_width. cbn [sgn width]. lia. }
    destruct fuel as [|fuel]; [lia|].
    rewrite (gen_const_const fuel v (const_width v) false Wc). reflexivity.
  - apply gen_const_const. exact W.
  - cbn [RtlilGen.const]. rewrite gen_escape_eq. reflexivity.
  - reflexivity.
Qed.

(* Undef(w): w digits x *)
Lemma msb_repeat_x : forall n acc, msb_string (repeat 2 n) acc = str_repeat "x" n ++ acc.
Proof.
  induction n as [|n IH]; intro acc; [reflexivity|].
  cbn [repeat msb_string]. rewrite IH. change (digit_char 2) with "x"%char.
  rewrite repeat_char_comm. reflexivity.
Qed.

Lemma gen_const_undef : forall fuel w, 0 < w ->
  RtlilGen.const (S fuel) (PyUndef w) = Some (print_const (PBits (repeat 2 (Z.to_nat w)))).
Proof.
  intros fuel w Hw. cbn [RtlilGen.const]. f_equal. rewrite sapp_assoc. unfold print_const.
  destruct (repeat 2 (Z.to_nat w)) as [|b r] eqn:E.
  - apply (f_equal (@List.length Z)) in E. rewrite repeat_length in E. simpl in E. lia.
  - rewrite <- E, repeat_length, Z2Nat.id, msb_repeat_x, sapp_nil_r by lia. reflexivity.
Qed.
(* w = 0: the source writes the width and the quote only *)
Lemma gen_const_undef_0 : forall fuel, RtlilGen.const (S fuel) (PyUndef 0) = Some "0'".
Proof. reflexivity. Qed.

(* ------------------------------------------------------------------ attribute / parameter lines *)
Theorem gen_attr_line_eq : forall fuel name x, (2 <= fuel)%nat -> xval_wf x = true ->
  RtlilGen.attr_line fuel name (of_xval x) =
  match x with XReal _ => None | _ => Some (print_attr (xattr_text (public name, x))) end.
Proof.
  intros fuel name x Hf W. pose proof (gen_const_eq fuel x Hf W) as C.
  destruct x as [v|v w sg|s|r]; cbn [of_xval] in *; cbn [RtlilGen.attr_line]; rewrite C; try reflexivity;
    unfold print_attr, xattr_text, public; cbn [fst snd]; cbv zeta; simpl; rewrite ?sapp_assoc; reflexivity.
Qed.

Definition real_ok (x : xval) : Prop := match x with XReal r => esc_string r = r | _ => True end.

Theorem gen_param_line_eq : forall fuel name x, (2 <= fuel)%nat -> xval_wf x = true -> real_ok x ->
  RtlilGen.param_line fuel name (of_xval x) = Some (print_param (xparam_text (public name, x))).
Proof.
  intros fuel name x Hf W R. pose proof (gen_const_eq fuel x Hf W) as C. pose proof (gen_signed_eq x) as S.
  unfold print_param, xparam_text, public. cbn [fst snd par_name par_flag par_val].
  destruct x as [v|v w sg|s|r]; cbn [of_xval] in *; cbn [RtlilGen.param_line].
  - rewrite S, C. cbv zeta. unfold flag_text.
    destruct (fst (emit_xval (XInt v)) =? 1) eqn:F.
    + simpl. rewrite ?sapp_assoc. reflexivity.
    + assert (F2 : fst (emit_xval (XInt v)) =? 2 = false).
      { cbn [emit_xval]. unfold emit_int. destruct ((0 <=? v) && (v <? 2 ^ 31 - 1)); cbn [fst]; [reflexivity|].
        destruct (v <? 0); reflexivity. }
      rewrite F2. simpl. rewrite ?sapp_assoc. reflexivity.
  - rewrite S, C. cbv zeta. unfold flag_text. cbn [emit_xval fst]. destruct sg; simpl; rewrite ?sapp_assoc; reflexivity.
  - rewrite S, C. cbv zeta. simpl. rewrite ?sapp_assoc. reflexivity.
  - cbn [emit_xval fst snd]. cbn [real_ok] in R. unfold print_const. rewrite R. simpl.
    rewrite ?sapp_assoc. reflexivity.
Qed.

(* ------------------------------------------------------------------ wire / memory lines *)
Theorem gen_wire_lines_plain : forall nm wd sg ats pid,
  RtlilGen.wire_lines wd sg None nm pid = Some ([print_wire (Wire nm wd None sg ats); ""], pid).
Proof. intros. unfold RtlilGen.wire_lines, print_wire. cbn [w_port w_width w_signed w_name]. reflexivity. Qed.

Theorem gen_wire_lines_port : forall nm wd sg ats d pid,
  RtlilGen.wire_lines wd sg (Some (dir_text d)) nm pid =
  Some ([print_wire (Wire nm wd (Some (d, pid)) sg ats); ""], pid + 1).
Proof.
  intros. unfold RtlilGen.wire_lines, print_wire. cbn [w_port w_width w_signed w_name]. cbv zeta. simpl.
  repeat (rewrite ?sapp_assoc; simpl). reflexivity.
Qed.

Theorem gen_memory_lines_eq : forall nm wd sz ats,
  RtlilGen.memory_lines wd sz nm = Some [print_memory (Mem nm wd sz ats); ""].
Proof.
  intros. unfold RtlilGen.memory_lines, print_memory. cbn [m_name m_width m_size]. cbv zeta. simpl.
  repeat (rewrite ?sapp_assoc; simpl). reflexivity.
Qed.

(* ------------------------------------------------------------------ names *)
Theorem gen_auto_name_eq : forall k, RtlilGen.auto_name k = Some (auto_name k).
Proof. reflexivity. Qed.

Theorem gen_add_name_index_eq : forall fuel A n i, RtlilGen.add_name_index fuel A n i = find_index fuel A n i.
Proof.
  induction fuel as [|f IH]; intros A n i; [reflexivity|].
  cbn [RtlilGen.add_name_index find_index]. rewrite IH. reflexivity.
Qed.

Theorem gen_add_name_eq : forall A n, RtlilGen.add_name A n = add_name A n.
Proof.
  intros A n. unfold RtlilGen.add_name, add_name. rewrite gen_add_name_index_eq. reflexivity.
Qed.

Theorem gen_module_name_eq : forall k contents name,
  RtlilGen.module_name k contents name = module_name k contents name.
Proof.
  intros k contents [n|]; unfold RtlilGen.module_name, module_name.
  - cbv zeta. unfold public. cbn [snd]. destruct (smem ("\" ++ n) contents); reflexivity.
  - rewrite gen_auto_name_eq. destruct (auto_name k) as [k' n'] eqn:E. cbn [snd].
    destruct (smem n' contents); reflexivity.
Qed.

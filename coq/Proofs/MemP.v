(* MemP.v — proofs about Model/Mem.v: the simulated memory (write queue, per-domain port processes,
   testbench row access) refines the array-of-rows specification. *)
From Coq Require Import ZArith List Bool Lia ZifyBool.
From V.Model Require Import Bits Mem.
From V.Proofs Require Import BitsP.
Import ListNotations.
Open Scope Z_scope.

(* ================================================================== bit-level helpers *)
Lemma small_bits w x i : 0 <= w -> 0 <= x < 2 ^ w -> w <= i -> Z.testbit x i = false.
Proof.
  intros Hw Hx Hi. rewrite <- (mask_small w x Hx). rewrite testbit_mask by auto.
  replace (i <? w) with false by lia. reflexivity.
Qed.

Lemma bits_small w x : 0 <= w -> (forall i, w <= i -> Z.testbit x i = false) -> 0 <= x < 2 ^ w.
Proof.
  intros Hw H. assert (x = mask w x) as ->.
  { apply Z.bits_inj'; intros i Hi. rewrite testbit_mask by auto.
    destruct (i <? w) eqn:E; simpl; auto. apply H; lia. }
  apply mask_range; auto.
Qed.

Lemma testbit_add_pow2 x y g i : 0 <= g -> 0 <= x < 2 ^ g -> 0 <= i ->
  Z.testbit (x + 2 ^ g * y) i = if i <? g then Z.testbit x i else Z.testbit y (i - g).
Proof.
  intros Hg Hx Hi. replace (x + 2 ^ g * y) with (x + y * 2 ^ g) by lia.
  rewrite <- lor_shiftl_add by auto. rewrite Z.lor_spec.
  destruct (i <? g) eqn:E.
  - rewrite Z.shiftl_spec_low by lia. apply orb_false_r.
  - rewrite (small_bits g x i) by lia. rewrite Z.shiftl_spec by lia. reflexivity.
Qed.

Lemma wf_shape_width s : wf_shape s = true -> 0 <= width s.
Proof. unfold wf_shape. destruct (sgn s); lia. Qed.

Lemma norm_bits_low s v i : wf_shape s = true -> 0 <= i < width s ->
  Z.testbit (norm s v) i = Z.testbit v i.
Proof.
  intros Hs Hi. rewrite testbit_norm by (auto; lia).
  replace (i <? width s) with true by lia. destruct (sgn s); reflexivity.
Qed.

Lemma norm_low_bits s x y : wf_shape s = true ->
  (forall i, 0 <= i < width s -> Z.testbit x i = Z.testbit y i) -> norm s x = norm s y.
Proof.
  intros Hs H. apply Z.bits_inj'; intros i Hi. rewrite !testbit_norm by auto.
  pose proof (wf_shape_width s Hs) as Hw.
  unfold wf_shape in Hs. destruct (sgn s).
  - destruct (i <? width s) eqn:E; apply H; lia.
  - destruct (i <? width s) eqn:E; simpl; auto. apply H; lia.
Qed.

Lemma in_range_bits_eq s x y : wf_shape s = true -> in_range s x -> in_range s y ->
  (forall i, 0 <= i < width s -> Z.testbit x i = Z.testbit y i) -> x = y.
Proof.
  intros Hs Hx Hy H. rewrite <- (norm_id s x Hs Hx), <- (norm_id s y Hs Hy).
  apply norm_low_bits; auto.
Qed.

Lemma in_range_0 s : wf_shape s = true -> in_range s 0.
Proof.
  intros Hs. unfold in_range. unfold wf_shape in Hs. destruct (sgn s).
  - pose proof (pow2_pos (width s - 1) ltac:(lia)). lia.
  - pose proof (pow2_pos (width s) ltac:(lia)). lia.
Qed.

(* ------------------------------------------------------------------ sign_fix / wrv *)
Lemma sign_fix_norm s v : wf_shape s = true -> (sgn s = false -> 0 <= v < 2 ^ width s) ->
  sign_fix s v = norm s v.
Proof.
  intros Hs Hu. unfold sign_fix, norm. pose proof Hs as Hs'. unfold wf_shape in Hs'.
  destruct (sgn s) eqn:Es.
  - apply Z.bits_inj'; intros i Hi. rewrite testbit_sext by (auto; lia).
    destruct (Z.testbit v (width s - 1)) eqn:Et.
    + rewrite Z.lor_spec, testbit_neg_pow2 by lia.
      destruct (i <? width s) eqn:E.
      * replace (width s <=? i) with false by lia. apply orb_false_r.
      * replace (width s <=? i) with true by lia. rewrite orb_true_r. auto.
    + rewrite mask_land_pow by lia. rewrite testbit_mask by lia.
      destruct (i <? width s) eqn:E; simpl; auto.
  - symmetry. apply mask_small. auto.
Qed.

Lemma sign_fix_bits s v i : wf_shape s = true -> 0 <= i < width s ->
  Z.testbit (sign_fix s v) i = Z.testbit v i.
Proof.
  intros Hs Hi. unfold sign_fix. destruct (sgn s); auto.
  destruct (Z.testbit v (width s - 1)).
  - rewrite Z.lor_spec, testbit_neg_pow2 by lia. replace (width s <=? i) with false by lia. apply orb_false_r.
  - rewrite mask_land_pow by lia. rewrite testbit_mask by lia. replace (i <? width s) with true by lia. reflexivity.
Qed.

Definition merge (cur value msk : Z) : Z := Z.lor (Z.land value msk) (Z.land cur (Z.lnot msk)).

Lemma merge_bits cur value msk i : 0 <= i ->
  Z.testbit (merge cur value msk) i = if Z.testbit msk i then Z.testbit value i else Z.testbit cur i.
Proof.
  intros Hi. unfold merge. rewrite Z.lor_spec, !Z.land_spec, Z.lnot_spec by auto.
  destruct (Z.testbit msk i); simpl; rewrite ?andb_true_r, ?andb_false_r, ?orb_false_r; auto.
Qed.

Lemma in_range_unsigned_nonneg s x : sgn s = false -> in_range s x -> 0 <= x < 2 ^ width s.
Proof. unfold in_range. intros ->. auto. Qed.

Lemma wrv_norm s cur value msk : wf_shape s = true -> in_range s cur -> 0 <= msk < 2 ^ width s ->
  wrv s cur value msk = norm s (merge cur value msk).
Proof.
  intros Hs Hc Hm. unfold wrv. fold (merge cur value msk). apply sign_fix_norm; auto.
  intros Hu. pose proof (wf_shape_width s Hs) as Hw.
  apply bits_small; auto. intros i Hi. rewrite merge_bits by lia.
  rewrite (small_bits (width s) msk i) by (auto; lia).
  apply (small_bits (width s)); auto; try lia. apply in_range_unsigned_nonneg; auto.
Qed.

Lemma wrv_bits s cur value msk i : wf_shape s = true -> 0 <= i < width s ->
  Z.testbit (wrv s cur value msk) i = if Z.testbit msk i then Z.testbit value i else Z.testbit cur i.
Proof.
  intros Hs Hi. unfold wrv. fold (merge cur value msk). rewrite sign_fix_bits by auto.
  apply merge_bits; lia.
Qed.

Lemma wrv_in_range s cur value msk : wf_shape s = true -> in_range s cur -> 0 <= msk < 2 ^ width s ->
  in_range s (wrv s cur value msk).
Proof. intros. rewrite wrv_norm by auto. apply norm_in_range; auto. Qed.

(* ================================================================== enables, granules *)
Lemma div_sub_self i g : 0 < g -> (i - g) / g = i / g - 1.
Proof.
  intros Hg. replace i with ((i - g) + 1 * g) at 2 by lia. rewrite Z.div_add by lia. lia.
Qed.
Lemma mod_sub_self i g : 0 < g -> (i - g) mod g = i mod g.
Proof.
  intros Hg. replace i with ((i - g) + 1 * g) at 2 by lia. rewrite Z.mod_add by lia. reflexivity.
Qed.

Lemma ones_range g : 0 <= g -> 0 <= Z.ones g < 2 ^ g.
Proof. intros. rewrite Z.ones_equiv. pose proof (pow2_pos g ltac:(lia)). lia. Qed.

Lemma en_cat_from_bits g n : 0 < g -> forall k en i, 0 <= i ->
  Z.testbit (en_cat_from g n k en) i = (i <? g * Z.of_nat n) && Z.testbit en (k + i / g).
Proof.
  intros Hg. induction n as [|n IH]; intros k en i Hi.
  - cbn [en_cat_from]. rewrite Z.bits_0. replace (i <? g * Z.of_nat 0) with false by lia. reflexivity.
  - cbn [en_cat_from]. rewrite testbit_add_pow2; try lia.
    2:{ destruct (Z.testbit en k); [apply ones_range; lia | pose proof (pow2_pos g ltac:(lia)); lia]. }
    destruct (i <? g) eqn:E.
    + rewrite Z.div_small by lia. replace (k + 0) with k by lia.
      replace (i <? g * Z.of_nat (S n)) with true by nia.
      destruct (Z.testbit en k); simpl.
      * apply Z.ones_spec_low; lia.
      * apply Z.bits_0.
    + rewrite IH by lia. rewrite div_sub_self by lia.
      replace (k + 1 + (i / g - 1)) with (k + i / g) by lia.
      f_equal. rewrite Nat2Z.inj_succ. destruct (i - g <? g * Z.of_nat n) eqn:E2; nia.
Qed.

Lemma join_bits g l : 0 < g -> (forall x, In x l -> 0 <= x < 2 ^ g) -> forall i, 0 <= i ->
  Z.testbit (join g l) i = Z.testbit (nth (Z.to_nat (i / g)) l 0) (i mod g).
Proof.
  intros Hg. induction l as [|x l IH]; intros Hl i Hi.
  - cbn [join]. destruct (Z.to_nat (i / g)); cbn [nth]; rewrite !Z.bits_0; reflexivity.
  - cbn [join]. rewrite testbit_add_pow2; try lia. 2:{ apply Hl; left; auto. }
    destruct (i <? g) eqn:E.
    + rewrite Z.div_small, Z.mod_small by lia. reflexivity.
    + rewrite IH; try lia. 2:{ intros; apply Hl; right; auto. }
      rewrite div_sub_self, mod_sub_self by lia.
      assert (1 <= i / g) by (apply Z.div_le_lower_bound; lia).
      replace (Z.to_nat (i / g)) with (S (Z.to_nat (i / g - 1))) by lia. reflexivity.
Qed.

Lemma granule_range g k v : 0 <= g -> 0 <= granule g k v < 2 ^ g.
Proof. intros. unfold granule. apply Z.mod_pos_bound. apply pow2_pos; auto. Qed.

Lemma granule_bits g k v j : 0 < g -> 0 <= k -> 0 <= j < g ->
  Z.testbit (granule g k v) j = Z.testbit v (g * k + j).
Proof.
  intros Hg Hk Hj. unfold granule. rewrite Z.mod_pow2_bits_low by lia.
  rewrite testbit_div_pow2 by nia. f_equal. lia.
Qed.

Lemma nth_map_seq (f : nat -> Z) n k d : (k < n)%nat -> nth k (map f (seq 0 n)) d = f k.
Proof.
  intros. rewrite (nth_indep _ d (f 0%nat)) by (rewrite map_length, seq_length; auto).
  rewrite map_nth. rewrite seq_nth by auto. reflexivity.
Qed.

Lemma spec_write_row_bits s g n en d old i : wf_shape s = true -> 0 < g -> g * Z.of_nat n = width s ->
  0 <= i < width s ->
  Z.testbit (spec_write_row s g n en d old) i = if Z.testbit en (i / g) then Z.testbit d i else Z.testbit old i.
Proof.
  intros Hs Hg Hn Hi. unfold spec_write_row. rewrite norm_bits_low by auto.
  rewrite join_bits; try lia.
  2:{ intros x Hx. apply in_map_iff in Hx. destruct Hx as (k & <- & _).
      destruct (Z.testbit en (Z.of_nat k)); apply granule_range; lia. }
  assert (0 <= i / g) by (apply Z.div_pos; lia).
  assert (i / g < Z.of_nat n) by (apply Z.div_lt_upper_bound; lia).
  pose proof (Z.mod_pos_bound i g Hg) as Hm. pose proof (Z.div_mod i g ltac:(lia)) as Hdm.
  rewrite nth_map_seq by lia. rewrite Z2Nat.id by lia.
  destruct (Z.testbit en (i / g)); rewrite granule_bits by lia; f_equal; lia.
Qed.

Lemma spec_write_row_in_range s g n en d old : wf_shape s = true -> in_range s (spec_write_row s g n en d old).
Proof. intros. apply norm_in_range; auto. Qed.

(* a write port of the model and the same port of the specification *)
Definition mact_of (s : shape) (t : sact) : action :=
  let '(wa, enw, en, d) := t in
  (wa, mask (width s) d, mask (width s) (en_cat (granularity (width s) enw) (Z.to_nat enw) en)).

Definition wf_sact (s : shape) (t : sact) : Prop :=
  let '(wa, enw, en, d) := t in wf_wport s (WP 0 enw) = true.

Lemma wrv_eq_spec s enw en d r : wf_shape s = true -> wf_wport s (WP 0 enw) = true -> in_range s r ->
  wrv s r (mask (width s) d) (mask (width s) (en_cat (granularity (width s) enw) (Z.to_nat enw) en)) =
  spec_write_row s (granularity (width s) enw) (Z.to_nat enw) en d r.
Proof.
  intros Hs Hp Hr. pose proof (wf_shape_width s Hs) as Hw.
  apply (in_range_bits_eq s); auto.
  - apply wrv_in_range; auto. apply mask_range; auto.
  - apply spec_write_row_in_range; auto.
  - intros i Hi. unfold wf_wport in Hp. cbn [wp_enw] in Hp.
    replace (width s =? 0) with false in Hp by lia.
    assert (1 <= enw /\ width s mod enw = 0) as [He Hm] by lia.
    pose proof (Z.div_mod (width s) enw ltac:(lia)) as Hdm.
    assert (Hg : granularity (width s) enw = width s / enw).
    { unfold granularity. replace (width s =? 0) with false by lia. reflexivity. }
    assert (0 < width s / enw) by nia.
    rewrite wrv_bits by auto. rewrite !testbit_mask by auto.
    replace (i <? width s) with true by lia. cbn [andb].
    unfold en_cat. rewrite en_cat_from_bits by lia. rewrite Hg.
    rewrite Z2Nat.id by lia.
    replace (i <? width s / enw * enw) with true by nia. cbn [andb]. rewrite Z.add_0_l.
    symmetry. apply spec_write_row_bits; auto; try lia. all: rewrite Z2Nat.id by lia; nia.
Qed.

(* ================================================================== lists *)
Lemma nth_upd l n v k d : nth k (upd l n v) d = if Nat.eqb k n && Nat.ltb n (length l) then v else nth k l d.
Proof.
  revert n k. induction l as [|x l IH]; intros n k.
  - cbn. destruct k, n; cbn; auto. rewrite andb_false_r. auto.
  - destruct n, k; cbn [upd nth length]; auto.
    + rewrite IH. cbn. reflexivity.
Qed.

Lemma upd_length l n v : length (upd l n v) = length l.
Proof. revert n. induction l; intros [|n]; cbn; auto. Qed.

Lemma mapi_from_length {A B} (f : nat -> A -> B) n l : length (mapi_from f n l) = length l.
Proof. revert n. induction l; intros; cbn; auto. Qed.
Lemma mapi_length {A B} (f : nat -> A -> B) l : length (mapi f l) = length l.
Proof. apply mapi_from_length. Qed.

Lemma nth_error_mapi_from {A B} (f : nat -> A -> B) n l k :
  nth_error (mapi_from f n l) k = option_map (f (n + k)%nat) (nth_error l k).
Proof.
  revert n k. induction l as [|x l IH]; intros n [|k]; cbn; auto.
  - rewrite Nat.add_0_r. auto.
  - rewrite IH. replace (S n + k)%nat with (n + S k)%nat by lia. auto.
Qed.
Lemma nth_error_mapi {A B} (f : nat -> A -> B) l k :
  nth_error (mapi f l) k = option_map (f k) (nth_error l k).
Proof. apply nth_error_mapi_from. Qed.

Lemma nth_mapi {A B} (f : nat -> A -> B) l k x d : nth_error l k = Some x -> nth k (mapi f l) d = f k x.
Proof.
  intros H. apply nth_error_nth. rewrite nth_error_mapi, H. reflexivity.
Qed.

Lemma nth_error_ext {A} (l1 l2 : list A) : (forall k, nth_error l1 k = nth_error l2 k) -> l1 = l2.
Proof.
  revert l2. induction l1 as [|x l1 IH]; intros [|y l2] H; auto.
  - specialize (H 0%nat). discriminate.
  - specialize (H 0%nat). discriminate.
  - pose proof (H 0%nat) as H0. cbn in H0. inversion H0; subst. f_equal.
    apply IH. intros k. apply (H (S k)).
Qed.

Lemma mapi_ext {A B} (f g : nat -> A -> B) l :
  (forall k x, nth_error l k = Some x -> f k x = g k x) -> mapi f l = mapi g l.
Proof.
  intros H. apply nth_error_ext. intros k. rewrite !nth_error_mapi.
  destruct (nth_error l k) eqn:E; cbn; auto. f_equal. apply H; auto.
Qed.

Lemma mapi_map {A B C} (f : nat -> A -> B) (g : B -> C) l : map g (mapi f l) = mapi (fun k x => g (f k x)) l.
Proof. unfold mapi. generalize 0%nat. induction l; intros; cbn; auto. f_equal. auto. Qed.

Lemma filter_nil {A} (h : A -> bool) l : (forall x, In x l -> h x = false) -> filter h l = [].
Proof.
  induction l as [|x l IH]; intros H; cbn; auto.
  rewrite (H x) by (left; auto). apply IH. intros; apply H; right; auto.
Qed.

Lemma filter_snd_filter_ext {A} (h : A -> bool) (p p' : Z * A -> bool) l :
  (forall x, In x l -> h (snd x) = true -> p x = p' x) ->
  filter h (map snd (filter p l)) = filter h (map snd (filter p' l)).
Proof.
  induction l as [|x l IH]; intros H; cbn; auto.
  assert (IHl := IH (fun y Hy => H y (or_intror Hy))).
  destruct (h (snd x)) eqn:Eh.
  - rewrite (H x) by (auto; left; auto). destruct (p' x); cbn; rewrite ?Eh; rewrite IHl; auto.
  - destruct (p x), (p' x); cbn; rewrite ?Eh; auto.
Qed.

(* ================================================================== the write queue *)
Definition pending (rows : list Z) (q : wqueue) (a : Z) : Z :=
  match qget q a with Some v => v | None => nth (Z.to_nat a) rows 0 end.

Definition qinv (depth : Z) (q : wqueue) : Prop :=
  NoDup (map fst q) /\ forall k, In k (map fst q) -> in_depth depth k = true.

Lemma qget_qset q a v b : qget (qset q a v) b = if a =? b then Some v else qget q b.
Proof.
  induction q as [|[k x] q IH]; cbn [qset qget].
  - destruct (a =? b); auto.
  - destruct (k =? a) eqn:E; cbn [qget].
    + assert (k = a) by lia; subst. destruct (a =? b); auto.
    + rewrite IH. destruct (k =? b) eqn:E2; auto. replace (a =? b) with false by lia. auto.
Qed.

Lemma qset_keys q a v k : In k (map fst (qset q a v)) <-> k = a \/ In k (map fst q).
Proof.
  induction q as [|[k0 x] q IH]; cbn [qset map fst In].
  - intuition.
  - destruct (k0 =? a) eqn:E; cbn [map fst In].
    + assert (k0 = a) by lia. subst. intuition.
    + rewrite IH. intuition.
Qed.

Lemma qset_nodup q a v : NoDup (map fst q) -> NoDup (map fst (qset q a v)).
Proof.
  induction q as [|[k0 x] q IH]; cbn [qset map fst]; intros H.
  - constructor; [intros []|constructor].
  - inversion H; subst. destruct (k0 =? a) eqn:E; cbn [map fst].
    + constructor; auto.
    + constructor; auto. rewrite qset_keys. intros [->|Hin]; [lia|auto].
Qed.

Lemma qget_none q a : ~ In a (map fst q) -> qget q a = None.
Proof.
  induction q as [|[k x] q IH]; cbn; auto. intros H.
  destruct (k =? a) eqn:E; [exfalso; apply H; left; lia|]. apply IH. intuition.
Qed.

Lemma ms_write_qinv s depth rows q a value msk : qinv depth q -> qinv depth (ms_write s depth rows q a value msk).
Proof.
  intros [Hn Hk]. unfold ms_write. destruct (in_depth depth a) eqn:E; [|split; auto].
  split. { apply qset_nodup; auto. }
  intros k Hin. apply qset_keys in Hin. destruct Hin as [->|Hin]; auto.
Qed.

Lemma pending_write s depth rows q wa wd we a : in_depth depth a = true ->
  pending rows (ms_write s depth rows q wa wd we) a =
  if wa =? a then wrv s (pending rows q a) wd we else pending rows q a.
Proof.
  intros Ha. unfold ms_write. destruct (in_depth depth wa) eqn:E.
  - unfold pending at 1. rewrite qget_qset. destruct (wa =? a) eqn:E2; auto.
    assert (wa = a) by lia; subst. reflexivity.
  - destruct (wa =? a) eqn:E2; auto. assert (wa = a) by lia; subst. congruence.
Qed.

Lemma commit_length rows q : length (ms_commit rows q) = length rows.
Proof.
  unfold ms_commit. revert rows. induction q as [|kv q IH]; intros rows; cbn [fold_left]; auto.
  rewrite IH. apply upd_length.
Qed.

Lemma commit_nth depth rows q a : qinv depth q -> length rows = Z.to_nat depth -> in_depth depth a = true ->
  nth (Z.to_nat a) (ms_commit rows q) 0 = pending rows q a.
Proof.
  unfold ms_commit, pending. revert rows. induction q as [|[k v] q IH]; intros rows [Hn Hk] Hl Ha.
  - reflexivity.
  - cbn [fold_left fst snd qget map] in *. inversion Hn; subst.
    rewrite IH; auto.
    2:{ split; auto. intros; apply Hk; right; auto. }
    2:{ rewrite upd_length; auto. }
    assert (Hkd : in_depth depth k = true) by (apply Hk; left; auto).
    unfold in_depth in *.
    destruct (k =? a) eqn:E.
    + assert (k = a) by lia; subst. rewrite qget_none by auto.
      rewrite nth_upd. rewrite Nat.eqb_refl. replace (Z.to_nat a <? length rows)%nat with true by lia. reflexivity.
    + destruct (qget q a); auto. rewrite nth_upd.
      replace (Z.to_nat a =? Z.to_nat k)%nat with false by lia. reflexivity.
Qed.

(* rows seen through a list of queued writes *)
Definition apply_writes (s : shape) (acts : list action) (a : Z) (r : Z) : Z :=
  fold_left (fun r (t : action) => let '(wa, wd, we) := t in if wa =? a then wrv s r wd we else r) acts r.

Lemma queue_writes_qinv md rows acts : forall q, qinv (md_depth md) q -> qinv (md_depth md) (queue_writes md rows q acts).
Proof.
  unfold queue_writes. induction acts as [|[[wa wd] we] acts IH]; intros q Hq; cbn [fold_left]; auto.
  apply IH. apply ms_write_qinv; auto.
Qed.

Lemma pending_queue_writes md rows acts a : in_depth (md_depth md) a = true -> forall q,
  pending rows (queue_writes md rows q acts) a = apply_writes (md_shape md) acts a (pending rows q a).
Proof.
  intros Ha. unfold queue_writes, apply_writes.
  induction acts as [|[[wa wd] we] acts IH]; intros q; cbn [fold_left]; auto.
  rewrite IH. rewrite pending_write by auto. reflexivity.
Qed.

Lemma queue_writes_app md rows q l1 l2 :
  queue_writes md rows q (l1 ++ l2) = queue_writes md rows (queue_writes md rows q l1) l2.
Proof. unfold queue_writes. apply fold_left_app. Qed.

Lemma apply_writes_app s l1 l2 a r : apply_writes s (l1 ++ l2) a r = apply_writes s l2 a (apply_writes s l1 a r).
Proof. unfold apply_writes. apply fold_left_app. Qed.

Lemma apply_writes_in_range s acts a : wf_shape s = true ->
  Forall (fun t : action => 0 <= snd t < 2 ^ width s) acts ->
  forall r, in_range s r -> in_range s (apply_writes s acts a r).
Proof.
  intros Hs. unfold apply_writes. induction acts as [|[[wa wd] we] acts IH]; intros HF r Hr; cbn [fold_left]; auto.
  inversion HF; subst. apply IH; auto. destruct (wa =? a); auto. apply wrv_in_range; auto.
Qed.

(* bit i of row a after the writes: the last write that hits it *)
Definition hit (a i : Z) (t : action) : bool := let '(wa, wd, we) := t in (wa =? a) && Z.testbit we i.
Definition bit_after (acts : list action) (a i : Z) (b : bool) : bool :=
  fold_left (fun b (t : action) => if hit a i t then Z.testbit (snd (fst t)) i else b) acts b.

Lemma apply_writes_bits s acts a i : wf_shape s = true -> 0 <= i < width s -> forall r,
  Z.testbit (apply_writes s acts a r) i = bit_after acts a i (Z.testbit r i).
Proof.
  intros Hs Hi. unfold apply_writes, bit_after.
  induction acts as [|[[wa wd] we] acts IH]; intros r; cbn [fold_left]; auto.
  rewrite IH. f_equal. cbn [hit fst snd]. destruct (wa =? a); cbn [andb]; auto.
  apply wrv_bits; auto.
Qed.

Lemma bit_after_filter acts a i : forall b, bit_after acts a i b = bit_after (filter (hit a i) acts) a i b.
Proof.
  unfold bit_after. induction acts as [|t acts IH]; intros b; cbn [fold_left filter]; auto.
  destruct (hit a i t) eqn:E; cbn [fold_left]; rewrite ?E; auto.
Qed.

(* ================================================================== order of the domains' processes *)
Definition L_model (wv : list (Z * action)) (doms : list (Z * bool)) : list action :=
  flat_map (fun dr => dom_actions wv (fst dr)) doms.
Definition L_port (wv : list (Z * action)) (doms : list (Z * bool)) : list action :=
  map snd (filter (fun t => dom_active doms (fst t)) wv).

Lemma fold_run_domain_fst md rows wv ri doms : forall q rd,
  fst (fold_left (run_domain md rows wv ri) doms (q, rd)) = queue_writes md rows q (L_model wv doms).
Proof.
  induction doms as [|[d rst] doms IH]; intros q rd; cbn [fold_left L_model flat_map].
  - reflexivity.
  - cbn [run_domain fst]. rewrite IH. cbn [fst]. fold (L_model wv doms). rewrite queue_writes_app. reflexivity.
Qed.

Lemma dom_active_in doms d : dom_active doms d = true -> In d (map fst doms).
Proof.
  unfold dom_active. intros H. apply existsb_exists in H. destruct H as (dr & Hin & He).
  apply in_map_iff. exists dr. split; auto. lia.
Qed.

Lemma in_L_model wv doms t : In t (L_model wv doms) ->
  exists x, In x wv /\ snd x = t /\ dom_active doms (fst x) = true.
Proof.
  unfold L_model. intros H. apply in_flat_map in H. destruct H as (dr & Hdr & Ht).
  unfold dom_actions in Ht. apply in_map_iff in Ht. destruct Ht as (x & Hs & Hx).
  apply filter_In in Hx. destruct Hx as [Hx He]. exists x. repeat split; auto.
  unfold dom_active. apply existsb_exists. exists dr. split; auto. lia.
Qed.

Lemma reorder (h : action -> bool) wv doms :
  NoDup (map fst doms) ->
  (forall x y, In x wv -> In y wv -> dom_active doms (fst x) = true -> dom_active doms (fst y) = true ->
               h (snd x) = true -> h (snd y) = true -> fst x = fst y) ->
  filter h (L_model wv doms) = filter h (L_port wv doms).
Proof.
  induction doms as [|[d rst] ds IH]; intros Hnd Hsame.
  - cbn. unfold L_port. cbn [dom_active existsb]. clear. induction wv; cbn; auto.
  - cbn [map fst] in Hnd. inversion Hnd as [|? ? Hnotin Hnd']; subst.
    cbn [L_model flat_map fst]. fold (L_model wv ds). rewrite filter_app.
    assert (Hact : forall x, dom_active ((d, rst) :: ds) x = (d =? x) || dom_active ds x) by reflexivity.
    destruct (existsb (fun t => (fst t =? d) && h (snd t)) wv) eqn:Ex.
    + apply existsb_exists in Ex. destruct Ex as (x0 & Hx0 & Hx0d).
      apply andb_prop in Hx0d. destruct Hx0d as [Hx0d Hx0h].
      assert (Hno : forall y, In y wv -> dom_active ds (fst y) = true -> h (snd y) = true -> False).
      { intros y Hy Hya Hyh. assert (fst x0 = fst y) as Heq.
        { apply Hsame; auto; rewrite Hact; lia. }
        apply Hnotin. apply dom_active_in. replace d with (fst y) by lia. auto. }
      rewrite (filter_nil h (L_model wv ds)).
      2:{ intros t Ht. destruct (h t) eqn:Eh; auto. exfalso.
          apply in_L_model in Ht. destruct Ht as (y & Hy & <- & Hya). eapply Hno; eauto. }
      rewrite app_nil_r. unfold dom_actions, L_port. apply filter_snd_filter_ext.
      intros y Hy Hyh. rewrite Hact. destruct (dom_active ds (fst y)) eqn:Ea.
      * exfalso. eapply Hno; eauto.
      * rewrite orb_false_r. apply Z.eqb_sym.
    + rewrite (filter_nil h (dom_actions wv d)).
      2:{ intros t Ht. unfold dom_actions in Ht. apply in_map_iff in Ht. destruct Ht as (x & <- & Hx).
          apply filter_In in Hx. destruct Hx as [Hx He].
          destruct (h (snd x)) eqn:Eh; auto.
          assert (existsb (fun t => (fst t =? d) && h (snd t)) wv = true) as Hc.
          { apply existsb_exists. exists x. split; auto. rewrite He, Eh. reflexivity. }
          congruence. }
      cbn [app]. rewrite IH; auto.
      2:{ intros x y Hx Hy Hxa Hya. apply Hsame; auto; rewrite Hact; lia. }
      unfold L_port. apply filter_snd_filter_ext. intros y Hy Hyh. rewrite Hact.
      destruct (d =? fst y) eqn:E; auto. exfalso.
      assert (existsb (fun t => (fst t =? d) && h (snd t)) wv = true) as Hc.
      { apply existsb_exists. exists y. split; auto. rewrite Hyh. lia. }
      congruence.
Qed.

Lemma hit_overlap depth a i x y : in_depth depth a = true -> 0 <= i -> hit a i x = true -> hit a i y = true ->
  acts_overlap depth x y = true.
Proof.
  destruct x as [[xa xd] xe], y as [[ya yd] ye]. cbn [hit acts_overlap]. intros Ha Hi Hx Hy.
  assert (xa = a /\ Z.testbit xe i = true) as [-> Hxe] by lia.
  assert (ya = a /\ Z.testbit ye i = true) as [-> Hye] by lia.
  rewrite Z.eqb_refl, Ha. cbn [andb].
  destruct (Z.land xe ye =? 0) eqn:E; auto.
  assert (Z.land xe ye = 0) as H0 by lia.
  assert (Z.testbit (Z.land xe ye) i = true) as H1 by (rewrite Z.land_spec, Hxe, Hye; auto).
  rewrite H0, Z.bits_0 in H1. discriminate.
Qed.

Lemma no_cross_collision_same md doms wi a i : no_cross_collision md doms wi = true ->
  in_depth (md_depth md) a = true -> 0 <= i ->
  forall x y, In x (all_wvals md wi) -> In y (all_wvals md wi) ->
    dom_active doms (fst x) = true -> dom_active doms (fst y) = true ->
    hit a i (snd x) = true -> hit a i (snd y) = true -> fst x = fst y.
Proof.
  unfold no_cross_collision. intros H Ha Hi x y Hx Hy Hxa Hya Hxh Hyh.
  rewrite forallb_forall in H. specialize (H x). rewrite forallb_forall in H.
  assert (In x (filter (fun t => dom_active doms (fst t)) (all_wvals md wi))) as Hx' by (apply filter_In; auto).
  assert (In y (filter (fun t => dom_active doms (fst t)) (all_wvals md wi))) as Hy' by (apply filter_In; auto).
  specialize (H Hx' y Hy'). rewrite (hit_overlap (md_depth md) a i) in H by auto. cbn in H. lia.
Qed.

(* row a after all processes of the event ran and the queue was committed *)
Lemma model_rows md rows wv ri doms rd a :
  length rows = Z.to_nat (md_depth md) -> in_depth (md_depth md) a = true ->
  nth (Z.to_nat a) (ms_commit rows (fst (fold_left (run_domain md rows wv ri) doms ([], rd)))) 0 =
  apply_writes (md_shape md) (L_model wv doms) a (nth (Z.to_nat a) rows 0).
Proof.
  intros Hl Ha. rewrite fold_run_domain_fst.
  rewrite (commit_nth (md_depth md)); auto.
  2:{ apply queue_writes_qinv. split; [constructor | intros k []]. }
  rewrite pending_queue_writes by auto. reflexivity.
Qed.

Lemma nodupb_NoDup l : nodupb l = true -> NoDup l.
Proof.
  induction l as [|x l IH]; cbn [nodupb]; intros H; constructor.
  - intros Hin. assert (existsb (Z.eqb x) l = true) as He.
    { apply existsb_exists. exists x. split; auto. apply Z.eqb_refl. }
    rewrite He in H. discriminate.
  - apply IH. destruct (nodupb l); auto. rewrite andb_false_r in H. discriminate.
Qed.

Lemma in_mapi {A B} (f : nat -> A -> B) l y : In y (mapi f l) -> exists k x, nth_error l k = Some x /\ y = f k x.
Proof.
  intros H. apply In_nth_error in H. destruct H as [k Hk]. rewrite nth_error_mapi in Hk.
  destruct (nth_error l k) eqn:E; cbn in Hk; [|discriminate]. inversion Hk. eauto.
Qed.

Lemma all_wvals_masks md wi x : 0 <= md_width md -> In x (all_wvals md wi) ->
  0 <= snd (snd x) < 2 ^ md_width md.
Proof.
  intros Hw H. apply in_mapi in H. destruct H as (k & p & _ & ->). cbn [snd wvals]. apply mask_range; auto.
Qed.

Lemma L_model_masks md wi doms : 0 <= md_width md ->
  Forall (fun t : action => 0 <= snd t < 2 ^ md_width md) (L_model (all_wvals md wi) doms).
Proof.
  intros Hw. apply Forall_forall. intros t Ht. apply in_L_model in Ht. destruct Ht as (x & Hx & <- & _).
  apply (all_wvals_masks md wi); auto.
Qed.

Lemma L_port_masks md wi doms : 0 <= md_width md ->
  Forall (fun t : action => 0 <= snd t < 2 ^ md_width md) (L_port (all_wvals md wi) doms).
Proof.
  intros Hw. apply Forall_forall. intros t Ht. unfold L_port in Ht. apply in_map_iff in Ht.
  destruct Ht as (x & <- & Hx). apply filter_In in Hx. apply (all_wvals_masks md wi); tauto.
Qed.

Lemma apply_writes_reorder md doms wi a r :
  wf_shape (md_shape md) = true ->
  nodupb (map fst doms) = true -> no_cross_collision md doms wi = true ->
  in_depth (md_depth md) a = true -> in_range (md_shape md) r ->
  apply_writes (md_shape md) (L_model (all_wvals md wi) doms) a r =
  apply_writes (md_shape md) (L_port (all_wvals md wi) doms) a r.
Proof.
  intros Hs Hnd Hnc Ha Hr. pose proof (wf_shape_width _ Hs) as Hw.
  apply (in_range_bits_eq (md_shape md)); auto.
  - apply apply_writes_in_range; auto. apply L_model_masks; auto.
  - apply apply_writes_in_range; auto. apply L_port_masks; auto.
  - intros i Hi. rewrite !apply_writes_bits by auto.
    rewrite bit_after_filter. rewrite (bit_after_filter (L_port _ _)).
    rewrite (reorder (hit a i)); auto.
    + apply nodupb_NoDup; auto.
    + intros x y Hx Hy Hxa Hya Hxh Hyh. apply (no_cross_collision_same md doms wi a i Hnc Ha ltac:(lia) x y); auto.
Qed.

(* ================================================================== model actions = specification actions *)
Definition tag_mact (s : shape) (t : Z * sact) : Z * action := (fst t, mact_of s (snd t)).

Lemma all_wvals_sacts md wi : all_wvals md wi = map (tag_mact (md_shape md)) (all_sacts md wi).
Proof.
  unfold all_wvals, all_sacts. rewrite mapi_map. apply mapi_ext. intros k p _. reflexivity.
Qed.

Lemma L_port_spec s sa doms : L_port (map (tag_mact s) sa) doms = map (mact_of s) (spec_writes sa doms).
Proof.
  unfold L_port, spec_writes. induction sa as [|t sa IH]; cbn [map filter]; auto.
  cbn [tag_mact fst]. destruct (dom_active doms (fst t)); cbn [map snd tag_mact]; rewrite IH; auto.
Qed.

Lemma transp_spec s sa tr : transp_actions (map (tag_mact s) sa) tr = map (mact_of s) (spec_transp sa tr).
Proof.
  unfold transp_actions, spec_transp. induction tr as [|idx tr IH]; cbn [flat_map map]; auto.
  rewrite map_app, IH. f_equal. rewrite nth_error_map. destruct (nth_error sa idx); cbn; auto.
Qed.

Lemma spec_apply_eq s acts a : wf_shape s = true -> Forall (wf_sact s) acts -> forall r, in_range s r ->
  spec_apply s acts a r = apply_writes s (map (mact_of s) acts) a r.
Proof.
  intros Hs. unfold spec_apply, apply_writes.
  induction acts as [|[[[wa enw] en] d] acts IH]; intros HF r Hr; cbn [fold_left map]; auto.
  inversion HF as [|? ? Hwf HF']; subst. cbn [mact_of]. cbn [wf_sact] in Hwf.
  destruct (wa =? a).
  - rewrite wrv_eq_spec by auto. apply IH; auto. apply spec_write_row_in_range; auto.
  - apply IH; auto.
Qed.

Lemma spec_apply_in_range s acts a : wf_shape s = true -> forall r, in_range s r -> in_range s (spec_apply s acts a r).
Proof.
  intros Hs. unfold spec_apply. induction acts as [|[[[wa enw] en] d] acts IH]; intros r Hr; cbn [fold_left]; auto.
  apply IH. destruct (wa =? a); auto. apply spec_write_row_in_range; auto.
Qed.

Lemma wf_md_parts md : wf_md md = true ->
  wf_shape (md_shape md) = true /\ 0 <= md_depth md /\ forallb (wf_wport (md_shape md)) (md_wports md) = true.
Proof. unfold wf_md. intros H. repeat (apply andb_prop in H; destruct H as [H ?]). repeat split; auto. lia. Qed.

Lemma all_sacts_wf md wi x : wf_md md = true -> In x (all_sacts md wi) -> wf_sact (md_shape md) (snd x).
Proof.
  intros Hmd H. destruct (wf_md_parts md Hmd) as (_ & _ & Hp).
  apply in_mapi in H. destruct H as (k & p & Hk & ->). cbn [snd spec_wact wf_sact].
  rewrite forallb_forall in Hp. specialize (Hp p (nth_error_In _ _ Hk)).
  unfold wf_wport in *. cbn [wp_enw]. exact Hp.
Qed.

Lemma spec_writes_wf md wi doms : wf_md md = true -> Forall (wf_sact (md_shape md)) (spec_writes (all_sacts md wi) doms).
Proof.
  intros Hmd. apply Forall_forall. intros t Ht. unfold spec_writes in Ht. apply in_map_iff in Ht.
  destruct Ht as (x & <- & Hx). apply filter_In in Hx. apply (all_sacts_wf md wi); tauto.
Qed.

Lemma spec_transp_wf md wi tr : wf_md md = true -> Forall (wf_sact (md_shape md)) (spec_transp (all_sacts md wi) tr).
Proof.
  intros Hmd. apply Forall_forall. intros t Ht. unfold spec_transp in Ht. apply in_flat_map in Ht.
  destruct Ht as (idx & _ & Ht). destruct (nth_error (all_sacts md wi) idx) as [x|] eqn:E; [|destruct Ht].
  destruct Ht as [<-|[]]. apply (all_sacts_wf md wi); auto. eapply nth_error_In; eauto.
Qed.

(* ------------------------------------------------------------------ the transparency patch *)
Lemma patch_fold_bits a acts i : 0 <= i -> forall v,
  Z.testbit (fold_left (patch a) acts v) i = bit_after acts a i (Z.testbit v i).
Proof.
  intros Hi. unfold bit_after. induction acts as [|[[wa wd] we] acts IH]; intros v; cbn [fold_left]; auto.
  rewrite IH. f_equal. cbn [patch hit fst snd]. rewrite (Z.eqb_sym wa a). destruct (a =? wa); cbn [andb]; auto.
  rewrite Z.lor_spec, !Z.land_spec, Z.lnot_spec by auto.
  destruct (Z.testbit we i); rewrite ?andb_true_r, ?andb_false_r, ?orb_false_r; auto.
Qed.

Lemma patched_read_eq s acts a v : wf_shape s = true ->
  Forall (fun t : action => 0 <= snd t < 2 ^ width s) acts -> in_range s v ->
  norm s (fold_left (patch a) acts v) = apply_writes s acts a v.
Proof.
  intros Hs HF Hv. apply (in_range_bits_eq s); auto.
  - apply norm_in_range; auto.
  - apply apply_writes_in_range; auto.
  - intros i Hi. rewrite norm_bits_low by auto. rewrite patch_fold_bits by lia.
    rewrite apply_writes_bits by auto. reflexivity.
Qed.

Lemma transp_masks md wi tr : 0 <= md_width md ->
  Forall (fun t : action => 0 <= snd t < 2 ^ md_width md) (transp_actions (all_wvals md wi) tr).
Proof.
  intros Hw. apply Forall_forall. intros t Ht. unfold transp_actions in Ht. apply in_flat_map in Ht.
  destruct Ht as (idx & _ & Ht). destruct (nth_error (all_wvals md wi) idx) as [x|] eqn:E; [|destruct Ht].
  destruct Ht as [<-|[]]. apply (all_wvals_masks md wi); auto. eapply nth_error_In; eauto.
Qed.

(* ------------------------------------------------------------------ read data registers over the domains of an event *)
Definition port_step (md : memd) (rows : list Z) (wv : list (Z * action)) (p : rport) (r : rin)
                     (cur : Z) (dr : Z * bool) : Z :=
  match rp_dom p with
  | Some d' => if d' =? fst dr then sync_read md rows wv p r cur else cur
  | None => cur
  end.

Lemma fold_run_domain_snd md rows wv ri doms j p : nth_error (md_rports md) j = Some p -> forall q rd,
  nth j (snd (fold_left (run_domain md rows wv ri) doms (q, rd))) 0 =
  fold_left (port_step md rows wv p (ri j)) doms (nth j rd 0).
Proof.
  intros Hj. induction doms as [|[d rst] doms IH]; intros q rd; cbn [fold_left]; auto.
  cbn [run_domain fst]. rewrite IH. f_equal.
  rewrite (nth_mapi _ _ _ p) by auto. unfold port_step. cbn [fst snd]. reflexivity.
Qed.

Lemma port_fold_inactive md rows wv p r doms d : rp_dom p = Some d -> dom_active doms d = false ->
  forall cur, fold_left (port_step md rows wv p r) doms cur = cur.
Proof.
  intros Hp. induction doms as [|[d0 r0] doms IH]; intros Ha cur; cbn [fold_left]; auto.
  cbn [dom_active existsb fst] in Ha. fold (dom_active doms d) in Ha.
  unfold port_step at 2. rewrite Hp. cbn [fst]. replace (d =? d0) with false by lia. apply IH. lia.
Qed.

Lemma port_fold_spec md rows wv p r doms : NoDup (map fst doms) -> forall cur,
  fold_left (port_step md rows wv p r) doms cur =
  match rp_dom p with
  | None => cur
  | Some d => if dom_active doms d then sync_read md rows wv p r cur else cur
  end.
Proof.
  destruct (rp_dom p) as [d|] eqn:Hp.
  2:{ intros _. induction doms as [|dr doms IH]; intros cur; cbn [fold_left]; auto.
      unfold port_step at 2. rewrite Hp. apply IH. }
  induction doms as [|[d0 r0] doms IH]; intros Hnd cur; cbn [fold_left]; auto.
  cbn [map fst] in Hnd. inversion Hnd as [|? ? Hnotin Hnd']; subst.
  cbn [dom_active existsb fst snd]. fold (dom_active doms d).
  unfold port_step at 2. rewrite Hp. cbn [fst snd].
  destruct (d =? d0) eqn:E.
  - assert (d = d0) by lia; subst d0. rewrite Z.eqb_refl. cbn [orb].
    assert (dom_active doms d = false) as Hna.
    { destruct (dom_active doms d) eqn:Ea; auto. exfalso. apply Hnotin. apply dom_active_in; auto. }
    rewrite (port_fold_inactive md rows wv p r doms d) by auto. reflexivity.
  - replace (d0 =? d) with false by lia. cbn [orb]. apply IH; auto.
Qed.

(* ================================================================== one event: the simulated memory = the array *)
Lemma nth_in_range s rows k : wf_shape s = true -> Forall (in_range s) rows -> in_range s (nth k rows 0).
Proof.
  intros Hs HF. destruct (Nat.lt_ge_cases k (length rows)) as [Hlt|Hge].
  - rewrite Forall_forall in HF. apply HF. apply nth_In; auto.
  - rewrite nth_overflow by auto. apply in_range_0; auto.
Qed.

Lemma spec_read_in_range md rows a : wf_shape (md_shape md) = true -> Forall (in_range (md_shape md)) rows ->
  in_range (md_shape md) (spec_read md rows a).
Proof.
  intros Hs HF. unfold spec_read. destruct (in_depth (md_depth md) a).
  - apply nth_in_range; auto.
  - apply in_range_0; auto.
Qed.

Lemma Forall_mapi {A B} (P : B -> Prop) (f : nat -> A -> B) l :
  (forall k x, nth_error l k = Some x -> P (f k x)) -> Forall P (mapi f l).
Proof.
  intros H. apply Forall_forall. intros y Hy. apply in_mapi in Hy. destruct Hy as (k & x & Hk & ->). eauto.
Qed.

Lemma wrv_full s cur v : wf_shape s = true -> in_range s cur -> wrv s cur v (2 ^ width s - 1) = norm s v.
Proof.
  intros Hs Hc. pose proof (wf_shape_width s Hs) as Hw. pose proof (pow2_pos (width s) Hw).
  rewrite wrv_norm by (auto; lia). apply norm_low_bits; auto. intros i Hi.
  rewrite merge_bits by lia. replace (2 ^ width s - 1) with (Z.ones (width s)) by (rewrite Z.ones_equiv; lia).
  rewrite Z.ones_spec_low by lia. reflexivity.
Qed.

Lemma in_depth_of_nat depth k : (k < Z.to_nat depth)%nat -> in_depth depth (Z.of_nat k) = true.
Proof. unfold in_depth. lia. Qed.

Lemma step_rows md st doms wi ri rd :
  wf_md md = true -> wf_state md st -> nodupb (map fst doms) = true -> no_cross_collision md doms wi = true ->
  ms_commit (st_rows st) (fst (fold_left (run_domain md (st_rows st) (all_wvals md wi) ri) doms ([], rd))) =
  mapi (fun a old => spec_apply (md_shape md) (spec_writes (all_sacts md wi) doms) (Z.of_nat a) old) (st_rows st).
Proof.
  intros Hmd (Hl & HF & _) Hnd Hnc. destruct (wf_md_parts md Hmd) as (Hs & Hd & _).
  apply (nth_ext _ _ 0 0).
  { rewrite commit_length, mapi_length. reflexivity. }
  intros k Hk. rewrite commit_length in Hk.
  assert (Ha : in_depth (md_depth md) (Z.of_nat k) = true) by (apply in_depth_of_nat; lia).
  pose proof (model_rows md (st_rows st) (all_wvals md wi) ri doms rd (Z.of_nat k) Hl Ha) as Hm.
  rewrite Nat2Z.id in Hm. rewrite Hm.
  destruct (nth_error (st_rows st) k) as [x|] eqn:Ex.
  2:{ apply nth_error_None in Ex. lia. }
  rewrite (nth_mapi _ _ _ x) by auto. rewrite (nth_error_nth _ _ 0 Ex).
  assert (Hx : in_range (md_shape md) x).
  { rewrite Forall_forall in HF. apply HF. eapply nth_error_In; eauto. }
  rewrite apply_writes_reorder by auto.
  rewrite all_wvals_sacts, L_port_spec. symmetry. apply spec_apply_eq; auto.
  apply spec_writes_wf; auto.
Qed.

Lemma spec_rows_wf md (f : Z -> Z -> Z) rows :
  wf_shape (md_shape md) = true ->
  (forall a old, in_range (md_shape md) old -> in_range (md_shape md) (f a old)) ->
  Forall (in_range (md_shape md)) rows ->
  Forall (in_range (md_shape md)) (mapi (fun a old => f (Z.of_nat a) old) rows).
Proof.
  intros Hs Hf HF. apply Forall_mapi. intros k x Hk. apply Hf.
  rewrite Forall_forall in HF. apply HF. eapply nth_error_In; eauto.
Qed.

Lemma sync_read_spec_eq md st wi ri p j :
  wf_md md = true -> wf_state md st ->
  sync_read md (st_rows st) (all_wvals md wi) p (ri j) (nth j (st_rdata st) 0) =
  if Z.odd (ri_en (ri j))
  then spec_apply (md_shape md) (spec_transp (all_sacts md wi) (rp_transp p)) (mask (md_abits md) (ri_addr (ri j)))
                  (spec_read md (st_rows st) (mask (md_abits md) (ri_addr (ri j))))
  else nth j (st_rdata st) 0.
Proof.
  intros Hmd (Hl & HF & _). destruct (wf_md_parts md Hmd) as (Hs & Hd & _).
  pose proof (wf_shape_width _ Hs) as Hw.
  unfold sync_read. destruct (Z.odd (ri_en (ri j))); auto.
  change (ms_read (md_depth md) (st_rows st)) with (spec_read md (st_rows st)).
  rewrite patched_read_eq; auto.
  2:{ apply transp_masks; auto. }
  2:{ apply spec_read_in_range; auto. }
  rewrite all_wvals_sacts, transp_spec. symmetry. apply spec_apply_eq; auto.
  - apply spec_transp_wf; auto.
  - apply spec_read_in_range; auto.
Qed.

Theorem step_refines md st ev : wf_md md = true -> wf_state md st -> ev_ok md ev = true ->
  mem_step md st ev = spec_step md st ev.
Proof.
  intros Hmd Hst Hev. pose proof Hst as (Hl & HF & Hrl). destruct (wf_md_parts md Hmd) as (Hs & Hd & _).
  destruct ev as [doms wi ri | i v].
  - cbn [ev_ok] in Hev. apply andb_prop in Hev. destruct Hev as [Hnd Hnc].
    cbn [mem_step spec_step].
    destruct (fold_left (run_domain md (st_rows st) (all_wvals md wi) ri) doms ([], st_rdata st)) as [q rd] eqn:Ef.
    assert (Hq : q = fst (fold_left (run_domain md (st_rows st) (all_wvals md wi) ri) doms ([], st_rdata st))) by (rewrite Ef; auto).
    assert (Hrd : rd = snd (fold_left (run_domain md (st_rows st) (all_wvals md wi) ri) doms ([], st_rdata st))) by (rewrite Ef; auto).
    assert (Hrows := step_rows md st doms wi ri (st_rdata st) Hmd Hst Hnd Hnc). rewrite <- Hq in Hrows.
    rewrite Hrows. f_equal.
    unfold comb_update. apply mapi_ext. intros j p Hj.
    destruct (rp_dom p) as [d|] eqn:Hp.
    + rewrite Hrd. rewrite (fold_run_domain_snd md _ _ ri doms j p Hj).
      rewrite port_fold_spec by (apply nodupb_NoDup; auto). rewrite Hp.
      destruct (dom_active doms d); auto.
      exact (sync_read_spec_eq md st wi ri p j Hmd Hst).
    + change (ms_read (md_depth md)) with (spec_read md). apply norm_id; auto.
      apply spec_read_in_range; auto.
      apply (spec_rows_wf md (fun a old => spec_apply (md_shape md) (spec_writes (all_sacts md wi) doms) a old)); auto.
      intros; apply spec_apply_in_range; auto.
  - cbn [mem_step spec_step].
    assert (Hrows : ms_commit (st_rows st) (ms_write (md_shape md) (md_depth md) (st_rows st) [] i v (2 ^ md_width md - 1)) =
                    mapi (fun a old => if Z.of_nat a =? i then norm (md_shape md) v else old) (st_rows st)).
    { apply (nth_ext _ _ 0 0).
      { rewrite commit_length, mapi_length. reflexivity. }
      intros k Hk. rewrite commit_length in Hk.
      assert (Ha : in_depth (md_depth md) (Z.of_nat k) = true) by (apply in_depth_of_nat; lia).
      pose proof (commit_nth (md_depth md) (st_rows st)
                    (ms_write (md_shape md) (md_depth md) (st_rows st) [] i v (2 ^ md_width md - 1)) (Z.of_nat k)) as Hc.
      rewrite Nat2Z.id in Hc. rewrite Hc; auto.
      2:{ apply ms_write_qinv. split; [constructor | intros ? []]. }
      rewrite pending_write by auto. unfold pending. cbn [qget]. rewrite Nat2Z.id.
      destruct (nth_error (st_rows st) k) as [x|] eqn:Ex.
      2:{ apply nth_error_None in Ex. lia. }
      rewrite (nth_mapi _ _ _ x) by auto. rewrite (nth_error_nth _ _ 0 Ex).
      rewrite (Z.eqb_sym i). destruct (Z.of_nat k =? i); auto.
      apply wrv_full; auto. rewrite Forall_forall in HF. apply HF. eapply nth_error_In; eauto. }
    rewrite Hrows. f_equal. unfold comb_update. apply mapi_ext. intros j p Hj.
    destruct (rp_dom p); auto.
    change (ms_read (md_depth md)) with (spec_read md). apply norm_id; auto.
    apply spec_read_in_range; auto.
    apply (spec_rows_wf md (fun a old => if a =? i then norm (md_shape md) v else old)); auto.
    intros a old Ho. destruct (a =? i); auto. apply norm_in_range; auto.
Qed.

Lemma spec_step_wf md st ev : wf_md md = true -> wf_state md st -> wf_state md (spec_step md st ev).
Proof.
  intros Hmd (Hl & HF & Hrl). destruct (wf_md_parts md Hmd) as (Hs & Hd & _).
  destruct ev as [doms wi ri | i v]; cbn [spec_step]; unfold wf_state; cbn [st_rows st_rdata];
    rewrite !mapi_length; repeat split; auto.
  - apply (spec_rows_wf md (fun a old => spec_apply (md_shape md) (spec_writes (all_sacts md wi) doms) a old)); auto.
    intros; apply spec_apply_in_range; auto.
  - apply (spec_rows_wf md (fun a old => if a =? i then norm (md_shape md) v else old)); auto.
    intros a old Ho. destruct (a =? i); auto. apply norm_in_range; auto.
Qed.

Lemma mem_step_wf md st ev : wf_md md = true -> wf_state md st -> ev_ok md ev = true -> wf_state md (mem_step md st ev).
Proof. intros. rewrite step_refines by auto. apply spec_step_wf; auto. Qed.

Theorem run_refines md evs : wf_md md = true -> forall st, wf_state md st ->
  forallb (ev_ok md) evs = true -> mem_run md st evs = spec_run md st evs.
Proof.
  intros Hmd. unfold mem_run, spec_run. induction evs as [|ev evs IH]; intros st Hst Hok; cbn [fold_left]; auto.
  cbn [forallb] in Hok. apply andb_prop in Hok. destruct Hok as [Hev Hok].
  rewrite step_refines by auto. apply IH; auto. apply spec_step_wf; auto.
Qed.

Lemma in_firstn {A} n (l : list A) x : In x (firstn n l) -> In x l.
Proof. revert l. induction n; intros [|y l]; cbn; intuition. Qed.

Lemma init_state_wf md init : wf_md md = true -> wf_state md (init_state md init).
Proof.
  intros Hmd. destruct (wf_md_parts md Hmd) as (Hs & Hd & _).
  unfold wf_state, init_state, init_rows. cbn [st_rows st_rdata]. repeat split.
  - rewrite firstn_length, app_length, repeat_length. lia.
  - apply Forall_forall. intros x Hx. apply in_firstn in Hx. apply in_app_or in Hx. destruct Hx as [Hx|Hx].
    + apply in_map_iff in Hx. destruct Hx as (y & <- & _). apply norm_in_range; auto.
    + apply repeat_spec in Hx. subst. apply in_range_0; auto.
  - apply map_length.
Qed.

(* ================================================================== the clauses of the property *)
Definition saddr (t : sact) : Z := fst (fst (fst t)).

Lemma spec_apply_app s l1 l2 a r : spec_apply s (l1 ++ l2) a r = spec_apply s l2 a (spec_apply s l1 a r).
Proof. unfold spec_apply. apply fold_left_app. Qed.

Lemma spec_apply_none s acts a r : (forall t, In t acts -> saddr t <> a) -> spec_apply s acts a r = r.
Proof.
  unfold spec_apply. revert r. induction acts as [|[[[wa enw] en] d] acts IH]; intros r H; cbn [fold_left]; auto.
  assert (wa <> a) by (apply (H (wa, enw, en, d)); left; auto).
  replace (wa =? a) with false by lia. apply IH. intros; apply H; right; auto.
Qed.

Section Clauses.
  Variable md : memd.
  Variable st : mstate.
  Hypothesis Hmd : wf_md md = true.
  Hypothesis Hst : wf_state md st.

  Let s := md_shape md.
  Let w := md_width md.

  (* rows after an event, all write ports together: the requested writes are applied in PORT order *)
  Lemma rows_after_step doms wi ri a : ev_ok md (EStep doms wi ri) = true -> in_depth (md_depth md) a = true ->
    nth (Z.to_nat a) (st_rows (mem_step md st (EStep doms wi ri))) 0 =
    spec_apply s (spec_writes (all_sacts md wi) doms) a (nth (Z.to_nat a) (st_rows st) 0).
  Proof.
    intros Hev Ha. rewrite step_refines by auto. cbn [spec_step st_rows].
    destruct Hst as (Hl & _ & _). unfold in_depth in Ha.
    destruct (nth_error (st_rows st) (Z.to_nat a)) as [x|] eqn:Ex.
    2:{ apply nth_error_None in Ex. lia. }
    rewrite (nth_mapi _ _ _ x) by auto. rewrite (nth_error_nth _ _ 0 Ex). rewrite Z2Nat.id by lia. reflexivity.
  Qed.

  (* write_port_spec: the only port addressing row a replaces exactly its enabled granules *)
  Lemma write_port_sole doms wi ri a l1 l2 enw en d :
    ev_ok md (EStep doms wi ri) = true -> in_depth (md_depth md) a = true ->
    spec_writes (all_sacts md wi) doms = l1 ++ (a, enw, en, d) :: l2 ->
    (forall t, In t (l1 ++ l2) -> saddr t <> a) ->
    nth (Z.to_nat a) (st_rows (mem_step md st (EStep doms wi ri))) 0 =
    spec_write_row s (granularity (width s) enw) (Z.to_nat enw) en d (nth (Z.to_nat a) (st_rows st) 0).
  Proof.
    intros Hev Ha Hw Hno. rewrite rows_after_step by auto. rewrite Hw.
    rewrite spec_apply_app. rewrite (spec_apply_none s l1) by (intros; apply Hno; apply in_or_app; auto).
    change ((a, enw, en, d) :: l2) with ([(a, enw, en, d)] ++ l2). rewrite spec_apply_app.
    rewrite (spec_apply_none s l2) by (intros; apply Hno; apply in_or_app; auto).
    unfold spec_apply. cbn [fold_left]. rewrite Z.eqb_refl. reflexivity.
  Qed.

  (* everything else unchanged; in particular writes beyond the depth change nothing *)
  Lemma write_frame doms wi ri a :
    ev_ok md (EStep doms wi ri) = true -> in_depth (md_depth md) a = true ->
    (forall t, In t (spec_writes (all_sacts md wi) doms) -> saddr t <> a) ->
    nth (Z.to_nat a) (st_rows (mem_step md st (EStep doms wi ri))) 0 = nth (Z.to_nat a) (st_rows st) 0.
  Proof. intros Hev Ha Hno. rewrite rows_after_step by auto. apply spec_apply_none; auto. Qed.

  Lemma write_beyond_depth doms wi ri :
    ev_ok md (EStep doms wi ri) = true ->
    (forall t, In t (spec_writes (all_sacts md wi) doms) -> md_depth md <= saddr t) ->
    st_rows (mem_step md st (EStep doms wi ri)) = st_rows st.
  Proof.
    intros Hev Hno. pose proof (mem_step_wf md st _ Hmd Hst Hev) as (Hl' & _ & _).
    destruct Hst as (Hl & _ & _).
    apply (nth_ext _ _ 0 0); [lia|]. intros k Hk.
    assert (Ha : in_depth (md_depth md) (Z.of_nat k) = true) by (apply in_depth_of_nat; lia).
    pose proof (write_frame doms wi ri (Z.of_nat k) Hev Ha) as Hf. rewrite Nat2Z.id in Hf. apply Hf.
    intros t Ht. specialize (Hno t Ht). unfold in_depth in Ha. lia.
  Qed.

  (* same-domain (indeed any permitted) collision: the later port in port order is applied last *)
  Lemma collision_port_order doms wi ri a l enw en d :
    ev_ok md (EStep doms wi ri) = true -> in_depth (md_depth md) a = true ->
    spec_writes (all_sacts md wi) doms = l ++ [(a, enw, en, d)] ->
    nth (Z.to_nat a) (st_rows (mem_step md st (EStep doms wi ri))) 0 =
    spec_write_row s (granularity (width s) enw) (Z.to_nat enw) en d
                   (spec_apply s l a (nth (Z.to_nat a) (st_rows st) 0)).
  Proof.
    intros Hev Ha Hw. rewrite rows_after_step by auto. rewrite Hw, spec_apply_app.
    unfold spec_apply at 1. cbn [fold_left]. rewrite Z.eqb_refl. reflexivity.
  Qed.

  (* read ports after a step *)
  Lemma rdata_after_step doms wi ri j p : ev_ok md (EStep doms wi ri) = true ->
    nth_error (md_rports md) j = Some p ->
    nth j (st_rdata (mem_step md st (EStep doms wi ri))) 0 =
    let a := mask (md_abits md) (ri_addr (ri j)) in
    match rp_dom p with
    | None => spec_read md (st_rows (mem_step md st (EStep doms wi ri))) a
    | Some d =>
        if dom_active doms d then
          if Z.odd (ri_en (ri j))
          then spec_apply s (spec_transp (all_sacts md wi) (rp_transp p)) a (spec_read md (st_rows st) a)
          else nth j (st_rdata st) 0
        else nth j (st_rdata st) 0
    end.
  Proof.
    intros Hev Hj. rewrite step_refines by auto. cbn [spec_step st_rows st_rdata].
    rewrite (nth_mapi _ _ _ p) by auto. reflexivity.
  Qed.

  Lemma async_read doms wi ri j p : ev_ok md (EStep doms wi ri) = true ->
    nth_error (md_rports md) j = Some p -> rp_dom p = None ->
    nth j (st_rdata (mem_step md st (EStep doms wi ri))) 0 =
    spec_read md (st_rows (mem_step md st (EStep doms wi ri))) (mask (md_abits md) (ri_addr (ri j))).
  Proof. intros Hev Hj Hp. rewrite (rdata_after_step doms wi ri j p) by auto. rewrite Hp. reflexivity. Qed.

  Lemma async_read_tb i v j p :
    nth_error (md_rports md) j = Some p -> rp_dom p = None ->
    nth j (st_rdata (mem_step md st (ETbSet i v))) 0 =
    spec_read md (st_rows (mem_step md st (ETbSet i v))) (mask (md_abits md) (ri_addr (st_rin st j))).
  Proof.
    intros Hj Hp. rewrite step_refines by auto. cbn [spec_step st_rows st_rdata].
    rewrite (nth_mapi _ _ _ p) by auto. rewrite Hp. reflexivity.
  Qed.

  Lemma sync_read_pre_edge doms wi ri j p d : ev_ok md (EStep doms wi ri) = true ->
    nth_error (md_rports md) j = Some p -> rp_dom p = Some d -> dom_active doms d = true ->
    Z.odd (ri_en (ri j)) = true -> rp_transp p = [] ->
    nth j (st_rdata (mem_step md st (EStep doms wi ri))) 0 =
    spec_read md (st_rows st) (mask (md_abits md) (ri_addr (ri j))).
  Proof.
    intros Hev Hj Hp Ha He Ht. rewrite (rdata_after_step doms wi ri j p) by auto.
    cbv zeta. rewrite Hp, Ha, He, Ht. reflexivity.
  Qed.

  Lemma transparent_read doms wi ri j p d : ev_ok md (EStep doms wi ri) = true ->
    nth_error (md_rports md) j = Some p -> rp_dom p = Some d -> dom_active doms d = true ->
    Z.odd (ri_en (ri j)) = true ->
    nth j (st_rdata (mem_step md st (EStep doms wi ri))) 0 =
    spec_apply s (spec_transp (all_sacts md wi) (rp_transp p)) (mask (md_abits md) (ri_addr (ri j)))
               (spec_read md (st_rows st) (mask (md_abits md) (ri_addr (ri j)))).
  Proof.
    intros Hev Hj Hp Ha He. rewrite (rdata_after_step doms wi ri j p) by auto.
    cbv zeta. rewrite Hp, Ha, He. reflexivity.
  Qed.

  Lemma read_hold doms wi ri j p d : ev_ok md (EStep doms wi ri) = true ->
    nth_error (md_rports md) j = Some p -> rp_dom p = Some d ->
    dom_active doms d = false \/ Z.odd (ri_en (ri j)) = false ->
    nth j (st_rdata (mem_step md st (EStep doms wi ri))) 0 = nth j (st_rdata st) 0.
  Proof.
    intros Hev Hj Hp H. rewrite (rdata_after_step doms wi ri j p) by auto. cbv zeta. rewrite Hp.
    destruct H as [Ha | He].
    - rewrite Ha. reflexivity.
    - rewrite He. destruct (dom_active doms d); reflexivity.
  Qed.

  Lemma read_hold_tb i v j p d : nth_error (md_rports md) j = Some p -> rp_dom p = Some d ->
    nth j (st_rdata (mem_step md st (ETbSet i v))) 0 = nth j (st_rdata st) 0.
  Proof.
    intros Hj Hp. rewrite step_refines by auto. cbn [spec_step st_rdata].
    rewrite (nth_mapi _ _ _ p) by auto. rewrite Hp. reflexivity.
  Qed.

  (* testbench row access *)
  Lemma tb_set_get i v a : in_depth (md_depth md) a = true ->
    tb_get md (mem_step md st (ETbSet i v)) a = if a =? i then norm s v else tb_get md st a.
  Proof.
    intros Ha. unfold tb_get, ms_read. rewrite Ha. rewrite step_refines by auto. cbn [spec_step st_rows].
    destruct Hst as (Hl & _ & _). unfold in_depth in Ha.
    destruct (nth_error (st_rows st) (Z.to_nat a)) as [x|] eqn:Ex.
    2:{ apply nth_error_None in Ex. lia. }
    rewrite (nth_mapi _ _ _ x) by auto. rewrite (nth_error_nth _ _ 0 Ex). rewrite Z2Nat.id by lia. reflexivity.
  Qed.

  Lemma tb_get_after_port_write doms wi ri a : ev_ok md (EStep doms wi ri) = true -> in_depth (md_depth md) a = true ->
    tb_get md (mem_step md st (EStep doms wi ri)) a =
    spec_apply s (spec_writes (all_sacts md wi) doms) a (tb_get md st a).
  Proof. intros Hev Ha. unfold tb_get, ms_read. rewrite Ha. apply rows_after_step; auto. Qed.
End Clauses.

(* an event with the clock of ONE domain needs no collision hypothesis *)
Lemma single_domain_ok md d rst wi ri : ev_ok md (EStep [(d, rst)] wi ri) = true.
Proof.
  cbn [ev_ok map fst nodupb existsb]. cbn [negb andb].
  unfold no_cross_collision. apply forallb_forall. intros x Hx. apply forallb_forall. intros y Hy.
  apply filter_In in Hx. apply filter_In in Hy. destruct Hx as [_ Hx], Hy as [_ Hy].
  cbn [dom_active existsb fst] in Hx, Hy. replace (fst x =? fst y) with true by lia. reflexivity.
Qed.

(* the order in which the simulator runs the processes of simultaneous edges is immaterial *)
Lemma spec_step_doms_ext md st doms doms' wi ri :
  (forall d, dom_active doms d = dom_active doms' d) ->
  spec_step md st (EStep doms wi ri) = spec_step md st (EStep doms' wi ri).
Proof.
  intros Ha. cbn [spec_step].
  assert (Hw : spec_writes (all_sacts md wi) doms = spec_writes (all_sacts md wi) doms').
  { unfold spec_writes. f_equal. apply filter_ext. intros t. apply Ha. }
  rewrite Hw. f_equal. apply mapi_ext. intros j p Hj. destruct (rp_dom p); auto.
  rewrite Ha. reflexivity.
Qed.

Lemma edge_order_irrelevant md st doms doms' wi ri : wf_md md = true -> wf_state md st ->
  ev_ok md (EStep doms wi ri) = true -> ev_ok md (EStep doms' wi ri) = true ->
  (forall d, dom_active doms d = dom_active doms' d) ->
  mem_step md st (EStep doms wi ri) = mem_step md st (EStep doms' wi ri).
Proof. intros. rewrite !step_refines by auto. apply spec_step_doms_ext; auto. Qed.

Lemma run_wf md evs : wf_md md = true -> forall st, wf_state md st ->
  forallb (ev_ok md) evs = true -> wf_state md (mem_run md st evs).
Proof.
  intros Hmd. unfold mem_run. induction evs as [|ev evs IH]; intros st Hst Hok; cbn [fold_left]; auto.
  cbn [forallb] in Hok. apply andb_prop in Hok. destruct Hok as [Hev Hok].
  apply IH; auto. apply mem_step_wf; auto.
Qed.

(* ================================================================== appended: defaults, constructor-derived configurations *)
Lemma init_state_d_wf md dflt init : wf_md md = true -> wf_state md (init_state_d md dflt init).
Proof.
  intros Hmd. destruct (wf_md_parts md Hmd) as (Hs & Hd & _).
  unfold wf_state, init_state_d, init_rows_d. cbn [st_rows st_rdata]. repeat split.
  - rewrite firstn_length, app_length, repeat_length. lia.
  - apply Forall_forall. intros x Hx. apply in_firstn in Hx. apply in_app_or in Hx. destruct Hx as [Hx|Hx].
    + apply in_map_iff in Hx. destruct Hx as (y & <- & _). apply norm_in_range; auto.
    + apply repeat_spec in Hx. subst. apply norm_in_range; auto.
  - apply map_length.
Qed.

(* every granularity WritePort.Signature accepts for a plain shape gives a well-formed write port *)
Lemma wsig_accepts_wf s d gran : wf_shape s = true -> wsig_ctor s gran = 0 ->
  wf_wport s (WP d (wsig_enw s gran)) = true.
Proof.
  intros Hs Hc. pose proof (wf_shape_width s Hs) as Hw. unfold wf_wport, wsig_enw. cbn [wp_enw].
  destruct gran as [g|].
  - unfold wsig_ctor in Hc.
    destruct (g <? 0) eqn:E1; [discriminate|]. destruct (sgn s); [discriminate|].
    destruct (width s =? 0) eqn:E2; [reflexivity|].
    destruct (g =? 0) eqn:E3; [discriminate|].
    destruct (width s mod g =? 0) eqn:E4; [|discriminate].
    assert (Hg : 0 < g) by lia. assert (Hm : width s mod g = 0) by lia.
    pose proof (Z.div_mod (width s) g ltac:(lia)) as Hdm.
    assert (Hq : 1 <= width s / g) by nia.
    assert (width s mod (width s / g) = 0) as ->.
    { replace (width s) with (g * (width s / g)) at 1 by lia. apply Z_mod_mult. }
    lia.
  - destruct (width s =? 0) eqn:E2; [reflexivity|]. rewrite Z.mod_1_r. reflexivity.
Qed.

Lemma mk_md_plain_wf s depth wps rps : wf_shape s = true -> 0 <= depth ->
  forallb (fun p : Z * option Z => wsig_ctor s (snd p) =? 0) wps = true ->
  wf_md (mk_md (RSPlain s) depth wps rps) = true.
Proof.
  intros Hs Hd Hp. unfold wf_md, mk_md. cbn [md_shape md_depth md_wports rs_shape]. rewrite Hs.
  replace (0 <=? depth) with true by lia. cbn [andb].
  rewrite forallb_forall. intros p Hin. apply in_map_iff in Hin. destruct Hin as ([d gran] & <- & Hin).
  rewrite forallb_forall in Hp. specialize (Hp _ Hin). cbn [fst snd] in *.
  unfold rs_enw. destruct gran as [g|]; cbn [rs_shape].
  - apply (wsig_accepts_wf s d (Some g)); auto. lia.
  - apply (wsig_accepts_wf s d None); auto.
Qed.

(* MemP.v — proofs about Model/Mem.v (under construction) *)
From Coq Require Import ZArith List Bool Lia.
From V.Model Require Import Bits Mem.

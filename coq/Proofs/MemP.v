(* MemP.v — proofs about Model/Mem.v: the simulated memory (write queue, per-domain port processes,
   testbench row access) refines the array-of-rows specification. *)
From Coq Require Import ZArith List Bool Lia ZifyBool.
From V.Model Require Import Bits Mem.
From V.Proofs Require Import BitsP.
Import ListNotations.
Open Scope Z_scope.

(* ================================================================== bit-level helpers *)
Lemma small_bits w x i : 0 <= w -> 0 <= x < 2 ^ w -> w <= i -> Z.testbit x i = false.
Proof.
  intros Hw Hx Hi. rewrite <- (mask_small w x Hx). rewrite testbit_mask by auto.
  replace (i <? w) with false by lia. reflexivity.
Qed.

Lemma bits_small w x : 0 <= w -> (forall i, w <= i -> Z.testbit x i = false) -> 0 <= x < 2 ^ w.
Proof.
  intros Hw H. assert (x = mask w x) as ->.
  { apply Z.bits_inj'; intros i Hi. rewrite testbit_mask by auto.
    destruct (i <? w) eqn:E; simpl; auto. apply H; lia. }
  apply mask_range; auto.
Qed.

Lemma testbit_add_pow2 x y g i : 0 <= g -> 0 <= x < 2 ^ g -> 0 <= i ->
  Z.testbit (x + 2 ^ g * y) i = if i <? g then Z.testbit x i else Z.testbit y (i - g).
Proof.
  intros Hg Hx Hi. replace (x + 2 ^ g * y) with (x + y * 2 ^ g) by lia.
  rewrite <- lor_shiftl_add by auto. rewrite Z.lor_spec.
  destruct (i <? g) eqn:E.
  - rewrite Z.shiftl_spec_low by lia. apply orb_false_r.
  - rewrite (small_bits g x i) by lia. rewrite Z.shiftl_spec by lia. reflexivity.
Qed.

Lemma wf_shape_width s : wf_shape s = true -> 0 <= width s.
Proof. unfold wf_shape. destruct (sgn s); lia. Qed.

Lemma norm_bits_low s v i : wf_shape s = true -> 0 <= i < width s ->
  Z.testbit (norm s v) i = Z.testbit v i.
Proof.
  intros Hs Hi. rewrite testbit_norm by (auto; lia).
  replace (i <? width s) with true by lia. destruct (sgn s); reflexivity.
Qed.

Lemma norm_low_bits s x y : wf_shape s = true ->
  (forall i, 0 <= i < width s -> Z.testbit x i = Z.testbit y i) -> norm s x = norm s y.
Proof.
  intros Hs H. apply Z.bits_inj'; intros i Hi. rewrite !testbit_norm by auto.
  pose proof (wf_shape_width s Hs) as Hw.
  unfold wf_shape in Hs. destruct (sgn s).
  - destruct (i <? width s) eqn:E; apply H; lia.
  - destruct (i <? width s) eqn:E; simpl; auto. apply H; lia.
Qed.

Lemma in_range_bits_eq s x y : wf_shape s = true -> in_range s x -> in_range s y ->
  (forall i, 0 <= i < width s -> Z.testbit x i = Z.testbit y i) -> x = y.
Proof.
  intros Hs Hx Hy H. rewrite <- (norm_id s x Hs Hx), <- (norm_id s y Hs Hy).
  apply norm_low_bits; auto.
Qed.

Lemma in_range_0 s : wf_shape s = true -> in_range s 0.
Proof.
  intros Hs. unfold in_range. unfold wf_shape in Hs. destruct (sgn s).
  - pose proof (pow2_pos (width s - 1) ltac:(lia)). lia.
  - pose proof (pow2_pos (width s) ltac:(lia)). lia.
Qed.

(* ------------------------------------------------------------------ sign_fix / wrv *)
Lemma sign_fix_norm s v : wf_shape s = true -> (sgn s = false -> 0 <= v < 2 ^ width s) ->
  sign_fix s v = norm s v.
Proof.
  intros Hs Hu. unfold sign_fix, norm. pose proof Hs as Hs'. unfold wf_shape in Hs'.
  destruct (sgn s) eqn:Es.
  - apply Z.bits_inj'; intros i Hi. rewrite testbit_sext by (auto; lia).
    destruct (Z.testbit v (width s - 1)) eqn:Et.
    + rewrite Z.lor_spec, testbit_neg_pow2 by lia.
      destruct (i <? width s) eqn:E.
      * replace (width s <=? i) with false by lia. apply orb_false_r.
      * replace (width s <=? i) with true by lia. rewrite orb_true_r. auto.
    + rewrite mask_land_pow by lia. rewrite testbit_mask by lia.
      destruct (i <? width s) eqn:E; simpl; auto.
  - symmetry. apply mask_small. auto.
Qed.

Lemma sign_fix_bits s v i : wf_shape s = true -> 0 <= i < width s ->
  Z.testbit (sign_fix s v) i = Z.testbit v i.
Proof.
  intros Hs Hi. unfold sign_fix. destruct (sgn s); auto.
  destruct (Z.testbit v (width s - 1)).
  - rewrite Z.lor_spec, testbit_neg_pow2 by lia. replace (width s <=? i) with false by lia. apply orb_false_r.
  - rewrite mask_land_pow by lia. rewrite testbit_mask by lia. replace (i <? width s) with true by lia. reflexivity.
Qed.

Definition merge (cur value msk : Z) : Z := Z.lor (Z.land value msk) (Z.land cur (Z.lnot msk)).

Lemma merge_bits cur value msk i : 0 <= i ->
  Z.testbit (merge cur value msk) i = if Z.testbit msk i then Z.testbit value i else Z.testbit cur i.
Proof.
  intros Hi. unfold merge. rewrite Z.lor_spec, !Z.land_spec, Z.lnot_spec by auto.
  destruct (Z.testbit msk i); simpl; rewrite ?andb_true_r, ?andb_false_r, ?orb_false_r; auto.
Qed.

Lemma in_range_unsigned_nonneg s x : sgn s = false -> in_range s x -> 0 <= x < 2 ^ width s.
Proof. unfold in_range. intros ->. auto. Qed.

Lemma wrv_norm s cur value msk : wf_shape s = true -> in_range s cur -> 0 <= msk < 2 ^ width s ->
  wrv s cur value msk = norm s (merge cur value msk).
Proof.
  intros Hs Hc Hm. unfold wrv. fold (merge cur value msk). apply sign_fix_norm; auto.
  intros Hu. pose proof (wf_shape_width s Hs) as Hw.
  apply bits_small; auto. intros i Hi. rewrite merge_bits by lia.
  rewrite (small_bits (width s) msk i) by (auto; lia).
  apply (small_bits (width s)); auto; try lia. apply in_range_unsigned_nonneg; auto.
Qed.

Lemma wrv_bits s cur value msk i : wf_shape s = true -> 0 <= i < width s ->
  Z.testbit (wrv s cur value msk) i = if Z.testbit msk i then Z.testbit value i else Z.testbit cur i.
Proof.
  intros Hs Hi. unfold wrv. fold (merge cur value msk). rewrite sign_fix_bits by auto.
  apply merge_bits; lia.
Qed.

Lemma wrv_in_range s cur value msk : wf_shape s = true -> in_range s cur -> 0 <= msk < 2 ^ width s ->
  in_range s (wrv s cur value msk).
Proof. intros. rewrite wrv_norm by auto. apply norm_in_range; auto. Qed.

(* ================================================================== enables, granules *)
Lemma div_sub_self i g : 0 < g -> (i - g) / g = i / g - 1.
Proof.
  intros Hg. replace i with ((i - g) + 1 * g) at 2 by lia. rewrite Z.div_add by lia. lia.
Qed.
Lemma mod_sub_self i g : 0 < g -> (i - g) mod g = i mod g.
Proof.
  intros Hg. replace i with ((i - g) + 1 * g) at 2 by lia. rewrite Z.mod_add by lia. reflexivity.
Qed.

Lemma ones_range g : 0 <= g -> 0 <= Z.ones g < 2 ^ g.
Proof. intros. rewrite Z.ones_equiv. pose proof (pow2_pos g ltac:(lia)). lia. Qed.

Lemma en_cat_from_bits g n : 0 < g -> forall k en i, 0 <= i ->
  Z.testbit (en_cat_from g n k en) i = (i <? g * Z.of_nat n) && Z.testbit en (k + i / g).
Proof.
  intros Hg. induction n as [|n IH]; intros k en i Hi.
  - cbn [en_cat_from]. rewrite Z.bits_0. replace (i <? g * Z.of_nat 0) with false by lia. reflexivity.
  - cbn [en_cat_from]. rewrite testbit_add_pow2; try lia.
    2:{ destruct (Z.testbit en k); [apply ones_range; lia | pose proof (pow2_pos g ltac:(lia)); lia]. }
    destruct (i <? g) eqn:E.
    + rewrite Z.div_small by lia. replace (k + 0) with k by lia.
      replace (i <? g * Z.of_nat (S n)) with true by nia.
      destruct (Z.testbit en k); simpl.
      * apply Z.ones_spec_low; lia.
      * apply Z.bits_0.
    + rewrite IH by lia. rewrite div_sub_self by lia.
      replace (k + 1 + (i / g - 1)) with (k + i / g) by lia.
      f_equal. rewrite Nat2Z.inj_succ. destruct (i - g <? g * Z.of_nat n) eqn:E2; nia.
Qed.

Lemma join_bits g l : 0 < g -> (forall x, In x l -> 0 <= x < 2 ^ g) -> forall i, 0 <= i ->
  Z.testbit (join g l) i = Z.testbit (nth (Z.to_nat (i / g)) l 0) (i mod g).
Proof.
  intros Hg. induction l as [|x l IH]; intros Hl i Hi.
  - cbn [join]. destruct (Z.to_nat (i / g)); cbn [nth]; rewrite !Z.bits_0; reflexivity.
  - cbn [join]. rewrite testbit_add_pow2; try lia. 2:{ apply Hl; left; auto. }
    destruct (i <? g) eqn:E.
    + rewrite Z.div_small, Z.mod_small by lia. reflexivity.
    + rewrite IH; try lia. 2:{ intros; apply Hl; right; auto. }
      rewrite div_sub_self, mod_sub_self by lia.
      assert (1 <= i / g) by (apply Z.div_le_lower_bound; lia).
      replace (Z.to_nat (i / g)) with (S (Z.to_nat (i / g - 1))) by lia. reflexivity.
Qed.

Lemma granule_range g k v : 0 <= g -> 0 <= granule g k v < 2 ^ g.
Proof. intros. unfold granule. apply Z.mod_pos_bound. apply pow2_pos; auto. Qed.

Lemma granule_bits g k v j : 0 < g -> 0 <= k -> 0 <= j < g ->
  Z.testbit (granule g k v) j = Z.testbit v (g * k + j).
Proof.
  intros Hg Hk Hj. unfold granule. rewrite Z.mod_pow2_bits_low by lia.
  rewrite testbit_div_pow2 by nia. f_equal. lia.
Qed.

Lemma nth_map_seq (f : nat -> Z) n k d : (k < n)%nat -> nth k (map f (seq 0 n)) d = f k.
Proof.
  intros. rewrite (nth_indep _ d (f 0%nat)) by (rewrite map_length, seq_length; auto).
  rewrite map_nth. rewrite seq_nth by auto. reflexivity.
Qed.

Lemma spec_write_row_bits s g n en d old i : wf_shape s = true -> 0 < g -> g * Z.of_nat n = width s ->
  0 <= i < width s ->
  Z.testbit (spec_write_row s g n en d old) i = if Z.testbit en (i / g) then Z.testbit d i else Z.testbit old i.
Proof.
  intros Hs Hg Hn Hi. unfold spec_write_row. rewrite norm_bits_low by auto.
  rewrite join_bits; try lia.
  2:{ intros x Hx. apply in_map_iff in Hx. destruct Hx as (k & <- & _).
      destruct (Z.testbit en (Z.of_nat k)); apply granule_range; lia. }
  assert (0 <= i / g) by (apply Z.div_pos; lia).
  assert (i / g < Z.of_nat n) by (apply Z.div_lt_upper_bound; lia).
  pose proof (Z.mod_pos_bound i g Hg) as Hm. pose proof (Z.div_mod i g ltac:(lia)) as Hdm.
  rewrite nth_map_seq by lia. rewrite Z2Nat.id by lia.
  destruct (Z.testbit en (i / g)); rewrite granule_bits by lia; f_equal; lia.
Qed.

Lemma spec_write_row_in_range s g n en d old : wf_shape s = true -> in_range s (spec_write_row s g n en d old).
Proof. intros. apply norm_in_range; auto. Qed.

(* a write port of the model and the same port of the specification *)
Definition mact_of (s : shape) (t : sact) : action :=
  let '(wa, enw, en, d) := t in
  (wa, mask (width s) d, mask (width s) (en_cat (granularity (width s) enw) (Z.to_nat enw) en)).

Definition wf_sact (s : shape) (t : sact) : Prop :=
  let '(wa, enw, en, d) := t in wf_wport s (WP 0 enw) = true.

Lemma wrv_eq_spec s enw en d r : wf_shape s = true -> wf_wport s (WP 0 enw) = true -> in_range s r ->
  wrv s r (mask (width s) d) (mask (width s) (en_cat (granularity (width s) enw) (Z.to_nat enw) en)) =
  spec_write_row s (granularity (width s) enw) (Z.to_nat enw) en d r.
Proof.
  intros Hs Hp Hr. pose proof (wf_shape_width s Hs) as Hw.
  apply in_range_bits_eq; auto.
  - apply wrv_in_range; auto. apply mask_range; auto.
  - apply spec_write_row_in_range; auto.
  - intros i Hi. unfold wf_wport in Hp. cbn [wp_enw] in Hp.
    replace (width s =? 0) with false in Hp by lia.
    assert (1 <= enw /\ width s mod enw = 0) as [He Hm] by lia.
    pose proof (Z.div_mod (width s) enw ltac:(lia)) as Hdm.
    assert (Hg : granularity (width s) enw = width s / enw).
    { unfold granularity. replace (width s =? 0) with false by lia. reflexivity. }
    assert (0 < width s / enw) by nia.
    rewrite wrv_bits by auto. rewrite !testbit_mask by auto.
    replace (i <? width s) with true by lia. cbn [andb].
    unfold en_cat. rewrite en_cat_from_bits by lia. rewrite Hg.
    rewrite Z2Nat.id by lia.
    replace (i <? width s / enw * enw) with true by nia. cbn [andb]. rewrite Z.add_0_l.
    rewrite spec_write_row_bits; auto; try lia. rewrite Z2Nat.id by lia. nia.
Qed.

(* EngineP.v — proofs about the delta-cycle engine model (Model/Engine.v): independence of the iteration orders of
   the three sets, determinism of settle / whole runs, exactness of the timeline and the clock process. *)
From Coq Require Import ZArith List Bool Lia Permutation.
From V.Model Require Import Bits Shape Ast Denote PyRTL PyEval Stmt Process Engine.
Import ListNotations.
Open Scope Z_scope.

(* ================================================================ lists *)
Lemma set_nth_length {A} (n : nat) (x : A) l : length (set_nth n x l) = length l.
Proof. revert n; induction l as [|h t IH]; intros [|n]; simpl; auto. Qed.

Lemma nth_set_nth_eq {A} (n : nat) (x d : A) l : (n < length l)%nat -> nth n (set_nth n x l) d = x.
Proof. revert n; induction l as [|h t IH]; intros [|n] H; simpl in *; try lia; auto. apply IH; lia. Qed.

Lemma nth_set_nth_neq {A} (n m : nat) (x d : A) l : n <> m -> nth m (set_nth n x l) d = nth m l d.
Proof.
  revert n m; induction l as [|h t IH]; intros [|n] [|m] H; simpl; auto; try congruence.
Qed.

Lemma nth_error_set_nth_neq {A} (n m : nat) (x : A) l : n <> m -> nth_error (set_nth n x l) m = nth_error l m.
Proof.
  revert n m; induction l as [|h t IH]; intros [|n] [|m] H; simpl; auto; try congruence.
Qed.

Lemma set_nth_comm {A} (n m : nat) (x y : A) l :
  n <> m -> set_nth n x (set_nth m y l) = set_nth m y (set_nth n x l).
Proof.
  revert n m; induction l as [|h t IH]; intros [|n] [|m] H; simpl; auto; try congruence.
  f_equal; apply IH; congruence.
Qed.

Lemma set_nth_beyond {A} (n : nat) (x : A) l : (length l <= n)%nat -> set_nth n x l = l.
Proof. revert n; induction l as [|h t IH]; intros [|n] H; simpl in *; auto; try lia. f_equal; apply IH; lia. Qed.

Lemma mapi_from_ext {A B} (f g : nat -> A -> B) l k :
  (forall i x, f i x = g i x) -> mapi_from k f l = mapi_from k g l.
Proof. intros H; revert k; induction l; intros; simpl; [auto|rewrite H, IHl; auto]. Qed.

Lemma mapi_from_comp {A B C} (f : nat -> B -> C) (g : nat -> A -> B) l k :
  mapi_from k f (mapi_from k g l) = mapi_from k (fun i x => f i (g i x)) l.
Proof. revert k; induction l; intros; simpl; [auto|rewrite IHl; auto]. Qed.

Lemma mapi_from_length {A B} (f : nat -> A -> B) l k : length (mapi_from k f l) = length l.
Proof. revert k; induction l; intros; simpl; auto. Qed.

Lemma mapi_from_nth {A B} (f : nat -> A -> B) l k i da db :
  (i < length l)%nat -> nth i (mapi_from k f l) db = f (k + i)%nat (nth i l da).
Proof.
  revert k i; induction l as [|h t IH]; intros k [|i] H; simpl in *; try lia.
  - f_equal; lia.
  - rewrite IH by lia. f_equal; lia.
Qed.

Lemma map_mapi_from {A B C} (g : B -> C) (f : nat -> A -> B) l k :
  map g (mapi_from k f l) = mapi_from k (fun i x => g (f i x)) l.
Proof. revert k; induction l; intros; simpl; [auto|rewrite IHl; auto]. Qed.

Lemma mapi_from_const_map {A B} (f : A -> B) l k : mapi_from k (fun _ x => f x) l = map f l.
Proof. revert k; induction l; intros; simpl; [auto|rewrite IHl; auto]. Qed.

(* fold over a list of commuting steps is invariant under permutation *)
Lemma fold_left_perm {S A} (f : S -> A -> S) :
  (forall s a b, f (f s a) b = f (f s b) a) ->
  forall l l', Permutation l l' -> forall s, fold_left f l s = fold_left f l' s.
Proof.
  intros C l l' P; induction P; intros s; simpl; auto.
  - rewrite C; auto.
  - rewrite IHP1; auto.
Qed.

(* ================================================================ bits *)
Lemma land0_bits a b : Z.land a b = 0 -> forall n, Z.testbit a n && Z.testbit b n = false.
Proof. intros H n. rewrite <- Z.land_spec, H. apply Z.bits_0. Qed.

Lemma su_bits old v m n :
  Z.testbit (slot_update old v m) n = if Z.testbit m n then Z.testbit v n else Z.testbit old n.
Proof.
  unfold slot_update. destruct (Z.neg_nonneg_cases n) as [Hn|Hn].
  - rewrite !Z.testbit_neg_r by lia. destruct (Z.testbit m n); auto.
  - rewrite Z.lor_spec, !Z.land_spec, Z.lnot_spec by lia.
    destruct (Z.testbit m n), (Z.testbit v n), (Z.testbit old n); auto.
Qed.

(* two updates with disjoint masks commute *)
Lemma su_comm x v1 m1 v2 m2 :
  Z.land m1 m2 = 0 ->
  slot_update (slot_update x v1 m1) v2 m2 = slot_update (slot_update x v2 m2) v1 m1.
Proof.
  intros D. apply Z.bits_inj'. intros n _. rewrite !su_bits.
  pose proof (land0_bits _ _ D n) as E.
  destruct (Z.testbit m1 n), (Z.testbit m2 n); simpl in E; auto; discriminate.
Qed.

(* an update changes the value iff it changes a bit under the mask *)
Lemma su_same_iff x v m : slot_update x v m = x <-> Z.land x m = Z.land v m.
Proof.
  split; intros H.
  - apply Z.bits_inj'. intros n _. rewrite !Z.land_spec.
    assert (E := f_equal (fun z => Z.testbit z n) H). simpl in E. rewrite su_bits in E.
    destruct (Z.testbit m n); auto. rewrite !andb_false_r; auto.
  - apply Z.bits_inj'. intros n _. rewrite su_bits.
    assert (E := f_equal (fun z => Z.testbit z n) H). simpl in E. rewrite !Z.land_spec in E.
    destruct (Z.testbit m n); auto. rewrite !andb_true_r in E; auto.
Qed.

Lemma su_land_other x v m1 m2 : Z.land m1 m2 = 0 -> Z.land (slot_update x v m1) m2 = Z.land x m2.
Proof.
  intros D. apply Z.bits_inj'. intros n _. rewrite !Z.land_spec, su_bits.
  pose proof (land0_bits _ _ D n) as E.
  destruct (Z.testbit m1 n), (Z.testbit m2 n); simpl in E; auto; try discriminate.
  rewrite !andb_false_r; auto.
Qed.

Lemma su_changed_indep x v1 m1 v2 m2 :
  Z.land m1 m2 = 0 ->
  (slot_update x v1 m1 =? slot_update (slot_update x v1 m1) v2 m2) = (x =? slot_update x v2 m2).
Proof.
  intros D. apply eq_true_iff_eq. rewrite !Z.eqb_eq.
  split; intros H; symmetry; apply su_same_iff; symmetry in H; apply su_same_iff in H.
  - rewrite su_land_other in H by auto. exact H.
  - rewrite su_land_other by auto. exact H.
Qed.

Lemma mask_sub_disj k1 k2 o1 o2 :
  Z.land k1 (Z.lnot o1) = 0 -> Z.land k2 (Z.lnot o2) = 0 -> Z.land o1 o2 = 0 -> Z.land k1 k2 = 0.
Proof.
  intros H1 H2 D. apply Z.bits_inj'. intros n Hn. rewrite Z.land_spec, Z.bits_0.
  pose proof (land0_bits _ _ H1 n) as E1. pose proof (land0_bits _ _ H2 n) as E2.
  pose proof (land0_bits _ _ D n) as E3. rewrite Z.lnot_spec in E1, E2 by lia.
  destruct (Z.testbit k1 n), (Z.testbit k2 n), (Z.testbit o1 n), (Z.testbit o2 n); simpl in *; auto; discriminate.
Qed.

(* ================================================================ slots *)
(* normal form of one update() *)
Lemma slot_apply_nf i s w :
  slot_apply i s w =
  if Nat.eqb (w_sig w) i
  then Slot (sc s) (slot_update (sn s) (w_val w) (w_mask w))
            (sp s || negb (sn s =? slot_update (sn s) (w_val w) (w_mask w)))
  else s.
Proof.
  unfold slot_apply. destruct (Nat.eqb (w_sig w) i); auto.
  destruct (sn s =? slot_update (sn s) (w_val w) (w_mask w)) eqn:E.
  - apply Z.eqb_eq in E. rewrite <- E. destruct s; simpl. rewrite orb_false_r; auto.
  - simpl. rewrite orb_true_r; auto.
Qed.

Lemma slot_apply_sc i s w : sc (slot_apply i s w) = sc s.
Proof. rewrite slot_apply_nf. destruct (Nat.eqb (w_sig w) i); auto. Qed.

Lemma slot_apply_comm i s w1 w2 :
  (Nat.eqb (w_sig w1) i = true -> Nat.eqb (w_sig w2) i = true -> Z.land (w_mask w1) (w_mask w2) = 0) ->
  slot_apply i (slot_apply i s w1) w2 = slot_apply i (slot_apply i s w2) w1.
Proof.
  intros D. rewrite !slot_apply_nf.
  destruct (Nat.eqb (w_sig w1) i) eqn:E1, (Nat.eqb (w_sig w2) i) eqn:E2; simpl; auto.
  specialize (D eq_refl eq_refl).
  rewrite (su_comm (sn s) (w_val w1) (w_mask w1) (w_val w2) (w_mask w2)) by auto.
  f_equal.
  rewrite su_changed_indep by auto.
  rewrite (su_comm (sn s) (w_val w2) (w_mask w2) (w_val w1) (w_mask w1)) by (rewrite Z.land_comm; auto).
  rewrite <- (su_comm (sn s) (w_val w2) (w_mask w2) (w_val w1) (w_mask w1)) by (rewrite Z.land_comm; auto).
  rewrite (su_changed_indep (sn s) (w_val w2) (w_mask w2) (w_val w1) (w_mask w1)) by (rewrite Z.land_comm; auto).
  destruct (sp s), (sn s =? slot_update (sn s) (w_val w1) (w_mask w1)),
           (sn s =? slot_update (sn s) (w_val w2) (w_mask w2)); auto.
Qed.

Definition ws_disj (i : nat) (ws1 ws2 : list write) : Prop :=
  forall w1 w2, In w1 ws1 -> In w2 ws2 -> Nat.eqb (w_sig w1) i = true -> Nat.eqb (w_sig w2) i = true ->
                Z.land (w_mask w1) (w_mask w2) = 0.

Lemma fold_slot_apply_comm1 i ws w s :
  ws_disj i [w] ws ->
  fold_left (slot_apply i) ws (slot_apply i s w) = slot_apply i (fold_left (slot_apply i) ws s) w.
Proof.
  revert s; induction ws as [|w' ws IH]; intros s D; simpl; auto.
  rewrite <- IH.
  - f_equal. apply slot_apply_comm. intros; apply (D w w'); simpl; auto.
  - intros a b Ha Hb. apply D; simpl in *; auto.
Qed.

Lemma fold_slot_apply_comm i ws1 ws2 s :
  ws_disj i ws1 ws2 ->
  fold_left (slot_apply i) ws2 (fold_left (slot_apply i) ws1 s) =
  fold_left (slot_apply i) ws1 (fold_left (slot_apply i) ws2 s).
Proof.
  revert s; induction ws1 as [|w ws1 IH]; intros s D; simpl; auto.
  rewrite IH.
  - f_equal. apply fold_slot_apply_comm1. intros a b Ha Hb. apply D; simpl in *; intuition.
  - intros a b Ha Hb. apply D; simpl; auto.
Qed.

Lemma apply_writes_comm ws1 ws2 sl :
  (forall i, ws_disj i ws1 ws2) ->
  apply_writes ws2 (apply_writes ws1 sl) = apply_writes ws1 (apply_writes ws2 sl).
Proof.
  intros D. unfold apply_writes, mapi. rewrite !mapi_from_comp.
  apply mapi_from_ext. intros i x. apply fold_slot_apply_comm. apply D.
Qed.

Lemma fold_slot_apply_sc i ws s : sc (fold_left (slot_apply i) ws s) = sc s.
Proof. revert s; induction ws; intros; simpl; auto. rewrite IHws. apply slot_apply_sc. Qed.

Lemma currs_apply_writes ws sl : currs (apply_writes ws sl) = currs sl.
Proof.
  unfold currs, apply_writes, mapi. rewrite map_mapi_from.
  rewrite (mapi_from_ext _ (fun _ x => sc x)) by (intros; apply fold_slot_apply_sc).
  apply mapi_from_const_map.
Qed.

Lemma apply_writes_length ws sl : length (apply_writes ws sl) = length sl.
Proof. apply mapi_from_length. Qed.

(* bits outside the masks of the writes keep their `next` value *)
Lemma fold_slot_apply_frame i ws s o :
  (forall w, In w ws -> Nat.eqb (w_sig w) i = true -> Z.land (w_mask w) o = 0) ->
  Z.land (sn (fold_left (slot_apply i) ws s)) o = Z.land (sn s) o.
Proof.
  revert s; induction ws as [|w ws IH]; intros s H; simpl; auto.
  rewrite IH by (intros; apply H; simpl; auto).
  rewrite slot_apply_nf. destruct (Nat.eqb (w_sig w) i) eqn:E; auto. simpl.
  apply su_land_other. apply H; simpl; auto.
Qed.

Lemma nexts_apply_writes_frame ws sl (o : nat -> Z) :
  (forall w, In w ws -> Z.land (w_mask w) (o (w_sig w)) = 0) ->
  forall i, Z.land (nth i (nexts (apply_writes ws sl)) 0) (o i) = Z.land (nth i (nexts sl) 0) (o i).
Proof.
  intros H i. unfold nexts.
  destruct (Nat.lt_ge_cases i (length sl)) as [L|L].
  - rewrite (nth_indep _ 0 (sn (Slot 0 0 false))) by (rewrite map_length, apply_writes_length; auto).
    rewrite (nth_indep (map sn sl) 0 (sn (Slot 0 0 false))) by (rewrite map_length; auto).
    rewrite !map_nth. unfold apply_writes, mapi.
    rewrite (mapi_from_nth _ _ _ _ (Slot 0 0 false)) by auto. simpl.
    apply fold_slot_apply_frame. intros w Hw E. apply Nat.eqb_eq in E. subst i. apply H; auto.
  - rewrite !nth_overflow; auto; rewrite map_length; try rewrite apply_writes_length; auto.
Qed.

(* EngineP.v — proofs about the delta-cycle engine model (Model/Engine.v): independence of the iteration orders of
   the three sets, determinism of settle / whole runs, exactness of the timeline and the clock process. *)
From Coq Require Import ZArith List Bool Lia Permutation.
From V.Model Require Import Bits Shape Ast Denote PyRTL PyEval Stmt Process Engine.
Import ListNotations.
Open Scope Z_scope.

(* ================================================================ lists *)
Lemma set_nth_length {A} (n : nat) (x : A) l : length (set_nth n x l) = length l.
Proof. revert n; induction l as [|h t IH]; intros [|n]; simpl; auto. Qed.

Lemma nth_set_nth_eq {A} (n : nat) (x d : A) l : (n < length l)%nat -> nth n (set_nth n x l) d = x.
Proof. revert n; induction l as [|h t IH]; intros [|n] H; simpl in *; try lia; auto. apply IH; lia. Qed.

Lemma nth_set_nth_neq {A} (n m : nat) (x d : A) l : n <> m -> nth m (set_nth n x l) d = nth m l d.
Proof.
  revert n m; induction l as [|h t IH]; intros [|n] [|m] H; simpl; auto; try congruence.
Qed.

Lemma nth_error_set_nth_neq {A} (n m : nat) (x : A) l : n <> m -> nth_error (set_nth n x l) m = nth_error l m.
Proof.
  revert n m; induction l as [|h t IH]; intros [|n] [|m] H; simpl; auto; try congruence.
Qed.

Lemma set_nth_comm {A} (n m : nat) (x y : A) l :
  n <> m -> set_nth n x (set_nth m y l) = set_nth m y (set_nth n x l).
Proof.
  revert n m; induction l as [|h t IH]; intros [|n] [|m] H; simpl; auto; try congruence.
  f_equal; apply IH; congruence.
Qed.

Lemma set_nth_beyond {A} (n : nat) (x : A) l : (length l <= n)%nat -> set_nth n x l = l.
Proof. revert n; induction l as [|h t IH]; intros [|n] H; simpl in *; auto; try lia. f_equal; apply IH; lia. Qed.

Lemma mapi_from_ext {A B} (f g : nat -> A -> B) l k :
  (forall i x, f i x = g i x) -> mapi_from k f l = mapi_from k g l.
Proof. intros H; revert k; induction l; intros; simpl; [auto|rewrite H, IHl; auto]. Qed.

Lemma mapi_from_comp {A B C} (f : nat -> B -> C) (g : nat -> A -> B) l k :
  mapi_from k f (mapi_from k g l) = mapi_from k (fun i x => f i (g i x)) l.
Proof. revert k; induction l; intros; simpl; [auto|rewrite IHl; auto]. Qed.

Lemma mapi_from_length {A B} (f : nat -> A -> B) l k : length (mapi_from k f l) = length l.
Proof. revert k; induction l; intros; simpl; auto. Qed.

Lemma mapi_from_nth {A B} (f : nat -> A -> B) l k i da db :
  (i < length l)%nat -> nth i (mapi_from k f l) db = f (k + i)%nat (nth i l da).
Proof.
  revert k i; induction l as [|h t IH]; intros k [|i] H; simpl in *; try lia.
  - f_equal; lia.
  - rewrite IH by lia. f_equal; lia.
Qed.

Lemma map_mapi_from {A B C} (g : B -> C) (f : nat -> A -> B) l k :
  map g (mapi_from k f l) = mapi_from k (fun i x => g (f i x)) l.
Proof. revert k; induction l; intros; simpl; [auto|rewrite IHl; auto]. Qed.

Lemma mapi_from_const_map {A B} (f : A -> B) l k : mapi_from k (fun _ x => f x) l = map f l.
Proof. revert k; induction l; intros; simpl; [auto|rewrite IHl; auto]. Qed.

(* fold over a list of commuting steps is invariant under permutation *)
Lemma fold_left_perm {S A} (f : S -> A -> S) :
  (forall s a b, f (f s a) b = f (f s b) a) ->
  forall l l', Permutation l l' -> forall s, fold_left f l s = fold_left f l' s.
Proof.
  intros C l l' P; induction P; intros s; simpl; auto.
  - rewrite C; auto.
  - rewrite IHP1; auto.
Qed.

(* ================================================================ bits *)
Lemma land0_bits a b : Z.land a b = 0 -> forall n, Z.testbit a n && Z.testbit b n = false.
Proof. intros H n. rewrite <- Z.land_spec, H. apply Z.bits_0. Qed.

Lemma su_bits old v m n :
  Z.testbit (slot_update old v m) n = if Z.testbit m n then Z.testbit v n else Z.testbit old n.
Proof.
  unfold slot_update. destruct (Z.neg_nonneg_cases n) as [Hn|Hn].
  - rewrite !Z.testbit_neg_r by lia. destruct (Z.testbit m n); auto.
  - rewrite Z.lor_spec, !Z.land_spec, Z.lnot_spec by lia.
    destruct (Z.testbit m n), (Z.testbit v n), (Z.testbit old n); auto.
Qed.

(* two updates with disjoint masks commute *)
Lemma su_comm x v1 m1 v2 m2 :
  Z.land m1 m2 = 0 ->
  slot_update (slot_update x v1 m1) v2 m2 = slot_update (slot_update x v2 m2) v1 m1.
Proof.
  intros D. apply Z.bits_inj'. intros n _. rewrite !su_bits.
  pose proof (land0_bits _ _ D n) as E.
  destruct (Z.testbit m1 n), (Z.testbit m2 n); simpl in E; auto; discriminate.
Qed.

(* an update changes the value iff it changes a bit under the mask *)
Lemma su_same_iff x v m : slot_update x v m = x <-> Z.land x m = Z.land v m.
Proof.
  split; intros H.
  - apply Z.bits_inj'. intros n _. rewrite !Z.land_spec.
    assert (E := f_equal (fun z => Z.testbit z n) H). simpl in E. rewrite su_bits in E.
    destruct (Z.testbit m n), (Z.testbit x n), (Z.testbit v n); simpl in *; auto; congruence.
  - apply Z.bits_inj'. intros n _. rewrite su_bits.
    assert (E := f_equal (fun z => Z.testbit z n) H). simpl in E. rewrite !Z.land_spec in E.
    destruct (Z.testbit m n), (Z.testbit x n), (Z.testbit v n); simpl in *; auto; congruence.
Qed.

Lemma su_land_other x v m1 m2 : Z.land m1 m2 = 0 -> Z.land (slot_update x v m1) m2 = Z.land x m2.
Proof.
  intros D. apply Z.bits_inj'. intros n _. rewrite !Z.land_spec, su_bits.
  pose proof (land0_bits _ _ D n) as E.
  destruct (Z.testbit m1 n), (Z.testbit m2 n), (Z.testbit x n), (Z.testbit v n); simpl in *; auto; discriminate.
Qed.

Lemma su_changed_indep x v1 m1 v2 m2 :
  Z.land m1 m2 = 0 ->
  (slot_update x v1 m1 =? slot_update (slot_update x v1 m1) v2 m2) = (x =? slot_update x v2 m2).
Proof.
  intros D. apply eq_true_iff_eq. rewrite !Z.eqb_eq.
  split; intros H; symmetry; apply su_same_iff; symmetry in H; apply su_same_iff in H.
  - rewrite su_land_other in H by auto. exact H.
  - rewrite su_land_other by auto. exact H.
Qed.

Lemma mask_sub_disj k1 k2 o1 o2 :
  Z.land k1 (Z.lnot o1) = 0 -> Z.land k2 (Z.lnot o2) = 0 -> Z.land o1 o2 = 0 -> Z.land k1 k2 = 0.
Proof.
  intros H1 H2 D. apply Z.bits_inj'. intros n Hn. rewrite Z.land_spec, Z.bits_0.
  pose proof (land0_bits _ _ H1 n) as E1. pose proof (land0_bits _ _ H2 n) as E2.
  pose proof (land0_bits _ _ D n) as E3. rewrite Z.lnot_spec in E1, E2 by lia.
  destruct (Z.testbit k1 n), (Z.testbit k2 n), (Z.testbit o1 n), (Z.testbit o2 n); simpl in *; auto; discriminate.
Qed.

(* ================================================================ slots *)
(* normal form of one update() *)
Lemma slot_apply_nf i s w :
  slot_apply i s w =
  if Nat.eqb (w_sig w) i
  then Slot (sc s) (slot_update (sn s) (w_val w) (w_mask w))
            (sp s || negb (sn s =? slot_update (sn s) (w_val w) (w_mask w)))
  else s.
Proof.
  unfold slot_apply. destruct (Nat.eqb (w_sig w) i); auto.
  destruct (sn s =? slot_update (sn s) (w_val w) (w_mask w)) eqn:E.
  - apply Z.eqb_eq in E. rewrite <- E. destruct s; simpl. rewrite orb_false_r; auto.
  - simpl. rewrite orb_true_r; auto.
Qed.

Lemma slot_apply_sc i s w : sc (slot_apply i s w) = sc s.
Proof. rewrite slot_apply_nf. destruct (Nat.eqb (w_sig w) i); reflexivity. Qed.

Lemma pend_comm n v1 m1 v2 m2 (p : bool) :
  Z.land m1 m2 = 0 ->
  (p || negb (n =? slot_update n v1 m1)) || negb (slot_update n v1 m1 =? slot_update (slot_update n v1 m1) v2 m2) =
  (p || negb (n =? slot_update n v2 m2)) || negb (slot_update n v2 m2 =? slot_update (slot_update n v2 m2) v1 m1).
Proof.
  intros D. rewrite su_changed_indep by auto.
  rewrite (su_changed_indep n v2 m2 v1 m1) by (rewrite Z.land_comm; auto).
  destruct p, (n =? slot_update n v1 m1), (n =? slot_update n v2 m2); auto.
Qed.

Lemma slot_apply_comm i s w1 w2 :
  (Nat.eqb (w_sig w1) i = true -> Nat.eqb (w_sig w2) i = true -> Z.land (w_mask w1) (w_mask w2) = 0) ->
  slot_apply i (slot_apply i s w1) w2 = slot_apply i (slot_apply i s w2) w1.
Proof.
  intros D. rewrite !slot_apply_nf.
  destruct (Nat.eqb (w_sig w1) i) eqn:E1, (Nat.eqb (w_sig w2) i) eqn:E2; simpl; auto.
  specialize (D eq_refl eq_refl).
  f_equal; [apply su_comm | apply pend_comm]; auto.
Qed.

Definition ws_disj (i : nat) (ws1 ws2 : list write) : Prop :=
  forall w1 w2, In w1 ws1 -> In w2 ws2 -> Nat.eqb (w_sig w1) i = true -> Nat.eqb (w_sig w2) i = true ->
                Z.land (w_mask w1) (w_mask w2) = 0.

Lemma fold_slot_apply_comm1 i ws w s :
  ws_disj i [w] ws ->
  fold_left (slot_apply i) ws (slot_apply i s w) = slot_apply i (fold_left (slot_apply i) ws s) w.
Proof.
  revert s; induction ws as [|w' ws IH]; intros s D; simpl; auto.
  rewrite <- IH.
  - f_equal. apply slot_apply_comm. intros; apply (D w w'); simpl; auto.
  - intros a b Ha Hb. apply D; simpl in *; auto.
Qed.

Lemma fold_slot_apply_comm i ws1 ws2 s :
  ws_disj i ws1 ws2 ->
  fold_left (slot_apply i) ws2 (fold_left (slot_apply i) ws1 s) =
  fold_left (slot_apply i) ws1 (fold_left (slot_apply i) ws2 s).
Proof.
  revert s; induction ws1 as [|w ws1 IH]; intros s D; simpl; auto.
  rewrite IH.
  - f_equal. apply fold_slot_apply_comm1. intros a b Ha Hb. apply D; simpl in *; intuition.
  - intros a b Ha Hb. apply D; simpl; auto.
Qed.

Lemma apply_writes_comm ws1 ws2 sl :
  (forall i, ws_disj i ws1 ws2) ->
  apply_writes ws2 (apply_writes ws1 sl) = apply_writes ws1 (apply_writes ws2 sl).
Proof.
  intros D. unfold apply_writes, mapi. rewrite !mapi_from_comp.
  apply mapi_from_ext. intros i x. apply fold_slot_apply_comm. apply D.
Qed.

Lemma fold_slot_apply_sc i ws s : sc (fold_left (slot_apply i) ws s) = sc s.
Proof. revert s; induction ws; intros; simpl; auto. rewrite IHws. apply slot_apply_sc. Qed.

Lemma currs_apply_writes ws sl : currs (apply_writes ws sl) = currs sl.
Proof.
  unfold currs, apply_writes, mapi. rewrite map_mapi_from.
  rewrite (mapi_from_ext _ (fun _ x => sc x)) by (intros; apply fold_slot_apply_sc).
  apply mapi_from_const_map.
Qed.

Lemma apply_writes_length ws sl : length (apply_writes ws sl) = length sl.
Proof. apply mapi_from_length. Qed.

(* bits outside the masks of the writes keep their `next` value *)
Lemma fold_slot_apply_frame i ws s o :
  (forall w, In w ws -> Nat.eqb (w_sig w) i = true -> Z.land (w_mask w) o = 0) ->
  Z.land (sn (fold_left (slot_apply i) ws s)) o = Z.land (sn s) o.
Proof.
  revert s; induction ws as [|w ws IH]; intros s H; simpl; auto.
  rewrite IH by (intros; apply H; simpl; auto).
  rewrite slot_apply_nf. destruct (Nat.eqb (w_sig w) i) eqn:E; auto. simpl.
  apply su_land_other. apply H; simpl; auto.
Qed.

Lemma nexts_apply_writes_frame ws sl (o : nat -> Z) :
  (forall w, In w ws -> Z.land (w_mask w) (o (w_sig w)) = 0) ->
  forall i, Z.land (nth i (nexts (apply_writes ws sl)) 0) (o i) = Z.land (nth i (nexts sl) 0) (o i).
Proof.
  intros H i. unfold nexts.
  destruct (Nat.lt_ge_cases i (length sl)) as [L|L].
  - rewrite (nth_indep _ 0 (sn (Slot 0 0 false))) by (rewrite map_length, apply_writes_length; auto).
    rewrite (nth_indep (map sn sl) 0 (sn (Slot 0 0 false))) by (rewrite map_length; auto).
    rewrite !map_nth. unfold apply_writes, mapi.
    rewrite (mapi_from_nth _ _ _ _ (Slot 0 0 false)) by auto. simpl.
    apply fold_slot_apply_frame. intros w Hw E. apply Nat.eqb_eq in E. subst i. apply H; auto.
  - rewrite !nth_overflow; auto; rewrite map_length; try rewrite apply_writes_length; auto.
Qed.

(* ================================================================ 1b: order of `_processes` *)
(* write_disjoint: every process k writes only inside its own bit set `own k i` of slot i, the own sets of two
   processes are disjoint, and run() depends on `next` only through the process's own bits (an RTL sync process
   starts from slots[i].next of the signals it drives). *)
Record disc (ps : list proc) (own : nat -> nat -> Z) : Prop := {
  d_disj : forall a b i, a <> b -> Z.land (own a i) (own b i) = 0;
  d_within : forall k l res cu nx w, In w (r_writes (p_run (nth k ps no_proc) l res cu nx)) ->
               Z.land (w_mask w) (Z.lnot (own k (w_sig w))) = 0;
  d_reads : forall k l res cu nx nx',
               (forall i, Z.land (nth i nx 0) (own k i) = Z.land (nth i nx' 0) (own k i)) ->
               p_run (nth k ps no_proc) l res cu nx = p_run (nth k ps no_proc) l res cu nx' }.

Definition write_disjoint (ps : list proc) : Prop := exists own, disc ps own.

Lemma sub_disj_other k oa ob : Z.land k (Z.lnot oa) = 0 -> Z.land oa ob = 0 -> Z.land k ob = 0.
Proof.
  intros H D. apply Z.bits_inj'. intros n Hn. rewrite Z.land_spec, Z.bits_0.
  pose proof (land0_bits _ _ H n) as E1. pose proof (land0_bits _ _ D n) as E2.
  rewrite Z.lnot_spec in E1 by lia.
  destruct (Z.testbit k n), (Z.testbit oa n), (Z.testbit ob n); simpl in *; auto; discriminate.
Qed.

Section ProcOrder.
  Variable ps : list proc.
  Variable own : nat -> nat -> Z.
  Hypothesis D : disc ps own.

  Lemma proc_step_within k now p cu nx w :
    In w (snd (proc_step (nth k ps no_proc) now p cu nx)) -> Z.land (w_mask w) (Z.lnot (own k (w_sig w))) = 0.
  Proof.
    unfold proc_step. cbv zeta beta. destruct (p_trig (nth k ps no_proc)).
    - cbn [snd]. apply (d_within _ _ D).
    - destruct (ps_first p).
      + destruct (has_changed (t :: l)); cbn [snd r_writes In]; [apply (d_within _ _ D)|tauto].
      + destruct (t_broken (ps_trig p)); cbn [snd r_writes In]; [tauto|apply (d_within _ _ D)].
  Qed.

  Lemma proc_step_reads k now p cu nx nx' :
    (forall i, Z.land (nth i nx 0) (own k i) = Z.land (nth i nx' 0) (own k i)) ->
    proc_step (nth k ps no_proc) now p cu nx = proc_step (nth k ps no_proc) now p cu nx'.
  Proof.
    intros H. unfold proc_step. destruct (p_trig (nth k ps no_proc)).
    - rewrite (d_reads _ _ D k _ _ cu nx nx' H). reflexivity.
    - destruct (ps_first p).
      + destruct (has_changed (t :: l)); auto. rewrite (d_reads _ _ D k _ _ cu nx nx' H). reflexivity.
      + destruct (t_broken (ps_trig p)); auto. rewrite (d_reads _ _ D k _ _ cu nx nx' H). reflexivity.
  Qed.

  Lemma run_proc_runnable st k :
    ps_run (nth k (e_procs st) no_pstate) = true ->
    run_proc ps st k =
    let X := proc_step (nth k ps no_proc) (e_now st) (nth k (e_procs st) no_pstate)
                       (currs (e_slots st)) (nexts (e_slots st)) in
    ES (apply_writes (snd X) (e_slots st)) (set_nth k (fst X) (e_procs st)) (e_tbs st)
       (e_now st) (e_deltas st) (e_trace st).
  Proof. intros H. unfold run_proc. rewrite H. destruct proc_step; reflexivity. Qed.

  Lemma run_proc_idle st k :
    ps_run (nth k (e_procs st) no_pstate) = false -> run_proc ps st k = st.
  Proof. intros H. unfold run_proc. rewrite H. reflexivity. Qed.

  Lemma run_proc_comm st a b : run_proc ps (run_proc ps st a) b = run_proc ps (run_proc ps st b) a.
  Proof.
    destruct (Nat.eq_dec a b) as [->|N]; [reflexivity|].
    destruct (ps_run (nth a (e_procs st) no_pstate)) eqn:Ra, (ps_run (nth b (e_procs st) no_pstate)) eqn:Rb.
    - (* both runnable *)
      rewrite (run_proc_runnable st a Ra), (run_proc_runnable st b Rb). cbv zeta.
      set (Xa := proc_step (nth a ps no_proc) (e_now st) (nth a (e_procs st) no_pstate)
                           (currs (e_slots st)) (nexts (e_slots st))).
      set (Xb := proc_step (nth b ps no_proc) (e_now st) (nth b (e_procs st) no_pstate)
                           (currs (e_slots st)) (nexts (e_slots st))).
      rewrite run_proc_runnable by (simpl; rewrite nth_set_nth_neq by auto; exact Rb).
      rewrite (run_proc_runnable (ES _ (set_nth b _ _) _ _ _ _)) by (simpl; rewrite nth_set_nth_neq by auto; exact Ra).
      cbv zeta. simpl.
      rewrite !currs_apply_writes.
      rewrite (nth_set_nth_neq a b) by auto. rewrite (nth_set_nth_neq b a) by auto.
      assert (Fa : forall w, In w (snd Xa) -> Z.land (w_mask w) (own b (w_sig w)) = 0).
      { intros w Hw. eapply sub_disj_other; [apply (proc_step_within a _ _ _ _ _ Hw)|apply (d_disj _ _ D); auto]. }
      assert (Fb : forall w, In w (snd Xb) -> Z.land (w_mask w) (own a (w_sig w)) = 0).
      { intros w Hw. eapply sub_disj_other; [apply (proc_step_within b _ _ _ _ _ Hw)|apply (d_disj _ _ D); auto]. }
      rewrite (proc_step_reads b _ _ _ (nexts (apply_writes (snd Xa) (e_slots st))) (nexts (e_slots st)))
        by (apply nexts_apply_writes_frame; exact Fa).
      rewrite (proc_step_reads a _ _ _ (nexts (apply_writes (snd Xb) (e_slots st))) (nexts (e_slots st)))
        by (apply nexts_apply_writes_frame; exact Fb).
      fold Xa Xb.
      rewrite (apply_writes_comm (snd Xa) (snd Xb)).
      + rewrite (set_nth_comm b a) by auto. reflexivity.
      + intros i w1 w2 H1 H2 E1 E2. apply Nat.eqb_eq in E1, E2.
        eapply mask_sub_disj.
        * apply (proc_step_within a _ _ _ _ _ H1).
        * apply (proc_step_within b _ _ _ _ _ H2).
        * rewrite E1, E2. apply (d_disj _ _ D); auto.
    - rewrite (run_proc_idle st b Rb).
      rewrite (run_proc_runnable st a Ra). cbv zeta.
      rewrite run_proc_idle by (simpl; rewrite nth_set_nth_neq by auto; exact Rb). reflexivity.
    - rewrite (run_proc_idle st a Ra).
      rewrite (run_proc_runnable st b Rb). cbv zeta.
      rewrite run_proc_idle by (simpl; rewrite nth_set_nth_neq by auto; exact Ra). reflexivity.
    - rewrite (run_proc_idle st a Ra), (run_proc_idle st b Rb), (run_proc_idle st a Ra). reflexivity.
  Qed.

  Lemma procs_order_independent o o' st :
    Permutation o o' -> fold_left (run_proc ps) o st = fold_left (run_proc ps) o' st.
  Proof. intros P. apply fold_left_perm; auto. intros; apply run_proc_comm. Qed.
End ProcOrder.

(* ================================================================ 2: order of `pending` *)
Lemma pos_fires_after_fire os i j c n c' n' p :
  i <> j -> pos_fires i c n (pos_fire os j c' n' p) = pos_fires i c n p.
Proof.
  intros N. unfold pos_fire. destruct (pos_fires j c' n' p) eqn:F; auto.
  unfold pos_fires in *. destruct p as [t r h d]; simpl in *.
  destruct t; simpl in *; try (rewrite andb_false_r in F; discriminate).
  - destruct (Nat.eqb sig j) eqn:E; [|rewrite andb_false_r in F; discriminate].
    apply Nat.eqb_eq in E. subst sig.
    replace (Nat.eqb j i) with false by (symmetry; apply Nat.eqb_neq; auto).
    simpl. rewrite !andb_false_r. reflexivity.
  - destruct (Nat.eqb sig j) eqn:E; [|rewrite andb_false_r in F; discriminate].
    apply Nat.eqb_eq in E. subst sig.
    replace (Nat.eqb j i) with false by (symmetry; apply Nat.eqb_neq; auto).
    rewrite !andb_false_r. reflexivity.
Qed.

Lemma pos_fire_comm os i j c n c' n' p :
  i <> j -> pos_fire os i c n (pos_fire os j c' n' p) = pos_fire os j c' n' (pos_fire os i c n p).
Proof.
  intros N. unfold pos_fire at 1 3.
  rewrite pos_fires_after_fire by auto. rewrite pos_fires_after_fire by auto.
  destruct (pos_fires i c n p) eqn:Fi, (pos_fires j c' n' p) eqn:Fj; auto.
  - (* both cannot fire: the element names one signal *)
    exfalso. unfold pos_fires in *. destruct (tp_trig p); try (rewrite andb_false_r in Fi; discriminate).
    + destruct (Nat.eqb sig i) eqn:E1; [|rewrite !andb_false_r in Fi; discriminate].
      destruct (Nat.eqb sig j) eqn:E2; [|rewrite !andb_false_r in Fj; discriminate].
      apply Nat.eqb_eq in E1, E2. congruence.
    + destruct (Nat.eqb sig i) eqn:E1; [|rewrite !andb_false_r in Fi; discriminate].
      destruct (Nat.eqb sig j) eqn:E2; [|rewrite !andb_false_r in Fj; discriminate].
      apply Nat.eqb_eq in E1, E2. congruence.
  - unfold pos_fire. rewrite Fi, Fj. reflexivity.
  - unfold pos_fire. rewrite Fi, Fj. reflexivity.
  - unfold pos_fire. rewrite Fi, Fj. reflexivity.
Qed.

Lemma existsb_fires_after os i j c n c' n' l :
  i <> j -> existsb (pos_fires i c n) (map (pos_fire os j c' n') l) = existsb (pos_fires i c n) l.
Proof.
  intros N. induction l; simpl; auto. rewrite pos_fires_after_fire by auto. rewrite IHl. reflexivity.
Qed.

Lemma notify_comm i j c n c' n' T :
  i <> j -> notify i c n (notify j c' n' T) = notify j c' n' (notify i c n T).
Proof.
  intros N. unfold notify at 2 4.
  destruct (t_broken T) eqn:B.
  - unfold notify. rewrite B. reflexivity.
  - destruct (existsb (pos_fires j c' n') (t_pos T)) eqn:Fj, (existsb (pos_fires i c n) (t_pos T)) eqn:Fi.
    + destruct (t_waiting T) eqn:Wt.
      * unfold notify. simpl.
        rewrite !existsb_fires_after by auto. rewrite Fi, Fj.
        rewrite !map_map. f_equal. apply map_ext. intros p. apply pos_fire_comm; auto.
      * unfold notify. simpl. reflexivity.
    + destruct (t_waiting T) eqn:Wt.
      * unfold notify. simpl. rewrite existsb_fires_after by auto. rewrite Fi, B, Fj, Wt. reflexivity.
      * unfold notify. simpl. rewrite B, Fj, Wt. reflexivity.
    + destruct (t_waiting T) eqn:Wt.
      * unfold notify. simpl. rewrite existsb_fires_after by auto. rewrite Fj, B, Fi, Wt. reflexivity.
      * unfold notify. simpl. rewrite B, Fi, Wt. reflexivity.
    + unfold notify. rewrite B, Fi, Fj. reflexivity.
Qed.

Lemma ps_notify_comm ps i j c n c' n' k p :
  i <> j -> ps_notify ps i c n k (ps_notify ps j c' n' k p) = ps_notify ps j c' n' k (ps_notify ps i c n k p).
Proof.
  intros N. unfold ps_notify. simpl. rewrite (notify_comm i j) by auto. f_equal.
  destruct (ps_run p), (p_wake (nth k ps no_proc) j c' n'), (p_wake (nth k ps no_proc) i c n); auto.
Qed.

Lemma tb_notify_comm i j c n c' n' t :
  i <> j -> tb_notify i c n (tb_notify j c' n' t) = tb_notify j c' n' (tb_notify i c n t).
Proof. intros N. unfold tb_notify. simpl. rewrite (notify_comm i j) by auto. reflexivity. Qed.

Lemma commit_slot_comm ps x i j : commit_slot ps (commit_slot ps x i) j = commit_slot ps (commit_slot ps x j) i.
Proof.
  destruct (Nat.eq_dec i j) as [->|N]; [reflexivity|].
  destruct x as [st ch]. unfold commit_slot at 2 4.
  destruct (nth_error (e_slots st) i) as [si|] eqn:Ei, (nth_error (e_slots st) j) as [sj|] eqn:Ej.
  - destruct (sp si && negb (sc si =? sn si)) eqn:Ci, (sp sj && negb (sc sj =? sn sj)) eqn:Cj.
    + unfold commit_slot. simpl.
      rewrite nth_error_set_nth_neq by auto. rewrite nth_error_set_nth_neq by auto.
      rewrite Ei, Ej, Ci, Cj. f_equal. f_equal.
      * apply set_nth_comm; auto.
      * unfold mapi. rewrite !mapi_from_comp. apply mapi_from_ext. intros. apply ps_notify_comm; auto.
      * rewrite !map_map. apply map_ext. intros. apply tb_notify_comm; auto.
    + unfold commit_slot. simpl. rewrite nth_error_set_nth_neq by auto. rewrite Ei, Ej, Ci, Cj. reflexivity.
    + unfold commit_slot. simpl. rewrite nth_error_set_nth_neq by auto. rewrite Ei, Ej, Ci, Cj. reflexivity.
    + unfold commit_slot. rewrite Ei, Ej, Ci, Cj. reflexivity.
  - destruct (sp si && negb (sc si =? sn si)) eqn:Ci.
    + unfold commit_slot. simpl. rewrite nth_error_set_nth_neq by auto. rewrite Ei, Ej, Ci. reflexivity.
    + unfold commit_slot. rewrite Ei, Ej, Ci. reflexivity.
  - destruct (sp sj && negb (sc sj =? sn sj)) eqn:Cj.
    + unfold commit_slot. simpl. rewrite nth_error_set_nth_neq by auto. rewrite Ei, Ej, Cj. reflexivity.
    + unfold commit_slot. rewrite Ei, Ej, Cj. reflexivity.
  - unfold commit_slot. rewrite Ei, Ej. reflexivity.
Qed.

Lemma commit_order_independent ps o o' x :
  Permutation o o' -> fold_left (commit_slot ps) o x = fold_left (commit_slot ps) o' x.
Proof. intros P. apply fold_left_perm; auto. intros; apply commit_slot_comm. Qed.

(* ================================================================ 1a: order of `_active_triggers` *)
Lemma trig_step_comm st a b : trig_step (trig_step st a) b = trig_step (trig_step st b) a.
Proof.
  destruct a as [a|a], b as [b|b].
  - destruct (Nat.eq_dec a b) as [->|N]; [reflexivity|].
    unfold trig_step at 2 4.
    destruct (t_active (ps_trig (nth a (e_procs st) no_pstate))) eqn:Aa,
             (t_active (ps_trig (nth b (e_procs st) no_pstate))) eqn:Ab;
      unfold trig_step; simpl; rewrite ?(nth_set_nth_neq a b), ?(nth_set_nth_neq b a) by auto;
      rewrite ?Aa, ?Ab; simpl; auto.
    rewrite (set_nth_comm b a) by auto. reflexivity.
  - unfold trig_step at 2 4.
    destruct (t_active (ps_trig (nth a (e_procs st) no_pstate))) eqn:Aa,
             (t_active (tb_trig (nth b (e_tbs st) no_tb))) eqn:Ab;
      unfold trig_step; simpl; rewrite ?Aa, ?Ab; simpl; auto.
  - unfold trig_step at 2 4.
    destruct (t_active (tb_trig (nth a (e_tbs st) no_tb))) eqn:Aa,
             (t_active (ps_trig (nth b (e_procs st) no_pstate))) eqn:Ab;
      unfold trig_step; simpl; rewrite ?Aa, ?Ab; simpl; auto.
  - destruct (Nat.eq_dec a b) as [->|N]; [reflexivity|].
    unfold trig_step at 2 4.
    destruct (t_active (tb_trig (nth a (e_tbs st) no_tb))) eqn:Aa,
             (t_active (tb_trig (nth b (e_tbs st) no_tb))) eqn:Ab;
      unfold trig_step; simpl; rewrite ?(nth_set_nth_neq a b), ?(nth_set_nth_neq b a) by auto;
      rewrite ?Aa, ?Ab; simpl; auto.
    rewrite (set_nth_comm b a) by auto. reflexivity.
Qed.

Lemma trigger_order_independent o o' st :
  Permutation o o' -> fold_left trig_step o st = fold_left trig_step o' st.
Proof. intros P. apply fold_left_perm; auto. intros; apply trig_step_comm. Qed.

(* ================================================================ one delta, settle, whole runs *)
Definition orders_equiv (o o' : orders) : Prop :=
  Permutation (o_trig o) (o_trig o') /\ Permutation (o_proc o) (o_proc o') /\ Permutation (o_commit o) (o_commit o').

Definition oracle_equiv (orc orc' : oracle) : Prop := forall n, orders_equiv (orc n) (orc' n).

Section Runs.
  Variable ps : list proc.
  Hypothesis WD : write_disjoint ps.

  Lemma run_delta_order_independent o o' st : orders_equiv o o' -> run_delta ps o st = run_delta ps o' st.
  Proof.
    destruct WD as [own D]. intros (P1 & P2 & P3). unfold run_delta.
    rewrite (trigger_order_independent _ _ st P1).
    rewrite (procs_order_independent ps own D _ _ _ P2).
    rewrite (commit_order_independent ps _ _ _ P3). reflexivity.
  Qed.

  Variables orc orc' : oracle.
  Hypothesis OE : oracle_equiv orc orc'.

  Lemma settle_order_independent fuel st : settle ps orc fuel st = settle ps orc' fuel st.
  Proof.
    revert st; induction fuel as [|f IH]; intros st; simpl; auto.
    rewrite (run_delta_order_independent _ _ st (OE (e_deltas st))).
    destruct (run_delta ps (orc' (e_deltas st)) st) as [st' c]. destruct c; auto.
  Qed.

  Lemma tb_set_order_independent sfuel sig sh v st :
    tb_set ps orc sfuel sig sh v st = tb_set ps orc' sfuel sig sh v st.
  Proof. unfold tb_set. rewrite settle_order_independent. reflexivity. Qed.

  Lemma tb_exec_order_independent sfuel fuel k st :
    tb_exec ps orc sfuel fuel k st = tb_exec ps orc' sfuel fuel k st.
  Proof.
    revert st; induction fuel as [|f IH]; intros st; [reflexivity|].
    cbn [tb_exec]. cbv zeta.
    destruct (tb_mode (nth k (e_tbs st) no_tb) =? 0).
    - destruct (tb_ops (nth k (e_tbs st) no_tb)) as [|[sig sh v|sig|spec b|spec|spec n] r]; auto.
      rewrite tb_set_order_independent. apply IH.
    - destruct (t_broken (tb_trig (nth k (e_tbs st) no_tb))); auto.
      destruct (tb_mode (nth k (e_tbs st) no_tb) =? 1); auto.
      destruct (tick_fmt (tb_res (nth k (e_tbs st) no_tb))) as [|c [|r vs]]; auto.
      destruct (negb (r =? 0)); auto.
      destruct (tb_mode (nth k (e_tbs st) no_tb) =? 2).
      + destruct (negb (last vs 0 =? 0)); auto.
      + destruct (tb_cnt (nth k (e_tbs st) no_tb)) as [|[|m]]; auto.
  Qed.

  Lemma tb_pass_order_independent sfuel ks acc :
    tb_pass ps orc sfuel ks acc = tb_pass ps orc' sfuel ks acc.
  Proof.
    revert acc; induction ks as [|k r IH]; intros [st ran]; cbn [tb_pass]; auto.
    cbv zeta. destruct (tb_run (nth k (e_tbs st) no_tb)); auto.
    rewrite tb_exec_order_independent. apply IH.
  Qed.

  Lemma tb_loop_order_independent sfuel fuel st :
    tb_loop ps orc sfuel fuel st = tb_loop ps orc' sfuel fuel st.
  Proof.
    revert st; induction fuel as [|f IH]; intros st; cbn [tb_loop]; auto.
    rewrite tb_pass_order_independent.
    destruct (tb_pass ps orc' sfuel (seq 0 (length (e_tbs st))) (st, false)) as [st' ran].
    destruct ran; auto.
  Qed.

  Lemma advance_order_independent sfuel tfuel st :
    advance ps orc sfuel tfuel st = advance ps orc' sfuel tfuel st.
  Proof. unfold advance. rewrite settle_order_independent, tb_loop_order_independent. reflexivity. Qed.

  (* the whole run (every testbench record, every final signal value, the time) is the same whatever order the
     three sets are iterated in at each delta cycle *)
  Lemma run_order_independent sfuel tfuel t_end fuel st :
    run ps orc sfuel tfuel t_end fuel st = run ps orc' sfuel tfuel t_end fuel st.
  Proof.
    revert st; induction fuel as [|f IH]; intros st; cbn [run]; auto.
    rewrite advance_order_independent.
    destruct (advance ps orc' sfuel tfuel st) as [st' crit].
    destruct (crit && (e_now st' <=? t_end) && negb (quiescent st')); auto.
  Qed.
End Runs.

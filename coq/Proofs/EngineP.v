(* EngineP.v — proofs about the delta-cycle engine model (Model/Engine.v): independence of the iteration orders of
   the three sets, determinism of settle / whole runs, exactness of the timeline and the clock process. *)
From Coq Require Import ZArith List Bool Lia Permutation.
From V.Model Require Import Bits Shape Ast Denote PyRTL PyEval Stmt Process Engine.
From V.Proofs Require Import BitsP ShapeP ExprP StmtP ProcessP.
Import ListNotations.
Open Scope Z_scope.

(* ================================================================ lists *)
Lemma set_nth_length {A} (n : nat) (x : A) l : length (set_nth n x l) = length l.
Proof. revert n; induction l as [|h t IH]; intros [|n]; simpl; auto. Qed.

Lemma nth_set_nth_eq {A} (n : nat) (x d : A) l : (n < length l)%nat -> nth n (set_nth n x l) d = x.
Proof. revert n; induction l as [|h t IH]; intros [|n] H; simpl in *; try lia; auto. apply IH; lia. Qed.

Lemma nth_set_nth_neq {A} (n m : nat) (x d : A) l : n <> m -> nth m (set_nth n x l) d = nth m l d.
Proof.
  revert n m; induction l as [|h t IH]; intros [|n] [|m] H; simpl; auto; try congruence.
Qed.

Lemma nth_error_set_nth_neq {A} (n m : nat) (x : A) l : n <> m -> nth_error (set_nth n x l) m = nth_error l m.
Proof.
  revert n m; induction l as [|h t IH]; intros [|n] [|m] H; simpl; auto; try congruence.
Qed.

Lemma set_nth_comm {A} (n m : nat) (x y : A) l :
  n <> m -> set_nth n x (set_nth m y l) = set_nth m y (set_nth n x l).
Proof.
  revert n m; induction l as [|h t IH]; intros [|n] [|m] H; simpl; auto; try congruence.
  f_equal; apply IH; congruence.
Qed.

Lemma set_nth_beyond {A} (n : nat) (x : A) l : (length l <= n)%nat -> set_nth n x l = l.
Proof. revert n; induction l as [|h t IH]; intros [|n] H; simpl in *; auto; try lia. f_equal; apply IH; lia. Qed.

Lemma mapi_from_ext {A B} (f g : nat -> A -> B) l k :
  (forall i x, f i x = g i x) -> mapi_from k f l = mapi_from k g l.
Proof. intros H; revert k; induction l; intros; simpl; [auto|rewrite H, IHl; auto]. Qed.

Lemma mapi_from_comp {A B C} (f : nat -> B -> C) (g : nat -> A -> B) l k :
  mapi_from k f (mapi_from k g l) = mapi_from k (fun i x => f i (g i x)) l.
Proof. revert k; induction l; intros; simpl; [auto|rewrite IHl; auto]. Qed.

Lemma mapi_from_length {A B} (f : nat -> A -> B) l k : length (mapi_from k f l) = length l.
Proof. revert k; induction l; intros; simpl; auto. Qed.

Lemma mapi_from_nth {A B} (f : nat -> A -> B) l k i da db :
  (i < length l)%nat -> nth i (mapi_from k f l) db = f (k + i)%nat (nth i l da).
Proof.
  revert k i; induction l as [|h t IH]; intros k [|i] H; simpl in *; try lia.
  - f_equal; lia.
  - rewrite IH by lia. f_equal; lia.
Qed.

Lemma map_mapi_from {A B C} (g : B -> C) (f : nat -> A -> B) l k :
  map g (mapi_from k f l) = mapi_from k (fun i x => g (f i x)) l.
Proof. revert k; induction l; intros; simpl; [auto|rewrite IHl; auto]. Qed.

Lemma mapi_from_const_map {A B} (f : A -> B) l k : mapi_from k (fun _ x => f x) l = map f l.
Proof. revert k; induction l; intros; simpl; [auto|rewrite IHl; auto]. Qed.

(* fold over a list of commuting steps is invariant under permutation *)
Lemma fold_left_perm {S A} (f : S -> A -> S) :
  (forall s a b, f (f s a) b = f (f s b) a) ->
  forall l l', Permutation l l' -> forall s, fold_left f l s = fold_left f l' s.
Proof.
  intros C l l' P; induction P; intros s; simpl; auto.
  - rewrite C; auto.
  - rewrite IHP1; auto.
Qed.

(* ================================================================ bits *)
Lemma land0_bits a b : Z.land a b = 0 -> forall n, Z.testbit a n && Z.testbit b n = false.
Proof. intros H n. rewrite <- Z.land_spec, H. apply Z.bits_0. Qed.

Lemma su_bits old v m n :
  Z.testbit (slot_update old v m) n = if Z.testbit m n then Z.testbit v n else Z.testbit old n.
Proof.
  unfold slot_update. destruct (Z.neg_nonneg_cases n) as [Hn|Hn].
  - rewrite !Z.testbit_neg_r by lia. destruct (Z.testbit m n); auto.
  - rewrite Z.lor_spec, !Z.land_spec, Z.lnot_spec by lia.
    destruct (Z.testbit m n), (Z.testbit v n), (Z.testbit old n); auto.
Qed.

(* two updates with disjoint masks commute *)
Lemma su_comm x v1 m1 v2 m2 :
  Z.land m1 m2 = 0 ->
  slot_update (slot_update x v1 m1) v2 m2 = slot_update (slot_update x v2 m2) v1 m1.
Proof.
  intros D. apply Z.bits_inj'. intros n _. rewrite !su_bits.
  pose proof (land0_bits _ _ D n) as E.
  destruct (Z.testbit m1 n), (Z.testbit m2 n); simpl in E; auto; discriminate.
Qed.

(* an update changes the value iff it changes a bit under the mask *)
Lemma su_same_iff x v m : slot_update x v m = x <-> Z.land x m = Z.land v m.
Proof.
  split; intros H.
  - apply Z.bits_inj'. intros n _. rewrite !Z.land_spec.
    assert (E := f_equal (fun z => Z.testbit z n) H). simpl in E. rewrite su_bits in E.
    destruct (Z.testbit m n), (Z.testbit x n), (Z.testbit v n); simpl in *; auto; congruence.
  - apply Z.bits_inj'. intros n _. rewrite su_bits.
    assert (E := f_equal (fun z => Z.testbit z n) H). simpl in E. rewrite !Z.land_spec in E.
    destruct (Z.testbit m n), (Z.testbit x n), (Z.testbit v n); simpl in *; auto; congruence.
Qed.

Lemma su_land_other x v m1 m2 : Z.land m1 m2 = 0 -> Z.land (slot_update x v m1) m2 = Z.land x m2.
Proof.
  intros D. apply Z.bits_inj'. intros n _. rewrite !Z.land_spec, su_bits.
  pose proof (land0_bits _ _ D n) as E.
  destruct (Z.testbit m1 n), (Z.testbit m2 n), (Z.testbit x n), (Z.testbit v n); simpl in *; auto; discriminate.
Qed.

Lemma su_changed_indep x v1 m1 v2 m2 :
  Z.land m1 m2 = 0 ->
  (slot_update x v1 m1 =? slot_update (slot_update x v1 m1) v2 m2) = (x =? slot_update x v2 m2).
Proof.
  intros D. apply eq_true_iff_eq. rewrite !Z.eqb_eq.
  split; intros H; symmetry; apply su_same_iff; symmetry in H; apply su_same_iff in H.
  - rewrite su_land_other in H by auto. exact H.
  - rewrite su_land_other by auto. exact H.
Qed.

Lemma mask_sub_disj k1 k2 o1 o2 :
  Z.land k1 (Z.lnot o1) = 0 -> Z.land k2 (Z.lnot o2) = 0 -> Z.land o1 o2 = 0 -> Z.land k1 k2 = 0.
Proof.
  intros H1 H2 D. apply Z.bits_inj'. intros n Hn. rewrite Z.land_spec, Z.bits_0.
  pose proof (land0_bits _ _ H1 n) as E1. pose proof (land0_bits _ _ H2 n) as E2.
  pose proof (land0_bits _ _ D n) as E3. rewrite Z.lnot_spec in E1, E2 by lia.
  destruct (Z.testbit k1 n), (Z.testbit k2 n), (Z.testbit o1 n), (Z.testbit o2 n); simpl in *; auto; discriminate.
Qed.

(* ================================================================ slots *)
(* normal form of one update() *)
Lemma slot_apply_nf i s w :
  slot_apply i s w =
  if Nat.eqb (w_sig w) i
  then Slot (sc s) (slot_update (sn s) (w_val w) (w_mask w))
            (sp s || negb (sn s =? slot_update (sn s) (w_val w) (w_mask w)))
  else s.
Proof.
  unfold slot_apply. destruct (Nat.eqb (w_sig w) i); auto.
  destruct (sn s =? slot_update (sn s) (w_val w) (w_mask w)) eqn:E.
  - apply Z.eqb_eq in E. rewrite <- E. destruct s; simpl. rewrite orb_false_r; auto.
  - simpl. rewrite orb_true_r; auto.
Qed.

Lemma slot_apply_sc i s w : sc (slot_apply i s w) = sc s.
Proof. rewrite slot_apply_nf. destruct (Nat.eqb (w_sig w) i); reflexivity. Qed.

Lemma pend_comm n v1 m1 v2 m2 (p : bool) :
  Z.land m1 m2 = 0 ->
  (p || negb (n =? slot_update n v1 m1)) || negb (slot_update n v1 m1 =? slot_update (slot_update n v1 m1) v2 m2) =
  (p || negb (n =? slot_update n v2 m2)) || negb (slot_update n v2 m2 =? slot_update (slot_update n v2 m2) v1 m1).
Proof.
  intros D. rewrite su_changed_indep by auto.
  rewrite (su_changed_indep n v2 m2 v1 m1) by (rewrite Z.land_comm; auto).
  destruct p, (n =? slot_update n v1 m1), (n =? slot_update n v2 m2); auto.
Qed.

Lemma slot_apply_comm i s w1 w2 :
  (Nat.eqb (w_sig w1) i = true -> Nat.eqb (w_sig w2) i = true -> Z.land (w_mask w1) (w_mask w2) = 0) ->
  slot_apply i (slot_apply i s w1) w2 = slot_apply i (slot_apply i s w2) w1.
Proof.
  intros D. rewrite !slot_apply_nf.
  destruct (Nat.eqb (w_sig w1) i) eqn:E1, (Nat.eqb (w_sig w2) i) eqn:E2; simpl; auto.
  specialize (D eq_refl eq_refl).
  f_equal; [apply su_comm | apply pend_comm]; auto.
Qed.

Definition ws_disj (i : nat) (ws1 ws2 : list write) : Prop :=
  forall w1 w2, In w1 ws1 -> In w2 ws2 -> Nat.eqb (w_sig w1) i = true -> Nat.eqb (w_sig w2) i = true ->
                Z.land (w_mask w1) (w_mask w2) = 0.

Lemma fold_slot_apply_comm1 i ws w s :
  ws_disj i [w] ws ->
  fold_left (slot_apply i) ws (slot_apply i s w) = slot_apply i (fold_left (slot_apply i) ws s) w.
Proof.
  revert s; induction ws as [|w' ws IH]; intros s D; simpl; auto.
  rewrite <- IH.
  - f_equal. apply slot_apply_comm. intros; apply (D w w'); simpl; auto.
  - intros a b Ha Hb. apply D; simpl in *; auto.
Qed.

Lemma fold_slot_apply_comm i ws1 ws2 s :
  ws_disj i ws1 ws2 ->
  fold_left (slot_apply i) ws2 (fold_left (slot_apply i) ws1 s) =
  fold_left (slot_apply i) ws1 (fold_left (slot_apply i) ws2 s).
Proof.
  revert s; induction ws1 as [|w ws1 IH]; intros s D; simpl; auto.
  rewrite IH.
  - f_equal. apply fold_slot_apply_comm1. intros a b Ha Hb. apply D; simpl in *; intuition.
  - intros a b Ha Hb. apply D; simpl; auto.
Qed.

Lemma apply_writes_comm ws1 ws2 sl :
  (forall i, ws_disj i ws1 ws2) ->
  apply_writes ws2 (apply_writes ws1 sl) = apply_writes ws1 (apply_writes ws2 sl).
Proof.
  intros D. unfold apply_writes, mapi. rewrite !mapi_from_comp.
  apply mapi_from_ext. intros i x. apply fold_slot_apply_comm. apply D.
Qed.

Lemma fold_slot_apply_sc i ws s : sc (fold_left (slot_apply i) ws s) = sc s.
Proof. revert s; induction ws; intros; simpl; auto. rewrite IHws. apply slot_apply_sc. Qed.

Lemma currs_apply_writes ws sl : currs (apply_writes ws sl) = currs sl.
Proof.
  unfold currs, apply_writes, mapi. rewrite map_mapi_from.
  rewrite (mapi_from_ext _ (fun _ x => sc x)) by (intros; apply fold_slot_apply_sc).
  apply mapi_from_const_map.
Qed.

Lemma apply_writes_length ws sl : length (apply_writes ws sl) = length sl.
Proof. apply mapi_from_length. Qed.

(* bits outside the masks of the writes keep their `next` value *)
Lemma fold_slot_apply_frame i ws s o :
  (forall w, In w ws -> Nat.eqb (w_sig w) i = true -> Z.land (w_mask w) o = 0) ->
  Z.land (sn (fold_left (slot_apply i) ws s)) o = Z.land (sn s) o.
Proof.
  revert s; induction ws as [|w ws IH]; intros s H; simpl; auto.
  rewrite IH by (intros; apply H; simpl; auto).
  rewrite slot_apply_nf. destruct (Nat.eqb (w_sig w) i) eqn:E; auto. simpl.
  apply su_land_other. apply H; simpl; auto.
Qed.

Lemma nexts_apply_writes_frame ws sl (o : nat -> Z) :
  (forall w, In w ws -> Z.land (w_mask w) (o (w_sig w)) = 0) ->
  forall i, Z.land (nth i (nexts (apply_writes ws sl)) 0) (o i) = Z.land (nth i (nexts sl) 0) (o i).
Proof.
  intros H i. unfold nexts.
  destruct (Nat.lt_ge_cases i (length sl)) as [L|L].
  - rewrite (nth_indep _ 0 (sn (Slot 0 0 false))) by (rewrite map_length, apply_writes_length; auto).
    rewrite (nth_indep (map sn sl) 0 (sn (Slot 0 0 false))) by (rewrite map_length; auto).
    rewrite !map_nth. unfold apply_writes, mapi.
    rewrite (mapi_from_nth _ _ _ _ (Slot 0 0 false)) by auto. simpl.
    apply fold_slot_apply_frame. intros w Hw E. apply Nat.eqb_eq in E. subst i. apply H; auto.
  - rewrite !nth_overflow; auto; rewrite map_length; try rewrite apply_writes_length; auto.
Qed.

(* ================================================================ 1b: order of `_processes` *)
(* write_disjoint: every process k writes only inside its own bit set `own k i` of slot i, the own sets of two
   processes are disjoint, and run() depends on `next` only through the process's own bits, up to the bits of the written values
   that the masks discard (an RTL sync process starts from slots[i].next of the signals it drives). *)
(* two update() calls are equivalent when they name the same slot and mask and agree under the mask *)
Definition weq (w w' : write) : Prop :=
  w_sig w = w_sig w' /\ w_mask w = w_mask w' /\ Z.land (w_val w) (w_mask w) = Z.land (w_val w') (w_mask w').
Definition weqs : list write -> list write -> Prop := Forall2 weq.

Lemma weqs_refl ws : weqs ws ws.
Proof. induction ws; constructor; auto. repeat split. Qed.

Lemma su_val_mask x v v' m : Z.land v m = Z.land v' m -> slot_update x v m = slot_update x v' m.
Proof.
  intros H. apply Z.bits_inj'. intros n _. rewrite !su_bits.
  assert (E := f_equal (fun z => Z.testbit z n) H). simpl in E. rewrite !Z.land_spec in E.
  destruct (Z.testbit m n); auto. rewrite !andb_true_r in E. exact E.
Qed.

Lemma slot_apply_weq i s w w' : weq w w' -> slot_apply i s w = slot_apply i s w'.
Proof.
  intros (E1 & E2 & E3). unfold slot_apply. rewrite <- E1, <- E2.
  rewrite (su_val_mask (sn s) (w_val w) (w_val w') (w_mask w)) by (rewrite E3, E2; reflexivity). reflexivity.
Qed.

Lemma apply_writes_weqs ws ws' sl : weqs ws ws' -> apply_writes ws sl = apply_writes ws' sl.
Proof.
  intros H. unfold apply_writes, mapi. apply mapi_from_ext. intros i x. revert x.
  induction H as [|w w' l l' Hw Hl IH]; intros x; simpl; auto. rewrite (slot_apply_weq i x w w' Hw). apply IH.
Qed.

Record disc (ps : list proc) (own : nat -> nat -> Z) : Prop := {
  d_disj : forall a b i, a <> b -> Z.land (own a i) (own b i) = 0;
  d_within : forall k l res cu nx w, In w (r_writes (p_run (nth k ps no_proc) l res cu nx)) ->
               Z.land (w_mask w) (Z.lnot (own k (w_sig w))) = 0;
  d_reads : forall k l res cu nx nx',
               (forall i, Z.land (nth i nx 0) (own k i) = Z.land (nth i nx' 0) (own k i)) ->
               r_local (p_run (nth k ps no_proc) l res cu nx) = r_local (p_run (nth k ps no_proc) l res cu nx') /\
               r_delay (p_run (nth k ps no_proc) l res cu nx) = r_delay (p_run (nth k ps no_proc) l res cu nx') /\
               weqs (r_writes (p_run (nth k ps no_proc) l res cu nx)) (r_writes (p_run (nth k ps no_proc) l res cu nx')) }.

Definition write_disjoint (ps : list proc) : Prop := exists own, disc ps own.

Lemma sub_disj_other k oa ob : Z.land k (Z.lnot oa) = 0 -> Z.land oa ob = 0 -> Z.land k ob = 0.
Proof.
  intros H D. apply Z.bits_inj'. intros n Hn. rewrite Z.land_spec, Z.bits_0.
  pose proof (land0_bits _ _ H n) as E1. pose proof (land0_bits _ _ D n) as E2.
  rewrite Z.lnot_spec in E1 by lia.
  destruct (Z.testbit k n), (Z.testbit oa n), (Z.testbit ob n); simpl in *; auto; discriminate.
Qed.

Section ProcOrder.
  Variable ps : list proc.
  Variable own : nat -> nat -> Z.
  Hypothesis D : disc ps own.

  Lemma proc_step_within k now p cu nx w :
    In w (snd (proc_step (nth k ps no_proc) now p cu nx)) -> Z.land (w_mask w) (Z.lnot (own k (w_sig w))) = 0.
  Proof.
    unfold proc_step. cbv zeta beta. destruct (p_trig (nth k ps no_proc)).
    - cbn [snd]. apply (d_within _ _ D).
    - destruct (ps_first p).
      + destruct (has_changed (t :: l)); cbn [snd r_writes In]; [apply (d_within _ _ D)|tauto].
      + destruct (t_broken (ps_trig p)); cbn [snd r_writes In]; [tauto|apply (d_within _ _ D)].
  Qed.

  Lemma proc_step_reads k now p cu nx nx' :
    (forall i, Z.land (nth i nx 0) (own k i) = Z.land (nth i nx' 0) (own k i)) ->
    fst (proc_step (nth k ps no_proc) now p cu nx) = fst (proc_step (nth k ps no_proc) now p cu nx') /\
    weqs (snd (proc_step (nth k ps no_proc) now p cu nx)) (snd (proc_step (nth k ps no_proc) now p cu nx')).
  Proof.
    intros H. unfold proc_step. cbv zeta beta. destruct (p_trig (nth k ps no_proc)).
    - destruct (d_reads _ _ D k (ps_local p) [] cu nx nx' H) as (E1 & E2 & E3).
      cbn [fst snd]. rewrite E1, E2. split; auto.
    - destruct (ps_first p).
      + destruct (has_changed (t :: l)); [|split; [reflexivity|apply weqs_refl]].
        destruct (d_reads _ _ D k (ps_local p) (compute_result cu (fresh_trig (t :: l) false now)) cu nx nx' H)
          as (E1 & E2 & E3).
        cbn [fst snd]. rewrite E1, E2. split; auto.
      + destruct (t_broken (ps_trig p)); [split; [reflexivity|apply weqs_refl]|].
        destruct (d_reads _ _ D k (ps_local p) (ps_res p) cu nx nx' H) as (E1 & E2 & E3).
        cbn [fst snd]. rewrite E1, E2. split; auto.
  Qed.

  Lemma run_proc_runnable st k :
    ps_run (nth k (e_procs st) no_pstate) = true ->
    run_proc ps st k =
    let X := proc_step (nth k ps no_proc) (e_now st) (nth k (e_procs st) no_pstate)
                       (currs (e_slots st)) (nexts (e_slots st)) in
    ES (apply_writes (snd X) (e_slots st)) (set_nth k (fst X) (e_procs st)) (e_tbs st)
       (e_now st) (e_deltas st) (e_trace st).
  Proof. intros H. unfold run_proc. rewrite H. destruct proc_step; reflexivity. Qed.

  Lemma run_proc_idle st k :
    ps_run (nth k (e_procs st) no_pstate) = false -> run_proc ps st k = st.
  Proof. intros H. unfold run_proc. rewrite H. reflexivity. Qed.

  Lemma run_proc_comm st a b : run_proc ps (run_proc ps st a) b = run_proc ps (run_proc ps st b) a.
  Proof.
    destruct (Nat.eq_dec a b) as [->|N]; [reflexivity|].
    destruct (ps_run (nth a (e_procs st) no_pstate)) eqn:Ra, (ps_run (nth b (e_procs st) no_pstate)) eqn:Rb.
    - (* both runnable *)
      rewrite (run_proc_runnable st a Ra), (run_proc_runnable st b Rb). cbv zeta.
      set (Xa := proc_step (nth a ps no_proc) (e_now st) (nth a (e_procs st) no_pstate)
                           (currs (e_slots st)) (nexts (e_slots st))).
      set (Xb := proc_step (nth b ps no_proc) (e_now st) (nth b (e_procs st) no_pstate)
                           (currs (e_slots st)) (nexts (e_slots st))).
      rewrite run_proc_runnable by (simpl; rewrite nth_set_nth_neq by auto; exact Rb).
      rewrite (run_proc_runnable (ES _ (set_nth b _ _) _ _ _ _)) by (simpl; rewrite nth_set_nth_neq by auto; exact Ra).
      cbv zeta. simpl.
      rewrite !currs_apply_writes.
      rewrite (nth_set_nth_neq a b) by auto. rewrite (nth_set_nth_neq b a) by auto.
      assert (Fa : forall w, In w (snd Xa) -> Z.land (w_mask w) (own b (w_sig w)) = 0).
      { intros w Hw. eapply sub_disj_other; [apply (proc_step_within a _ _ _ _ _ Hw)|apply (d_disj _ _ D); auto]. }
      assert (Fb : forall w, In w (snd Xb) -> Z.land (w_mask w) (own a (w_sig w)) = 0).
      { intros w Hw. eapply sub_disj_other; [apply (proc_step_within b _ _ _ _ _ Hw)|apply (d_disj _ _ D); auto]. }
      destruct (proc_step_reads b (e_now st) (nth b (e_procs st) no_pstate) (currs (e_slots st))
                  (nexts (apply_writes (snd Xa) (e_slots st))) (nexts (e_slots st))
                  (nexts_apply_writes_frame _ _ _ Fa)) as [Eb1 Eb2].
      destruct (proc_step_reads a (e_now st) (nth a (e_procs st) no_pstate) (currs (e_slots st))
                  (nexts (apply_writes (snd Xb) (e_slots st))) (nexts (e_slots st))
                  (nexts_apply_writes_frame _ _ _ Fb)) as [Ea1 Ea2].
      rewrite Eb1, Ea1. rewrite (apply_writes_weqs _ _ _ Eb2), (apply_writes_weqs _ _ _ Ea2).
      fold Xa Xb.
      rewrite (apply_writes_comm (snd Xa) (snd Xb)).
      + rewrite (set_nth_comm b a) by auto. reflexivity.
      + intros i w1 w2 H1 H2 E1 E2. apply Nat.eqb_eq in E1, E2.
        eapply mask_sub_disj.
        * apply (proc_step_within a _ _ _ _ _ H1).
        * apply (proc_step_within b _ _ _ _ _ H2).
        * rewrite E1, E2. apply (d_disj _ _ D); auto.
    - rewrite (run_proc_idle st b Rb).
      rewrite (run_proc_runnable st a Ra). cbv zeta.
      rewrite run_proc_idle by (simpl; rewrite nth_set_nth_neq by auto; exact Rb). reflexivity.
    - rewrite (run_proc_idle st a Ra).
      rewrite (run_proc_runnable st b Rb). cbv zeta.
      rewrite run_proc_idle by (simpl; rewrite nth_set_nth_neq by auto; exact Ra). reflexivity.
    - rewrite (run_proc_idle st a Ra), (run_proc_idle st b Rb), (run_proc_idle st a Ra). reflexivity.
  Qed.

  Lemma procs_order_independent o o' st :
    Permutation o o' -> fold_left (run_proc ps) o st = fold_left (run_proc ps) o' st.
  Proof. intros P. apply fold_left_perm; auto. intros; apply run_proc_comm. Qed.
End ProcOrder.

(* ================================================================ 2: order of `pending` *)
Lemma pos_fires_after_fire os i j c n c' n' p :
  i <> j -> pos_fires i c n (pos_fire os j c' n' p) = pos_fires i c n p.
Proof.
  intros N. unfold pos_fire. destruct (pos_fires j c' n' p) eqn:F; auto.
  unfold pos_fires in *. destruct p as [t r h d]; simpl in *.
  destruct t; simpl in *; try (rewrite andb_false_r in F; discriminate).
  - destruct (Nat.eqb sig j) eqn:E; [|rewrite andb_false_r in F; discriminate].
    apply Nat.eqb_eq in E. subst sig.
    replace (Nat.eqb j i) with false by (symmetry; apply Nat.eqb_neq; auto).
    simpl. rewrite !andb_false_r. reflexivity.
  - destruct (Nat.eqb sig j) eqn:E; [|rewrite andb_false_r in F; discriminate].
    apply Nat.eqb_eq in E. subst sig.
    replace (Nat.eqb j i) with false by (symmetry; apply Nat.eqb_neq; auto).
    rewrite !andb_false_r. reflexivity.
Qed.

Lemma pos_fire_comm os i j c n c' n' p :
  i <> j -> pos_fire os i c n (pos_fire os j c' n' p) = pos_fire os j c' n' (pos_fire os i c n p).
Proof.
  intros N. unfold pos_fire at 1 3.
  rewrite pos_fires_after_fire by auto. rewrite pos_fires_after_fire by auto.
  destruct (pos_fires i c n p) eqn:Fi, (pos_fires j c' n' p) eqn:Fj; auto.
  - (* both cannot fire: the element names one signal *)
    exfalso. unfold pos_fires in *. destruct (tp_trig p); try (rewrite andb_false_r in Fi; discriminate).
    + destruct (Nat.eqb sig i) eqn:E1; [|rewrite !andb_false_r in Fi; discriminate].
      destruct (Nat.eqb sig j) eqn:E2; [|rewrite !andb_false_r in Fj; discriminate].
      apply Nat.eqb_eq in E1, E2. congruence.
    + destruct (Nat.eqb sig i) eqn:E1; [|rewrite !andb_false_r in Fi; discriminate].
      destruct (Nat.eqb sig j) eqn:E2; [|rewrite !andb_false_r in Fj; discriminate].
      apply Nat.eqb_eq in E1, E2. congruence.
  - unfold pos_fire. rewrite Fi, Fj. reflexivity.
  - unfold pos_fire. rewrite Fi, Fj. reflexivity.
  - unfold pos_fire. rewrite Fi, Fj. reflexivity.
Qed.

Lemma existsb_fires_after os i j c n c' n' l :
  i <> j -> existsb (pos_fires i c n) (map (pos_fire os j c' n') l) = existsb (pos_fires i c n) l.
Proof.
  intros N. induction l; simpl; auto. rewrite pos_fires_after_fire by auto. rewrite IHl. reflexivity.
Qed.

Lemma notify_comm i j c n c' n' T :
  i <> j -> notify i c n (notify j c' n' T) = notify j c' n' (notify i c n T).
Proof.
  intros N. unfold notify at 2 4.
  destruct (t_broken T) eqn:B.
  - unfold notify. rewrite B. reflexivity.
  - destruct (existsb (pos_fires j c' n') (t_pos T)) eqn:Fj, (existsb (pos_fires i c n) (t_pos T)) eqn:Fi.
    + destruct (t_waiting T) eqn:Wt.
      * unfold notify. simpl.
        rewrite !existsb_fires_after by auto. rewrite Fi, Fj.
        rewrite !map_map. f_equal. apply map_ext. intros p. apply pos_fire_comm; auto.
      * unfold notify. simpl. reflexivity.
    + destruct (t_waiting T) eqn:Wt.
      * unfold notify. simpl. rewrite existsb_fires_after by auto. rewrite Fi, B, Fj, Wt. reflexivity.
      * unfold notify. simpl. rewrite B, Fj, Wt. reflexivity.
    + destruct (t_waiting T) eqn:Wt.
      * unfold notify. simpl. rewrite existsb_fires_after by auto. rewrite Fj, B, Fi, Wt. reflexivity.
      * unfold notify. simpl. rewrite B, Fi, Wt. reflexivity.
    + unfold notify. rewrite B, Fi, Fj. reflexivity.
Qed.

Lemma ps_notify_comm ps i j c n c' n' k p :
  i <> j -> ps_notify ps i c n k (ps_notify ps j c' n' k p) = ps_notify ps j c' n' k (ps_notify ps i c n k p).
Proof.
  intros N. unfold ps_notify. simpl. rewrite (notify_comm i j) by auto. f_equal.
  destruct (ps_run p), (p_wake (nth k ps no_proc) j c' n'), (p_wake (nth k ps no_proc) i c n); auto.
Qed.

Lemma tb_notify_comm i j c n c' n' t :
  i <> j -> tb_notify i c n (tb_notify j c' n' t) = tb_notify j c' n' (tb_notify i c n t).
Proof. intros N. unfold tb_notify. simpl. rewrite (notify_comm i j) by auto. reflexivity. Qed.

Lemma commit_slot_comm ps x i j : commit_slot ps (commit_slot ps x i) j = commit_slot ps (commit_slot ps x j) i.
Proof.
  destruct (Nat.eq_dec i j) as [->|N]; [reflexivity|].
  destruct x as [st ch]. unfold commit_slot at 2 4.
  destruct (nth_error (e_slots st) i) as [si|] eqn:Ei, (nth_error (e_slots st) j) as [sj|] eqn:Ej.
  - destruct (sp si && negb (sc si =? sn si)) eqn:Ci, (sp sj && negb (sc sj =? sn sj)) eqn:Cj.
    + unfold commit_slot. simpl.
      rewrite nth_error_set_nth_neq by auto. rewrite nth_error_set_nth_neq by auto.
      rewrite Ei, Ej, Ci, Cj. f_equal. f_equal.
      * apply set_nth_comm; auto.
      * unfold mapi. rewrite !mapi_from_comp. apply mapi_from_ext. intros. apply ps_notify_comm; auto.
      * rewrite !map_map. apply map_ext. intros. apply tb_notify_comm; auto.
    + unfold commit_slot. simpl. rewrite nth_error_set_nth_neq by auto. rewrite Ei, Ej, Ci, Cj. reflexivity.
    + unfold commit_slot. simpl. rewrite nth_error_set_nth_neq by auto. rewrite Ei, Ej, Ci, Cj. reflexivity.
    + unfold commit_slot. rewrite Ei, Ej, Ci, Cj. reflexivity.
  - destruct (sp si && negb (sc si =? sn si)) eqn:Ci.
    + unfold commit_slot. simpl. rewrite nth_error_set_nth_neq by auto. rewrite Ei, Ej, Ci. reflexivity.
    + unfold commit_slot. rewrite Ei, Ej, Ci. reflexivity.
  - destruct (sp sj && negb (sc sj =? sn sj)) eqn:Cj.
    + unfold commit_slot. simpl. rewrite nth_error_set_nth_neq by auto. rewrite Ei, Ej, Cj. reflexivity.
    + unfold commit_slot. rewrite Ei, Ej, Cj. reflexivity.
  - unfold commit_slot. rewrite Ei, Ej. reflexivity.
Qed.

Lemma commit_order_independent ps o o' x :
  Permutation o o' -> fold_left (commit_slot ps) o x = fold_left (commit_slot ps) o' x.
Proof. intros P. apply fold_left_perm; auto. intros; apply commit_slot_comm. Qed.

(* ================================================================ 1a: order of `_active_triggers` *)
Lemma trig_step_comm st a b : trig_step (trig_step st a) b = trig_step (trig_step st b) a.
Proof.
  destruct a as [a|a], b as [b|b].
  - destruct (Nat.eq_dec a b) as [->|N]; [reflexivity|].
    unfold trig_step at 2 4.
    destruct (t_active (ps_trig (nth a (e_procs st) no_pstate))) eqn:Aa,
             (t_active (ps_trig (nth b (e_procs st) no_pstate))) eqn:Ab;
      unfold trig_step; simpl; rewrite ?(nth_set_nth_neq a b), ?(nth_set_nth_neq b a) by auto;
      rewrite ?Aa, ?Ab; simpl; auto.
    rewrite (set_nth_comm b a) by auto. reflexivity.
  - unfold trig_step at 2 4.
    destruct (t_active (ps_trig (nth a (e_procs st) no_pstate))) eqn:Aa,
             (t_active (tb_trig (nth b (e_tbs st) no_tb))) eqn:Ab;
      unfold trig_step; simpl; rewrite ?Aa, ?Ab; simpl; auto.
  - unfold trig_step at 2 4.
    destruct (t_active (tb_trig (nth a (e_tbs st) no_tb))) eqn:Aa,
             (t_active (ps_trig (nth b (e_procs st) no_pstate))) eqn:Ab;
      unfold trig_step; simpl; rewrite ?Aa, ?Ab; simpl; auto.
  - destruct (Nat.eq_dec a b) as [->|N]; [reflexivity|].
    unfold trig_step at 2 4.
    destruct (t_active (tb_trig (nth a (e_tbs st) no_tb))) eqn:Aa,
             (t_active (tb_trig (nth b (e_tbs st) no_tb))) eqn:Ab;
      unfold trig_step; simpl; rewrite ?(nth_set_nth_neq a b), ?(nth_set_nth_neq b a) by auto;
      rewrite ?Aa, ?Ab; simpl; auto.
    rewrite (set_nth_comm b a) by auto. reflexivity.
Qed.

Lemma trigger_order_independent o o' st :
  Permutation o o' -> fold_left trig_step o st = fold_left trig_step o' st.
Proof. intros P. apply fold_left_perm; auto. intros; apply trig_step_comm. Qed.

(* ================================================================ one delta, settle, whole runs *)
Definition orders_equiv (o o' : orders) : Prop :=
  Permutation (o_trig o) (o_trig o') /\ Permutation (o_proc o) (o_proc o') /\ Permutation (o_commit o) (o_commit o').

Definition oracle_equiv (orc orc' : oracle) : Prop := forall n, orders_equiv (orc n) (orc' n).

Section Runs.
  Variable ps : list proc.
  Hypothesis WD : write_disjoint ps.

  Lemma run_delta_order_independent o o' st : orders_equiv o o' -> run_delta ps o st = run_delta ps o' st.
  Proof.
    destruct WD as [own D]. intros (P1 & P2 & P3). unfold run_delta.
    rewrite (trigger_order_independent _ _ st P1).
    rewrite (procs_order_independent ps own D _ _ _ P2).
    rewrite (commit_order_independent ps _ _ _ P3). reflexivity.
  Qed.

  Variables orc orc' : oracle.
  Hypothesis OE : oracle_equiv orc orc'.

  Lemma settle_order_independent fuel st : settle ps orc fuel st = settle ps orc' fuel st.
  Proof.
    revert st; induction fuel as [|f IH]; intros st; simpl; auto.
    rewrite (run_delta_order_independent _ _ st (OE (e_deltas st))).
    destruct (run_delta ps (orc' (e_deltas st)) st) as [st' c]. destruct c; auto.
  Qed.

  Lemma tb_set_order_independent sfuel sig sh v st :
    tb_set ps orc sfuel sig sh v st = tb_set ps orc' sfuel sig sh v st.
  Proof. unfold tb_set. rewrite settle_order_independent. reflexivity. Qed.

  Lemma tb_exec_order_independent sfuel fuel k st :
    tb_exec ps orc sfuel fuel k st = tb_exec ps orc' sfuel fuel k st.
  Proof.
    revert st; induction fuel as [|f IH]; intros st; [reflexivity|].
    cbn [tb_exec]. cbv zeta.
    destruct (tb_mode (nth k (e_tbs st) no_tb) =? 0).
    - destruct (tb_ops (nth k (e_tbs st) no_tb)) as [|[sig sh v|sig|spec b|spec|spec n|spec n|b] r]; auto.
      rewrite tb_set_order_independent. apply IH.
    - destruct (t_broken (tb_trig (nth k (e_tbs st) no_tb))); auto.
      destruct (tb_mode (nth k (e_tbs st) no_tb) =? 1); auto.
      destruct (tb_mode (nth k (e_tbs st) no_tb) =? 4); [destruct (tb_cnt (nth k (e_tbs st) no_tb)) as [|[|m]]; auto|].
      destruct (tick_fmt (tb_res (nth k (e_tbs st) no_tb))) as [|c [|r vs]]; auto.
      destruct (negb (r =? 0)); auto.
      destruct (tb_mode (nth k (e_tbs st) no_tb) =? 2).
      + destruct (negb (last vs 0 =? 0)); auto.
      + destruct (tb_cnt (nth k (e_tbs st) no_tb)) as [|[|m]]; auto.
  Qed.

  Lemma tb_pass_order_independent sfuel ks acc :
    tb_pass ps orc sfuel ks acc = tb_pass ps orc' sfuel ks acc.
  Proof.
    revert acc; induction ks as [|k r IH]; intros [st ran]; cbn [tb_pass]; auto.
    cbv zeta. destruct (tb_run (nth k (e_tbs st) no_tb)); auto.
    rewrite tb_exec_order_independent. apply IH.
  Qed.

  Lemma tb_loop_order_independent sfuel fuel st :
    tb_loop ps orc sfuel fuel st = tb_loop ps orc' sfuel fuel st.
  Proof.
    revert st; induction fuel as [|f IH]; intros st; cbn [tb_loop]; auto.
    rewrite tb_pass_order_independent.
    destruct (tb_pass ps orc' sfuel (seq 0 (length (e_tbs st))) (st, false)) as [st' ran].
    destruct ran; auto.
  Qed.

  Lemma advance_order_independent sfuel tfuel st :
    advance ps orc sfuel tfuel st = advance ps orc' sfuel tfuel st.
  Proof. unfold advance. rewrite settle_order_independent, tb_loop_order_independent. reflexivity. Qed.

  (* the whole run (every testbench record, every final signal value, the time) is the same whatever order the
     three sets are iterated in at each delta cycle *)
  Lemma run_order_independent sfuel tfuel t_end fuel st :
    run ps orc sfuel tfuel t_end fuel st = run ps orc' sfuel tfuel t_end fuel st.
  Proof.
    revert st; induction fuel as [|f IH]; intros st; cbn [run]; auto.
    rewrite advance_order_independent.
    destruct (advance ps orc' sfuel tfuel st) as [st' crit].
    destruct (crit && (e_now st' <=? t_end) && negb (quiescent st')); auto.
  Qed.
End Runs.

(* ================================================================ timeline *)
Lemma fold_min_le l : forall h, fold_left Z.min l h <= h /\ (forall d, In d l -> fold_left Z.min l h <= d).
Proof.
  induction l as [|x l IH]; intros h; simpl.
  - split; [lia|tauto].
  - destruct (IH (Z.min h x)) as [H1 H2]. split; [lia|].
    intros d [->|Hd]; [lia|auto].
Qed.

Lemma fold_min_in l : forall h, fold_left Z.min l h = h \/ In (fold_left Z.min l h) l.
Proof.
  induction l as [|x l IH]; intros h; simpl; auto.
  destruct (IH (Z.min h x)) as [H|H]; [|auto].
  rewrite H. destruct (Z.min_spec h x) as [[_ E]|[_ E]]; rewrite E; auto.
Qed.

Lemma zmin_list_spec l D : zmin_list l = Some D -> In D l /\ forall d, In d l -> D <= d.
Proof.
  destruct l as [|h t]; simpl; [discriminate|]. intros E. injection E as <-.
  destruct (fold_min_le t h) as [H1 H2]. split.
  - destruct (fold_min_in t h) as [H|H]; [rewrite H|]; auto.
  - intros d [<-|Hd]; auto.
Qed.

Lemma zmin_list_none l : zmin_list l = None -> l = [].
Proof. destruct l; simpl; [auto|discriminate]. Qed.

(* _PyTimeline.advance moves `now` to the nearest deadline: it never passes an armed deadline *)
Lemma timeline_no_overshoot st d : In d (deadlines st) -> e_now (tl_advance st) <= d.
Proof.
  intros H. unfold tl_advance. destruct (zmin_list (deadlines st)) as [D|] eqn:E.
  - simpl. apply (zmin_list_spec _ _ E); auto.
  - apply zmin_list_none in E. rewrite E in H. destruct H.
Qed.

Lemma timeline_lands_on_deadline st :
  deadlines st <> [] -> In (e_now (tl_advance st)) (deadlines st).
Proof.
  intros H. unfold tl_advance. destruct (zmin_list (deadlines st)) as [D|] eqn:E.
  - simpl. apply (zmin_list_spec _ _ E).
  - apply zmin_list_none in E. contradiction.
Qed.

Lemma timeline_monotone st :
  (forall d, In d (deadlines st) -> e_now st <= d) -> e_now st <= e_now (tl_advance st).
Proof.
  intros H. unfold tl_advance. destruct (zmin_list (deadlines st)) as [D|] eqn:E; [|lia].
  simpl. apply H. apply (zmin_list_spec _ _ E).
Qed.

Lemma timeline_idle st : deadlines st = [] -> tl_advance st = st.
Proof. intros H. unfold tl_advance. rewrite H. reflexivity. Qed.

(* a process timer (clock waker) fires exactly when `now` lands on its deadline *)
Lemma ps_fire_timer D p d :
  ps_timer p = Some d ->
  (d = D -> ps_run (ps_fire D p) = true /\ ps_timer (ps_fire D p) = None) /\
  (d <> D -> ps_run (ps_fire D p) = ps_run p /\ ps_timer (ps_fire D p) = Some d).
Proof.
  intros H. unfold ps_fire. rewrite H. simpl. split; intros E.
  - subst. rewrite Z.eqb_refl, orb_true_r. auto.
  - apply Z.eqb_neq in E. rewrite E, orb_false_r. auto.
Qed.

Lemma proc_timer_deadline st k d :
  (k < length (e_procs st))%nat -> ps_timer (nth k (e_procs st) no_pstate) = Some d -> In d (deadlines st).
Proof.
  intros L H. unfold deadlines. apply in_or_app. left. apply in_flat_map.
  exists (nth k (e_procs st) no_pstate). split; [apply nth_In; auto|]. rewrite H. simpl. auto.
Qed.

Lemma tb_pos_deadline st k p d :
  (k < length (e_tbs st))%nat -> In p (t_pos (tb_trig (nth k (e_tbs st) no_tb))) -> tp_dl p = Some d ->
  In d (deadlines st).
Proof.
  intros L Hp H. unfold deadlines. apply in_or_app. right. apply in_flat_map.
  exists (nth k (e_tbs st) no_tb). split; [apply nth_In; auto|].
  unfold pos_deadlines. apply in_flat_map. exists p. split; auto. rewrite H. simpl. auto.
Qed.

(* ---------- delays ---------- *)
(* awaiting a combination that contains delay(d) at time `now` arms a deadline at exactly now + d *)
Lemma delay_armed spec os now d :
  In (TDelay d) spec -> In (TP (TDelay d) true false (Some (now + d))) (t_pos (fresh_trig spec os now)).
Proof.
  intros H. unfold fresh_trig. simpl.
  apply (in_map (fun t => TP t true false (match t with TDelay d => Some (now + d) | _ => None end)) spec (TDelay d) H).
Qed.

(* when the timeline fires deadline D, a waiting trigger becomes active and exactly the elements with deadline D are hit *)
Lemma tl_fire_exact D T :
  t_broken T = false -> t_waiting T = true -> existsb (pos_due D) (t_pos T) = true ->
  t_active (tl_fire D T) = true /\
  t_pos (tl_fire D T) = map (fun p => if pos_due D p then TP (tp_trig p) (tp_reg p) true None else p) (t_pos T).
Proof. intros B W E. unfold tl_fire. rewrite E, B, W. simpl. auto. Qed.

Lemma tl_fire_not_due D T : existsb (pos_due D) (t_pos T) = false -> tl_fire D T = T.
Proof. intros E. unfold tl_fire. rewrite E. reflexivity. Qed.

(* a testbench waiting on delay(d) armed at time t is woken by the timeline at time t + d exactly:
   no earlier (the element is due only at its deadline) and the timeline cannot pass t + d while it is armed *)
Lemma delay_exact st k p t d :
  (k < length (e_tbs st))%nat ->
  In p (t_pos (tb_trig (nth k (e_tbs st) no_tb))) -> tp_dl p = Some (t + d) ->
  e_now (tl_advance st) <= t + d /\
  (pos_due (e_now (tl_advance st)) p = true <-> e_now (tl_advance st) = t + d).
Proof.
  intros L Hp H. split.
  - apply timeline_no_overshoot. eapply tb_pos_deadline; eauto.
  - unfold pos_due. rewrite H. rewrite Z.eqb_eq. split; auto.
Qed.

(* ---------- the clock process ---------- *)
Lemma clock_run_initial slot phase period l cu :
  hd 1 l <> 0 -> clock_run slot phase period l cu = PR [0] [] (Some phase).
Proof. destruct l as [|[|x|x] l]; simpl; intros H; auto; contradiction. Qed.

Lemma clock_run_toggle slot phase period l cu :
  hd 1 l = 0 -> clock_run slot phase period l cu = PR [0] [W slot (b2z (nth slot cu 0 =? 0)) (-1)] (Some (period / 2)).
Proof. destruct l as [|[|x|x] l]; simpl; intros H; auto; discriminate. Qed.

(* the clock process in isolation with the timeline: run j happens at time t_j with local state l_j *)
Fixpoint clk_sys (slot : nat) (phase period : Z) (j : nat) : list Z * Z :=
  match j with
  | O => ([1], 0)
  | S j' =>
      let (l, t) := clk_sys slot phase period j' in
      let r := clock_run slot phase period l [] in
      (r_local r, t + match r_delay r with Some d => d | None => 0 end)
  end.

(* toggle k (k = 0, 1, ...) = run k+1 of the process happens at exactly phase + k * (period // 2) fs *)
Lemma clock_edges_exact slot phase period k :
  clk_sys slot phase period (S k) = ([0], phase + Z.of_nat k * (period / 2)).
Proof.
  induction k as [|k IH].
  - simpl. f_equal. lia.
  - replace (clk_sys slot phase period (S (S k)))
      with (let (l, t) := clk_sys slot phase period (S k) in
            let r := clock_run slot phase period l [] in
            (r_local r, t + match r_delay r with Some d => d | None => 0 end)) by reflexivity.
    rewrite IH. cbv zeta. cbn [clock_run r_local r_delay]. f_equal.
    rewrite ?Zpos_P_of_succ_nat, ?Nat2Z.inj_succ. lia.
Qed.

(* what a toggle does: clk.update(not clk.curr) with the full mask *)
Lemma clock_toggle_writes slot phase period k cu :
  r_writes (clock_run slot phase period (fst (clk_sys slot phase period (S k))) cu) =
  [W slot (b2z (nth slot cu 0 =? 0)) (-1)].
Proof. rewrite clock_edges_exact. reflexivity. Qed.

Lemma clock_first_run_silent slot phase period cu :
  r_writes (clock_run slot phase period (fst (clk_sys slot phase period 0)) cu) = [].
Proof. reflexivity. Qed.

(* odd periods: a full cycle lasts period - 1 fs (the high and low phases are both period // 2) *)
Lemma clock_full_cycle slot phase period k :
  0 < period ->
  snd (clk_sys slot phase period (S (S (S k)))) - snd (clk_sys slot phase period (S k)) = period - period mod 2.
Proof.
  intros Hp. rewrite !clock_edges_exact. cbn [snd]. rewrite !Nat2Z.inj_succ.
  pose proof (Z.div_mod period 2 ltac:(lia)). lia.
Qed.

Lemma clock_half_period_zero slot phase k : snd (clk_sys slot phase 1 (S k)) = phase.
Proof. rewrite clock_edges_exact. cbn [snd]. change (1 / 2) with 0. lia. Qed.

(* in the engine: a runnable clock process k arms its next wake-up at exactly now + (phase | period // 2) *)
Lemma clock_step_engine ps st k slot phase period :
  (k < length (e_procs st))%nat ->
  nth k ps no_proc = clock_proc slot phase period ->
  ps_run (nth k (e_procs st) no_pstate) = true ->
  let p := nth k (e_procs st) no_pstate in
  let r := clock_run slot phase period (ps_local p) (currs (e_slots st)) in
  let st' := run_proc ps st k in
  e_slots st' = apply_writes (r_writes r) (e_slots st) /\
  ps_run (nth k (e_procs st') no_pstate) = false /\
  ps_local (nth k (e_procs st') no_pstate) = [0] /\
  ps_timer (nth k (e_procs st') no_pstate) =
    Some (e_now st + (if hd 1 (ps_local p) =? 0 then period / 2 else phase)) /\
  e_now st' = e_now st.
Proof.
  intros L HP R p r st'. subst st' r p. unfold run_proc. rewrite R. rewrite HP.
  unfold proc_step. cbn [p_trig clock_proc p_run]. cbn [e_slots e_procs e_now].
  rewrite nth_set_nth_eq by auto. cbn [ps_run ps_local ps_timer].
  set (p := nth k (e_procs st) no_pstate). destruct (Z.eq_dec (hd 1 (ps_local p)) 0) as [E|E].
  - rewrite (clock_run_toggle _ _ _ _ _ E). rewrite E. simpl. auto.
  - rewrite (clock_run_initial _ _ _ _ _ E). apply Z.eqb_neq in E. rewrite E. simpl. auto.
Qed.

(* ... and the timeline wakes it when `now` is exactly that deadline, never passing it *)
Lemma clock_wake_exact st k d :
  (k < length (e_procs st))%nat -> ps_timer (nth k (e_procs st) no_pstate) = Some d ->
  e_now (tl_advance st) <= d /\
  (e_now (tl_advance st) = d -> ps_run (nth k (e_procs (tl_advance st)) no_pstate) = true) /\
  (e_now (tl_advance st) <> d ->
     ps_run (nth k (e_procs (tl_advance st)) no_pstate) = ps_run (nth k (e_procs st) no_pstate) /\
     ps_timer (nth k (e_procs (tl_advance st)) no_pstate) = Some d).
Proof.
  intros L H. pose proof (proc_timer_deadline st k d L H) as I. split; [apply timeline_no_overshoot; auto|].
  unfold tl_advance. destruct (zmin_list (deadlines st)) as [D|] eqn:E.
  - cbn [e_now e_procs]. rewrite (nth_indep _ no_pstate (ps_fire D no_pstate)) by (rewrite map_length; auto).
    rewrite map_nth. destruct (ps_fire_timer D _ _ H) as [F1 F2]. split; intros X.
    + apply F1; auto.
    + apply F2; auto.
  - apply zmin_list_none in E. rewrite E in I. destruct I.
Qed.

(* the default phase of add_clock: round-half-even of period / 2 *)
Lemma default_phase_even period : Z.even period = true -> default_phase period = period / 2.
Proof. intros H. unfold default_phase. rewrite H. reflexivity. Qed.

Lemma default_phase_odd period :
  Z.even period = false ->
  default_phase period = period / 2 + (period / 2) mod 2 /\ Z.even (default_phase period) = true.
Proof.
  intros H. unfold default_phase. rewrite H. destruct (Z.even (period / 2)) eqn:E.
  - split; auto. rewrite Zmod_even, E. lia.
  - split. rewrite Zmod_even, E. lia. rewrite Z.even_add, E. reflexivity.
Qed.

(* ================================================================ a converged delta leaves the design settled *)
Lemma run_proc_procs_length ps st k : length (e_procs (run_proc ps st k)) = length (e_procs st).
Proof.
  unfold run_proc. destruct (ps_run (nth k (e_procs st) no_pstate)); auto.
  destruct proc_step. simpl. apply set_nth_length.
Qed.

Lemma proc_step_not_runnable pr now p cu nx : ps_run (fst (proc_step pr now p cu nx)) = false.
Proof.
  unfold proc_step. cbv zeta beta. destruct (p_trig pr); [reflexivity|].
  destruct (ps_first p); [destruct (has_changed (t :: l)); reflexivity|].
  destruct (t_broken (ps_trig p)); reflexivity.
Qed.

Lemma run_proc_clears ps st k : ps_run (nth k (e_procs (run_proc ps st k)) no_pstate) = false.
Proof.
  unfold run_proc. destruct (ps_run (nth k (e_procs st) no_pstate)) eqn:R; auto.
  pose proof (proc_step_not_runnable (nth k ps no_proc) (e_now st) (nth k (e_procs st) no_pstate)
                (currs (e_slots st)) (nexts (e_slots st))) as H.
  destruct proc_step as [p' ws]. simpl in *.
  destruct (Nat.lt_ge_cases k (length (e_procs st))) as [L|L].
  - rewrite nth_set_nth_eq; auto.
  - rewrite set_nth_beyond by auto. rewrite nth_overflow; auto.
Qed.

Lemma run_proc_keeps_idle ps st k j :
  ps_run (nth j (e_procs st) no_pstate) = false -> ps_run (nth j (e_procs (run_proc ps st k)) no_pstate) = false.
Proof.
  intros H. destruct (Nat.eq_dec k j) as [->|N]; [apply run_proc_clears|].
  unfold run_proc. destruct (ps_run (nth k (e_procs st) no_pstate)); auto.
  destruct proc_step. simpl. rewrite nth_set_nth_neq; auto.
Qed.

Lemma fold_run_proc_keeps_idle ps o : forall st j,
  ps_run (nth j (e_procs st) no_pstate) = false ->
  ps_run (nth j (e_procs (fold_left (run_proc ps) o st)) no_pstate) = false.
Proof. induction o; intros; simpl; auto. apply IHo. apply run_proc_keeps_idle; auto. Qed.

Lemma fold_run_proc_clears ps o : forall st j,
  In j o -> ps_run (nth j (e_procs (fold_left (run_proc ps) o st)) no_pstate) = false.
Proof.
  induction o as [|k o IH]; intros st j H; simpl in *; [tauto|].
  destruct H as [->|H]; [|apply IH; auto].
  apply fold_run_proc_keeps_idle. apply run_proc_clears.
Qed.

Lemma commit_slot_flag ps st ch i :
  commit_slot ps (st, ch) i = (st, ch) \/ snd (commit_slot ps (st, ch) i) = true.
Proof.
  unfold commit_slot. destruct (nth_error (e_slots st) i); auto.
  destruct (sp s && negb (sc s =? sn s)); auto.
Qed.

Lemma fold_commit_true ps o : forall st, snd (fold_left (commit_slot ps) o (st, true)) = true.
Proof.
  induction o as [|i o IH]; intros st; cbn [fold_left]; auto.
  destruct (commit_slot_flag ps st true i) as [E|E].
  - rewrite E. apply IH.
  - destruct (commit_slot ps (st, true) i) as [st1 c]. simpl in E. subst c. apply IH.
Qed.

(* `converged` means no slot changed, no waker ran: the commit phase was the identity *)
Lemma fold_commit_unchanged ps o : forall st st',
  fold_left (commit_slot ps) o (st, false) = (st', false) -> st' = st.
Proof.
  induction o as [|i o IH]; intros st st' H; cbn [fold_left] in H.
  - congruence.
  - destruct (commit_slot_flag ps st false i) as [E|E].
    + rewrite E in H. apply IH; auto.
    + destruct (commit_slot ps (st, false) i) as [st1 c]. simpl in E. subst c.
      pose proof (fold_commit_true ps o st1) as T. rewrite H in T. discriminate.
Qed.

Definition covers_procs (o : orders) (st : estate) : Prop :=
  forall k, (k < length (e_procs st))%nat -> In k (o_proc o).

Lemma trig_step_procs_length st o : length (e_procs (trig_step st o)) = length (e_procs st).
Proof.
  destruct o; simpl.
  - destruct (t_active (ps_trig (nth k (e_procs st) no_pstate))); auto. simpl. apply set_nth_length.
  - destruct (t_active (tb_trig (nth k (e_tbs st) no_tb))); auto.
Qed.

Lemma fold_trig_step_procs_length o : forall st, length (e_procs (fold_left trig_step o st)) = length (e_procs st).
Proof. induction o; intros; simpl; auto. rewrite IHo. apply trig_step_procs_length. Qed.

Lemma fold_run_proc_length ps o : forall st, length (e_procs (fold_left (run_proc ps) o st)) = length (e_procs st).
Proof. induction o; intros; simpl; auto. rewrite IHo. apply run_proc_procs_length. Qed.

(* step_design returns (a testbench's set() returns) only in a state where no process is runnable and `pending`
   is empty: every woken process has run and every queued change is committed *)
Lemma converged_delta_settled ps o st st' :
  run_delta ps o st = (st', true) -> covers_procs o st ->
  (forall k, ps_run (nth k (e_procs st') no_pstate) = false) /\
  (forall s, In s (e_slots st') -> sp s = false).
Proof.
  unfold run_delta. intros H C.
  destruct (fold_left (commit_slot ps) (o_commit o)
              (fold_left (run_proc ps) (o_proc o) (fold_left trig_step (o_trig o) st), false)) as [st3 ch] eqn:E.
  injection H as H1 H2. destruct ch; [discriminate|].
  apply fold_commit_unchanged in E. subst st3. subst st'. cbn [e_procs e_slots]. split.
  - intros k. destruct (Nat.lt_ge_cases k (length (e_procs st))) as [L|L].
    + apply fold_run_proc_clears. apply C; auto.
    + rewrite nth_overflow; auto.
      rewrite fold_run_proc_length, fold_trig_step_procs_length. auto.
  - intros s Hs. unfold clear_pending in Hs. apply in_map_iff in Hs. destruct Hs as (x & <- & _). reflexivity.
Qed.

Definition covers_oracle (orc : oracle) (np : nat) : Prop := forall n k, (k < np)%nat -> In k (o_proc (orc n)).

Lemma run_delta_procs_length ps o st : length (e_procs (fst (run_delta ps o st))) = length (e_procs st).
Proof.
  unfold run_delta.
  destruct (fold_left (commit_slot ps) (o_commit o)
              (fold_left (run_proc ps) (o_proc o) (fold_left trig_step (o_trig o) st), false)) as [st3 ch] eqn:E.
  cbn [fst e_procs].
  assert (G : forall oo x, length (e_procs (fst (fold_left (commit_slot ps) oo x))) = length (e_procs (fst x))).
  { induction oo as [|i oo IH]; intros [s c]; simpl; auto. rewrite IH. unfold commit_slot.
    destruct (nth_error (e_slots s) i); auto. destruct (sp s0 && negb (sc s0 =? sn s0)); auto.
    simpl. apply mapi_from_length. }
  specialize (G (o_commit o) (fold_left (run_proc ps) (o_proc o) (fold_left trig_step (o_trig o) st), false)).
  rewrite E in G. cbn [fst] in G. rewrite G, fold_run_proc_length, fold_trig_step_procs_length. reflexivity.
Qed.

Lemma settle_settled ps orc fuel : forall st st',
  settle ps orc fuel st = (st', true) -> covers_oracle orc (length (e_procs st)) ->
  (forall k, ps_run (nth k (e_procs st') no_pstate) = false) /\
  (forall s, In s (e_slots st') -> sp s = false).
Proof.
  induction fuel as [|f IH]; intros st st' H C; simpl in H; [discriminate|].
  destruct (run_delta ps (orc (e_deltas st)) st) as [st1 conv] eqn:E. destruct conv.
  - injection H as <-. eapply converged_delta_settled; eauto. intros k L. apply C; auto.
  - apply IH in H; auto.
    pose proof (run_delta_procs_length ps (orc (e_deltas st)) st) as Len. rewrite E in Len. simpl in Len.
    rewrite Len. auto.
Qed.

(* TestbenchContext.set = write + step_design(): when it converges, it returns a settled design *)
Lemma set_returns_settled ps orc sfuel sig sh v st st' :
  settle ps orc sfuel (tb_write sig sh v st) = (st', true) ->
  covers_oracle orc (length (e_procs st)) ->
  tb_set ps orc sfuel sig sh v st = st' /\
  (forall k, ps_run (nth k (e_procs st') no_pstate) = false) /\
  (forall s, In s (e_slots st') -> sp s = false).
Proof.
  intros H C. split; [unfold tb_set; rewrite H; reflexivity|].
  eapply settle_settled; eauto.
Qed.

(* ================================================================ sampling happens before the woken logic runs *)
Lemma run_proc_tbs ps st k : e_tbs (run_proc ps st k) = e_tbs st.
Proof. unfold run_proc. destruct (ps_run _); auto. destruct proc_step; reflexivity. Qed.

Lemma fold_run_proc_tbs ps o : forall st, e_tbs (fold_left (run_proc ps) o st) = e_tbs st.
Proof. induction o; intros; simpl; auto. rewrite IHo. apply run_proc_tbs. Qed.

Lemma trig_step_slots st o : e_slots (trig_step st o) = e_slots st.
Proof.
  destruct o; simpl.
  - destruct (t_active (ps_trig (nth k (e_procs st) no_pstate))); auto.
  - destruct (t_active (tb_trig (nth k (e_tbs st) no_tb))); auto.
Qed.

Lemma fold_trig_step_slots o : forall st, e_slots (fold_left trig_step o st) = e_slots st.
Proof. induction o; intros; simpl; auto. rewrite IHo. apply trig_step_slots. Qed.

Lemma commit_slot_tb_res ps x i k :
  tb_res (nth k (e_tbs (fst (commit_slot ps x i))) no_tb) = tb_res (nth k (e_tbs (fst x)) no_tb).
Proof.
  destruct x as [st ch]. unfold commit_slot. destruct (nth_error (e_slots st) i); auto.
  destruct (sp s && negb (sc s =? sn s)); auto. cbn [fst e_tbs].
  destruct (Nat.lt_ge_cases k (length (e_tbs st))) as [L|L].
  - rewrite (nth_indep _ no_tb (tb_notify i (sc s) (sn s) no_tb)) by (rewrite map_length; auto).
    rewrite map_nth. reflexivity.
  - rewrite !nth_overflow; auto. rewrite map_length; auto.
Qed.

Lemma fold_commit_tb_res ps o k : forall x,
  tb_res (nth k (e_tbs (fst (fold_left (commit_slot ps) o x))) no_tb) = tb_res (nth k (e_tbs (fst x)) no_tb).
Proof. induction o; intros; simpl; auto. rewrite IHo. apply commit_slot_tb_res. Qed.

(* phase 1a for testbench k: once its active trigger has been run, later trigger runs leave its result alone *)
Lemma trig_step_other_tb st o k :
  o <> OTb k -> nth k (e_tbs (trig_step st o)) no_tb = nth k (e_tbs st) no_tb.
Proof.
  intros N. destruct o as [j|j]; simpl.
  - destruct (t_active (ps_trig (nth j (e_procs st) no_pstate))); auto.
  - destruct (t_active (tb_trig (nth j (e_tbs st) no_tb))); auto. simpl.
    apply nth_set_nth_neq. congruence.
Qed.

Definition owner_eq_dec (a b : owner) : {a = b} + {a <> b}.
Proof. decide equality; apply Nat.eq_dec. Defined.

Lemma fold_trig_step_samples o : forall st k cu T,
  (k < length (e_tbs st))%nat ->
  cu = currs (e_slots st) ->
  (In (OTb k) o /\ tb_trig (nth k (e_tbs st) no_tb) = T /\ t_active T = true) \/
  (tb_res (nth k (e_tbs st) no_tb) = compute_result cu T /\ t_active (tb_trig (nth k (e_tbs st) no_tb)) = false) ->
  tb_res (nth k (e_tbs (fold_left trig_step o st)) no_tb) = compute_result cu T.
Proof.
  induction o as [|a o IH]; intros st k cu T L Hc H; simpl.
  - destruct H as [(F & _)|(H & _)]; [destruct F|exact H].
  - assert (L' : (k < length (e_tbs (trig_step st a)))%nat).
    { destruct a as [j|j]; simpl.
      - destruct (t_active (ps_trig (nth j (e_procs st) no_pstate))); auto.
      - destruct (t_active (tb_trig (nth j (e_tbs st) no_tb))); auto. simpl. rewrite set_nth_length; auto. }
    apply IH; auto; [rewrite trig_step_slots; auto|].
    destruct (owner_eq_dec a (OTb k)) as [->|N].
    + right. destruct H as [(_ & HT & HA)|(HR & HA)].
      * simpl. rewrite HT, HA. simpl. rewrite nth_set_nth_eq by auto. simpl. subst cu T. auto.
      * simpl. rewrite HA. auto.
    + rewrite (trig_step_other_tb st a k N).
      destruct H as [(F & HT & HA)|H]; [left|right; auto].
      destruct F as [F|F]; [congruence|auto].
Qed.

(* the values a tick (or any trigger) delivers are read from `curr` as it is when the delta that follows the edge's
   commit begins, i.e. before the registers woken by the same edge have been updated: whatever the processes write in
   phase 1b and whatever is committed in phase 2 of that delta does not enter the result *)
Lemma tick_samples_pre_edge ps o st k T :
  (k < length (e_tbs st))%nat -> In (OTb k) (o_trig o) ->
  tb_trig (nth k (e_tbs st) no_tb) = T -> t_active T = true ->
  tb_res (nth k (e_tbs (fst (run_delta ps o st))) no_tb) = compute_result (currs (e_slots st)) T.
Proof.
  intros L I HT HA. unfold run_delta.
  destruct (fold_left (commit_slot ps) (o_commit o)
              (fold_left (run_proc ps) (o_proc o) (fold_left trig_step (o_trig o) st), false)) as [st3 ch] eqn:E.
  cbn [fst e_tbs].
  pose proof (fold_commit_tb_res ps (o_commit o) k
                (fold_left (run_proc ps) (o_proc o) (fold_left trig_step (o_trig o) st), false)) as G.
  rewrite E in G. cbn [fst] in G. rewrite G, fold_run_proc_tbs.
  apply fold_trig_step_samples; auto.
Qed.

(* ================================================================ testbenches resume on a settled design *)
Lemma tick_resumes_post_update ps orc sfuel tfuel st st1 :
  settle ps orc sfuel st = (st1, true) -> covers_oracle orc (length (e_procs st)) ->
  fst (advance ps orc sfuel tfuel st) = tl_advance (tb_loop ps orc sfuel tfuel st1) /\
  (forall k, ps_run (nth k (e_procs st1) no_pstate) = false) /\
  (forall s, In s (e_slots st1) -> sp s = false).
Proof.
  intros H C. split; [unfold advance; rewrite H; reflexivity|]. eapply settle_settled; eauto.
Qed.

(* ================================================================ a concrete instance of the hypotheses *)
(* process 0: the clock of slot 0; process 1: the documented combinational replacement  o(slot 2) = a(slot 1) + 1;
   process 2: the documented synchronous replacement, a counter in slot 3 clocked by slot 0 *)
Definition ex_ps : list proc :=
  [clock_proc 0 5 10;
   user_comb 2 (Sh 4 false) [1%nat] (EOp2 OAdd (ESig 1 (Sh 4 false)) (EConst 1 (Sh 1 false)));
   user_sync 3 (Sh 4 false) 0 0 true None [] (EOp2 OAdd (ESig 3 (Sh 4 false)) (EConst 1 (Sh 1 false)))].

Definition ex_own (k i : nat) : Z :=
  match k with
  | 0%nat => if Nat.eqb i 0 then -1 else 0
  | 1%nat => if Nat.eqb i 2 then -1 else 0
  | 2%nat => if Nat.eqb i 3 then -1 else 0
  | _ => 0
  end.

Lemma ex_disc : disc ex_ps ex_own.
Proof.
  constructor.
  - intros a b i N. unfold ex_own.
    destruct a as [|[|[|a]]], b as [|[|[|b]]]; try congruence; try apply Z.land_0_r; try apply Z.land_0_l;
      destruct i as [|[|[|[|i]]]]; reflexivity.
  - intros k l res cu nx w H. destruct k as [|[|[|k]]]; simpl in H.
    + unfold clock_run in H. destruct l as [|[|x|x] l]; simpl in H; try tauto.
      destruct H as [<-|[]]. reflexivity.
    + destruct H as [<-|[]]. reflexivity.
    + destruct (tick_fmt res) as [|c [|r vals]]; simpl in H; try tauto.
      destruct (negb (r =? 0)); simpl in H; [destruct H as [<-|[]]; reflexivity|].
      destruct (negb (c =? 0)); simpl in H; [destruct H as [<-|[]]; reflexivity|tauto].
    + destruct k; simpl in H; tauto.
  - intros k l res cu nx nx' _. destruct k as [|[|[|k]]]; try (repeat split; apply weqs_refl).
    destruct k; repeat split; apply weqs_refl.
Qed.

Lemma ex_write_disjoint : write_disjoint ex_ps.
Proof. exists ex_own. exact ex_disc. Qed.

(* without write_disjoint the order matters (the shape of S1: two writers of one slot in one delta) *)
Definition bad_ps : list proc :=
  [P (fun _ _ _ => false) [] (fun l _ _ _ => PR l [W 0 170 255] None);
   P (fun _ _ _ => false) [] (fun l _ _ _ => PR l [W 0 187 255] None)].
Definition bad_st : estate :=
  ES [Slot 0 0 false] [PS true [] None t_none [] false; PS true [] None t_none [] false] [] 0 0 [].

Lemma write_collision_order_dependent :
  Permutation [0%nat; 1%nat] [1%nat; 0%nat] /\
  fold_left (run_proc bad_ps) [0%nat; 1%nat] bad_st <> fold_left (run_proc bad_ps) [1%nat; 0%nat] bad_st.
Proof. split; [apply perm_swap|]. vm_compute. discriminate. Qed.

(* ================================================================ testbenches run in insertion order *)
Lemma trig_step_trace st o : e_trace (trig_step st o) = e_trace st.
Proof.
  destruct o; simpl.
  - destruct (t_active (ps_trig (nth k (e_procs st) no_pstate))); auto.
  - destruct (t_active (tb_trig (nth k (e_tbs st) no_tb))); auto.
Qed.

Lemma run_proc_trace ps st k : e_trace (run_proc ps st k) = e_trace st.
Proof. unfold run_proc. destruct (ps_run _); auto. destruct proc_step; reflexivity. Qed.

Lemma commit_slot_trace ps x i : e_trace (fst (commit_slot ps x i)) = e_trace (fst x).
Proof.
  destruct x as [st ch]. unfold commit_slot. destruct (nth_error (e_slots st) i); auto.
  destruct (sp s && negb (sc s =? sn s)); auto.
Qed.

Lemma run_delta_trace ps o st : e_trace (fst (run_delta ps o st)) = e_trace st.
Proof.
  unfold run_delta.
  destruct (fold_left (commit_slot ps) (o_commit o)
              (fold_left (run_proc ps) (o_proc o) (fold_left trig_step (o_trig o) st), false)) as [st3 ch] eqn:E.
  cbn [fst e_trace].
  assert (G : forall oo x, e_trace (fst (fold_left (commit_slot ps) oo x)) = e_trace (fst x)).
  { induction oo; intros; simpl; auto. rewrite IHoo. apply commit_slot_trace. }
  specialize (G (o_commit o) (fold_left (run_proc ps) (o_proc o) (fold_left trig_step (o_trig o) st), false)).
  rewrite E in G. cbn [fst] in G. rewrite G.
  assert (G2 : forall oo s, e_trace (fold_left (run_proc ps) oo s) = e_trace s).
  { induction oo; intros; simpl; auto. rewrite IHoo. apply run_proc_trace. }
  rewrite G2.
  assert (G3 : forall oo s, e_trace (fold_left trig_step oo s) = e_trace s).
  { induction oo; intros; simpl; auto. rewrite IHoo. apply trig_step_trace. }
  apply G3.
Qed.

Lemma settle_trace ps orc fuel : forall st, e_trace (fst (settle ps orc fuel st)) = e_trace st.
Proof.
  induction fuel as [|f IH]; intros st; simpl; auto.
  pose proof (run_delta_trace ps (orc (e_deltas st)) st) as H.
  destruct (run_delta ps (orc (e_deltas st)) st) as [st' c]. simpl in H. destruct c; simpl; auto.
  rewrite IH. auto.
Qed.

(* st' extends the trace of st by records that all belong to testbench k *)
Definition ext (k : nat) (st st' : estate) : Prop :=
  exists tr, e_trace st' = e_trace st ++ tr /\ Forall (fun r => fst r = k) tr.

Lemma ext_refl k st st' : e_trace st' = e_trace st -> ext k st st'.
Proof. intros H. exists []. rewrite app_nil_r. auto. Qed.

Lemma ext_trans k a b c : ext k a b -> ext k b c -> ext k a c.
Proof.
  intros (t1 & E1 & F1) (t2 & E2 & F2). exists (t1 ++ t2). split.
  - rewrite E2, E1, app_assoc. reflexivity.
  - apply Forall_app; auto.
Qed.

Lemma ext_tb_put k st t tr : ext k st (tb_put st k t tr).
Proof.
  exists (map (pair k) tr). split; [reflexivity|]. apply Forall_forall. intros r H.
  apply in_map_iff in H. destruct H as (x & <- & _). reflexivity.
Qed.

Lemma ext_tb_set k ps orc sfuel sig sh v st : ext k st (tb_set ps orc sfuel sig sh v st).
Proof. apply ext_refl. unfold tb_set. rewrite settle_trace. reflexivity. Qed.

Lemma tb_exec_ext ps orc sfuel fuel k : forall st, ext k st (tb_exec ps orc sfuel fuel k st).
Proof.
  induction fuel as [|f IH]; intros st; [apply ext_refl; reflexivity|].
  cbn [tb_exec]. cbv zeta.
  destruct (tb_mode (nth k (e_tbs st) no_tb) =? 0).
  - destruct (tb_ops (nth k (e_tbs st) no_tb)) as [|[sig sh v|sig|spec b|spec|spec n|spec n|b] r]; try apply ext_tb_put.
    + eapply ext_trans; [apply (ext_tb_set k ps orc sfuel sig sh v st)|].
      eapply ext_trans; [apply ext_tb_put|apply IH].
    + eapply ext_trans; [apply ext_tb_put|apply IH].
    + eapply ext_trans; [apply ext_tb_put|apply IH].
  - destruct (t_broken (tb_trig (nth k (e_tbs st) no_tb))); [apply ext_tb_put|].
    destruct (tb_mode (nth k (e_tbs st) no_tb) =? 1); [eapply ext_trans; [apply ext_tb_put|apply IH]|].
    destruct (tb_mode (nth k (e_tbs st) no_tb) =? 4);
      [destruct (tb_cnt (nth k (e_tbs st) no_tb)) as [|[|m]];
         try (eapply ext_trans; [apply ext_tb_put|apply IH]); apply ext_tb_put|].
    destruct (tick_fmt (tb_res (nth k (e_tbs st) no_tb))) as [|c [|r vs]]; try apply ext_tb_put.
    destruct (negb (r =? 0)); [apply ext_tb_put|].
    destruct (tb_mode (nth k (e_tbs st) no_tb) =? 2).
    + destruct (negb (last vs 0 =? 0)); [eapply ext_trans; [apply ext_tb_put|apply IH]|apply ext_tb_put].
    + destruct (tb_cnt (nth k (e_tbs st) no_tb)) as [|[|m]];
        try (eapply ext_trans; [apply ext_tb_put|apply IH]); apply ext_tb_put.
Qed.

(* one pass over the testbench list: the new trace is the concatenation, in list order, of one segment per
   testbench, and the segment of testbench k holds only records made by testbench k *)
Lemma tb_pass_segments ps orc sfuel ks : forall acc,
  exists segs, e_trace (fst (tb_pass ps orc sfuel ks acc)) = e_trace (fst acc) ++ concat segs /\
               Forall2 (fun k seg => Forall (fun r => fst r = k) seg) ks segs.
Proof.
  induction ks as [|k r IH]; intros [st ran]; cbn [tb_pass].
  - exists []. simpl. rewrite app_nil_r. auto.
  - cbv zeta. destruct (tb_run (nth k (e_tbs st) no_tb)).
    + match goal with |- context [tb_pass ps orc sfuel r (?X, true)] => destruct (IH (X, true)) as (segs & E & F);
        assert (Hx : ext k st X) end.
      { eapply ext_trans; [apply ext_tb_put|apply tb_exec_ext]. }
      destruct Hx as (t1 & E1 & F1). exists (t1 :: segs). split.
      * rewrite E. cbn [fst]. rewrite E1. simpl. rewrite app_assoc. reflexivity.
      * constructor; auto.
    + destruct (IH (st, ran)) as (segs & E & F). exists ([] :: segs). split; [exact E|].
      constructor; auto.
Qed.

Lemma tb_pass_sequential ps orc sfuel ks ks' acc :
  tb_pass ps orc sfuel (ks ++ ks') acc = tb_pass ps orc sfuel ks' (tb_pass ps orc sfuel ks acc).
Proof.
  revert acc; induction ks as [|k r IH]; intros [st ran]; [reflexivity|].
  cbn [app tb_pass]. cbv zeta. destruct (tb_run (nth k (e_tbs st) no_tb)); apply IH.
Qed.

(* advance() runs the testbenches in the order in which they were added (seq 0 n), every time step, for any list of
   testbench scripts: the records of testbench i made in one pass precede those of testbench j for i < j, and
   testbench j starts from the state testbench i left (including everything its set() calls settled) *)
Lemma testbench_order_is_insertion_order ps orc sfuel st ran :
  exists segs,
    e_trace (fst (tb_pass ps orc sfuel (seq 0 (length (e_tbs st))) (st, ran))) = e_trace st ++ concat segs /\
    Forall2 (fun k seg => Forall (fun r => fst r = k) seg) (seq 0 (length (e_tbs st))) segs.
Proof. exact (tb_pass_segments ps orc sfuel (seq 0 (length (e_tbs st))) (st, ran)). Qed.

(* ================================================================ compiled RTL processes are mask-local *)
(* A compiled statement list transforms `next` bit-locally: bit b (below the width) of signal i after the statements
   is either decided by `curr` alone or is bit b of signal i before; and a signal is either left exactly as it was
   or holds a value inside its shape, the choice again being made by `curr` alone. *)
Section Locality.
  Variable ss : nat -> shape.
  Hypothesis Hss : forall i, wf_shape (ss i) = true.

  Definition Dk (i : nat) (e nx e' nx' : env) : Prop :=
    (e i = nx i /\ e' i = nx' i) \/ (in_range (ss i) (e i) /\ in_range (ss i) (e' i)).

  Lemma Dk_id i nx nx' : Dk i nx nx nx' nx'.
  Proof. left; auto. Qed.

  Lemma Dk_comp i e1 e e1' e' nx nx' : Dk i e1 e e1' e' -> Dk i e nx e' nx' -> Dk i e1 nx e1' nx'.
  Proof.
    intros [[A B]|[A B]] H; [|right; auto].
    destruct H as [[C E]|[C E]]; [left; split; congruence|right; rewrite A, B; auto].
  Qed.

  Lemma assign_rtl_dich curr lhs : sig_ok ss lhs ->
    forall arg arg' nx nx' i, Dk i (assign_rtl curr lhs arg nx) nx (assign_rtl curr lhs arg' nx') nx'.
  Proof.
    induction lhs as [v s|j s|o a IHa|o a b0 IHa IHb|a lo hi IHa|a off w st IHa IHoff|l IH|t cs IHt IHcs]
      using expr_ind'; intros Hsig arg arg' nx nx' i; simpl in Hsig; try (simpl; apply Dk_id).
    - simpl. unfold Dk, upd. destruct (Nat.eqb i j) eqn:E; [|left; auto].
      apply Nat.eqb_eq in E. subst j s. right. rewrite !rsign_norm by auto. split; apply norm_in_range; auto.
    - destruct o; simpl; try apply Dk_id; apply IHa; auto.
    - simpl. apply IHa; auto.
    - simpl. apply IHa; auto.
    - apply (proj1 (sig_ok_cat ss l)) in Hsig. simpl.
      assert (G : forall ps, Forall (fun p => sig_ok ss p -> forall arg arg' nx nx' i,
                     Dk i (assign_rtl curr p arg nx) nx (assign_rtl curr p arg' nx') nx') ps ->
                  Forall (sig_ok ss) ps ->
                  forall off off' e e', Dk i e nx e' nx' ->
        Dk i ((fix go (ps : list expr) (offset : Z) (nx : env) : env :=
                 match ps with
                 | [] => nx
                 | p :: ps' => go ps' (offset + ewidth p) (assign_rtl curr p (rmask (ewidth p) (Z.shiftr arg offset)) nx)
                 end) ps off e) nx
              ((fix go (ps : list expr) (offset : Z) (nx : env) : env :=
                 match ps with
                 | [] => nx
                 | p :: ps' => go ps' (offset + ewidth p) (assign_rtl curr p (rmask (ewidth p) (Z.shiftr arg' offset)) nx)
                 end) ps off' e') nx').
      { induction ps as [|p ps IHps]; intros HP HS off0 off0' e e' He; [exact He|].
        inversion HP; subst. inversion HS; subst. apply IHps; auto.
        eapply Dk_comp; [apply H1; auto|exact He]. }
      apply G; auto. apply Dk_id.
    - apply (proj1 (sig_ok_sw ss t cs)) in Hsig. simpl.
      generalize (use_match (map fst cs)) as um. generalize (rmask (ewidth t) (eval_rtl curr t)) as tv.
      intros tv um. clear IHt. induction cs as [|c cs IHc]; [apply Dk_id|].
      inversion IHcs; subst. inversion Hsig; subst.
      destruct (rtl_case_match um tv (fst c)); [apply H1; auto|]. apply IHc; auto.
  Qed.
  (* targets the compiler accepts: assignable, linear (no signal twice in one target), declared shapes, and selectors
     (part offsets / array indices) that read well-formed state whatever `curr` is -- static targets (signals, slices,
     concatenations, u/s casts) satisfy the last clause trivially *)
  Definition lhs_ok (l : expr) : Prop :=
    wf_lhs l = true /\ lin l = true /\ sig_ok ss l /\ forall curr, sel_ok curr l.

  Fixpoint stmt_lhs_ok (s : stmt) : Prop :=
    match s with
    | SAssign l _ => lhs_ok l
    | SSwitch _ cs =>
        (fix go (cs : list (option (list pattern) * list stmt)) : Prop :=
           match cs with
           | [] => True
           | c :: cs' => (fix run (l : list stmt) : Prop :=
                            match l with [] => True | s' :: l' => stmt_lhs_ok s' /\ run l' end) (snd c) /\ go cs'
           end) cs
    end.

  Lemma stmt_lhs_ok_sw t cs : stmt_lhs_ok (SSwitch t cs) <-> Forall (fun c => Forall stmt_lhs_ok (snd c)) cs.
  Proof.
    simpl. induction cs as [|c cs IH]; simpl; [split; auto|]. rewrite IH.
    assert (Hrun : forall l, (fix run (l : list stmt) : Prop :=
               match l with [] => True | s' :: l' => stmt_lhs_ok s' /\ run l' end) l <-> Forall stmt_lhs_ok l).
    { induction l as [|x l IHl]; simpl; [split; auto|]. rewrite IHl.
      split; [intros [H1 H2]; constructor; auto|intros H; inversion H; auto]. }
    rewrite Hrun. split; [intros [H1 H2]; constructor; auto|intros H; inversion H; auto].
  Qed.

  Definition locf (f : env -> env) : Prop :=
    (forall nx nx' i, Dk i (f nx) nx (f nx') nx') /\
    (forall nx nx' i b, 0 <= b < width (ss i) -> Z.testbit (nx i) b = Z.testbit (nx' i) b ->
                        Z.testbit (f nx i) b = Z.testbit (f nx' i) b).

  Lemma exec_list_loc curr l : Forall (fun s => locf (exec_rtl curr s)) l -> locf (exec_rtl_list curr l).
  Proof.
    intros HF. unfold exec_rtl_list. split.
    - induction HF as [|s l [H1 H2] HF IH]; intros nx nx' i; simpl; [apply Dk_id|].
      eapply Dk_comp; [apply IH|apply H1].
    - induction HF as [|s l [H1 H2] HF IH]; intros nx nx' i b Hb E; simpl; [exact E|].
      apply IH; auto.
  Qed.

  Lemma exec_rtl_loc curr s : stmt_lhs_ok s -> locf (exec_rtl curr s).
  Proof.
    induction s as [l r|t cs IH] using stmt_ind'; intros Hok.
    - destruct Hok as (H1 & H2 & H3 & H4). split.
      + intros nx nx' i. simpl. apply assign_rtl_dich; auto.
      + intros nx nx' i b Hb E. simpl. rewrite !(assign_rtl_bits ss) by auto.
        destruct (wr curr l i b); auto.
    - apply stmt_lhs_ok_sw in Hok.
      assert (G : forall c, In c cs -> locf (exec_rtl_list curr (snd c))).
      { intros c Hc. apply exec_list_loc. rewrite Forall_forall in IH, Hok.
        pose proof (IH c Hc) as A. pose proof (Hok c Hc) as B. rewrite Forall_forall in A, B.
        apply Forall_forall. intros x Hx. apply A; auto. }
      split.
      + intros nx nx' i. simpl.
        generalize (use_match (map fst cs)) as um. generalize (rmask (ewidth t) (eval_rtl curr t)) as tv.
        intros tv um. clear IH Hok. induction cs as [|c cs IHc]; [apply Dk_id|].
        destruct (rtl_case_match um tv (fst c)).
        * rewrite !exec_run_fold. apply (G c); left; auto.
        * apply IHc. intros x Hx. apply G; right; auto.
      + intros nx nx' i b Hb E. simpl.
        generalize (use_match (map fst cs)) as um. generalize (rmask (ewidth t) (eval_rtl curr t)) as tv.
        intros tv um. clear IH Hok. induction cs as [|c cs IHc]; [exact E|].
        destruct (rtl_case_match um tv (fst c)).
        * rewrite !exec_run_fold. apply (G c); auto. left; auto.
        * apply IHc. intros x Hx. apply G; right; auto.
  Qed.

  Lemma exec_rtl_list_loc curr l : Forall stmt_lhs_ok l -> locf (exec_rtl_list curr l).
  Proof.
    intros H. apply exec_list_loc. rewrite Forall_forall in *. intros s Hs. apply exec_rtl_loc; auto.
  Qed.
End Locality.

(* ---------- the commit masks stay inside the declared widths ---------- *)
Section MaskBound.
  Variable ss : nat -> shape.
  Hypothesis Hss : forall i, wf_shape (ss i) = true.

  Definition mbounded (acc : maskmap) : Prop := forall i b, Z.testbit (acc i) b = true -> 0 <= b < width (ss i).

  Lemma wf_width_nonneg i : 0 <= width (ss i).
  Proof. pose proof (Hss i) as H. unfold wf_shape in H. destruct (sgn (ss i)); lia. Qed.

  Lemma ones_bit w b : 0 <= w -> Z.testbit (Z.shiftl 1 w - 1) b = true -> 0 <= b < w.
  Proof.
    intros Hw H. destruct (Z_lt_le_dec b 0) as [N|N]; [rewrite Z.testbit_neg_r in H by lia; discriminate|].
    rewrite Z.shiftl_1_l in H. replace (2 ^ w - 1) with (Z.ones w) in H by (rewrite Z.ones_equiv; lia).
    rewrite Z.testbit_ones_nonneg in H by lia. lia.
  Qed.

  Lemma lhs_mask_bounded lhs : sig_ok ss lhs -> forall mask acc, mbounded acc -> mbounded (lhs_mask lhs mask acc).
  Proof.
    induction lhs as [v s|j s|o a IHa|o a b0 IHa IHb|a lo hi IHa|a off w st IHa IHoff|l IH|t cs IHt IHcs]
      using expr_ind'; intros Hsig mask acc Hb; simpl in Hsig; simpl; auto.
    - intros i b H. rewrite mm_or_bit in H. destruct (Nat.eqb i j) eqn:E; [|auto].
      apply Nat.eqb_eq in E. subst j s. apply orb_prop in H. destruct H as [H|H]; [auto|].
      rewrite Z.land_spec in H. apply andb_prop in H. destruct H as [_ H].
      apply ones_bit; auto. apply wf_width_nonneg.
    - destruct o; auto.
    - apply (proj1 (sig_ok_cat ss l)) in Hsig. rewrite Forall_forall in IH, Hsig.
      assert (Hgo : forall ps mask acc, (forall p, In p ps -> In p l) -> mbounded acc ->
        mbounded ((fix go (ps : list expr) (mask : Z) (acc : maskmap) : maskmap :=
           match ps with [] => acc
           | p :: ps' => go ps' (Z.shiftr mask (ewidth p)) (lhs_mask p mask acc)
           end) ps mask acc)).
      { induction ps as [|p ps IHps]; intros mask0 acc0 Hsub H0; auto.
        apply IHps; [intros x Hx; apply Hsub; right; auto|]. apply IH; auto; [apply Hsub; left; auto|].
        apply Hsig. apply Hsub; left; auto. }
      apply Hgo; auto.
    - apply (proj1 (sig_ok_sw ss t cs)) in Hsig. rewrite Forall_forall in IHcs, Hsig.
      assert (Hgo : forall cs' acc, (forall c, In c cs' -> In c cs) -> mbounded acc ->
        mbounded ((fix go (cs : list (option (list pattern) * expr)) (acc : maskmap) : maskmap :=
           match cs with [] => acc | c :: cs' => go cs' (lhs_mask (snd c) mask acc) end) cs' acc)).
      { induction cs' as [|c cs' IHc]; intros acc0 Hsub H0; auto.
        apply IHc; [intros x Hx; apply Hsub; right; auto|]. apply IHcs; auto; [apply Hsub; left; auto|].
        apply Hsig. apply Hsub; left; auto. }
      apply Hgo; auto.
  Qed.

  Lemma stmt_mask_bounded s : stmt_lhs_ok ss s -> forall acc, mbounded acc -> mbounded (stmt_mask s acc).
  Proof.
    induction s as [l r|t cs IH] using stmt_ind'; intros Hok acc Hb; simpl.
    - destruct Hok as (_ & _ & H3 & _). apply lhs_mask_bounded; auto.
    - apply stmt_lhs_ok_sw in Hok. rewrite Forall_forall in IH, Hok.
      assert (Hgo : forall cs' acc, (forall c, In c cs' -> In c cs) -> mbounded acc ->
        mbounded ((fix go (cs : list (option (list pattern) * list stmt)) (acc : maskmap) : maskmap :=
           match cs with
           | [] => acc
           | c :: cs' => go cs' ((fix run (ss : list stmt) (acc : maskmap) : maskmap :=
                                    match ss with [] => acc | s' :: ss' => run ss' (stmt_mask s' acc) end) (snd c) acc)
           end) cs' acc)).
      { induction cs' as [|c cs' IHc]; intros acc0 Hsub H0; auto.
        apply IHc; [intros x Hx; apply Hsub; right; auto|].
        pose proof (IH c (Hsub c (or_introl eq_refl))) as IHb. pose proof (Hok c (Hsub c (or_introl eq_refl))) as Hokb.
        rewrite Forall_forall in IHb, Hokb.
        clear -IHb Hokb H0. revert acc0 H0. induction (snd c) as [|s l IHl]; intros acc0 H0; auto.
        apply IHl; [intros x Hx; apply IHb; right; auto|intros x Hx; apply Hokb; right; auto|].
        apply IHb; auto; [left; auto|apply Hokb; left; auto]. }
      apply Hgo; auto.
  Qed.

  Lemma stmts_mask_bounded l : Forall (stmt_lhs_ok ss) l -> mbounded (stmts_mask l).
  Proof.
    intros HF. unfold stmts_mask.
    assert (G : forall acc, mbounded acc -> mbounded (fold_left (fun acc s => stmt_mask s acc) l acc)).
    { induction HF as [|s l Hs HF IH]; intros acc Hb; simpl; auto. apply IH. apply stmt_mask_bounded; auto. }
    apply G. intros i b H. rewrite Z.bits_0 in H. discriminate.
  Qed.
End MaskBound.

(* ---------- bits above the width of a value inside its shape ---------- *)
Lemma in_range_high_unsigned s v b : sgn s = false -> in_range s v -> 0 <= width s <= b -> Z.testbit v b = false.
Proof.
  intros Hs Hr Hb. unfold in_range in Hr. rewrite Hs in Hr.
  rewrite <- (Z.mod_small v (2 ^ width s)) by lia. apply Z.mod_pow2_bits_high. lia.
Qed.

Lemma in_range_high_signed s v b : sgn s = true -> 1 <= width s -> in_range s v -> width s - 1 <= b ->
  Z.testbit v b = (v <? 0).
Proof.
  intros Hs Hw Hr Hb. unfold in_range in Hr. rewrite Hs in Hr.
  destruct (Z_lt_le_dec v 0) as [N|N].
  - replace (v <? 0) with true by lia.
    replace v with (- (- v)) by lia. rewrite Z.bits_opp by lia.
    rewrite <- (Z.mod_small (Z.pred (- v)) (2 ^ (width s - 1))) by lia.
    rewrite Z.mod_pow2_bits_high by lia. reflexivity.
  - replace (v <? 0) with false by lia.
    rewrite <- (Z.mod_small v (2 ^ (width s - 1))) by lia. apply Z.mod_pow2_bits_high. lia.
Qed.

Lemma update_mask_high s m b : 0 <= width s <= b -> Z.testbit (update_mask s m) b = true ->
  Z.testbit m b = true \/ (sgn s = true /\ Z.testbit m (width s - 1) = true).
Proof.
  intros Hb H. unfold update_mask in H. destruct (sgn s && Z.testbit m (width s - 1)) eqn:E; [|auto].
  apply andb_prop in E. auto.
Qed.

(* ---------- one compiled process: the update() calls depend on `next` only through the bits of its own masks ---------- *)
Section ProcLocal.
  Variable ss : nat -> shape.
  Variable tab : sigtab.
  Hypothesis Hd : design_ok ss tab.

  Lemma Hss' : forall i, wf_shape (ss i) = true.
  Proof. intros i. apply (Hd i). Qed.

  Definition pmask (l : list stmt) (i : nat) : Z := update_mask (sd_shape (tab i)) (stmts_mask l i).

  Lemma masked_result_local (f : env -> env) (m : maskmap) e0 e0' i :
    locf ss f -> mbounded ss m ->
    (forall b, 0 <= b -> Z.testbit (update_mask (ss i) (m i)) b = true -> Z.testbit (e0 i) b = Z.testbit (e0' i) b) ->
    Z.land (f e0 i) (update_mask (ss i) (m i)) = Z.land (f e0' i) (update_mask (ss i) (m i)).
  Proof.
    intros [L1 L2] Hm He. apply Z.bits_inj'. intros b Hb. rewrite !Z.land_spec.
    destruct (Z.testbit (update_mask (ss i) (m i)) b) eqn:Eb; [|rewrite !andb_false_r; reflexivity].
    rewrite !andb_true_r. pose proof (Hss' i) as Hwf.
    destruct (Z_lt_le_dec b (width (ss i))) as [Lo|Hi].
    - apply L2; [lia|apply He; auto].
    - assert (Hw : 0 <= width (ss i)) by (unfold wf_shape in Hwf; destruct (sgn (ss i)); lia).
      destruct (update_mask_high (ss i) (m i) b ltac:(lia) Eb) as [Hm1|[Hs Hm1]].
      + apply Hm in Hm1. lia.
      + assert (Hw1 : 1 <= width (ss i)) by (unfold wf_shape in Hwf; rewrite Hs in Hwf; lia).
        destruct (L1 e0 e0' i) as [[A B]|[A B]].
        * rewrite A, B. apply He; auto.
        * rewrite (in_range_high_signed (ss i) _ b Hs Hw1 A) by lia.
          rewrite (in_range_high_signed (ss i) _ b Hs Hw1 B) by lia.
          rewrite <- (in_range_high_signed (ss i) _ (width (ss i) - 1) Hs Hw1 A) by lia.
          rewrite <- (in_range_high_signed (ss i) _ (width (ss i) - 1) Hs Hw1 B) by lia.
          apply L2; [lia|]. apply He; [lia|].
          rewrite testbit_update_mask by (auto; lia). exact Hm1.
  Qed.

  Lemma rtl_writes_weqs n m e e' :
    (forall i, Z.land (e i) (update_mask (sd_shape (tab i)) (m i)) = Z.land (e' i) (update_mask (sd_shape (tab i)) (m i))) ->
    weqs (rtl_writes tab n m e) (rtl_writes tab n m e').
  Proof.
    intros H. unfold rtl_writes. induction (seq 0 n) as [|i l IH]; simpl; [constructor|].
    destruct (m i =? 0); simpl; auto. constructor; auto. repeat split; simpl; auto.
  Qed.

  Lemma rtl_writes_mask n m e w : In w (rtl_writes tab n m e) -> w_mask w = update_mask (sd_shape (tab (w_sig w))) (m (w_sig w)).
  Proof.
    unfold rtl_writes. intros H. apply in_flat_map in H. destruct H as (i & _ & H).
    destruct (m i =? 0); simpl in H; [tauto|]. destruct H as [<-|[]]. reflexivity.
  Qed.

  (* a process is mask-local for the mask table pm: it writes inside pm and reads `next` through pm only *)
  Definition mask_local (pr : proc) (pm : nat -> Z) : Prop :=
    (forall l res cu nx w, In w (r_writes (p_run pr l res cu nx)) -> Z.land (w_mask w) (Z.lnot (pm (w_sig w))) = 0) /\
    (forall l res cu nx nx',
       (forall i, Z.land (nth i nx 0) (pm i) = Z.land (nth i nx' 0) (pm i)) ->
       r_local (p_run pr l res cu nx) = r_local (p_run pr l res cu nx') /\
       r_delay (p_run pr l res cu nx) = r_delay (p_run pr l res cu nx') /\
       weqs (r_writes (p_run pr l res cu nx)) (r_writes (p_run pr l res cu nx'))).

  Lemma rtl_comb_mask_local n l inputs :
    Forall (stmt_lhs_ok ss) l -> mask_local (rtl_comb tab n l inputs) (pmask l).
  Proof.
    intros Hl. split.
    - intros lo res cu nx w H. simpl in H. apply rtl_writes_mask in H. rewrite H. apply Z.land_lnot_diag.
    - intros lo res cu nx nx' _. simpl. repeat split. apply rtl_writes_weqs. intros i.
      destruct (Hd i) as [Hsh _]. rewrite Hsh.
      destruct (stmts_mask l i =? 0) eqn:E0.
      { apply Z.eqb_eq in E0. rewrite E0. unfold update_mask. rewrite Z.bits_0, andb_false_r, !Z.land_0_r. reflexivity. }
      apply masked_result_local.
      + apply exec_rtl_list_loc; auto. apply Hss'.
      + apply stmts_mask_bounded; auto. apply Hss'.
      + intros b _ _. rewrite E0. reflexivity.
  Qed.

  Lemma rtl_sync_mask_local n l clk pol rst arst :
    Forall (stmt_lhs_ok ss) l -> mask_local (rtl_sync tab n l clk pol rst arst) (pmask l).
  Proof.
    intros Hl. split.
    - intros lo res cu nx w H. simpl in H. apply rtl_writes_mask in H. rewrite H. apply Z.land_lnot_diag.
    - intros lo res cu nx nx' Hag. simpl. repeat split. apply rtl_writes_weqs. intros i.
      destruct (_ && negb (stmts_mask l i =? 0) && negb (sd_reset_less (tab i))); [reflexivity|].
      destruct (Hd i) as [Hsh _]. rewrite Hsh.
      apply masked_result_local.
      + apply exec_rtl_list_loc; auto. apply Hss'.
      + apply stmts_mask_bounded; auto. apply Hss'.
      + intros b Hb Hm. unfold env_of_list.
        assert (E := f_equal (fun z => Z.testbit z b) (Hag i)). simpl in E.
        rewrite !Z.land_spec in E. unfold pmask in E. rewrite Hsh, Hm, !andb_true_r in E. exact E.
  Qed.
  (* the process of an asynchronous-reset domain: without a clock edge it loads reset values (no read of `next`),
     with one it is the synchronous process *)
  Lemma rtl_sync_arst_mask_local n l clk pos rst :
    Forall (stmt_lhs_ok ss) l -> mask_local (rtl_sync_arst tab n l clk pos rst) (pmask l).
  Proof.
    intros Hl. split.
    - intros lo res cu nx w H. simpl in H. destruct (hd 0 res =? 0).
      + simpl in H. apply in_flat_map in H. destruct H as (i & _ & H).
        destruct ((stmts_mask l i =? 0) || sd_reset_less (tab i)); simpl in H; [tauto|].
        destruct H as [<-|[]]. simpl. apply Z.land_lnot_diag.
      + simpl in H. apply rtl_writes_mask in H. rewrite H. apply Z.land_lnot_diag.
    - intros lo res cu nx nx' Hag. simpl. destruct (hd 0 res =? 0); [repeat split; apply weqs_refl|].
      simpl. repeat split. apply rtl_writes_weqs. intros i.
      destruct (_ && negb (stmts_mask l i =? 0) && negb (sd_reset_less (tab i))); [reflexivity|].
      destruct (Hd i) as [Hsh _]. rewrite Hsh.
      apply masked_result_local.
      + apply exec_rtl_list_loc; auto. apply Hss'.
      + apply stmts_mask_bounded; auto. apply Hss'.
      + intros b Hb Hm. unfold env_of_list.
        assert (E := f_equal (fun z => Z.testbit z b) (Hag i)). simpl in E.
        rewrite !Z.land_spec in E. unfold pmask in E. rewrite Hsh, Hm, !andb_true_r in E. exact E.
  Qed.
End ProcLocal.

(* processes that write one whole slot and never look at `next`: the clock and the two documented replacement patterns *)
Definition whole (slot : nat) (i : nat) : Z := if Nat.eqb i slot then -1 else 0.

Lemma mask_local_whole pr slot :
  (forall l res cu nx w, In w (r_writes (p_run pr l res cu nx)) -> w_sig w = slot) ->
  (forall l res cu nx nx', p_run pr l res cu nx = p_run pr l res cu nx') ->
  mask_local pr (whole slot).
Proof.
  intros Hw Hr. split.
  - intros l res cu nx w H. rewrite (Hw _ _ _ _ _ H). unfold whole. rewrite Nat.eqb_refl. apply Z.land_0_r.
  - intros l res cu nx nx' _. rewrite (Hr l res cu nx nx'). repeat split. apply weqs_refl.
Qed.

Lemma clock_mask_local slot phase period : mask_local (clock_proc slot phase period) (whole slot).
Proof.
  apply mask_local_whole; [|reflexivity].
  intros l res cu nx w H. simpl in H. unfold clock_run in H.
  destruct l as [|[|x|x] l]; simpl in H; try tauto. destruct H as [<-|[]]. reflexivity.
Qed.

Lemma user_comb_mask_local out sh ins f : mask_local (user_comb out sh ins f) (whole out).
Proof.
  apply mask_local_whole; [|reflexivity]. intros l res cu nx w H. simpl in H. destruct H as [<-|[]]. reflexivity.
Qed.

Lemma user_sync_mask_local out sh init clk pol rst ins f :
  mask_local (user_sync out sh init clk pol rst ins f) (whole out).
Proof.
  apply mask_local_whole; [|reflexivity]. intros l res cu nx w H. simpl in H.
  destruct (tick_fmt res) as [|c [|r vals]]; simpl in H; try tauto.
  destruct (negb (r =? 0)); simpl in H; [destruct H as [<-|[]]; reflexivity|].
  destruct (negb (c =? 0)); simpl in H; [destruct H as [<-|[]]; reflexivity|tauto].
Qed.

(* processes that never look at `next` and write whole slots out of a fixed set *)
Definition among (l : list nat) (i : nat) : Z := if existsb (Nat.eqb i) l then -1 else 0.

Lemma mask_local_among pr l :
  (forall lo res cu nx w, In w (r_writes (p_run pr lo res cu nx)) -> In (w_sig w) l) ->
  (forall lo res cu nx nx', p_run pr lo res cu nx = p_run pr lo res cu nx') ->
  mask_local pr (among l).
Proof.
  intros Hw Hr. split.
  - intros lo res cu nx w H. apply Hw in H. unfold among.
    replace (existsb (Nat.eqb (w_sig w)) l) with true; [apply Z.land_0_r|].
    symmetry. apply existsb_exists. exists (w_sig w). split; auto. apply Nat.eqb_refl.
  - intros lo res cu nx nx' _. rewrite (Hr lo res cu nx nx'). repeat split. apply weqs_refl.
Qed.

Lemma user_gen_mask_local spec binds outs :
  mask_local (user_gen spec binds outs) (among (map (fun o => fst (fst o)) outs)).
Proof.
  apply mask_local_among; [|reflexivity]. intros lo res cu nx w H. simpl in H.
  apply in_map_iff in H. destruct H as ([o v] & <- & H). apply in_combine_l in H. simpl.
  apply in_map_iff. exists o. auto.
Qed.

Lemma mem_comb_mask_local base depth rowsh rports inputs :
  mask_local (mem_comb base depth rowsh rports inputs) (among (map rp_data rports)).
Proof.
  apply mask_local_among; [|reflexivity]. intros lo res cu nx w H. simpl in H.
  apply in_map_iff in H. destruct H as (rp & <- & H). simpl. apply in_map; auto.
Qed.

Lemma among_lor l1 l2 i : Z.lor (among l1 i) (among l2 i) = among (l1 ++ l2) i.
Proof. unfold among. rewrite existsb_app. destruct (existsb _ l1), (existsb _ l2); reflexivity. Qed.

Lemma mem_sync_mask_local base depth rowsh clk pol wports rports :
  mask_local (mem_sync base depth rowsh clk pol wports rports)
             (fun i => Z.lor (among (seq base depth) i) (among (map rp_data rports) i)).
Proof.
  assert (E : forall pr pm pm', (forall i, pm i = pm' i) -> mask_local pr pm -> mask_local pr pm').
  { intros pr pm pm' Hx [A B]. split.
    - intros. rewrite <- Hx. eapply A; eauto.
    - intros lo res cu nx nx' H. apply B. intros i. rewrite !Hx. apply H. }
  apply (E _ (among (seq base depth ++ map rp_data rports))); [intros; symmetry; apply among_lor|].
  apply mask_local_among; [|reflexivity]. intros lo res cu nx w H. cbn [mem_sync p_run r_writes] in H.
  apply in_app_or in H. apply in_or_app. destruct H as [H|H].
  - left. apply in_flat_map in H. destruct H as ([[a d] e] & _ & H).
    destruct ((0 <=? a) && (a <? Z.of_nat depth)) eqn:Ea; [|destruct H].
    destruct H as [<-|[]]. cbn [w_sig].
    apply andb_prop in Ea. destruct Ea as [E1 E2]. apply Z.leb_le in E1. apply Z.ltb_lt in E2.
    apply in_seq. lia.
  - right. apply in_flat_map in H. destruct H as (rp & Hrp & H).
    match type of H with context [if ?c then _ else _] => destruct c end; [destruct H|].
    destruct H as [<-|[]]. cbn [w_sig]. apply in_map; auto.
Qed.

(* ---------- the general sufficient condition ---------- *)
Definition no_mask : nat -> Z := fun _ => 0.

Definition masks_disjoint (pms : list (nat -> Z)) : Prop :=
  forall a b i, a <> b -> Z.land (nth a pms no_mask i) (nth b pms no_mask i) = 0.

(* any process list whose members are mask-local for pairwise-disjoint mask tables is write_disjoint *)
Theorem disjoint_masks_write_disjoint ps pms :
  Forall2 mask_local ps pms -> masks_disjoint pms -> write_disjoint ps.
Proof.
  intros HF HD. exists (fun k => nth k pms no_mask).
  assert (G : forall k, mask_local (nth k ps no_proc) (nth k pms no_mask)).
  { clear HD. induction HF as [|p pm ps pms Hp HF IH]; intros k.
    - destruct k; simpl; (split; [intros ? ? ? ? ? []|intros; repeat split; constructor]).
    - destruct k; simpl; auto. }
  constructor.
  - exact HD.
  - intros k. apply (G k).
  - intros k. apply (G k).
Qed.

(* ---------- every process system the simulator builds ---------- *)
(* one entry per member of PySimEngine._processes: a compiled (fragment, domain) process, an added clock, or a user
   process in one of the two documented replacement patterns *)
Inductive cdesc :=
| CComb (l : list stmt) (inputs : list nat)
| CSync (l : list stmt) (clk : nat) (pol : Z) (rst : option nat) (arst : bool)
| CClock (slot : nat) (phase period : Z)
| CUComb (out : nat) (sh : shape) (ins : list nat) (f : expr)
| CUSync (out : nat) (sh : shape) (init : Z) (clk : nat) (pol : bool) (rst : option nat) (ins : list nat) (f : expr)
| CSyncA (l : list stmt) (clk : nat) (pos : bool) (rst : nat)
| CUGen (spec : list trig) (binds : list nat) (outs : list (nat * shape * expr))
| CMemComb (base depth : nat) (rowsh : shape) (rports : list rport) (inputs : list nat)
| CMemSync (base depth : nat) (rowsh : shape) (clk : nat) (pol : Z) (wports : list wport) (rports : list rport).

Definition cproc (tab : sigtab) (n : nat) (d : cdesc) : proc :=
  match d with
  | CComb l inputs => rtl_comb tab n l inputs
  | CSync l clk pol rst arst => rtl_sync tab n l clk pol rst arst
  | CClock slot phase period => clock_proc slot phase period
  | CUComb out sh ins f => user_comb out sh ins f
  | CUSync out sh init clk pol rst ins f => user_sync out sh init clk pol rst ins f
  | CSyncA l clk pos rst => rtl_sync_arst tab n l clk pos rst
  | CUGen spec binds outs => user_gen spec binds outs
  | CMemComb base depth rowsh rports inputs => mem_comb base depth rowsh rports inputs
  | CMemSync base depth rowsh clk pol wports rports => mem_sync base depth rowsh clk pol wports rports
  end.

(* the bits a process may write: the LHSMaskCollector masks of a compiled process, the whole clock / output signal otherwise *)
Definition cmask (tab : sigtab) (d : cdesc) : nat -> Z :=
  match d with
  | CComb l _ => pmask tab l
  | CSync l _ _ _ _ => pmask tab l
  | CClock slot _ _ => whole slot
  | CUComb out _ _ _ => whole out
  | CUSync out _ _ _ _ _ _ _ => whole out
  | CSyncA l _ _ _ => pmask tab l
  | CUGen _ _ outs => among (map (fun o => fst (fst o)) outs)
  | CMemComb _ _ _ rports _ => among (map rp_data rports)
  | CMemSync base depth _ _ _ _ rports => fun i => Z.lor (among (seq base depth) i) (among (map rp_data rports) i)
  end.

Definition cdesc_ok (ss : nat -> shape) (d : cdesc) : Prop :=
  match d with
  | CComb l _ => Forall (stmt_lhs_ok ss) l
  | CSync l _ _ _ _ => Forall (stmt_lhs_ok ss) l
  | CSyncA l _ _ _ => Forall (stmt_lhs_ok ss) l
  | _ => True
  end.

(* each signal bit driven by at most one process (the driver-conflict rule) is all that write_disjoint needs *)
Theorem compiled_write_disjoint ss tab n ds :
  design_ok ss tab -> Forall (cdesc_ok ss) ds -> masks_disjoint (map (cmask tab) ds) ->
  write_disjoint (map (cproc tab n) ds).
Proof.
  intros Hd Hok HD. apply (disjoint_masks_write_disjoint _ (map (cmask tab) ds)); auto.
  clear HD. induction Hok as [|d ds Hdk Hok IH]; simpl; constructor; auto.
  destruct d; simpl in *.
  - apply (rtl_comb_mask_local ss tab Hd); auto.
  - apply (rtl_sync_mask_local ss tab Hd); auto.
  - apply clock_mask_local.
  - apply user_comb_mask_local.
  - apply user_sync_mask_local.
  - apply (rtl_sync_arst_mask_local ss tab Hd); auto.
  - apply user_gen_mask_local.
  - apply mem_comb_mask_local.
  - apply mem_sync_mask_local.
Qed.

Theorem run_order_independent_compiled ss tab n ds orc orc' sfuel tfuel t_end fuel st :
  design_ok ss tab -> Forall (cdesc_ok ss) ds -> masks_disjoint (map (cmask tab) ds) -> oracle_equiv orc orc' ->
  run (map (cproc tab n) ds) orc sfuel tfuel t_end fuel st = run (map (cproc tab n) ds) orc' sfuel tfuel t_end fuel st.
Proof.
  intros Hd Hok HD OE. apply run_order_independent; auto. eapply compiled_write_disjoint; eauto.
Qed.

(* non-vacuity: 3 compiled processes in 2 clock domains; the signed register R (slot 3) is split between the domains
   (low half clocked by slot 0, high half including the sign bit by slot 1) and a comb process owns half of S (slot 4) *)
Definition ex3_tab : sigtab := fun i =>
  match i with
  | 0%nat | 1%nat => Build_sigdesc (Sh 1 false) 0 false
  | 2%nat => Build_sigdesc (Sh 4 false) 3 false
  | 3%nat => Build_sigdesc (Sh 8 true) (-3) false
  | 4%nat => Build_sigdesc (Sh 6 false) 0 false
  | _ => Build_sigdesc (Sh 0 false) 0 false
  end.
Definition ex3_ss : nat -> shape := fun i => sd_shape (ex3_tab i).
Definition ex3_ds : list cdesc :=
  [CComb [SAssign (ESlice (ESig 4 (Sh 6 false)) 0 3) (ESig 2 (Sh 4 false))] [2%nat];
   CSync [SAssign (ESlice (ESig 3 (Sh 8 true)) 0 4)
                  (EOp2 OAdd (ESlice (ESig 3 (Sh 8 true)) 0 4) (EConst 1 (Sh 1 false)))] 0 1 None false;
   CSync [SSwitch (ESlice (ESig 2 (Sh 4 false)) 0 1)
                  [(Some [[Some true]], [SAssign (ESlice (ESig 3 (Sh 8 true)) 4 8) (ESig 2 (Sh 4 false))])]] 1 1 None false].

Lemma ex3_design_ok : design_ok ex3_ss ex3_tab.
Proof. intros i. split; [reflexivity|]. destruct i as [|[|[|[|[|i]]]]]; reflexivity. Qed.

Lemma ex3_ok : Forall (cdesc_ok ex3_ss) ex3_ds.
Proof.
  repeat constructor; simpl; auto.
Qed.

Lemma ex3_disjoint : masks_disjoint (map (cmask ex3_tab) ex3_ds).
Proof.
  intros a b i N.
  destruct (Nat.lt_ge_cases a 3) as [La|La];
    [|rewrite (nth_overflow (map (cmask ex3_tab) ex3_ds) no_mask) by (simpl; lia); apply Z.land_0_l].
  destruct (Nat.lt_ge_cases b 3) as [Lb|Lb];
    [|rewrite (nth_overflow (map (cmask ex3_tab) ex3_ds) no_mask (n := b)) by (simpl; lia); apply Z.land_0_r].
  destruct a as [|[|[|a]]]; try lia; destruct b as [|[|[|b]]]; try lia; try congruence;
    destruct i as [|[|[|[|[|i]]]]]; vm_compute; reflexivity.
Qed.

(* ================================================================ clocks in the composed system *)
(* Clock process k inside an arbitrary process list (other clocks with any periods / phases, compiled RTL processes,
   user processes) and with arbitrary testbenches: its j-th run happens at exactly the time the isolated system
   clk_sys predicts. Induction over the steps of advance() / run. *)
Section ClockComposed.
  Variable ps : list proc.
  Variable k : nat.
  Variables (slot : nat) (phase period : Z).
  Hypothesis Hk : nth k ps no_proc = clock_proc slot phase period.
  Hypothesis Hphase : 0 <= phase.
  Hypothesis Hperiod : 0 <= period.

  Let T (j : nat) : Z := snd (clk_sys slot phase period j).
  Let L (j : nat) : list Z := fst (clk_sys slot phase period j).

  (* about to make run j: this happens at time T j exactly *)
  Definition clk_due (j : nat) (st : estate) : Prop :=
    (k < length (e_procs st))%nat /\
    nth k (e_procs st) no_pstate = PS true (L j) None t_none (ps_res (nth k (e_procs st) no_pstate))
                                      (ps_first (nth k (e_procs st) no_pstate)) /\
    e_now st = T j.

  (* run j made; the waker is armed for time T (j+1) exactly and time has not passed it *)
  Definition clk_sleep (j : nat) (st : estate) : Prop :=
    (k < length (e_procs st))%nat /\
    nth k (e_procs st) no_pstate = PS false (L (S j)) (Some (T (S j))) t_none (ps_res (nth k (e_procs st) no_pstate))
                                      (ps_first (nth k (e_procs st) no_pstate)) /\
    e_now st <= T (S j).

  Definition clk_inv (j : nat) (st : estate) : Prop := clk_due j st \/ clk_sleep j st.

  Definition same_clk (st st' : estate) : Prop :=
    nth k (e_procs st') no_pstate = nth k (e_procs st) no_pstate /\ e_now st' = e_now st /\
    length (e_procs st') = length (e_procs st).

  Lemma same_clk_refl st : same_clk st st.
  Proof. repeat split. Qed.

  Lemma same_clk_trans a b c : same_clk a b -> same_clk b c -> same_clk a c.
  Proof. intros (A1 & A2 & A3) (B1 & B2 & B3). repeat split; congruence. Qed.

  Lemma due_same j st st' : same_clk st st' -> clk_due j st -> clk_due j st'.
  Proof. intros (A1 & A2 & A3) (B1 & B2 & B3). unfold clk_due. rewrite A1, A2, A3. auto. Qed.

  Lemma sleep_same j st st' : same_clk st st' -> clk_sleep j st -> clk_sleep j st'.
  Proof. intros (A1 & A2 & A3) (B1 & B2 & B3). unfold clk_sleep. rewrite A1, A2, A3. auto. Qed.

  Definition quiet (st : estate) : Prop :=
    (k < length (e_procs st))%nat /\ ps_trig (nth k (e_procs st) no_pstate) = t_none.

  Lemma due_quiet j st : clk_due j st -> quiet st.
  Proof. intros (A & B & _). split; auto. rewrite B. reflexivity. Qed.
  Lemma sleep_quiet j st : clk_sleep j st -> quiet st.
  Proof. intros (A & B & _). split; auto. rewrite B. reflexivity. Qed.

  Lemma trig_step_same st o : quiet st -> same_clk st (trig_step st o).
  Proof.
    intros [Lk Q]. destruct o as [j|j]; simpl.
    - destruct (t_active (ps_trig (nth j (e_procs st) no_pstate))) eqn:A; [|apply same_clk_refl].
      destruct (Nat.eq_dec j k) as [->|N]; [rewrite Q in A; discriminate|].
      repeat split; simpl; [apply nth_set_nth_neq; auto|apply set_nth_length].
    - destruct (t_active (tb_trig (nth j (e_tbs st) no_tb))); repeat split.
  Qed.

  Lemma fold_trig_step_same o : forall st, quiet st -> same_clk st (fold_left trig_step o st).
  Proof.
    induction o as [|a o IH]; intros st Q; simpl; [apply same_clk_refl|].
    pose proof (trig_step_same st a Q) as S1. eapply same_clk_trans; [exact S1|]. apply IH.
    destruct Q as [Lk Q]. destruct S1 as (A1 & A2 & A3). split; [lia|]. rewrite A1. exact Q.
  Qed.

  Lemma run_proc_other_same st j : j <> k -> same_clk st (run_proc ps st j).
  Proof.
    intros N. unfold run_proc. destruct (ps_run (nth j (e_procs st) no_pstate)); [|apply same_clk_refl].
    destruct proc_step as [p' ws]. repeat split; simpl; [apply nth_set_nth_neq; auto|apply set_nth_length].
  Qed.

  Lemma clk_sys_step j : T (S j) = T j + (if hd 1 (L j) =? 0 then period / 2 else phase) /\ L (S j) = [0].
  Proof.
    unfold T, L. split; [|rewrite clock_edges_exact; reflexivity].
    destruct j as [|j].
    - simpl. lia.
    - rewrite !clock_edges_exact. cbn [fst snd hd]. rewrite Nat2Z.inj_succ. simpl (0 =? 0). lia.
  Qed.

  Lemma delay_nonneg j : 0 <= (if hd 1 (L j) =? 0 then period / 2 else phase).
  Proof. destruct (hd 1 (L j) =? 0); auto. apply Z.div_pos; lia. Qed.

  (* the run itself: at time T j the process arms its waker for T (j+1) *)
  Lemma run_proc_clock_due j st : clk_due j st -> clk_sleep j (run_proc ps st k).
  Proof.
    intros (Lk & E & Hn). unfold run_proc. rewrite E. cbn [ps_run]. rewrite Hk.
    unfold proc_step. cbn [p_trig clock_proc p_run ps_local ps_timer ps_trig ps_res].
    destruct (clk_sys_step j) as [ET EL]. pose proof (delay_nonneg j) as Dn.
    unfold clk_sleep. cbn [e_procs e_now]. rewrite set_nth_length. split; [auto|].
    rewrite nth_set_nth_eq by auto. cbn [ps_res ps_first].
    destruct (Z.eq_dec (hd 1 (L j)) 0) as [Z0|Z0].
    - rewrite (clock_run_toggle _ _ _ _ _ Z0). cbn [r_local r_delay]. rewrite ET, EL, Z0, Hn. rewrite Z0 in Dn.
      simpl (0 =? 0) in *. split; [reflexivity|lia].
    - rewrite (clock_run_initial _ _ _ _ _ Z0). cbn [r_local r_delay]. rewrite ET, EL, Hn.
      apply Z.eqb_neq in Z0. rewrite Z0 in *. split; [reflexivity|lia].
  Qed.

  Lemma run_proc_clock_sleep j st : clk_sleep j st -> run_proc ps st k = st.
  Proof. intros (Lk & E & Hn). unfold run_proc. rewrite E. reflexivity. Qed.

  Lemma fold_run_proc_sleep j o : forall st, clk_sleep j st -> clk_sleep j (fold_left (run_proc ps) o st).
  Proof.
    induction o as [|a o IH]; intros st H; simpl; auto. apply IH.
    destruct (Nat.eq_dec a k) as [->|N]; [rewrite (run_proc_clock_sleep j st H); auto|].
    eapply sleep_same; [apply run_proc_other_same; auto|auto].
  Qed.

  Lemma fold_run_proc_due j o : forall st, clk_due j st -> In k o -> clk_sleep j (fold_left (run_proc ps) o st).
  Proof.
    induction o as [|a o IH]; intros st H I; simpl; [destruct I|].
    destruct (Nat.eq_dec a k) as [->|N].
    - apply fold_run_proc_sleep. apply run_proc_clock_due; auto.
    - destruct I as [I|I]; [congruence|]. apply IH; auto.
      eapply due_same; [apply run_proc_other_same; auto|auto].
  Qed.

  Lemma ps_notify_quiet i c n p : ps_trig p = t_none -> ps_notify ps i c n k p = p.
  Proof.
    intros Q. unfold ps_notify. rewrite Hk, Q. destruct p; simpl in *. subst. rewrite orb_false_r. reflexivity.
  Qed.

  Lemma commit_slot_same x i : quiet (fst x) -> same_clk (fst x) (fst (commit_slot ps x i)).
  Proof.
    destruct x as [st ch]. intros [Lk Q]. unfold commit_slot. destruct (nth_error (e_slots st) i); [|apply same_clk_refl].
    destruct (sp s && negb (sc s =? sn s)); [|apply same_clk_refl].
    cbn [fst e_procs e_now] in *. repeat split; [|apply mapi_from_length].
    cbn [e_procs]. unfold mapi. rewrite (mapi_from_nth _ _ _ _ no_pstate) by auto. simpl. apply ps_notify_quiet; auto.
  Qed.

  Lemma fold_commit_same o : forall x, quiet (fst x) -> same_clk (fst x) (fst (fold_left (commit_slot ps) o x)).
  Proof.
    induction o as [|a o IH]; intros x Q; simpl; [apply same_clk_refl|].
    pose proof (commit_slot_same x a Q) as S1. eapply same_clk_trans; [exact S1|]. apply IH.
    destruct Q as [Lk Q]. destruct S1 as (A1 & A2 & A3). split; [lia|]. rewrite A1. exact Q.
  Qed.

  Lemma run_delta_after_procs o st st2 :
    quiet st2 -> st2 = fold_left (run_proc ps) (o_proc o) (fold_left trig_step (o_trig o) st) ->
    same_clk st2 (fst (run_delta ps o st)).
  Proof.
    intros Q E. unfold run_delta. rewrite <- E.
    pose proof (fold_commit_same (o_commit o) (st2, false) Q) as S1.
    destruct (fold_left (commit_slot ps) (o_commit o) (st2, false)) as [st3 ch]. cbn [fst] in *.
    destruct S1 as (A1 & A2 & A3). repeat split; auto.
  Qed.

  Lemma run_delta_clock_sleep j o st : clk_sleep j st -> clk_sleep j (fst (run_delta ps o st)).
  Proof.
    intros H.
    assert (H1 : clk_sleep j (fold_left trig_step (o_trig o) st)).
    { eapply sleep_same; [apply fold_trig_step_same; eapply sleep_quiet; eauto|auto]. }
    assert (H2 : clk_sleep j (fold_left (run_proc ps) (o_proc o) (fold_left trig_step (o_trig o) st))).
    { apply fold_run_proc_sleep; auto. }
    eapply sleep_same; [eapply run_delta_after_procs; [eapply sleep_quiet; eauto|reflexivity]|auto].
  Qed.

  Lemma run_delta_clock_due j o st : clk_due j st -> In k (o_proc o) -> clk_sleep j (fst (run_delta ps o st)).
  Proof.
    intros H I.
    assert (H1 : clk_due j (fold_left trig_step (o_trig o) st)).
    { eapply due_same; [apply fold_trig_step_same; eapply due_quiet; eauto|auto]. }
    assert (H2 : clk_sleep j (fold_left (run_proc ps) (o_proc o) (fold_left trig_step (o_trig o) st))).
    { apply fold_run_proc_due; auto. }
    eapply sleep_same; [eapply run_delta_after_procs; [eapply sleep_quiet; eauto|reflexivity]|auto].
  Qed.

  Variable orc : oracle.
  Hypothesis Hcover : forall n, In k (o_proc (orc n)).

  Lemma settle_clock_sleep j fuel : forall st, clk_sleep j st -> clk_sleep j (fst (settle ps orc fuel st)).
  Proof.
    induction fuel as [|f IH]; intros st H; simpl; auto.
    pose proof (run_delta_clock_sleep j (orc (e_deltas st)) st H) as H1.
    destruct (run_delta ps (orc (e_deltas st)) st) as [st' c]. cbn [fst] in H1. destruct c; simpl; auto.
  Qed.

  Lemma settle_clock_inv j fuel st : (0 < fuel)%nat -> clk_inv j st -> clk_sleep j (fst (settle ps orc fuel st)).
  Proof.
    intros Hf [H|H]; [|apply settle_clock_sleep; auto].
    destruct fuel as [|f]; [lia|]. simpl.
    pose proof (run_delta_clock_due j (orc (e_deltas st)) st H (Hcover _)) as H1.
    destruct (run_delta ps (orc (e_deltas st)) st) as [st' c]. cbn [fst] in H1. destruct c; simpl; auto.
    apply settle_clock_sleep; auto.
  Qed.

  Lemma tb_put_same st j t tr : same_clk st (tb_put st j t tr).
  Proof. repeat split. Qed.

  Lemma tb_set_clock_sleep j sfuel sig sh v st : clk_sleep j st -> clk_sleep j (tb_set ps orc sfuel sig sh v st).
  Proof.
    intros H. unfold tb_set. apply settle_clock_sleep.
    eapply sleep_same; [|exact H]. repeat split.
  Qed.

  Lemma tb_exec_clock_sleep j sfuel fuel i : forall st, clk_sleep j st -> clk_sleep j (tb_exec ps orc sfuel fuel i st).
  Proof.
    induction fuel as [|f IH]; intros st H; [exact H|].
    cbn [tb_exec]. cbv zeta.
    assert (P : forall t tr, clk_sleep j (tb_put st i t tr)) by (intros; eapply sleep_same; [apply tb_put_same|auto]).
    destruct (tb_mode (nth i (e_tbs st) no_tb) =? 0).
    - destruct (tb_ops (nth i (e_tbs st) no_tb)) as [|[sig sh v|sig|spec b|spec|spec n|spec n|b] r]; auto.
      apply IH. eapply sleep_same; [apply tb_put_same|]. apply tb_set_clock_sleep; auto.
    - destruct (t_broken (tb_trig (nth i (e_tbs st) no_tb))); auto.
      destruct (tb_mode (nth i (e_tbs st) no_tb) =? 1); auto.
      destruct (tb_mode (nth i (e_tbs st) no_tb) =? 4); [destruct (tb_cnt (nth i (e_tbs st) no_tb)) as [|[|m]]; auto|].
      destruct (tick_fmt (tb_res (nth i (e_tbs st) no_tb))) as [|c [|r vs]]; auto.
      destruct (negb (r =? 0)); auto.
      destruct (tb_mode (nth i (e_tbs st) no_tb) =? 2).
      + destruct (negb (last vs 0 =? 0)); auto.
      + destruct (tb_cnt (nth i (e_tbs st) no_tb)) as [|[|m]]; auto.
  Qed.

  Lemma tb_pass_clock_sleep j sfuel ks : forall acc, clk_sleep j (fst acc) -> clk_sleep j (fst (tb_pass ps orc sfuel ks acc)).
  Proof.
    induction ks as [|i r IH]; intros [st ran] H; cbn [tb_pass]; auto.
    cbv zeta. destruct (tb_run (nth i (e_tbs st) no_tb)); [|apply IH; auto].
    apply IH. cbn [fst]. apply tb_exec_clock_sleep. eapply sleep_same; [apply tb_put_same|auto].
  Qed.

  Lemma tb_loop_clock_sleep j sfuel fuel : forall st, clk_sleep j st -> clk_sleep j (tb_loop ps orc sfuel fuel st).
  Proof.
    induction fuel as [|f IH]; intros st H; cbn [tb_loop]; auto.
    pose proof (tb_pass_clock_sleep j sfuel (seq 0 (length (e_tbs st))) (st, false) H) as H1.
    destruct (tb_pass ps orc sfuel (seq 0 (length (e_tbs st))) (st, false)) as [st' ran]. cbn [fst] in H1.
    destruct ran; auto.
  Qed.

  (* the timeline wakes the sleeping clock at exactly T (j+1), or stops earlier for somebody else *)
  Lemma tl_advance_clock j st : clk_sleep j st -> clk_sleep j (tl_advance st) \/ clk_due (S j) (tl_advance st).
  Proof.
    intros (Lk & E & Hn). unfold tl_advance.
    destruct (zmin_list (deadlines st)) as [D|] eqn:Z; [|left; repeat split; auto].
    assert (I : In (T (S j)) (deadlines st)).
    { apply (proc_timer_deadline st k); auto. rewrite E. reflexivity. }
    pose proof (proj2 (zmin_list_spec _ _ Z) _ I) as Le.
    assert (N : nth k (map (ps_fire D) (e_procs st)) no_pstate = ps_fire D (nth k (e_procs st) no_pstate)).
    { rewrite (nth_indep _ no_pstate (ps_fire D no_pstate)) by (rewrite map_length; auto). apply map_nth. }
    destruct (Z.eq_dec (T (S j)) D) as [Eq|Ne].
    - right. unfold clk_due. cbn [e_procs e_now]. rewrite map_length, N. split; [auto|]. split; [|auto].
      rewrite E. unfold ps_fire. cbn [ps_timer ps_run ps_local ps_trig ps_res ps_first].
      rewrite Eq, Z.eqb_refl. reflexivity.
    - left. unfold clk_sleep. cbn [e_procs e_now]. rewrite map_length, N. split; [auto|]. split; [|lia].
      rewrite E. unfold ps_fire. cbn [ps_timer ps_run ps_local ps_trig ps_res ps_first].
      apply Z.eqb_neq in Ne. rewrite Ne. reflexivity.
  Qed.

  Lemma advance_clock j sfuel tfuel st : (0 < sfuel)%nat -> clk_inv j st ->
    clk_inv j (fst (advance ps orc sfuel tfuel st)) \/ clk_inv (S j) (fst (advance ps orc sfuel tfuel st)).
  Proof.
    intros Hf H. unfold advance. cbn [fst].
    pose proof (settle_clock_inv j sfuel st Hf H) as H1.
    pose proof (tb_loop_clock_sleep j sfuel tfuel _ H1) as H2.
    destruct (tl_advance_clock j _ H2) as [H3|H3]; [left; right; auto|right; left; auto].
  Qed.

  (* whole runs: after any number of time steps clock k has made some number j' of runs, each at exactly the time of
     the isolated clock system, and is either due at T j' or sleeping until T (j'+1) *)
  Lemma run_clock sfuel tfuel t_end fuel : forall j st, (0 < sfuel)%nat -> clk_inv j st ->
    exists j', (j <= j')%nat /\ clk_inv j' (run ps orc sfuel tfuel t_end fuel st).
  Proof.
    induction fuel as [|f IH]; intros j st Hf H; cbn [run]; [exists j; auto|].
    pose proof (advance_clock j sfuel tfuel st Hf H) as H1.
    destruct (advance ps orc sfuel tfuel st) as [st' crit]. cbn [fst] in H1.
    destruct (crit && (e_now st' <=? t_end) && negb (quiescent st')).
    - destruct H1 as [H1|H1]; [destruct (IH j st' Hf H1) as (j' & A & B)|destruct (IH (S j) st' Hf H1) as (j' & A & B)];
        exists j'; split; auto; lia.
    - destruct H1 as [H1|H1]; [exists j|exists (S j)]; auto.
  Qed.
End ClockComposed.

Lemma clk_due_init k slot phase period inits pst tbs :
  (k < length pst)%nat -> nth k pst no_pstate = clock_pstate ->
  clk_due k slot phase period 0 (init_state inits pst tbs).
Proof. intros Lk E. unfold clk_due, init_state. cbn [e_procs e_now]. rewrite E. repeat split; auto. Qed.

(* the closed form of the run times used by clk_due / clk_sleep *)
Lemma clk_time_closed_form slot phase period j :
  snd (clk_sys slot phase period 0) = 0 /\
  snd (clk_sys slot phase period (S j)) = phase + Z.of_nat j * (period / 2).
Proof. split; [reflexivity|]. rewrite clock_edges_exact. reflexivity. Qed.

(* three testbenches sharing slot 0: each reads what its predecessors in insertion order have just set and settled *)
Definition ex_tb_ps : list proc :=
  [P (fun i _ _ => Nat.eqb i 0) [] (fun l _ cu _ => PR l [W 1 (nth 0 cu 0 + 1) 31] None)].
Definition ex_tb_st : estate :=
  init_state [0; 1] [rtl_pstate true]
    [[OGet 0; OSet 0 (Sh 4 false) 5; OGet 1];
     [OGet 0; OGet 1; OSet 0 (Sh 4 false) 9];
     [OGet 0; OGet 1]].

(* ================================================================ audit follow-up: commit flag, units, async reset, memories *)
(* `converged` is false exactly when SOME committed slot / memory row changed: the flag is the OR over everything
   that was pending, whatever the order and whichever member comes last *)
Definition dirty (st : estate) (i : nat) : bool :=
  match nth_error (e_slots st) i with Some s => sp s && negb (sc s =? sn s) | None => false end.

Lemma commit_flag_is_or ps o : forall st ch,
  snd (fold_left (commit_slot ps) o (st, ch)) = ch || existsb (dirty st) o.
Proof.
  induction o as [|i o IH]; intros st ch; cbn [fold_left existsb]; [rewrite orb_false_r; reflexivity|].
  destruct (dirty st i) eqn:Di.
  - assert (E : snd (commit_slot ps (st, ch) i) = true).
    { unfold commit_slot, dirty in *. destruct (nth_error (e_slots st) i); [|discriminate]. rewrite Di. reflexivity. }
    destruct (commit_slot ps (st, ch) i) as [st1 c1]. simpl in E. subst c1.
    rewrite fold_commit_true. rewrite orb_true_r. reflexivity.
  - assert (E : commit_slot ps (st, ch) i = (st, ch)).
    { unfold commit_slot, dirty in *. destruct (nth_error (e_slots st) i); [|reflexivity]. rewrite Di. reflexivity. }
    rewrite E, IH. reflexivity.
Qed.

(* Period(unit=value): time units are exact multiples; frequencies round to the nearest femtosecond (ties to even) *)
Lemma round_half_even_nearest n d : 0 < d -> 2 * Z.abs (n - round_half_even n d * d) <= d.
Proof.
  intros Hd. unfold round_half_even.
  pose proof (Z.div_mod n d ltac:(lia)) as E. pose proof (Z.mod_pos_bound n d Hd) as B.
  destruct (2 * (n mod d) <? d) eqn:A; [|destruct (d <? 2 * (n mod d)) eqn:A2; [|destruct (Z.even (n / d))]]; nia.
Qed.

Lemma period_fs_time_units v :
  period_fs 0 v = v * 10 ^ 15 /\ period_fs 1 v = v * 10 ^ 12 /\ period_fs 2 v = v * 10 ^ 9 /\
  period_fs 3 v = v * 10 ^ 6 /\ period_fs 4 v = v * 10 ^ 3 /\ period_fs 5 v = v.
Proof. repeat split; reflexivity. Qed.

Lemma period_fs_frequency v : 0 < v ->
  2 * Z.abs (10 ^ 15 - period_fs 6 v * v) <= v /\ 2 * Z.abs (10 ^ 12 - period_fs 7 v * v) <= v /\
  2 * Z.abs (10 ^ 9 - period_fs 8 v * v) <= v /\ 2 * Z.abs (10 ^ 6 - period_fs 9 v * v) <= v.
Proof. intros H. repeat split; apply (round_half_even_nearest _ v H). Qed.

(* ctx.tick() result layout is the same for both reset styles: clock hit, then two reset indications, then the samples *)
Lemma tick_spec_layout d samples :
  exists t1 t2, tick_spec d samples = TEdge (dd_clk d) 0 (dd_pos d) :: t1 :: t2 :: map TSample samples /\
  (dd_async d = true -> forall r, dd_rst d = Some r -> t1 = TEdge r 0 true /\ t2 = TSample r) /\
  (dd_async d = false -> t1 = TConst 0).
Proof.
  unfold tick_spec. destruct (dd_async d), (dd_rst d) as [r|]; do 2 eexists; split; try reflexivity;
    split; intros; try discriminate; auto. injection H0 as <-. auto.
Qed.

(* asynchronous reset after the repair of F7: woken without a clock edge, the process only loads the reset values of
   the resettable signals it drives: no statement runs, reset-less signals and everything else keep their value *)
Lemma arst_reset_only tab n l clk pos rst lo res cu nx :
  hd 0 res = 0 ->
  forall w, In w (r_writes (p_run (rtl_sync_arst tab n l clk pos rst) lo res cu nx)) ->
    w_val w = sd_init (tab (w_sig w)) /\ sd_reset_less (tab (w_sig w)) = false /\ stmts_mask l (w_sig w) <> 0.
Proof.
  intros H w Hw. simpl in Hw. rewrite H in Hw. simpl in Hw.
  apply in_flat_map in Hw. destruct Hw as (i & _ & Hw).
  destruct (stmts_mask l i =? 0) eqn:E1; [destruct Hw|]. destruct (sd_reset_less (tab i)) eqn:E2; [destruct Hw|].
  destruct Hw as [<-|[]]. simpl. apply Z.eqb_neq in E1. auto.
Qed.

Lemma arst_clock_edge_is_sync tab n l clk pos rst lo res cu nx :
  hd 0 res <> 0 ->
  r_writes (p_run (rtl_sync_arst tab n l clk pos rst) lo res cu nx) =
  r_writes (p_run (rtl_sync tab n l clk (b2z pos) (Some rst) true) lo [] cu nx).
Proof. intros H. simpl. apply Z.eqb_neq in H. rewrite H. reflexivity. Qed.

(* a memory with two write ports of one domain writing different rows, a comb read port watching the first row:
   the delta that commits the rows reports "not converged" although the row committed last does not change, and the
   next delta refreshes the read data *)
Definition exm_sigs : list Z := [0; 1; 9; 1; 2; 7; 1; 1; 0; 3; 5; 7].
(* slots: 0 clk | 1 w0.addr 2 w0.data 3 w0.en | 4 w1.addr 5 w1.data 6 w1.en | 7 r.addr 8 r.data | rows 9 10 11 *)
Definition exm_ps : list proc :=
  [mem_comb 9 3 (Sh 4 false) [RP (ESig 7 (Sh 2 false)) (EConst 1 (Sh 1 false)) 8 []] [7%nat];
   mem_sync 9 3 (Sh 4 false) 0 1
     [WP (ESig 1 (Sh 2 false)) (ESig 2 (Sh 4 false)) (ECat [ESig 3 (Sh 1 false); ESig 3 (Sh 1 false); ESig 3 (Sh 1 false); ESig 3 (Sh 1 false)]);
      WP (ESig 4 (Sh 2 false)) (ESig 5 (Sh 4 false)) (ECat [ESig 6 (Sh 1 false); ESig 6 (Sh 1 false); ESig 6 (Sh 1 false); ESig 6 (Sh 1 false)])]
     []].
Definition exm_st : estate :=
  init_state exm_sigs [rtl_pstate true; rtl_pstate false] [[OSet 0 (Sh 1 false) 1; OGet 8; OGet 10; OGet 11]].

(* GenEqDsl.v — the definitions regenerated from hdl/_dsl.py on every run (Gen/DslGen.v: the "If", "Switch" and "FSM"
   branches of Module._pop_ctrl for one domain, and the allocation of FSM state encodings in Module.State, the
   `m.next` setter and FSM.ongoing) equal the hand-written model (Model/Dsl.v) for ALL test lists, bodies, case lists,
   state lists and encodings. *)
From Coq Require Import ZArith List Bool Lia ZifyBool.
From V.Model Require Import Bits Shape Ast Denote PyRTL PyEval Stmt Derived Dsl.
From V.Gen Require Import DslGen.
Import ListNotations.
Open Scope Z_scope.

(* ---------- generic facts about the prelude ---------- *)
Lemma concat_repeat_single {A} (c : A) n : concat (repeat [c] n) = repeat c n.
Proof. induction n as [|n IH]; simpl; [reflexivity|]. rewrite IH. reflexivity. Qed.

Lemma fold_left_snoc {A B} (f : B -> A) (l : list B) : forall acc,
  fold_left (fun acc x => acc ++ [f x]) l acc = acc ++ map f l.
Proof.
  induction l as [|x l IH]; intros acc; simpl; [rewrite app_nil_r; reflexivity|].
  rewrite IH, <- app_assoc. reflexivity.
Qed.

Lemma fold_left_ext {A B} (f g : A -> B -> A) (l : list B) : (forall a x, f a x = g a x) ->
  forall a, fold_left f l a = fold_left g l a.
Proof. intros H. induction l as [|x l IH]; intros a; simpl; [reflexivity|]. rewrite H. apply IH. Qed.

Lemma py_foldM_ext {A B} (f g : A -> B -> option A) (l : list B) : (forall a x, f a x = g a x) ->
  forall a, py_foldM f l a = py_foldM g l a.
Proof. intros H. induction l as [|x l IH]; intros a; simpl; [reflexivity|]. rewrite H. destruct (g a x); auto. Qed.

Lemma opt_map_ext {A B} (f g : A -> option B) (l : list A) : (forall x, f x = g x) -> opt_map f l = opt_map g l.
Proof. intros H. induction l as [|x l IH]; simpl; [reflexivity|]. rewrite H, IH. reflexivity. Qed.

(* a loop that appends one (possibly failing) element per iteration = opt_map *)
Lemma py_foldM_snoc {A B} (f : B -> option A) (l : list B) : forall acc,
  py_foldM (fun acc x => match f x with None => None | Some y => Some (acc ++ [y]) end) l acc =
  match opt_map f l with None => None | Some ys => Some (acc ++ ys) end.
Proof.
  induction l as [|x l IH]; intros acc; simpl; [rewrite app_nil_r; reflexivity|].
  destruct (f x) as [y|]; [|reflexivity]. rewrite IH. destruct (opt_map f l); [|reflexivity].
  rewrite <- app_assoc. reflexivity.
Qed.

Lemma py_foldM_total {A B} (f : A -> B -> A) (l : list B) : forall a,
  py_foldM (fun a x => Some (f a x)) l a = Some (fold_left f l a).
Proof. induction l as [|x l IH]; intros a; simpl; auto. Qed.

Lemma opt_map_map {A B C} (f : A -> option B) (g : B -> C) (l : list A) :
  match opt_map f l with None => None | Some ys => Some (map g ys) end =
  opt_map (fun x => match f x with None => None | Some y => Some (g y) end) l.
Proof.
  induction l as [|x l IH]; simpl; [reflexivity|]. destruct (f x) as [y|]; [|reflexivity].
  rewrite <- IH. destruct (opt_map f l); reflexivity.
Qed.

Lemma opt_map_premap {A B C} (h : A -> B) (f : B -> option C) (l : list A) :
  opt_map f (map h l) = opt_map (fun x => f (h x)) l.
Proof. induction l as [|x l IH]; simpl; [reflexivity|]. rewrite IH. reflexivity. Qed.

(* dicts keyed by state names / by encodings *)
Lemma dict_get_eq {V} (d : list (nat * V)) k : py_dict_get Nat.eqb d k = assoc_get d k.
Proof. induction d as [|[k' v] d IH]; simpl; [reflexivity|]. rewrite IH. reflexivity. Qed.
Lemma dict_set_eq {V} (d : list (nat * V)) k v : py_dict_set Nat.eqb d k v = assoc_set d k v.
Proof. induction d as [|[k' v'] d IH]; simpl; [reflexivity|]. rewrite IH. reflexivity. Qed.
Lemma zdict_set_eq {V} (d : list (Z * V)) k v : py_dict_set Z.eqb d k v = zassoc_set d k v.
Proof. induction d as [|[k' v'] d IH]; simpl; [reflexivity|]. rewrite IH. reflexivity. Qed.

Lemma assoc_set_absent {V} (d : list (nat * V)) k v : ~ In k (map fst d) -> assoc_set d k v = d ++ [(k, v)].
Proof.
  induction d as [|[k' v'] d IH]; intros H; simpl; [reflexivity|]. simpl in H.
  destruct (Nat.eqb k' k) eqn:E; [apply Nat.eqb_eq in E; tauto|]. rewrite IH by tauto. reflexivity.
Qed.

(* filling a dict key by key from a dict (distinct keys) = mapping the values *)
Lemma dict_fill {V W} (f : V -> W) (l : list (nat * V)) : forall acc,
  NoDup (map fst acc ++ map fst l) ->
  fold_left (fun acc sv => assoc_set acc (fst sv) (f (snd sv))) l acc = acc ++ map (fun sv => (fst sv, f (snd sv))) l.
Proof.
  induction l as [|[s v] l IH]; intros acc H; simpl; [rewrite app_nil_r; reflexivity|].
  simpl in H. rewrite assoc_set_absent.
  - rewrite IH; [rewrite <- app_assoc; reflexivity|].
    rewrite map_app. simpl. rewrite <- app_assoc. exact H.
  - apply NoDup_remove_2 in H. intros Hin. apply H. apply in_or_app. left. exact Hin.
Qed.

(* ---------- name == "If" ---------- *)
(* the pattern string built for the k-th test of n:  ("1" + "-" * (k + 1 - 1)).rjust(n, "-")  =  if_pattern n k *)
Lemma gen_if_pattern {A B} (all : list A) (ts : list B) x :
  py_rjust ([Some true] ++ py_mul [None] (py_len (ts ++ [x]) - 1)) (py_len all) None = if_pattern (length all) (length ts).
Proof.
  unfold py_rjust, py_mul, py_len, if_pattern. rewrite concat_repeat_single.
  rewrite !app_length, repeat_length. simpl length.
  replace (Z.to_nat (Z.of_nat (length ts + 1) - 1)) with (length ts) by lia.
  replace (Z.to_nat (Z.of_nat (length all) - Z.of_nat (1 + length ts))) with (length all - 1 - length ts)%nat by lia.
  reflexivity.
Qed.

(* what the loop of the "If" branch computes, written as a recursion over zip(if_tests + [None], if_bodies) *)
Fixpoint if_cases (domain n k : nat) (tests : list expr) (bodies : list ddict) : list (option pattern * list stmt) :=
  match bodies with
  | [] => []
  | b :: bs =>
      match tests with
      | [] => [(None, py_get b domain [])]
      | _ :: ts => (Some (if_pattern n k), py_get b domain []) :: if_cases domain n (S k) ts bs
      end
  end.

Lemma if_fold domain n
  (step : list expr * list (option pattern * list stmt) -> option expr * ddict -> list expr * list (option pattern * list stmt)) :
  (forall ts cs t b, step (ts, cs) (Some t, b) =
     (ts ++ [if_test t], cs ++ [(Some (if_pattern n (length ts)), py_get b domain [])])) ->
  (forall ts cs b, step (ts, cs) (None, b) = (ts, cs ++ [(None, py_get b domain [])])) ->
  forall tests bodies ts cs,
  fold_left step (combine (map Some tests ++ [None]) bodies) (ts, cs) =
  (ts ++ map if_test (firstn (length bodies) tests), cs ++ if_cases domain n (length ts) tests bodies).
Proof.
  intros HS HN. induction tests as [|t tests IH]; intros bodies ts cs.
  - destruct bodies as [|b bodies]; simpl; [rewrite !app_nil_r; reflexivity|].
    rewrite HN. destruct bodies; simpl; rewrite app_nil_r; reflexivity.
  - destruct bodies as [|b bodies]; simpl; [rewrite !app_nil_r; reflexivity|].
    rewrite HS, IH. rewrite <- !app_assoc. simpl. rewrite app_length. simpl.
    replace (length ts + 1)%nat with (S (length ts)) by lia. reflexivity.
Qed.

(* the generated function for ALL test lists and body lists (zip semantics: the shorter list decides) *)
Lemma gen_pop_if_unfold domain tests bodies :
  g_pop_if domain tests bodies =
  [py_switch_str (ECat (map if_test (firstn (length bodies) tests))) (if_cases domain (length tests) 0 tests bodies)].
Proof.
  unfold g_pop_if. cbv zeta.
  rewrite (if_fold domain (length tests)).
  - reflexivity.
  - intros ts cs t b. cbv beta iota zeta. rewrite gen_if_pattern. unfold if_test.
    destruct (ewidth t =? 1); reflexivity.
  - intros ts cs b. reflexivity.
Qed.

Lemma if_cases_lower domain n (he : bool) els : forall brs bodies k,
  map (fun b : ddict => py_get b domain []) bodies =
    map (fun br : expr * list dstmt => map lower (snd br)) brs ++ (if he then [map lower els] else []) ->
  map (fun c : option pattern * list stmt => (match fst c with Some p => Some [p] | None => None end, snd c))
      (if_cases domain n k (map fst brs) bodies) =
  (fix go (brs : list (expr * list dstmt)) (k : nat) : list (option (list pattern) * list stmt) :=
     match brs with
     | [] => if he then [(None, map lower els)] else []
     | br :: brs' => (Some [if_pattern n k], map lower (snd br)) :: go brs' (S k)
     end) brs k.
Proof.
  induction brs as [|br brs IH]; intros bodies k H.
  - simpl in H. destruct he; destruct bodies as [|b bodies]; simpl in *; try discriminate; try reflexivity.
    injection H as H1 H2. destruct bodies; [|discriminate]. simpl. rewrite H1. reflexivity.
  - destruct bodies as [|b bodies]; [discriminate|]. simpl in H. injection H as H1 H2.
    simpl. rewrite H1. f_equal. apply IH. exact H2.
Qed.

(* the Switch the "If" branch appends for `domain` is the model's lowering of the If/Elif/Else whose bodies are the
   `domain` parts of the recorded bodies (one body per test, plus one more when there is an Else) *)
Lemma gen_pop_if_eq domain brs (he : bool) els bodies :
  map (fun b : ddict => py_get b domain []) bodies =
    map (fun br : expr * list dstmt => map lower (snd br)) brs ++ (if he then [map lower els] else []) ->
  g_pop_if domain (map fst brs) bodies = [lower (DIf brs he els)].
Proof.
  intros H. rewrite gen_pop_if_unfold. unfold py_switch_str. rewrite map_length.
  rewrite (if_cases_lower domain (length brs) he els brs bodies 0%nat H).
  assert (Hlen : (length brs <= length bodies)%nat).
  { apply (f_equal (@length _)) in H. rewrite app_length, !map_length in H. lia. }
  rewrite firstn_all2 by (rewrite map_length; exact Hlen).
  simpl lower. rewrite map_map. reflexivity.
Qed.

(* ---------- name == "Switch" ---------- *)
Lemma gen_pop_switch_unfold domain t (cases : list (option (list pattern) * ddict)) :
  g_pop_switch domain t cases =
  [SSwitch t (map (fun c : option (list pattern) * ddict => (fst c, py_get (snd c) domain [])) cases)].
Proof.
  unfold g_pop_switch, py_switch_norm. cbv zeta.
  rewrite (fold_left_ext _ (fun acc c => acc ++ [(fun c : option (list pattern) * ddict => (fst c, py_get (snd c) domain [])) c]))
    by (intros a [p b]; reflexivity).
  rewrite fold_left_snoc. reflexivity.
Qed.

Lemma gen_pop_switch_eq domain t cases cs :
  map (fun c : option (list pattern) * ddict => (fst c, py_get (snd c) domain [])) cases =
    map (fun c => (fst c, map lower (snd c))) cs ->
  g_pop_switch domain t cases = [lower (DSwitch t cs)].
Proof. intros H. rewrite gen_pop_switch_unfold, H. reflexivity. Qed.

(* ---------- name == "FSM" ---------- *)
Lemma gen_decoding dec0 (enc : list (nat * Z)) :
  py_dict_update Z.eqb dec0 (map (fun '(s, n) => (n, s)) enc) = fsm_decoding dec0 enc.
Proof.
  unfold py_dict_update, fsm_decoding. revert dec0.
  induction enc as [|[s n] enc IH]; intros dec0; simpl; [reflexivity|]. rewrite zdict_set_eq. apply IH.
Qed.

Lemma pop_fsm_unfold reg_id init enc dec0 (states : list (nat * list stmt)) og :
  pop_fsm reg_id init enc dec0 states og =
  if py_is_empty states then Some (ESig reg_id (Sh 0 false), 0, [], [])
  else match fsm_init_value init enc states with
       | None => None
       | Some iv =>
         let reg := ESig reg_id (fsm_state_shape (fsm_decoding dec0 enc)) in
         match fsm_ongoing_stmts reg enc og with
         | None => None
         | Some ogs => match lower_fsm reg enc states with None => None | Some sw => Some (reg, iv, ogs, [sw]) end
         end
       end.
Proof. destruct states; reflexivity. Qed.

Lemma gen_pop_fsm_eq domain fresh init enc dec0 (states : list (nat * ddict)) og :
  NoDup (map fst states) ->
  g_pop_fsm domain fresh init enc dec0 states og =
  pop_fsm fresh init enc dec0 (map (fun sb : nat * ddict => (fst sb, py_get (snd sb) domain [])) states) og.
Proof.
  intros Hnd. rewrite pop_fsm_unfold. unfold g_pop_fsm. cbv zeta. unfold ddict in *.
  replace (py_is_empty (map (fun sb : nat * (nat -> option (list stmt)) => (fst sb, py_get (snd sb) domain [])) states))
    with (py_is_empty states) by (destruct states; reflexivity).
  destruct (py_is_empty states) eqn:Eempty; [reflexivity|].
  (* the state register *)
  rewrite gen_decoding, map_id.
  change (py_signal fresh (cast_enum (py_range 0 (py_len (fsm_decoding dec0 enc)) 1)))
    with (ESig fresh (fsm_state_shape (fsm_decoding dec0 enc))).
  set (reg := ESig fresh (fsm_state_shape (fsm_decoding dec0 enc))).
  set (pstates := map (fun sb : nat * (nat -> option (list stmt)) => (fst sb, py_get (snd sb) domain [])) states).
  (* init *)
  match goal with |- match ?X with _ => _ end = _ => assert (Hinit : X = fsm_init_value init enc pstates) end.
  { unfold fsm_init_value, pstates. destruct init as [i|].
    - rewrite dict_get_eq. destruct (assoc_get enc i); reflexivity.
    - destruct states as [|[s b] states]; [reflexivity|]. simpl. rewrite dict_get_eq.
      destruct (assoc_get enc s); reflexivity. }
  rewrite Hinit. destruct (fsm_init_value init enc pstates) as [iv|]; [|reflexivity].
  (* ongoing() assignments *)
  match goal with |- context [py_foldM ?f og _] =>
    rewrite (py_foldM_ext f (fun acc x => match (fun so : nat * expr =>
                match assoc_get enc (fst so) with
                | Some k => Some (SAssign (snd so) (EOp2 OEq reg (mk_const_auto k)))
                | None => None
                end) x with None => None | Some y => Some (acc ++ [y]) end) og)
      by (intros acc0 [s o]; cbn [fst snd]; rewrite dict_get_eq; destruct (assoc_get enc s); reflexivity)
  end.
  rewrite py_foldM_snoc. fold (fsm_ongoing_stmts reg enc og).
  destruct (fsm_ongoing_stmts reg enc og) as [ogs|]; [|reflexivity].
  (* the domain's part of every state body *)
  match goal with |- context [py_foldM ?f states _] =>
    rewrite (py_foldM_ext f (fun acc x => Some ((fun acc (sv : nat * (nat -> option (list stmt))) =>
                assoc_set acc (fst sv) ((fun b : (nat -> option (list stmt)) => py_get b domain []) (snd sv))) acc x)) states)
      by (intros acc0 [s b]; cbn [fst snd]; rewrite dict_set_eq; reflexivity)
  end.
  rewrite py_foldM_total. rewrite (dict_fill (fun b : (nat -> option (list stmt)) => py_get b domain []) states []) by exact Hnd. cbn [app]. fold pstates.
  (* the Switch over the state register *)
  unfold lower_fsm, py_switch_int.
  rewrite (opt_map_ext
             (fun sb : nat * list stmt =>
                match assoc_get enc (fst sb) with
                | Some k => Some (Some (Dsl.int_case_patterns reg k), snd sb)
                | None => None
                end)
             (fun x => match (fun '(name_, stmts) =>
                                match py_dict_get Nat.eqb enc name_ with
                                | Some t => Some (t, stmts)
                                | None => None
                                end) x with
                       | None => None
                       | Some y => Some ((fun c : Z * list stmt => (Some (py_int_patterns reg (fst c)), snd c)) y)
                       end))
    by (intros [s b]; cbn [fst snd]; rewrite dict_get_eq; destruct (assoc_get enc s); reflexivity).
  rewrite <- opt_map_map.
  destruct (opt_map _ pstates); reflexivity.
Qed.

(* ---------- first reference of a state name (Module.State, m.next = .., FSM.ongoing) ---------- *)
Lemma gen_alloc_eq enc og s fresh :
  (let '(encoding, ongoing) :=
     if negb (py_dict_in Nat.eqb enc s)
     then (py_dict_set Nat.eqb enc s (py_len enc), py_dict_set Nat.eqb og s (py_signal fresh (Sh 1 false)))
     else (enc, og) in (encoding, ongoing)) = fsm_ref (enc, og) s fresh.
Proof.
  unfold fsm_ref, py_dict_in, py_len, py_signal. cbn [fst snd]. rewrite dict_get_eq, !dict_set_eq.
  destruct (assoc_get enc s); reflexivity.
Qed.

Lemma gen_state_alloc_eq enc og s fresh : g_state_alloc enc og s fresh = fsm_ref (enc, og) s fresh.
Proof. exact (gen_alloc_eq enc og s fresh). Qed.
Lemma gen_next_alloc_eq enc og s fresh : g_next_alloc enc og s fresh = fsm_ref (enc, og) s fresh.
Proof. exact (gen_alloc_eq enc og s fresh). Qed.
Lemma gen_ongoing_alloc_eq enc og s fresh : g_ongoing_alloc enc og s fresh = fsm_ref (enc, og) s fresh.
Proof. exact (gen_alloc_eq enc og s fresh). Qed.

(* CrcP.v — proofs about Model/Crc.v: compute = Williams model, linearity, matrices, hardware, residue. *)
From Coq Require Import ZArith List Bool Lia ZifyBool Btauto.
From V.Model Require Import Bits Crc.
From V.Proofs Require Import BitsP.
Import ListNotations.
Open Scope Z_scope.

(* ------------------------------------------------------------------ bit-level helpers *)
Lemma testbit_small n x i : 0 <= x < 2 ^ n -> Z.testbit x i = (i <? n) && Z.testbit x i.
Proof.
  intros H. assert (0 <= n) by (destruct (Z_lt_le_dec n 0); [rewrite Z.pow_neg_r in H; lia|lia]).
  rewrite <- (mask_small n x H) at 1. apply testbit_mask; lia.
Qed.

Lemma testbit_high n x i : 0 <= x < 2 ^ n -> n <= i -> Z.testbit x i = false.
Proof. intros H Hi. rewrite (testbit_small n x i H). destruct (i <? n) eqn:E; [lia|reflexivity]. Qed.

Lemma high_zero_range n x : 0 <= n -> (forall i, n <= i -> Z.testbit x i = false) -> 0 <= x < 2 ^ n.
Proof.
  intros Hn H. assert (E : mask n x = x).
  { apply Z.bits_inj'; intros i Hi. rewrite testbit_mask by lia.
    destruct (i <? n) eqn:L; [reflexivity|]. rewrite H by lia. reflexivity. }
  rewrite <- E. apply mask_range; lia.
Qed.

Lemma lxor_range n a b : 0 <= a < 2 ^ n -> 0 <= b < 2 ^ n -> 0 <= Z.lxor a b < 2 ^ n.
Proof.
  intros Ha Hb. assert (0 <= n) by (destruct (Z_lt_le_dec n 0); [rewrite Z.pow_neg_r in Ha; lia|lia]).
  apply high_zero_range; [lia|]. intros i Hi.
  rewrite Z.lxor_spec, (testbit_high n a i), (testbit_high n b i); auto.
Qed.

Lemma shiftl_range n m a : 0 <= m -> 0 <= a < 2 ^ n -> 0 <= Z.shiftl a m < 2 ^ (n + m).
Proof.
  intros Hm Ha. assert (0 <= n) by (destruct (Z_lt_le_dec n 0); [rewrite Z.pow_neg_r in Ha; lia|lia]).
  rewrite Z.shiftl_mul_pow2, Z.pow_add_r by lia. pose proof (pow2_pos m Hm). nia.
Qed.

Lemma testbit_of_bits f n i : 0 <= i ->
  Z.testbit (of_bits f n) i = (i <? Z.of_nat n) && f (Z.to_nat i).
Proof.
  revert f i. induction n as [|n IH]; intros f i Hi.
  - cbn [of_bits]. rewrite Z.testbit_0_l. destruct (i <? Z.of_nat 0) eqn:E; [lia|reflexivity].
  - cbn [of_bits]. rewrite Z.add_comm. destruct (Z.eq_dec i 0) as [->|Hn].
    + rewrite Z.testbit_0_r. reflexivity.
    + replace i with (Z.succ (i - 1)) at 1 by lia. rewrite Z.testbit_succ_r by lia.
      rewrite IH by lia. replace (Z.to_nat i) with (S (Z.to_nat (i - 1))) by lia.
      f_equal. destruct (i - 1 <? Z.of_nat n) eqn:A, (i <? Z.of_nat (S n)) eqn:B; lia.
Qed.

Lemma of_bits_range f n : 0 <= of_bits f n < 2 ^ Z.of_nat n.
Proof.
  apply high_zero_range; [lia|]. intros i Hi. rewrite testbit_of_bits by lia.
  destruct (i <? Z.of_nat n) eqn:E; [lia|reflexivity].
Qed.

Lemma of_bits_id n x : 0 <= x < 2 ^ Z.of_nat n -> of_bits (fun i => Z.testbit x (Z.of_nat i)) n = x.
Proof.
  intros H. apply Z.bits_inj'; intros i Hi. rewrite testbit_of_bits by lia.
  rewrite Z2Nat.id by lia. symmetry. apply testbit_small; auto.
Qed.

Lemma of_bits_ext f g n : (forall i, (i < n)%nat -> f i = g i) -> of_bits f n = of_bits g n.
Proof.
  intros H. apply Z.bits_inj'; intros i Hi. rewrite !testbit_of_bits by lia.
  destruct (i <? Z.of_nat n) eqn:E; [|reflexivity]. cbn. apply H. lia.
Qed.

Lemma testbit_rev_bits x n i : 0 <= n -> 0 <= i ->
  Z.testbit (rev_bits x n) i = (i <? n) && Z.testbit x (n - 1 - i).
Proof.
  intros Hn Hi. unfold rev_bits. rewrite testbit_of_bits by lia. rewrite !Z2Nat.id by lia. reflexivity.
Qed.

Lemma rev_bits_range x n : 0 <= n -> 0 <= rev_bits x n < 2 ^ n.
Proof. intros Hn. unfold rev_bits. pose proof (of_bits_range (fun i => Z.testbit x (n - 1 - Z.of_nat i)) (Z.to_nat n)) as H. rewrite Z2Nat.id in H by lia. exact H. Qed.

Lemma rev_bits_invol x n : 0 <= x < 2 ^ n -> rev_bits (rev_bits x n) n = x.
Proof.
  intros H. assert (0 <= n) by (destruct (Z_lt_le_dec n 0); [rewrite Z.pow_neg_r in H; lia|lia]).
  apply Z.bits_inj'; intros i Hi. rewrite testbit_rev_bits by lia.
  rewrite (testbit_small n x i H). destruct (i <? n) eqn:E; [|reflexivity].
  rewrite testbit_rev_bits by lia. replace (n - 1 - (n - 1 - i)) with i by lia.
  destruct (n - 1 - i <? n) eqn:E2; [reflexivity|lia].
Qed.

Lemma rev_bits_lxor a b n : 0 <= n -> rev_bits (Z.lxor a b) n = Z.lxor (rev_bits a n) (rev_bits b n).
Proof.
  intros Hn. apply Z.bits_inj'; intros i Hi. rewrite Z.lxor_spec, !testbit_rev_bits, Z.lxor_spec by lia.
  destruct (i <? n); reflexivity.
Qed.

Lemma rev_bits_inj a b n : 0 <= a < 2 ^ n -> 0 <= b < 2 ^ n -> rev_bits a n = rev_bits b n -> a = b.
Proof. intros Ha Hb E. rewrite <- (rev_bits_invol a n Ha), <- (rev_bits_invol b n Hb), E. reflexivity. Qed.

Lemma reflect_rev x n : 0 <= n -> 0 <= x < 2 ^ n -> reflect x n = rev_bits x n.
Proof.
  intros Hn H. unfold reflect. f_equal. pose proof (bit_length_min x n). lia.
Qed.

Lemma in_bits_spec w v : in_bits w v = true <-> 0 <= v < 2 ^ w.
Proof. unfold in_bits. lia. Qed.

Lemma shiftl1_pow k : 0 <= k -> Z.shiftl 1 k = 2 ^ k.
Proof. intros. rewrite Z.shiftl_mul_pow2 by lia. lia. Qed.

Lemma word_ok_spec d x : 0 <= d -> word_ok d x = true <-> 0 <= x < 2 ^ d.
Proof. intros Hd. unfold word_ok. rewrite shiftl1_pow by lia. lia. Qed.

Lemma land_pow2_zero x k : 0 <= k -> (Z.land x (2 ^ k) =? 0) = negb (Z.testbit x k).
Proof.
  intros Hk. assert (E : Z.land x (2 ^ k) = if Z.testbit x k then 2 ^ k else 0).
  { apply Z.bits_inj'; intros i Hi. rewrite Z.land_spec, Z.pow2_bits_eqb by lia.
    destruct (Z.eqb_spec k i) as [->|N].
    - destruct (Z.testbit x i); [rewrite Z.pow2_bits_true by lia; reflexivity|rewrite Z.testbit_0_l; reflexivity].
    - rewrite andb_false_r. destruct (Z.testbit x k); [rewrite Z.pow2_bits_false by lia; reflexivity|rewrite Z.testbit_0_l; reflexivity]. }
  rewrite E. pose proof (pow2_pos k Hk). destruct (Z.testbit x k); cbn; lia.
Qed.

Lemma tb_shl a n m : 0 <= n -> Z.testbit (Z.shiftl a n) m = Z.testbit a (m - n).
Proof.
  intros Hn. destruct (Z_lt_le_dec m 0).
  - rewrite !Z.testbit_neg_r by lia. reflexivity.
  - apply Z.shiftl_spec; lia.
Qed.

(* ------------------------------------------------------------------ the inner loop of compute *)
(* the data word as a d-bit shift register feeding its top bit *)
Definition shX (d X : Z) : Z := mask d (Z.shiftl X 1).

Fixpoint feedX (w p d : Z) (n : nat) (s X : Z) : Z :=
  match n with
  | O => s
  | S n' => feedX w p d n' (wstep w p s (Z.testbit X (d - 1))) (shX d X)
  end.

Fixpoint shXn (d : Z) (n : nat) (X : Z) : Z :=
  match n with O => X | S n' => shXn d n' (shX d X) end.

Lemma wstep_range w p s b : 0 < w -> 0 <= p < 2 ^ w -> 0 <= wstep w p s b < 2 ^ w.
Proof.
  intros Hw Hp. unfold wstep. pose proof (Z.mod_pos_bound (Z.shiftl s 1) (2 ^ w) (pow2_pos w ltac:(lia))).
  destruct (xorb _ b); [apply lxor_range; auto|auto].
Qed.

Lemma shX_range d X : 0 < d -> 0 <= shX d X < 2 ^ d.
Proof. intros. apply mask_range; lia. Qed.

Lemma feedX_range w p d n s X : 0 < w -> 0 <= p < 2 ^ w -> 0 <= s < 2 ^ w -> 0 <= feedX w p d n s X < 2 ^ w.
Proof.
  intros Hw Hp. revert s X. induction n as [|n IH]; intros s X Hs; cbn [feedX]; auto.
  apply IH. apply wstep_range; auto.
Qed.

Lemma inner_step_inv w p d R s X :
  0 < w -> 0 < d -> 0 <= p < 2 ^ w ->
  mask (w + d) R = Z.lxor (Z.shiftl s d) (Z.shiftl X w) ->
  mask (w + d) (inner_step (Z.shiftl 1 (w + d - 1)) (Z.shiftl p d) R) =
  Z.lxor (Z.shiftl (wstep w p s (Z.testbit X (d - 1))) d) (Z.shiftl (shX d X) w).
Proof.
  intros Hw Hd Hp H.
  assert (HR : forall j, j < w + d -> Z.testbit R j = xorb (Z.testbit s (j - d)) (Z.testbit X (j - w))).
  { intros j Hj. rewrite <- !tb_shl, <- Z.lxor_spec, <- H, testbit_mask by lia.
    destruct (j <? w + d) eqn:E; [reflexivity|lia]. }
  unfold inner_step. rewrite shiftl1_pow, land_pow2_zero, negb_involutive by lia.
  assert (Ht : Z.testbit R (w + d - 1) = xorb (Z.testbit s (w - 1)) (Z.testbit X (d - 1))).
  { rewrite HR by lia. f_equal; f_equal; lia. }
  unfold wstep. rewrite <- Ht. unfold shX.
  apply Z.bits_inj'; intros i Hi. rewrite testbit_mask by lia.
  destruct (Z.testbit R (w + d - 1)).
  - rewrite !Z.lxor_spec, !tb_shl, Z.lxor_spec by lia. fold (mask w (Z.shiftl s 1)).
    rewrite !testbit_mask, !tb_shl by lia.
    destruct (i <? w + d) eqn:E.
    + rewrite HR by lia. replace (i - 1 - d) with (i - d - 1) by lia. replace (i - 1 - w) with (i - w - 1) by lia.
      destruct (i - d <? w) eqn:E1; [|lia]. destruct (i - w <? d) eqn:E2; [|lia]. cbn [andb]. btauto.
    + destruct (i - d <? w) eqn:E1; [lia|]. destruct (i - w <? d) eqn:E2; [lia|]. cbn [andb].
      rewrite (testbit_high w p (i - d)) by lia. reflexivity.
  - rewrite !Z.lxor_spec, !tb_shl by lia. fold (mask w (Z.shiftl s 1)).
    rewrite !testbit_mask, !tb_shl by lia.
    destruct (i <? w + d) eqn:E.
    + rewrite HR by lia. replace (i - 1 - d) with (i - d - 1) by lia. replace (i - 1 - w) with (i - w - 1) by lia.
      destruct (i - d <? w) eqn:E1; [|lia]. destruct (i - w <? d) eqn:E2; [|lia]. reflexivity.
    + destruct (i - d <? w) eqn:E1; [lia|]. destruct (i - w <? d) eqn:E2; [lia|]. reflexivity.
Qed.

Lemma inner_iter_inv w p d n : 0 < w -> 0 < d -> 0 <= p < 2 ^ w -> forall R s X,
  mask (w + d) R = Z.lxor (Z.shiftl s d) (Z.shiftl X w) ->
  mask (w + d) (iter n (inner_step (Z.shiftl 1 (w + d - 1)) (Z.shiftl p d)) R) =
  Z.lxor (Z.shiftl (feedX w p d n s X) d) (Z.shiftl (shXn d n X) w).
Proof.
  intros Hw Hd Hp. induction n as [|n IH]; intros R s X H; cbn [iter feedX shXn]; [assumption|].
  apply IH. apply inner_step_inv; auto.
Qed.

Lemma testbit_shXn d n X i : 0 < d -> 0 <= X < 2 ^ d ->
  Z.testbit (shXn d n X) i = (i <? d) && Z.testbit X (i - Z.of_nat n).
Proof.
  intros Hd. revert X. induction n as [|n IH]; intros X HX; cbn [shXn].
  - rewrite Z.sub_0_r. apply testbit_small; auto.
  - rewrite IH by (apply shX_range; auto). unfold shX. rewrite testbit_mask, tb_shl by lia.
    destruct (i <? d) eqn:E; [|reflexivity]. destruct (i - Z.of_nat n <? d) eqn:E2; [|lia].
    cbn [andb]. f_equal. lia.
Qed.

Lemma shXn_full d X : 0 < d -> 0 <= X < 2 ^ d -> shXn d (Z.to_nat d) X = 0.
Proof.
  intros Hd HX. apply Z.bits_inj'; intros i Hi. rewrite testbit_shXn, Z.testbit_0_l by auto.
  destruct (i <? d) eqn:E; [|reflexivity]. rewrite Z.testbit_neg_r by lia. reflexivity.
Qed.

Definition wordin (a : algo) (d u : Z) : Z := if refin a then rev_bits u d else u.

Lemma wordin_range a d u : 0 < d -> 0 <= u < 2 ^ d -> 0 <= wordin a d u < 2 ^ d.
Proof. intros. unfold wordin. destruct (refin a); [apply rev_bits_range; lia|auto]. Qed.

Lemma algo_ok_spec a : algo_ok a = true ->
  0 < cw a /\ 0 <= poly a < 2 ^ cw a /\ 0 <= init a < 2 ^ cw a /\ 0 <= xorout a < 2 ^ cw a.
Proof.
  unfold algo_ok. rewrite !andb_true_iff, !in_bits_spec. intros [[[H1 H2] H3] H4]. repeat split; lia.
Qed.

Lemma word_update_spec a d s u :
  0 < cw a -> 0 <= poly a < 2 ^ cw a -> 0 < d -> 0 <= s < 2 ^ cw a -> 0 <= u < 2 ^ d ->
  word_update a d (Z.shiftl s d) u =
  Z.shiftl (feedX (cw a) (poly a) d (Z.to_nat d) s (wordin a d u)) d.
Proof.
  intros Hw Hp Hd Hs Hu. unfold word_update.
  replace (if refin a then reflect u d else u) with (wordin a d u)
    by (unfold wordin; destruct (refin a); [rewrite reflect_rev by lia|]; reflexivity).
  pose proof (wordin_range a d u Hd Hu) as Hx. set (x := wordin a d u) in *.
  rewrite mask_land by lia.
  rewrite (inner_iter_inv (cw a) (poly a) d (Z.to_nat d) Hw Hd Hp _ s x).
  - rewrite shXn_full by auto. rewrite Z.shiftl_0_l, Z.lxor_0_r. reflexivity.
  - apply mask_small. apply lxor_range.
    + apply shiftl_range; lia.
    + rewrite (Z.add_comm (cw a) d). apply shiftl_range; lia.
Qed.

Lemma feedX_bits w p d n s X :
  feedX w p d n s X =
  fold_left (wstep w p) (map (fun i => Z.testbit X (d - 1 - Z.of_nat i)) (seq 0 n)) s.
Proof.
  revert s X. induction n as [|n IH]; intros s X; [reflexivity|].
  cbn [feedX]. rewrite IH. cbn [seq map fold_left]. rewrite <- seq_shift, map_map.
  rewrite Z.sub_0_r. f_equal. apply map_ext_in. intros i Hi. unfold shX.
  rewrite testbit_mask, tb_shl by lia.
  destruct (d - 1 - Z.of_nat i <? d) eqn:E; [|lia]. cbn [andb]. f_equal. lia.
Qed.

(* CrcP.v — proofs about Model/Crc.v: compute = Williams model, linearity, matrices, hardware, residue. *)
From Coq Require Import ZArith List Bool Lia ZifyBool Btauto.
From V.Model Require Import Bits Crc.
From V.Proofs Require Import BitsP.
Import ListNotations.
Open Scope Z_scope.

(* ------------------------------------------------------------------ bit-level helpers *)
Lemma testbit_small n x i : 0 <= x < 2 ^ n -> Z.testbit x i = (i <? n) && Z.testbit x i.
Proof.
  intros H. assert (0 <= n) by (destruct (Z_lt_le_dec n 0); [rewrite Z.pow_neg_r in H; lia|lia]).
  rewrite <- (mask_small n x H) at 1. apply testbit_mask; lia.
Qed.

Lemma testbit_high n x i : 0 <= x < 2 ^ n -> n <= i -> Z.testbit x i = false.
Proof. intros H Hi. rewrite (testbit_small n x i H). destruct (i <? n) eqn:E; [lia|reflexivity]. Qed.

Lemma high_zero_range n x : 0 <= n -> (forall i, n <= i -> Z.testbit x i = false) -> 0 <= x < 2 ^ n.
Proof.
  intros Hn H. assert (E : mask n x = x).
  { apply Z.bits_inj'; intros i Hi. rewrite testbit_mask by lia.
    destruct (i <? n) eqn:L; [reflexivity|]. rewrite H by lia. reflexivity. }
  rewrite <- E. apply mask_range; lia.
Qed.

Lemma lxor_range n a b : 0 <= a < 2 ^ n -> 0 <= b < 2 ^ n -> 0 <= Z.lxor a b < 2 ^ n.
Proof.
  intros Ha Hb. assert (0 <= n) by (destruct (Z_lt_le_dec n 0); [rewrite Z.pow_neg_r in Ha; lia|lia]).
  apply high_zero_range; [lia|]. intros i Hi.
  rewrite Z.lxor_spec, (testbit_high n a i), (testbit_high n b i); auto.
Qed.

Lemma shiftl_range n m a : 0 <= m -> 0 <= a < 2 ^ n -> 0 <= Z.shiftl a m < 2 ^ (n + m).
Proof.
  intros Hm Ha. assert (0 <= n) by (destruct (Z_lt_le_dec n 0); [rewrite Z.pow_neg_r in Ha; lia|lia]).
  rewrite Z.shiftl_mul_pow2, Z.pow_add_r by lia. pose proof (pow2_pos m Hm). nia.
Qed.

Lemma testbit_of_bits f n i : 0 <= i ->
  Z.testbit (of_bits f n) i = (i <? Z.of_nat n) && f (Z.to_nat i).
Proof.
  revert f i. induction n as [|n IH]; intros f i Hi.
  - cbn [of_bits]. rewrite Z.testbit_0_l. destruct (i <? Z.of_nat 0) eqn:E; [lia|reflexivity].
  - cbn [of_bits]. rewrite Z.add_comm. destruct (Z.eq_dec i 0) as [->|Hn].
    + rewrite Z.testbit_0_r. reflexivity.
    + replace i with (Z.succ (i - 1)) at 1 by lia. rewrite Z.testbit_succ_r by lia.
      rewrite IH by lia. replace (Z.to_nat i) with (S (Z.to_nat (i - 1))) by lia.
      f_equal. destruct (i - 1 <? Z.of_nat n) eqn:A, (i <? Z.of_nat (S n)) eqn:B; lia.
Qed.

Lemma of_bits_range f n : 0 <= of_bits f n < 2 ^ Z.of_nat n.
Proof.
  apply high_zero_range; [lia|]. intros i Hi. rewrite testbit_of_bits by lia.
  destruct (i <? Z.of_nat n) eqn:E; [lia|reflexivity].
Qed.

Lemma of_bits_id n x : 0 <= x < 2 ^ Z.of_nat n -> of_bits (fun i => Z.testbit x (Z.of_nat i)) n = x.
Proof.
  intros H. apply Z.bits_inj'; intros i Hi. rewrite testbit_of_bits by lia.
  rewrite Z2Nat.id by lia. symmetry. apply testbit_small; auto.
Qed.

Lemma of_bits_ext f g n : (forall i, (i < n)%nat -> f i = g i) -> of_bits f n = of_bits g n.
Proof.
  intros H. apply Z.bits_inj'; intros i Hi. rewrite !testbit_of_bits by lia.
  destruct (i <? Z.of_nat n) eqn:E; [|reflexivity]. cbn. apply H. lia.
Qed.

Lemma testbit_rev_bits x n i : 0 <= n -> 0 <= i ->
  Z.testbit (rev_bits x n) i = (i <? n) && Z.testbit x (n - 1 - i).
Proof.
  intros Hn Hi. unfold rev_bits. rewrite testbit_of_bits by lia. rewrite !Z2Nat.id by lia. reflexivity.
Qed.

Lemma rev_bits_range x n : 0 <= n -> 0 <= rev_bits x n < 2 ^ n.
Proof. intros Hn. unfold rev_bits. pose proof (of_bits_range (fun i => Z.testbit x (n - 1 - Z.of_nat i)) (Z.to_nat n)) as H. rewrite Z2Nat.id in H by lia. exact H. Qed.

Lemma rev_bits_invol x n : 0 <= x < 2 ^ n -> rev_bits (rev_bits x n) n = x.
Proof.
  intros H. assert (0 <= n) by (destruct (Z_lt_le_dec n 0); [rewrite Z.pow_neg_r in H; lia|lia]).
  apply Z.bits_inj'; intros i Hi. rewrite testbit_rev_bits by lia.
  rewrite (testbit_small n x i H). destruct (i <? n) eqn:E; [|reflexivity].
  rewrite testbit_rev_bits by lia. replace (n - 1 - (n - 1 - i)) with i by lia.
  destruct (n - 1 - i <? n) eqn:E2; [reflexivity|lia].
Qed.

Lemma rev_bits_lxor a b n : 0 <= n -> rev_bits (Z.lxor a b) n = Z.lxor (rev_bits a n) (rev_bits b n).
Proof.
  intros Hn. apply Z.bits_inj'; intros i Hi. rewrite Z.lxor_spec, !testbit_rev_bits, Z.lxor_spec by lia.
  destruct (i <? n); reflexivity.
Qed.

Lemma rev_bits_inj a b n : 0 <= a < 2 ^ n -> 0 <= b < 2 ^ n -> rev_bits a n = rev_bits b n -> a = b.
Proof. intros Ha Hb E. rewrite <- (rev_bits_invol a n Ha), <- (rev_bits_invol b n Hb), E. reflexivity. Qed.

Lemma reflect_rev x n : 0 <= n -> 0 <= x < 2 ^ n -> reflect x n = rev_bits x n.
Proof.
  intros Hn H. unfold reflect. f_equal. pose proof (bit_length_min x n). lia.
Qed.

Lemma in_bits_spec w v : in_bits w v = true <-> 0 <= v < 2 ^ w.
Proof. unfold in_bits. lia. Qed.

Lemma shiftl1_pow k : 0 <= k -> Z.shiftl 1 k = 2 ^ k.
Proof. intros. rewrite Z.shiftl_mul_pow2 by lia. lia. Qed.

Lemma word_ok_spec d x : 0 <= d -> word_ok d x = true <-> 0 <= x < 2 ^ d.
Proof. intros Hd. unfold word_ok. rewrite shiftl1_pow by lia. lia. Qed.

Lemma land_pow2_zero x k : 0 <= k -> (Z.land x (2 ^ k) =? 0) = negb (Z.testbit x k).
Proof.
  intros Hk. assert (E : Z.land x (2 ^ k) = if Z.testbit x k then 2 ^ k else 0).
  { apply Z.bits_inj'; intros i Hi. rewrite Z.land_spec, Z.pow2_bits_eqb by lia.
    destruct (Z.eqb_spec k i) as [->|N].
    - destruct (Z.testbit x i); [rewrite Z.pow2_bits_true by lia; reflexivity|rewrite Z.testbit_0_l; reflexivity].
    - rewrite andb_false_r. destruct (Z.testbit x k); [rewrite Z.pow2_bits_false by lia; reflexivity|rewrite Z.testbit_0_l; reflexivity]. }
  rewrite E. pose proof (pow2_pos k Hk). destruct (Z.testbit x k); cbn; lia.
Qed.

Lemma tb_shl a n m : 0 <= n -> Z.testbit (Z.shiftl a n) m = Z.testbit a (m - n).
Proof.
  intros Hn. destruct (Z_lt_le_dec m 0).
  - rewrite !Z.testbit_neg_r by lia. reflexivity.
  - apply Z.shiftl_spec; lia.
Qed.

(* ------------------------------------------------------------------ the inner loop of compute *)
(* the data word as a d-bit shift register feeding its top bit *)
Definition shX (d X : Z) : Z := mask d (Z.shiftl X 1).

Fixpoint feedX (w p d : Z) (n : nat) (s X : Z) : Z :=
  match n with
  | O => s
  | S n' => feedX w p d n' (wstep w p s (Z.testbit X (d - 1))) (shX d X)
  end.

Fixpoint shXn (d : Z) (n : nat) (X : Z) : Z :=
  match n with O => X | S n' => shXn d n' (shX d X) end.

Lemma wstep_range w p s b : 0 < w -> 0 <= p < 2 ^ w -> 0 <= wstep w p s b < 2 ^ w.
Proof.
  intros Hw Hp. unfold wstep. pose proof (Z.mod_pos_bound (Z.shiftl s 1) (2 ^ w) (pow2_pos w ltac:(lia))).
  destruct (xorb _ b); [apply lxor_range; auto|auto].
Qed.

Lemma shX_range d X : 0 < d -> 0 <= shX d X < 2 ^ d.
Proof. intros. apply mask_range; lia. Qed.

Lemma feedX_range w p d n s X : 0 < w -> 0 <= p < 2 ^ w -> 0 <= s < 2 ^ w -> 0 <= feedX w p d n s X < 2 ^ w.
Proof.
  intros Hw Hp. revert s X. induction n as [|n IH]; intros s X Hs; cbn [feedX]; auto.
  apply IH. apply wstep_range; auto.
Qed.

Lemma inner_step_inv w p d R s X :
  0 < w -> 0 < d -> 0 <= p < 2 ^ w ->
  mask (w + d) R = Z.lxor (Z.shiftl s d) (Z.shiftl X w) ->
  mask (w + d) (inner_step (Z.shiftl 1 (w + d - 1)) (Z.shiftl p d) R) =
  Z.lxor (Z.shiftl (wstep w p s (Z.testbit X (d - 1))) d) (Z.shiftl (shX d X) w).
Proof.
  intros Hw Hd Hp H.
  assert (HR : forall j, j < w + d -> Z.testbit R j = xorb (Z.testbit s (j - d)) (Z.testbit X (j - w))).
  { intros j Hj. rewrite <- !tb_shl, <- Z.lxor_spec, <- H, testbit_mask by lia.
    destruct (j <? w + d) eqn:E; [reflexivity|lia]. }
  unfold inner_step. rewrite shiftl1_pow, land_pow2_zero, negb_involutive by lia.
  assert (Ht : Z.testbit R (w + d - 1) = xorb (Z.testbit s (w - 1)) (Z.testbit X (d - 1))).
  { rewrite HR by lia. f_equal; f_equal; lia. }
  unfold wstep. rewrite <- Ht. unfold shX.
  apply Z.bits_inj'; intros i Hi. rewrite testbit_mask by lia.
  destruct (Z.testbit R (w + d - 1)).
  - rewrite !Z.lxor_spec, !tb_shl, Z.lxor_spec by lia. fold (mask w (Z.shiftl s 1)).
    rewrite !testbit_mask, !tb_shl by lia.
    destruct (i <? w + d) eqn:E.
    + rewrite HR by lia. replace (i - 1 - d) with (i - d - 1) by lia. replace (i - 1 - w) with (i - w - 1) by lia.
      destruct (i - d <? w) eqn:E1; [|lia]. destruct (i - w <? d) eqn:E2; [|lia]. cbn [andb]. btauto.
    + destruct (i - d <? w) eqn:E1; [lia|]. destruct (i - w <? d) eqn:E2; [lia|]. cbn [andb].
      rewrite (testbit_high w p (i - d)) by lia. reflexivity.
  - rewrite !Z.lxor_spec, !tb_shl by lia. fold (mask w (Z.shiftl s 1)).
    rewrite !testbit_mask, !tb_shl by lia.
    destruct (i <? w + d) eqn:E.
    + rewrite HR by lia. replace (i - 1 - d) with (i - d - 1) by lia. replace (i - 1 - w) with (i - w - 1) by lia.
      destruct (i - d <? w) eqn:E1; [|lia]. destruct (i - w <? d) eqn:E2; [|lia]. reflexivity.
    + destruct (i - d <? w) eqn:E1; [lia|]. destruct (i - w <? d) eqn:E2; [lia|]. reflexivity.
Qed.

Lemma inner_iter_inv w p d n : 0 < w -> 0 < d -> 0 <= p < 2 ^ w -> forall R s X,
  mask (w + d) R = Z.lxor (Z.shiftl s d) (Z.shiftl X w) ->
  mask (w + d) (iter n (inner_step (Z.shiftl 1 (w + d - 1)) (Z.shiftl p d)) R) =
  Z.lxor (Z.shiftl (feedX w p d n s X) d) (Z.shiftl (shXn d n X) w).
Proof.
  intros Hw Hd Hp. induction n as [|n IH]; intros R s X H; cbn [iter feedX shXn]; [assumption|].
  apply IH. apply inner_step_inv; auto.
Qed.

Lemma testbit_shXn d n X i : 0 < d -> 0 <= X < 2 ^ d ->
  Z.testbit (shXn d n X) i = (i <? d) && Z.testbit X (i - Z.of_nat n).
Proof.
  intros Hd. revert X. induction n as [|n IH]; intros X HX; cbn [shXn].
  - rewrite Z.sub_0_r. apply testbit_small; auto.
  - rewrite IH by (apply shX_range; auto). unfold shX. rewrite testbit_mask, tb_shl by lia.
    destruct (i <? d) eqn:E; [|reflexivity]. destruct (i - Z.of_nat n <? d) eqn:E2; [|lia].
    cbn [andb]. f_equal. lia.
Qed.

Lemma shXn_full d X : 0 < d -> 0 <= X < 2 ^ d -> shXn d (Z.to_nat d) X = 0.
Proof.
  intros Hd HX. apply Z.bits_inj'; intros i Hi. rewrite testbit_shXn, Z.testbit_0_l by auto.
  destruct (i <? d) eqn:E; [|reflexivity]. rewrite Z.testbit_neg_r by lia. reflexivity.
Qed.

Definition wordin (a : algo) (d u : Z) : Z := if refin a then rev_bits u d else u.

Lemma wordin_range a d u : 0 < d -> 0 <= u < 2 ^ d -> 0 <= wordin a d u < 2 ^ d.
Proof. intros. unfold wordin. destruct (refin a); [apply rev_bits_range; lia|auto]. Qed.

Lemma algo_ok_spec a : algo_ok a = true ->
  0 < cw a /\ 0 <= poly a < 2 ^ cw a /\ 0 <= init a < 2 ^ cw a /\ 0 <= xorout a < 2 ^ cw a.
Proof.
  unfold algo_ok. rewrite !andb_true_iff, !in_bits_spec. intros [[[H1 H2] H3] H4]. repeat split; lia.
Qed.

Lemma word_update_spec a d s u :
  0 < cw a -> 0 <= poly a < 2 ^ cw a -> 0 < d -> 0 <= s < 2 ^ cw a -> 0 <= u < 2 ^ d ->
  word_update a d (Z.shiftl s d) u =
  Z.shiftl (feedX (cw a) (poly a) d (Z.to_nat d) s (wordin a d u)) d.
Proof.
  intros Hw Hp Hd Hs Hu. unfold word_update.
  replace (if refin a then reflect u d else u) with (wordin a d u)
    by (unfold wordin; destruct (refin a); [rewrite reflect_rev by lia|]; reflexivity).
  pose proof (wordin_range a d u Hd Hu) as Hx. set (x := wordin a d u) in *.
  rewrite mask_land by lia.
  rewrite (inner_iter_inv (cw a) (poly a) d (Z.to_nat d) Hw Hd Hp _ s x).
  - rewrite shXn_full by auto. rewrite Z.shiftl_0_l, Z.lxor_0_r. reflexivity.
  - apply mask_small. apply lxor_range.
    + apply shiftl_range; lia.
    + rewrite (Z.add_comm (cw a) d). apply shiftl_range; lia.
Qed.

Lemma feedX_bits w p d n s X : 0 < d ->
  feedX w p d n s X =
  fold_left (wstep w p) (map (fun i => Z.testbit X (d - 1 - Z.of_nat i)) (seq 0 n)) s.
Proof.
  intros Hd. revert s X. induction n as [|n IH]; intros s X; [reflexivity|].
  cbn [feedX]. rewrite IH. cbn [seq map fold_left]. rewrite <- seq_shift, map_map.
  rewrite Z.sub_0_r. f_equal. apply map_ext_in. intros i Hi. unfold shX.
  rewrite testbit_mask, tb_shl by lia.
  destruct (d - 1 - Z.of_nat i <? d) eqn:E; [|lia]. cbn [andb]. f_equal. lia.
Qed.

Lemma feedX_word_bits a d s u : 0 < d ->
  feedX (cw a) (poly a) d (Z.to_nat d) s (wordin a d u) =
  fold_left (wstep (cw a) (poly a)) (word_bits (refin a) d u) s.
Proof.
  intros Hd. rewrite feedX_bits by auto. f_equal. unfold word_bits, wordin.
  destruct (refin a); [|reflexivity]. apply map_ext_in. intros i Hi. apply in_seq in Hi.
  rewrite testbit_rev_bits by lia. destruct (d - 1 - Z.of_nat i <? d) eqn:E; [|lia].
  cbn [andb]. f_equal. lia.
Qed.

Lemma wfold_range w p bits s : 0 < w -> 0 <= p < 2 ^ w -> 0 <= s < 2 ^ w ->
  0 <= fold_left (wstep w p) bits s < 2 ^ w.
Proof.
  intros Hw Hp. revert s. induction bits as [|b r IH]; intros s Hs; cbn [fold_left]; auto.
  apply IH. apply wstep_range; auto.
Qed.

Lemma words_ok_cons d x r : forallb (word_ok d) (x :: r) = true <-> word_ok d x = true /\ forallb (word_ok d) r = true.
Proof. cbn [forallb]. apply andb_true_iff. Qed.

Lemma compute_reg_fold a d ws : 0 < cw a -> 0 <= poly a < 2 ^ cw a -> 0 < d ->
  forallb (word_ok d) ws = true -> forall s, 0 <= s < 2 ^ cw a ->
  fold_left (word_update a d) ws (Z.shiftl s d) =
  Z.shiftl (fold_left (wstep (cw a) (poly a)) (message_bits a d ws) s) d.
Proof.
  intros Hw Hp Hd. induction ws as [|x r IH]; intros Hok s Hs; [reflexivity|].
  apply words_ok_cons in Hok. destruct Hok as [Hx Hr]. apply word_ok_spec in Hx; [|lia].
  cbn [fold_left]. unfold message_bits. cbn [flat_map]. rewrite fold_left_app.
  rewrite word_update_spec, feedX_word_bits by auto. apply IH; auto. apply wfold_range; auto.
Qed.

(* the Williams register is what the shifted register holds *)
Lemma compute_reg_williams a d ws : algo_ok a = true -> 0 < d -> forallb (word_ok d) ws = true ->
  compute_reg a d ws = Z.shiftl (williams_reg a (message_bits a d ws)) d.
Proof.
  intros Ha Hd Hok. destruct (algo_ok_spec a Ha) as (Hw & Hp & Hi & Hx).
  unfold compute_reg, williams_reg. apply compute_reg_fold; auto.
Qed.

Lemma williams_reg_range a bits : algo_ok a = true -> 0 <= williams_reg a bits < 2 ^ cw a.
Proof. intros Ha. destruct (algo_ok_spec a Ha) as (Hw & Hp & Hi & Hx). apply wfold_range; auto. Qed.

Lemma compute_raw_williams a d ws : algo_ok a = true -> 0 < d -> forallb (word_ok d) ws = true ->
  compute_raw a d ws = williams a (message_bits a d ws).
Proof.
  intros Ha Hd Hok. unfold compute_raw, williams. rewrite compute_reg_williams by auto.
  rewrite Z.shiftr_shiftl_l, Z.sub_diag, Z.shiftl_0_r by lia.
  pose proof (williams_reg_range a (message_bits a d ws) Ha). destruct (algo_ok_spec a Ha) as (Hw & _).
  destruct (refout a); [rewrite reflect_rev by lia|]; reflexivity.
Qed.

Theorem compute_is_williams a d ws : params_ok a d = true -> forallb (word_ok d) ws = true ->
  compute a d ws = Some (williams a (message_bits a d ws)).
Proof.
  unfold params_ok. rewrite andb_true_iff. intros [Ha Hd] Hok. unfold compute. rewrite Hok.
  f_equal. apply compute_raw_williams; auto. lia.
Qed.

(* an out-of-range word is rejected (ValueError), nothing else is *)
Theorem compute_none_iff a d ws : compute a d ws = None <-> forallb (word_ok d) ws = false.
Proof. unfold compute. destruct (forallb (word_ok d) ws); split; congruence. Qed.

(* ------------------------------------------------------------------ GF(2)-linearity of the word update *)
Lemma wstep_lxor w p s s' b b' : 0 < w ->
  wstep w p (Z.lxor s s') (xorb b b') = Z.lxor (wstep w p s b) (wstep w p s' b').
Proof.
  intros Hw. unfold wstep. rewrite Z.lxor_spec.
  apply Z.bits_inj'; intros i Hi.
  destruct (Z.testbit s (w - 1)), (Z.testbit s' (w - 1)), b, b'; cbn [xorb];
    rewrite ?Z.lxor_spec; fold (mask w (Z.shiftl (Z.lxor s s') 1)); fold (mask w (Z.shiftl s 1));
    fold (mask w (Z.shiftl s' 1)); rewrite !testbit_mask, !tb_shl, ?Z.lxor_spec by lia; btauto.
Qed.

Lemma shX_lxor d X X' : 0 < d -> shX d (Z.lxor X X') = Z.lxor (shX d X) (shX d X').
Proof.
  intros Hd. unfold shX. apply Z.bits_inj'; intros i Hi.
  rewrite Z.lxor_spec, !testbit_mask, !tb_shl, Z.lxor_spec by lia. btauto.
Qed.

Lemma feedX_lxor w p d n : 0 < w -> 0 < d -> forall s s' X X',
  feedX w p d n (Z.lxor s s') (Z.lxor X X') = Z.lxor (feedX w p d n s X) (feedX w p d n s' X').
Proof.
  intros Hw Hd. induction n as [|n IH]; intros s s' X X'; cbn [feedX]; [reflexivity|].
  rewrite Z.lxor_spec, wstep_lxor, shX_lxor by auto. apply IH.
Qed.

Lemma feedX_zero w p d n : 0 < w -> 0 < d -> feedX w p d n 0 0 = 0.
Proof.
  intros Hw Hd. induction n as [|n IH]; cbn [feedX]; [reflexivity|].
  replace (wstep w p 0 (Z.testbit 0 (d - 1))) with 0.
  - replace (shX d 0) with 0; [exact IH|]. unfold shX, mask. rewrite Z.shiftl_0_l, Z.mod_0_l; [reflexivity|].
    pose proof (pow2_pos d); lia.
  - unfold wstep. rewrite !Z.testbit_0_l. cbn [xorb]. rewrite Z.shiftl_0_l, Z.mod_0_l; [reflexivity|].
    pose proof (pow2_pos w); lia.
Qed.

Fixpoint xsum (f : nat -> Z) (n : nat) : Z :=
  match n with O => 0 | S n' => Z.lxor (xsum f n') (f n') end.

Definition sel (b : bool) (x : Z) : Z := if b then x else 0.

Lemma feedX_xsum_s w p d n f k : 0 < w -> 0 < d ->
  feedX w p d n (xsum f k) 0 = xsum (fun j => feedX w p d n (f j) 0) k.
Proof.
  intros Hw Hd. induction k as [|k IH]; cbn [xsum]; [apply feedX_zero; auto|].
  rewrite <- IH. rewrite <- feedX_lxor by auto. rewrite Z.lxor_0_r. reflexivity.
Qed.

Lemma feedX_xsum_x w p d n f k : 0 < w -> 0 < d ->
  feedX w p d n 0 (xsum f k) = xsum (fun j => feedX w p d n 0 (f j)) k.
Proof.
  intros Hw Hd. induction k as [|k IH]; cbn [xsum]; [apply feedX_zero; auto|].
  rewrite <- IH. rewrite <- feedX_lxor by auto. rewrite Z.lxor_0_r. reflexivity.
Qed.

Lemma xsum_ext f g n : (forall j, (j < n)%nat -> f j = g j) -> xsum f n = xsum g n.
Proof.
  induction n as [|n IH]; intros H; cbn [xsum]; [reflexivity|]. rewrite IH, H by (intros; auto with arith). reflexivity.
Qed.

Lemma testbit_xsum_bits x k i : 0 <= i ->
  Z.testbit (xsum (fun j => sel (Z.testbit x (Z.of_nat j)) (2 ^ Z.of_nat j)) k) i =
  (i <? Z.of_nat k) && Z.testbit x i.
Proof.
  intros Hi. induction k as [|k IH]; cbn [xsum].
  - rewrite Z.testbit_0_l. destruct (i <? Z.of_nat 0) eqn:E; [lia|reflexivity].
  - rewrite Z.lxor_spec, IH.
    assert (E : Z.testbit (sel (Z.testbit x (Z.of_nat k)) (2 ^ Z.of_nat k)) i = (Z.of_nat k =? i) && Z.testbit x i).
    { destruct (Z.eqb_spec (Z.of_nat k) i) as [<-|N].
      - destruct (Z.testbit x (Z.of_nat k)); cbn [sel andb]; [apply Z.pow2_bits_true; lia|apply Z.testbit_0_l].
      - destruct (Z.testbit x (Z.of_nat k)); cbn [sel andb]; [apply Z.pow2_bits_false; lia|apply Z.testbit_0_l]. }
    rewrite E. destruct (i <? Z.of_nat k) eqn:A, (Z.of_nat k =? i) eqn:B, (i <? Z.of_nat (S k)) eqn:C; try lia;
      cbn [andb xorb]; btauto.
Qed.

Lemma xsum_bits x k : 0 <= x < 2 ^ Z.of_nat k ->
  xsum (fun j => sel (Z.testbit x (Z.of_nat j)) (2 ^ Z.of_nat j)) k = x.
Proof.
  intros H. apply Z.bits_inj'; intros i Hi. rewrite testbit_xsum_bits by auto. symmetry. apply testbit_small; auto.
Qed.

(* ------------------------------------------------------------------ matrices and the XOR network *)
Lemma nth_map_seq {A} (f : nat -> A) n j dflt : (j < n)%nat -> nth j (map f (seq 0 n)) dflt = f j.
Proof.
  intros H. rewrite (nth_indep _ dflt (f 0%nat)) by (rewrite map_length, seq_length; auto).
  rewrite map_nth, seq_nth by auto. reflexivity.
Qed.

Lemma unit_algo_ok w p s : 0 < w -> 0 <= p < 2 ^ w -> 0 <= s < 2 ^ w -> algo_ok (Algo w p s false false 0) = true.
Proof.
  intros Hw Hp Hs. unfold algo_ok. cbn [cw poly init xorout]. pose proof (pow2_pos w).
  rewrite !andb_true_iff, !in_bits_spec. repeat split; lia.
Qed.

(* compute of one word with no reflection and no output xor is the register-level word update *)
Lemma compute_raw_unit w p d s u : 0 < w -> 0 <= p < 2 ^ w -> 0 < d -> 0 <= s < 2 ^ w -> 0 <= u < 2 ^ d ->
  compute_raw (Algo w p s false false 0) d [u] = feedX w p d (Z.to_nat d) s u.
Proof.
  intros Hw Hp Hd Hs Hu. rewrite compute_raw_williams.
  - unfold williams, williams_reg, message_bits. cbn [cw poly init refin refout xorout flat_map].
    rewrite app_nil_r, Z.lxor_0_r.
    pose proof (feedX_word_bits (Algo w p s false false 0) d s u Hd) as E. cbn [cw poly refin wordin] in E.
    symmetry. exact E.
  - apply unit_algo_ok; auto.
  - auto.
  - cbn [forallb]. rewrite andb_true_r. apply word_ok_spec; lia.
Qed.

Lemma pow2_lt_nat j n : (j < n)%nat -> 0 <= 2 ^ Z.of_nat j < 2 ^ Z.of_nat n.
Proof. intros H. split; [pose proof (pow2_pos (Z.of_nat j)); lia|apply pow2_mono_lt; lia]. Qed.

Lemma matF_spec a d j i : 0 < cw a -> 0 <= poly a < 2 ^ cw a -> 0 < d ->
  (j < Z.to_nat (cw a))%nat -> (i < Z.to_nat (cw a))%nat ->
  mat_bit (fst (matrices a d)) j i =
  Z.testbit (feedX (cw a) (poly a) d (Z.to_nat d) (2 ^ Z.of_nat j) 0) (Z.of_nat i).
Proof.
  intros Hw Hp Hd Hj Hi. unfold matrices, mat_bit. cbn [fst]. rewrite nth_map_seq by auto.
  unfold bits_lsb. rewrite nth_map_seq by auto. f_equal.
  pose proof (pow2_lt_nat j _ Hj) as R. rewrite Z2Nat.id in R by lia.
  pose proof (pow2_pos d). apply compute_raw_unit; auto; lia.
Qed.

Lemma matG_spec a d j i : 0 < cw a -> 0 <= poly a < 2 ^ cw a -> 0 < d ->
  (j < Z.to_nat d)%nat -> (i < Z.to_nat (cw a))%nat ->
  mat_bit (snd (matrices a d)) j i =
  Z.testbit (feedX (cw a) (poly a) d (Z.to_nat d) 0 (2 ^ Z.of_nat j)) (Z.of_nat i).
Proof.
  intros Hw Hp Hd Hj Hi. unfold matrices, mat_bit. cbn [snd]. rewrite nth_map_seq by auto.
  unfold bits_lsb. rewrite nth_map_seq by auto. f_equal.
  pose proof (pow2_lt_nat j _ Hj) as R. rewrite Z2Nat.id in R by lia.
  pose proof (pow2_pos (cw a)). apply compute_raw_unit; auto; lia.
Qed.

Lemma net_fold (M : nat -> nat -> bool) (row : nat -> Z) src i n b0 :
  (forall j, (j < n)%nat -> M j i = Z.testbit (row j) (Z.of_nat i)) ->
  fold_left (fun bit j => if M j i then xorb bit (Z.testbit src (Z.of_nat j)) else bit) (seq 0 n) b0 =
  xorb b0 (Z.testbit (xsum (fun j => sel (Z.testbit src (Z.of_nat j)) (row j)) n) (Z.of_nat i)).
Proof.
  induction n as [|n IH]; intros H.
  - cbn. rewrite Z.testbit_0_l. destruct b0; reflexivity.
  - rewrite seq_S, fold_left_app. cbn [fold_left xsum plus]. rewrite IH by (intros; apply H; lia).
    rewrite Z.lxor_spec, H by lia.
    destruct (Z.testbit src (Z.of_nat n)); cbn [sel]; rewrite ?Z.testbit_0_l;
      destruct (Z.testbit (row n) (Z.of_nat i)); btauto.
Qed.

Lemma sel_feed_s w p d n b x : 0 < w -> 0 < d -> sel b (feedX w p d n x 0) = feedX w p d n (sel b x) 0.
Proof. intros. destruct b; cbn [sel]; [reflexivity|symmetry; apply feedX_zero; auto]. Qed.
Lemma sel_feed_x w p d n b x : 0 < w -> 0 < d -> sel b (feedX w p d n 0 x) = feedX w p d n 0 (sel b x).
Proof. intros. destruct b; cbn [sel]; [reflexivity|symmetry; apply feedX_zero; auto]. Qed.

(* the XOR network built from the matrices computes the word update (linearity + unit vectors) *)
Lemma xor_network_spec a d src din : 0 < cw a -> 0 <= poly a < 2 ^ cw a -> 0 < d ->
  0 <= src < 2 ^ cw a -> 0 <= din < 2 ^ d ->
  xor_network (fst (matrices a d)) (snd (matrices a d)) (cw a) d src din =
  feedX (cw a) (poly a) d (Z.to_nat d) src din.
Proof.
  intros Hw Hp Hd Hs Hu. unfold xor_network.
  set (w := cw a) in *. set (p := poly a) in *. set (n := Z.to_nat d).
  assert (E : forall i, (i < Z.to_nat w)%nat ->
    fold_left (fun bit j => if mat_bit (snd (matrices a d)) j i then xorb bit (Z.testbit din (Z.of_nat j)) else bit)
      (seq 0 (Z.to_nat d))
      (fold_left (fun bit j => if mat_bit (fst (matrices a d)) j i then xorb bit (Z.testbit src (Z.of_nat j)) else bit)
         (seq 0 (Z.to_nat w)) false) =
    Z.testbit (feedX w p d n src din) (Z.of_nat i)).
  { intros i Hi.
    rewrite (net_fold (mat_bit (snd (matrices a d))) (fun j => feedX w p d n 0 (2 ^ Z.of_nat j)))
      by (intros; apply matG_spec; auto).
    rewrite (net_fold (mat_bit (fst (matrices a d))) (fun j => feedX w p d n (2 ^ Z.of_nat j) 0))
      by (intros; apply matF_spec; auto).
    rewrite xorb_false_l, <- Z.lxor_spec. f_equal.
    rewrite (xsum_ext _ (fun j => feedX w p d n (sel (Z.testbit src (Z.of_nat j)) (2 ^ Z.of_nat j)) 0))
      by (intros; apply sel_feed_s; auto).
    rewrite (xsum_ext (fun j => sel (Z.testbit din (Z.of_nat j)) (feedX w p d n 0 (2 ^ Z.of_nat j)))
                      (fun j => feedX w p d n 0 (sel (Z.testbit din (Z.of_nat j)) (2 ^ Z.of_nat j))))
      by (intros; apply sel_feed_x; auto).
    rewrite <- feedX_xsum_s, <- feedX_xsum_x by auto.
    rewrite !xsum_bits by (rewrite Z2Nat.id by lia; auto).
    rewrite <- feedX_lxor by auto. rewrite Z.lxor_0_r, Z.lxor_0_l. reflexivity. }
  rewrite (of_bits_ext _ (fun i => Z.testbit (feedX w p d n src din) (Z.of_nat i))) by exact E.
  apply of_bits_id. rewrite Z2Nat.id by lia. apply feedX_range; auto.
Qed.

(* ------------------------------------------------------------------ the hardware processor *)
Lemma hw_next_spec a d reg c : algo_ok a = true -> 0 < d -> 0 <= reg < 2 ^ cw a ->
  word_ok d (c_data c) = true ->
  hw_next a d (matrices a d) reg c =
  if c_valid c
  then fold_left (wstep (cw a) (poly a)) (word_bits (refin a) d (c_data c)) (if c_start c then init a else reg)
  else if c_start c then init a else reg.
Proof.
  intros Ha Hd Hr Hx. destruct (algo_ok_spec a Ha) as (Hw & Hp & Hi & Hxo).
  apply word_ok_spec in Hx; [|lia]. unfold hw_next. destruct (c_valid c); [|reflexivity].
  fold (wordin a d (c_data c)). rewrite xor_network_spec; auto.
  - apply feedX_word_bits; auto.
  - destruct (c_start c); auto.
  - apply wordin_range; auto.
Qed.

Definition sstep (ws : list Z) (c : cycle) : list Z :=
  if c_valid c then (if c_start c then [c_data c] else ws ++ [c_data c])
  else if c_start c then [] else ws.

Lemma since_start_fold cs : since_start cs = fold_left sstep cs [].
Proof. reflexivity. Qed.

Lemma message_bits_snoc a d ws x : message_bits a d (ws ++ [x]) = message_bits a d ws ++ word_bits (refin a) d x.
Proof. unfold message_bits. rewrite flat_map_app. cbn [flat_map]. rewrite app_nil_r. reflexivity. Qed.

Lemma hw_fold a d : algo_ok a = true -> 0 < d -> forall cs reg ws,
  cycles_ok d cs = true -> forallb (word_ok d) ws = true ->
  reg = williams_reg a (message_bits a d ws) ->
  fold_left (hw_next a d (matrices a d)) cs reg = williams_reg a (message_bits a d (fold_left sstep cs ws)) /\
  forallb (word_ok d) (fold_left sstep cs ws) = true.
Proof.
  intros Ha Hd. induction cs as [|c r IH]; intros reg ws Hc Hws Hreg; cbn [fold_left]; [auto|].
  unfold cycles_ok in Hc. cbn [forallb] in Hc. apply andb_true_iff in Hc. destruct Hc as [Hx Hr].
  apply IH; [exact Hr| |].
  - unfold sstep. destruct (c_valid c), (c_start c); auto.
    + cbn [forallb]. rewrite Hx. reflexivity.
    + rewrite forallb_app, Hws. cbn [forallb]. rewrite Hx. reflexivity.
  - rewrite hw_next_spec; auto; [|subst reg; apply williams_reg_range; auto].
    unfold sstep. destruct (c_valid c), (c_start c); auto.
    + unfold williams_reg, message_bits. cbn [flat_map]. rewrite app_nil_r. reflexivity.
    + rewrite message_bits_snoc. unfold williams_reg. rewrite fold_left_app. subst reg. reflexivity.
Qed.

Lemma hw_run_williams a d cs : algo_ok a = true -> 0 < d -> cycles_ok d cs = true ->
  hw_run a d cs = williams_reg a (message_bits a d (since_start cs)) /\
  forallb (word_ok d) (since_start cs) = true.
Proof.
  intros Ha Hd Hc. unfold hw_run. rewrite since_start_fold. apply hw_fold; auto.
Qed.

(* crc output after any sequence of cycles = compute of the words since the last effective start *)
Theorem hw_step_matches_compute a d cs : params_ok a d = true -> cycles_ok d cs = true ->
  compute a d (since_start cs) = Some (hw_crc a (hw_run a d cs)).
Proof.
  intros Hp Hc. pose proof Hp as Hp'. unfold params_ok in Hp'. apply andb_true_iff in Hp'. destruct Hp' as [Ha Hd].
  destruct (hw_run_williams a d cs Ha ltac:(lia) Hc) as [E Hok].
  rewrite compute_is_williams by auto. f_equal. unfold williams, hw_crc. rewrite E. reflexivity.
Qed.

(* the per-cycle trace is the sequence of outputs of the prefixes *)
Definition trace_go (a : algo) (d : Z) (FG : list (list bool) * list (list bool)) (res : Z) :=
  fix go (reg : Z) (cs : list cycle) : list (Z * bool) :=
    match cs with
    | [] => []
    | c :: r => let reg' := hw_next a d FG reg c in (hw_crc a reg', hw_match_r a res reg') :: go reg' r
    end.

Lemma trace_go_snoc a d FG res cs : forall reg c,
  trace_go a d FG res reg (cs ++ [c]) =
  trace_go a d FG res reg cs ++
  [(hw_crc a (fold_left (hw_next a d FG) (cs ++ [c]) reg), hw_match_r a res (fold_left (hw_next a d FG) (cs ++ [c]) reg))].
Proof.
  induction cs as [|x r IH]; intros reg c; cbn [app fold_left trace_go]; [reflexivity|].
  fold (trace_go a d FG res). rewrite IH. reflexivity.
Qed.

Lemma hw_trace_snoc a d cs c :
  hw_trace a d (cs ++ [c]) =
  hw_trace a d cs ++ [(hw_crc a (hw_run a d (cs ++ [c])), hw_match a (hw_run a d (cs ++ [c])))].
Proof. exact (trace_go_snoc a d (matrices a d) (residue a) cs (init a) c). Qed.

(* ------------------------------------------------------------------ the published table *)
(* an entry is reproduced: valid parameters; compute(b"123456789") with 8-bit words, the Williams
   specification run on the same bits, and residue() give the published values *)
Definition table_ok (e : algo * (Z * Z)) : bool :=
  let '(a, (chk, res)) := e in
  algo_ok a &&
  match compute a 8 check_msg with Some c => c =? chk | None => false end &&
  (williams a (message_bits a 8 check_msg) =? chk) &&
  (residue a =? res).

Lemma catalog_check_values : forallb table_ok reveng_table = true.
Proof. vm_compute. reflexivity. Qed.

Lemma matrices_spec a d src din :
  params_ok a d = true -> 0 <= src < 2 ^ cw a -> 0 <= din < 2 ^ d ->
  xor_network (fst (matrices a d)) (snd (matrices a d)) (cw a) d src din =
  fold_left (wstep (cw a) (poly a)) (word_bits false d din) src.
Proof.
  intros Hp Hs Hu. unfold params_ok in Hp. apply andb_true_iff in Hp. destruct Hp as [Ha Hd].
  destruct (algo_ok_spec a Ha) as (Hw & Hpo & _). rewrite xor_network_spec by (auto; lia).
  rewrite feedX_bits by lia. reflexivity.
Qed.

(* ------------------------------------------------------------------ residue / match_detected *)
(* one zero message bit *)
Definition Tz (w p s : Z) : Z := wstep w p s false.

Lemma Tz_lxor w p s s' : 0 < w -> Tz w p (Z.lxor s s') = Z.lxor (Tz w p s) (Tz w p s').
Proof. intros Hw. unfold Tz. rewrite <- wstep_lxor by auto. reflexivity. Qed.

Lemma Tz_zero w p : 0 < w -> Tz w p 0 = 0.
Proof.
  intros Hw. unfold Tz, wstep. rewrite Z.testbit_0_l. cbn [xorb]. rewrite Z.shiftl_0_l, Z.mod_0_l; [reflexivity|].
  pose proof (pow2_pos w); lia.
Qed.

Lemma iterT_lxor w p n : 0 < w -> forall s s',
  iter n (Tz w p) (Z.lxor s s') = Z.lxor (iter n (Tz w p) s) (iter n (Tz w p) s').
Proof. intros Hw. induction n as [|n IH]; intros s s'; cbn [iter]; [reflexivity|]. rewrite Tz_lxor by auto. apply IH. Qed.

Lemma iterT_zero w p n : 0 < w -> iter n (Tz w p) 0 = 0.
Proof. intros Hw. induction n as [|n IH]; cbn [iter]; [reflexivity|]. rewrite Tz_zero by auto. exact IH. Qed.

Lemma iterT_range w p n s : 0 < w -> 0 <= p < 2 ^ w -> 0 <= s < 2 ^ w -> 0 <= iter n (Tz w p) s < 2 ^ w.
Proof.
  intros Hw Hp. revert s. induction n as [|n IH]; intros s Hs; cbn [iter]; auto. apply IH. apply wstep_range; auto.
Qed.

Lemma iter_add {A} (f : A -> A) m n x : iter (m + n) f x = iter n f (iter m f x).
Proof. revert x. induction m as [|m IH]; intros x; cbn [iter plus]; [reflexivity|apply IH]. Qed.

Lemma shX_zero d : 0 < d -> shX d 0 = 0.
Proof. intros. unfold shX, mask. rewrite Z.shiftl_0_l, Z.mod_0_l; [reflexivity|]. pose proof (pow2_pos d); lia. Qed.

(* zero data: the word update is d zero bits *)
Lemma feedX_zero_word w p d n s : 0 < d -> feedX w p d n s 0 = iter n (Tz w p) s.
Proof.
  intros Hd. revert s. induction n as [|n IH]; intros s; cbn [feedX iter]; [reflexivity|].
  rewrite shX_zero, Z.testbit_0_l by auto. apply IH.
Qed.

Lemma wstep_zero_state w p b : 0 < w -> wstep w p 0 b = sel b p.
Proof.
  intros Hw. unfold wstep. rewrite Z.testbit_0_l, xorb_false_l, Z.shiftl_0_l, Z.mod_0_l.
  - destruct b; cbn [sel]; [apply Z.lxor_0_l|reflexivity].
  - pose proof (pow2_pos w); lia.
Qed.

Lemma Tz_shifted w p d X : 0 < d <= w ->
  Tz w p (Z.shiftl X (w - d)) = Z.lxor (sel (Z.testbit X (d - 1)) p) (Z.shiftl (shX d X) (w - d)).
Proof.
  intros Hd. unfold Tz, wstep. rewrite xorb_false_r, tb_shl by lia.
  replace (w - 1 - (w - d)) with (d - 1) by lia.
  assert (E : Z.shiftl (Z.shiftl X (w - d)) 1 mod 2 ^ w = Z.shiftl (shX d X) (w - d)).
  { fold (mask w (Z.shiftl (Z.shiftl X (w - d)) 1)). unfold shX.
    apply Z.bits_inj'; intros i Hi. rewrite testbit_mask, !tb_shl, testbit_mask, tb_shl by lia.
    replace (i - 1 - (w - d)) with (i - (w - d) - 1) by lia.
    destruct (i <? w) eqn:A, (i - (w - d) <? d) eqn:B; try lia; reflexivity. }
  rewrite E. destruct (Z.testbit X (d - 1)); cbn [sel]; [apply Z.lxor_comm|rewrite Z.lxor_0_l; reflexivity].
Qed.

(* d <= w: feeding a d-bit word is xor-ing it into the top of the register and clocking d zero bits *)
Lemma feedX_top_gen w p d n : 0 < d <= w -> forall X, 0 <= X < 2 ^ d ->
  (forall i, i < d - Z.of_nat n -> Z.testbit X i = false) ->
  feedX w p d n 0 X = iter n (Tz w p) (Z.shiftl X (w - d)).
Proof.
  intros Hd. induction n as [|n IH]; intros X HX Hlow; cbn [feedX iter].
  - assert (X = 0) as ->.
    { apply Z.bits_inj'; intros i Hi. rewrite Z.testbit_0_l, (testbit_small d X i HX).
      destruct (i <? d) eqn:E; [|reflexivity]. apply Hlow. lia. }
    rewrite Z.shiftl_0_l. reflexivity.
  - rewrite wstep_zero_state by lia.
    replace (sel (Z.testbit X (d - 1)) p) with (Z.lxor (sel (Z.testbit X (d - 1)) p) 0) by apply Z.lxor_0_r.
    replace (shX d X) with (Z.lxor 0 (shX d X)) at 1 by apply Z.lxor_0_l.
    rewrite feedX_lxor by lia. rewrite feedX_zero_word by lia. rewrite IH.
    + rewrite <- iterT_lxor by lia. rewrite Tz_shifted by lia. reflexivity.
    + apply shX_range; lia.
    + intros i Hi. unfold shX. rewrite testbit_mask, tb_shl by lia.
      rewrite (Hlow (i - 1)) by lia. apply andb_false_r.
Qed.

Lemma feedX_top w p d s X : 0 < d <= w -> 0 <= X < 2 ^ d ->
  feedX w p d (Z.to_nat d) s X = iter (Z.to_nat d) (Tz w p) (Z.lxor s (Z.shiftl X (w - d))).
Proof.
  intros Hd HX. rewrite iterT_lxor by lia.
  rewrite <- feedX_top_gen by (auto; intros i Hi; apply Z.testbit_neg_r; lia).
  rewrite <- (feedX_zero_word w p d) by lia. rewrite <- feedX_lxor by lia. rewrite Z.lxor_0_r, Z.lxor_0_l. reflexivity.
Qed.

(* clocking n zero bits into a register whose top n bits are clear is a plain shift *)
Lemma iterT_shift w p n : 0 < w -> forall y, 0 <= y -> y * 2 ^ Z.of_nat n < 2 ^ w ->
  iter n (Tz w p) y = Z.shiftl y (Z.of_nat n).
Proof.
  intros Hw. induction n as [|n IH]; intros y Hy Hlt; cbn [iter]; [rewrite Z.shiftl_0_r; reflexivity|].
  rewrite Nat2Z.inj_succ, Z.pow_succ_r in Hlt by lia. pose proof (pow2_pos (Z.of_nat n)).
  assert (Hy2 : 0 <= y < 2 ^ (w - 1)).
  { split; [lia|]. rewrite (pow2_split w) in Hlt by lia. nia. }
  assert (E : Tz w p y = Z.shiftl y 1).
  { unfold Tz, wstep. rewrite (testbit_high (w - 1) y (w - 1)) by (auto; lia). cbn [xorb].
    apply Z.mod_small. rewrite Z.shiftl_mul_pow2 by lia. rewrite (pow2_split w) by lia. lia. }
  rewrite E, IH.
  - rewrite Z.shiftl_shiftl by lia. f_equal. lia.
  - rewrite Z.shiftl_mul_pow2 by lia. lia.
  - rewrite Z.shiftl_mul_pow2 by lia. lia.
Qed.

(* k words of d bits, first word in the most significant position *)
Fixpoint catw (d : Z) (us : list Z) : Z :=
  match us with
  | [] => 0
  | u :: r => Z.lxor (Z.shiftl u (d * Z.of_nat (length r))) (catw d r)
  end.

Definition wrange (d u : Z) : Prop := 0 <= u < 2 ^ d.

Lemma catw_range d us : 0 < d -> Forall (wrange d) us -> 0 <= catw d us < 2 ^ (d * Z.of_nat (length us)).
Proof.
  intros Hd H. induction H as [|u r Hu Hr IH]; cbn [catw length].
  - rewrite Z.mul_0_r. cbn. lia.
  - rewrite Nat2Z.inj_succ, Z.mul_succ_r. set (dk := d * Z.of_nat (length r)) in *.
    assert (0 <= dk) by (unfold dk; nia).
    apply lxor_range.
    + rewrite Z.add_comm. apply shiftl_range; auto.
    + split; [lia|]. apply Z.lt_le_trans with (2 ^ dk); [lia|apply pow2_mono; lia].
Qed.

Definition feed_words (w p d s : Z) (us : list Z) : Z :=
  fold_left (fun s u => feedX w p d (Z.to_nat d) s u) us s.

Lemma feed_words_top w p d : 0 < w -> 0 <= p < 2 ^ w -> 0 < d -> forall us s,
  Forall (wrange d) us -> d * Z.of_nat (length us) <= w -> 0 <= s < 2 ^ w ->
  feed_words w p d s us =
  iter (length us * Z.to_nat d) (Tz w p) (Z.lxor s (Z.shiftl (catw d us) (w - d * Z.of_nat (length us)))).
Proof.
  intros Hw Hp Hd. induction us as [|u r IH]; intros s Hus Hlen Hs.
  - cbn. rewrite Z.shiftl_0_l, Z.lxor_0_r. reflexivity.
  - inversion Hus as [|u' r' Hu Hr]; subst. unfold feed_words. cbn [length] in Hlen. cbn [fold_left length catw].
    fold (feed_words w p d (feedX w p d (Z.to_nat d) s u) r).
    rewrite Nat2Z.inj_succ, Z.mul_succ_r in *. pose proof (catw_range d r Hd Hr) as Hc.
    set (dk := d * Z.of_nat (length r)) in *. assert (Hdk : 0 <= dk) by (unfold dk; nia).
    rewrite IH; [|auto|lia|apply feedX_range; auto].
    rewrite feedX_top by (auto; lia).
    set (Y := Z.shiftl (catw d r) (w - (dk + d))).
    assert (EY : Z.shiftl (catw d r) (w - dk) = iter (Z.to_nat d) (Tz w p) Y).
    { assert (HY : 0 <= Y < 2 ^ (dk + (w - (dk + d)))) by (apply shiftl_range; [lia|exact Hc]).
      replace (dk + (w - (dk + d))) with (w - d) in HY by lia.
      rewrite iterT_shift; [| lia | lia |].
      - unfold Y. rewrite Z.shiftl_shiftl by lia. f_equal. lia.
      - rewrite Z2Nat.id by lia.
        assert (E2 : 2 ^ w = 2 ^ (w - d) * 2 ^ d) by (rewrite <- Z.pow_add_r by lia; f_equal; lia).
        pose proof (pow2_pos d). nia. }
    rewrite EY, <- iterT_lxor by lia. rewrite <- iter_add.
    replace (S (length r) * Z.to_nat d)%nat with (Z.to_nat d + length r * Z.to_nat d)%nat by reflexivity.
    f_equal. rewrite Z.shiftl_lxor, Z.shiftl_shiftl by lia. fold Y.
    replace (dk + (w - (dk + d))) with (w - d) by lia. rewrite Z.lxor_assoc. reflexivity.
Qed.

(* --- injectivity of zero-bit clocking for polynomials with a constant term --- *)
Lemma testbit_Tz w p s i : 0 < w -> 0 <= i ->
  Z.testbit (Tz w p s) i = xorb ((i <? w) && Z.testbit s (i - 1)) (Z.testbit s (w - 1) && Z.testbit p i).
Proof.
  intros Hw Hi. unfold Tz, wstep. rewrite xorb_false_r. fold (mask w (Z.shiftl s 1)).
  destruct (Z.testbit s (w - 1)); rewrite ?Z.lxor_spec, testbit_mask, tb_shl by lia; btauto.
Qed.

Lemma Tz_inj w p s s' : 0 < w -> Z.testbit p 0 = true -> 0 <= s < 2 ^ w -> 0 <= s' < 2 ^ w ->
  Tz w p s = Tz w p s' -> s = s'.
Proof.
  intros Hw Hp0 Hs Hs' H.
  assert (Htop : Z.testbit s (w - 1) = Z.testbit s' (w - 1)).
  { pose proof (f_equal (fun z => Z.testbit z 0) H) as E. cbn beta in E.
    rewrite !testbit_Tz, Hp0 in E by lia. rewrite !(Z.testbit_neg_r _ (0 - 1)) in E by lia.
    rewrite !andb_false_r, !andb_true_r, !xorb_false_l in E. exact E. }
  apply Z.bits_inj'; intros i Hi.
  destruct (Z_lt_le_dec i (w - 1)) as [L|L].
  - pose proof (f_equal (fun z => Z.testbit z (i + 1)) H) as E. cbn beta in E.
    rewrite !testbit_Tz in E by lia. replace (i + 1 - 1) with i in E by lia. rewrite Htop in E.
    destruct (i + 1 <? w) eqn:A; [|lia].
    destruct (Z.testbit s' (w - 1) && Z.testbit p (i + 1)), (Z.testbit s i), (Z.testbit s' i); cbn in E; congruence.
  - destruct (Z.eq_dec i (w - 1)) as [->|N]; [exact Htop|].
    rewrite (testbit_high w s i), (testbit_high w s' i) by (auto; lia). reflexivity.
Qed.

Lemma iterT_inj w p n : 0 < w -> 0 <= p < 2 ^ w -> Z.testbit p 0 = true -> forall s s',
  0 <= s < 2 ^ w -> 0 <= s' < 2 ^ w -> iter n (Tz w p) s = iter n (Tz w p) s' -> s = s'.
Proof.
  intros Hw Hp Hp0. induction n as [|n IH]; intros s s' Hs Hs' H; cbn [iter] in H; [exact H|].
  apply (Tz_inj w p); auto. apply IH; auto; apply wstep_range; auto.
Qed.

(* --- cutting a register value into words and back --- *)
Fixpoint split_rec (d : Z) (k : nat) (u : Z) : list Z :=
  match k with
  | O => []
  | S k' => (Z.shiftr u (d * Z.of_nat k')) mod 2 ^ d :: split_rec d k' u
  end.

Lemma split_words_rec d k u : split_words d k u = split_rec d k u.
Proof.
  induction k as [|k IH]; [reflexivity|]. unfold split_words in *. cbn [seq map split_rec].
  f_equal.
  - f_equal. f_equal. lia.
  - rewrite <- IH, <- seq_shift, map_map. apply map_ext. intros i. f_equal. f_equal. lia.
Qed.

Lemma split_rec_length d k u : length (split_rec d k u) = k.
Proof. induction k as [|k IH]; cbn [split_rec length]; [reflexivity|rewrite IH; reflexivity]. Qed.

Lemma split_rec_range d k u : 0 < d -> Forall (wrange d) (split_rec d k u).
Proof.
  intros Hd. induction k as [|k IH]; cbn [split_rec]; constructor; auto.
  apply Z.mod_pos_bound. apply pow2_pos; lia.
Qed.

Lemma tb_shr a n m : 0 <= n -> 0 <= m -> Z.testbit (Z.shiftr a n) m = Z.testbit a (m + n).
Proof. intros. apply Z.shiftr_spec; lia. Qed.

Lemma cat_split d k u : 0 < d -> catw d (split_rec d k u) = mask (d * Z.of_nat k) u.
Proof.
  intros Hd. induction k as [|k IH]; cbn [split_rec catw].
  - rewrite Z.mul_0_r. unfold mask. rewrite Z.pow_0_r, Z.mod_1_r. reflexivity.
  - rewrite split_rec_length, IH. rewrite Nat2Z.inj_succ, Z.mul_succ_r.
    set (dk := d * Z.of_nat k). assert (Hdk : 0 <= dk) by (unfold dk; nia).
    apply Z.bits_inj'; intros i Hi. fold (mask d (Z.shiftr u dk)).
    rewrite Z.lxor_spec, tb_shl, !testbit_mask by lia.
    destruct (Z_lt_le_dec i dk) as [L|L].
    + rewrite (Z.testbit_neg_r _ (i - dk)) by lia. rewrite andb_false_r, xorb_false_l.
      destruct (i <? dk) eqn:A, (i <? dk + d) eqn:B; try lia; reflexivity.
    + rewrite tb_shr by lia. replace (i - dk + dk) with i by lia.
      destruct (i <? dk) eqn:A; [lia|]. destruct (i - dk <? d) eqn:B, (i <? dk + d) eqn:C; try lia; btauto.
Qed.

Lemma split_rec_high d k j y x : 0 < d -> (j <= k)%nat ->
  split_rec d j (Z.lxor (Z.shiftl y (d * Z.of_nat k)) x) = split_rec d j x.
Proof.
  intros Hd. induction j as [|j IH]; intros Hj; cbn [split_rec]; [reflexivity|].
  rewrite IH by lia. f_equal.
  set (dk := d * Z.of_nat k). set (dj := d * Z.of_nat j).
  assert (0 <= dj /\ dj + d <= dk) by (unfold dk, dj; nia).
  fold (mask d (Z.shiftr (Z.lxor (Z.shiftl y dk) x) dj)). fold (mask d (Z.shiftr x dj)).
  apply Z.bits_inj'; intros i Hi. rewrite !testbit_mask, !tb_shr, Z.lxor_spec, tb_shl by lia.
  destruct (i <? d) eqn:A; [|reflexivity]. rewrite (Z.testbit_neg_r y) by lia. rewrite xorb_false_l. reflexivity.
Qed.

Lemma split_cat d us : 0 < d -> Forall (wrange d) us -> split_rec d (length us) (catw d us) = us.
Proof.
  intros Hd H. induction H as [|u r Hu Hr IH]; cbn [length split_rec catw]; [reflexivity|].
  rewrite split_rec_high, IH by (auto; lia). f_equal.
  pose proof (catw_range d r Hd Hr) as Hc. set (dk := d * Z.of_nat (length r)) in *.
  assert (Hdk : 0 <= dk) by (unfold dk; nia).
  fold (mask d (Z.shiftr (Z.lxor (Z.shiftl u dk) (catw d r)) dk)).
  apply Z.bits_inj'; intros i Hi. rewrite testbit_mask, tb_shr, Z.lxor_spec, tb_shl by lia.
  replace (i + dk - dk) with i by lia. rewrite (testbit_high dk (catw d r) (i + dk)) by (auto; lia).
  rewrite xorb_false_r. symmetry. apply testbit_small; auto.
Qed.

(* --- residue() and match_detected --- *)
Definition xo_reg (a : algo) : Z := if refout a then rev_bits (xorout a) (cw a) else xorout a.
Definition residue_reg (a : algo) : Z := iter (Z.to_nat (cw a)) (Tz (cw a) (poly a)) (xo_reg a).

Lemma xo_reg_range a : algo_ok a = true -> 0 <= xo_reg a < 2 ^ cw a.
Proof.
  intros Ha. destruct (algo_ok_spec a Ha) as (Hw & Hp & Hi & Hx). unfold xo_reg.
  destruct (refout a); [apply rev_bits_range; lia|auto].
Qed.

Lemma compute_raw_zero_word w p i ro : 0 < w -> 0 <= p < 2 ^ w -> 0 <= i < 2 ^ w ->
  compute_raw (Algo w p i false ro 0) w [0] =
  if ro then rev_bits (iter (Z.to_nat w) (Tz w p) i) w else iter (Z.to_nat w) (Tz w p) i.
Proof.
  intros Hw Hp Hi. rewrite compute_raw_williams.
  - unfold williams, williams_reg, message_bits. cbn [cw poly init refin refout xorout flat_map].
    rewrite app_nil_r, Z.lxor_0_r.
    change (word_bits false w 0) with (map (fun i => Z.testbit 0 (w - 1 - Z.of_nat i)) (seq 0 (Z.to_nat w))).
    rewrite <- (feedX_bits w p w (Z.to_nat w) i 0) by lia. rewrite feedX_zero_word by lia. reflexivity.
  - unfold algo_ok. cbn [cw poly init xorout]. pose proof (pow2_pos w).
    rewrite !andb_true_iff, !in_bits_spec. repeat split; lia.
  - auto.
  - cbn [forallb]. rewrite andb_true_r. apply word_ok_spec; [lia|]. pose proof (pow2_pos w). lia.
Qed.

Lemma residue_spec a : algo_ok a = true ->
  residue a = if refout a then rev_bits (residue_reg a) (cw a) else residue_reg a.
Proof.
  intros Ha. destruct (algo_ok_spec a Ha) as (Hw & Hp & Hi & Hx). pose proof (xo_reg_range a Ha) as Hxo.
  unfold residue.
  replace (if refout a then reflect (xorout a) (cw a) else xorout a) with (xo_reg a)
    by (unfold xo_reg; destruct (refout a); [rewrite reflect_rev by lia|]; reflexivity).
  rewrite compute_raw_zero_word by auto. reflexivity.
Qed.

Lemma hw_match_iff a reg : algo_ok a = true -> 0 <= reg < 2 ^ cw a ->
  hw_match a reg = true <-> reg = residue_reg a.
Proof.
  intros Ha Hr. destruct (algo_ok_spec a Ha) as (Hw & Hp & Hi & Hx).
  assert (HR : 0 <= residue_reg a < 2 ^ cw a) by (apply iterT_range; auto; apply xo_reg_range; auto).
  unfold hw_match, hw_match_r. rewrite residue_spec by auto. rewrite Z.eqb_eq.
  destruct (refout a); [|tauto]. split; [apply rev_bits_inj; auto|intros ->; reflexivity].
Qed.

Lemma wordin_invol a d u : 0 <= u < 2 ^ d -> wordin a d (wordin a d u) = u.
Proof. intros. unfold wordin. destruct (refin a); [apply rev_bits_invol; auto|reflexivity]. Qed.

Lemma fold_message_feed_words a d t : 0 < d -> forall s,
  fold_left (wstep (cw a) (poly a)) (message_bits a d t) s =
  feed_words (cw a) (poly a) d s (map (wordin a d) t).
Proof.
  intros Hd. induction t as [|x r IH]; intros s; [reflexivity|].
  unfold message_bits. cbn [flat_map map]. rewrite fold_left_app. fold (message_bits a d r).
  rewrite IH, <- feedX_word_bits by auto. reflexivity.
Qed.

Lemma words_ok_wordin a d t : 0 < d -> forallb (word_ok d) t = true -> Forall (wrange d) (map (wordin a d) t).
Proof.
  intros Hd. induction t as [|x r IH]; intros H; cbn [map]; constructor.
  - apply words_ok_cons in H. destruct H as [H _]. apply word_ok_spec in H; [|lia]. apply wordin_range; auto.
  - apply IH. apply words_ok_cons in H. tauto.
Qed.

(* register after message ws followed by k = crc_width/data_width trailer words t, any schedule *)
Lemma hw_codeword_reg a d k cs ws t : algo_ok a = true -> 0 < d -> cw a = d * Z.of_nat k ->
  cycles_ok d cs = true -> since_start cs = ws ++ t -> length t = k ->
  hw_run a d cs =
  iter (Z.to_nat (cw a)) (Tz (cw a) (poly a))
       (Z.lxor (williams_reg a (message_bits a d ws)) (catw d (map (wordin a d) t))) /\
  Forall (wrange d) (map (wordin a d) t).
Proof.
  intros Ha Hd Hk Hc Hs Hl. destruct (algo_ok_spec a Ha) as (Hw & Hp & Hi & Hx).
  destruct (hw_run_williams a d cs Ha Hd Hc) as [E Hok]. rewrite Hs in E, Hok.
  rewrite forallb_app in Hok. apply andb_true_iff in Hok. destruct Hok as [_ Hokt].
  pose proof (words_ok_wordin a d t Hd Hokt) as Ht. split; [|exact Ht].
  rewrite E. unfold message_bits. rewrite flat_map_app. fold (message_bits a d ws). fold (message_bits a d t).
  unfold williams_reg. rewrite fold_left_app. fold (williams_reg a (message_bits a d ws)).
  rewrite fold_message_feed_words by auto.
  rewrite feed_words_top; auto.
  - rewrite map_length, Hl, <- Hk, Z.sub_diag, Z.shiftl_0_r. f_equal.
    rewrite Hk, Z2Nat.inj_mul, Nat2Z.id by lia. apply Nat.mul_comm.
  - rewrite map_length, Hl. lia.
  - apply williams_reg_range; auto.
Qed.

Lemma trailer_words a d k c : 0 < d -> map (wordin a d) (trailer a d k c) =
  split_rec d k (if refout a then rev_bits c (cw a) else c).
Proof.
  intros Hd. unfold trailer. fold (wordin a d). rewrite split_words_rec, map_map.
  set (u := if refout a then rev_bits c (cw a) else c).
  pose proof (split_rec_range d k u Hd) as H. induction H as [|x r Hx Hr IH]; cbn [map]; [reflexivity|].
  rewrite wordin_invol, IH by exact Hx. reflexivity.
Qed.

Lemma crc_reg_order a s : algo_ok a = true -> 0 <= s < 2 ^ cw a ->
  (if refout a then rev_bits (Z.lxor (if refout a then rev_bits s (cw a) else s) (xorout a)) (cw a)
   else Z.lxor (if refout a then rev_bits s (cw a) else s) (xorout a)) = Z.lxor s (xo_reg a).
Proof.
  intros Ha Hs. destruct (algo_ok_spec a Ha) as (Hw & Hp & Hi & Hx). unfold xo_reg.
  destruct (refout a); [|reflexivity]. rewrite rev_bits_lxor, rev_bits_invol by (auto; lia). reflexivity.
Qed.

Lemma lxor_move s u x : Z.lxor s u = x <-> u = Z.lxor s x.
Proof.
  split; intros H.
  - rewrite <- H, <- Z.lxor_assoc, Z.lxor_nilpotent, Z.lxor_0_l. reflexivity.
  - rewrite H, <- Z.lxor_assoc, Z.lxor_nilpotent, Z.lxor_0_l. reflexivity.
Qed.

(* message followed by its own CRC in transmission order: match_detected, under any schedule *)
Theorem residue_match a d k cs ws c : params_ok a d = true -> cw a = d * Z.of_nat k ->
  cycles_ok d cs = true -> compute a d ws = Some c -> since_start cs = ws ++ trailer a d k c ->
  hw_match a (hw_run a d cs) = true.
Proof.
  intros Hpo Hk Hc Hcomp Hs. unfold params_ok in Hpo. apply andb_true_iff in Hpo. destruct Hpo as [Ha Hd].
  assert (Hd' : 0 < d) by lia. destruct (algo_ok_spec a Ha) as (Hw & Hp & Hi & Hx).
  assert (Hws : forallb (word_ok d) ws = true).
  { destruct (forallb (word_ok d) ws) eqn:E; [reflexivity|]. apply (proj2 (compute_none_iff a d ws)) in E. congruence. }
  rewrite compute_is_williams in Hcomp by (auto; unfold params_ok; rewrite Ha; lia). injection Hcomp as Hcv.
  assert (Hl : length (trailer a d k c) = k).
  { unfold trailer, split_words. rewrite !map_length, seq_length. reflexivity. }
  destruct (hw_codeword_reg a d k cs ws (trailer a d k c) Ha Hd' Hk Hc Hs Hl) as [E _].
  pose proof (williams_reg_range a (message_bits a d ws) Ha) as Hsr.
  set (s := williams_reg a (message_bits a d ws)) in *.
  apply hw_match_iff; auto; [rewrite E; apply iterT_range; auto; apply lxor_range; auto|].
  - rewrite trailer_words by auto. rewrite cat_split by auto. rewrite <- Hk. apply mask_range; lia.
  - rewrite E. unfold residue_reg. f_equal. rewrite trailer_words, cat_split by auto. rewrite <- Hk.
    rewrite <- Hcv. unfold williams. cbv zeta. fold s. rewrite (crc_reg_order a s Ha Hsr).
    rewrite mask_small by (apply lxor_range; auto; apply xo_reg_range; auto).
    rewrite <- Z.lxor_assoc, Z.lxor_nilpotent, Z.lxor_0_l. reflexivity.
Qed.

(* polynomial with a constant term: no other trailer of k in-range words gives match_detected *)
Theorem no_false_match a d k cs ws t c : params_ok a d = true -> Z.odd (poly a) = true ->
  cw a = d * Z.of_nat k -> cycles_ok d cs = true -> compute a d ws = Some c ->
  since_start cs = ws ++ t -> length t = k ->
  hw_match a (hw_run a d cs) = true -> t = trailer a d k c.
Proof.
  intros Hpo Hodd Hk Hc Hcomp Hs Hl Hm. unfold params_ok in Hpo. apply andb_true_iff in Hpo. destruct Hpo as [Ha Hd].
  assert (Hd' : 0 < d) by lia. destruct (algo_ok_spec a Ha) as (Hw & Hp & Hi & Hx).
  assert (Hws : forallb (word_ok d) ws = true).
  { destruct (forallb (word_ok d) ws) eqn:E; [reflexivity|]. apply (proj2 (compute_none_iff a d ws)) in E. congruence. }
  rewrite compute_is_williams in Hcomp by (auto; unfold params_ok; rewrite Ha; lia). injection Hcomp as Hcv.
  destruct (hw_codeword_reg a d k cs ws t Ha Hd' Hk Hc Hs Hl) as [E Ht].
  pose proof (williams_reg_range a (message_bits a d ws) Ha) as Hsr.
  set (s := williams_reg a (message_bits a d ws)) in *.
  pose proof (catw_range d _ Hd' Ht) as Hcr. rewrite map_length, Hl, <- Hk in Hcr.
  apply hw_match_iff in Hm; auto; [|rewrite E; apply iterT_range; auto; apply lxor_range; auto].
  rewrite E in Hm. unfold residue_reg in Hm.
  assert (Hp0 : Z.testbit (poly a) 0 = true) by (rewrite Z.bit0_odd; exact Hodd).
  apply (iterT_inj (cw a) (poly a) _ Hw Hp Hp0) in Hm; [|apply lxor_range; auto|apply xo_reg_range; auto].
  apply lxor_move in Hm.
  assert (Hu : map (wordin a d) t = map (wordin a d) (trailer a d k c)).
  { rewrite trailer_words by auto. rewrite <- Hcv. unfold williams. cbv zeta. fold s. rewrite (crc_reg_order a s Ha Hsr).
    rewrite <- Hm. rewrite <- (split_cat d (map (wordin a d) t) Hd' Ht) at 1. rewrite map_length, Hl. reflexivity. }
  assert (Hokt : forallb (word_ok d) t = true).
  { destruct (hw_run_williams a d cs Ha Hd' Hc) as [_ Hok]. rewrite Hs, forallb_app in Hok.
    apply andb_true_iff in Hok. tauto. }
  assert (Ht2 : map (wordin a d) (map (wordin a d) t) = t).
  { clear -Hokt Hd'. induction t as [|x r IH]; [reflexivity|]. apply words_ok_cons in Hokt. destruct Hokt as [Hx Hr].
    apply word_ok_spec in Hx; [|lia]. cbn [map]. rewrite wordin_invol, IH by auto. reflexivity. }
  rewrite <- Ht2, Hu, trailer_words by auto. unfold trailer. fold (wordin a d). rewrite split_words_rec. reflexivity.
Qed.

(* --- even polynomials: zero-bit clocking has a kernel, hence a second trailer that matches --- *)
Definition kern (w p : Z) : Z := 2 ^ (w - 1) + p / 2.

Lemma kern_range w p : 0 < w -> 0 <= p < 2 ^ w -> 2 ^ (w - 1) <= kern w p < 2 ^ w.
Proof.
  intros Hw Hp. unfold kern. rewrite (pow2_split w) in * by lia.
  pose proof (Z.div_pos p 2). assert (p / 2 < 2 ^ (w - 1)) by (apply Z.div_lt_upper_bound; lia). lia.
Qed.

Lemma Tz_kernel w p : 0 < w -> 0 <= p < 2 ^ w -> Z.odd p = false -> Tz w p (kern w p) = 0.
Proof.
  intros Hw Hp Hodd. pose proof (kern_range w p Hw Hp) as Hk.
  assert (Hev : Z.even p = true) by (rewrite <- Z.negb_odd, Hodd; reflexivity).
  apply Z.even_spec in Hev. destruct Hev as [m Hm].
  assert (Hm2 : p / 2 = m) by (subst p; rewrite Z.mul_comm, Z.div_mul; lia).
  unfold Tz, wstep.
  assert (Htop : Z.testbit (kern w p) (w - 1) = true).
  { rewrite <- msb_test by lia. rewrite Z.mod_small by lia. lia. }
  rewrite Htop. cbn [xorb].
  assert (E : Z.shiftl (kern w p) 1 mod 2 ^ w = p).
  { rewrite Z.shiftl_mul_pow2 by lia. unfold kern. rewrite Hm2.
    replace ((2 ^ (w - 1) + m) * 2 ^ 1) with (p + 1 * 2 ^ w) by (rewrite (pow2_split w) by lia; lia).
    fold (mask w (p + 1 * 2 ^ w)). rewrite mask_add_mul by lia. apply mask_small; auto. }
  rewrite E. apply Z.lxor_nilpotent.
Qed.

Theorem false_match_even a d k ws c : params_ok a d = true -> Z.odd (poly a) = false ->
  cw a = d * Z.of_nat k -> compute a d ws = Some c ->
  exists t, length t = k /\ forallb (word_ok d) t = true /\ t <> trailer a d k c /\
    forall cs, cycles_ok d cs = true -> since_start cs = ws ++ t -> hw_match a (hw_run a d cs) = true.
Proof.
  intros Hpo Hodd Hk Hcomp. unfold params_ok in Hpo. apply andb_true_iff in Hpo. destruct Hpo as [Ha Hd].
  assert (Hd' : 0 < d) by lia. destruct (algo_ok_spec a Ha) as (Hw & Hp & Hi & Hx).
  assert (Hws : forallb (word_ok d) ws = true).
  { destruct (forallb (word_ok d) ws) eqn:E; [reflexivity|]. apply (proj2 (compute_none_iff a d ws)) in E. congruence. }
  rewrite compute_is_williams in Hcomp by (auto; unfold params_ok; rewrite Ha; lia). injection Hcomp as Hcv.
  pose proof (williams_reg_range a (message_bits a d ws) Ha) as Hsr.
  set (s := williams_reg a (message_bits a d ws)) in *.
  pose proof (kern_range (cw a) (poly a) Hw Hp) as Hkr. pose proof (xo_reg_range a Ha) as Hxo.
  set (u := Z.lxor (Z.lxor s (xo_reg a)) (kern (cw a) (poly a))).
  assert (Hu : 0 <= u < 2 ^ cw a) by (apply lxor_range; [apply lxor_range; auto|lia]).
  set (t := map (wordin a d) (split_rec d k u)).
  assert (Hwt : map (wordin a d) t = split_rec d k u).
  { unfold t. rewrite map_map. pose proof (split_rec_range d k u Hd') as H.
    induction H as [|x r Hxr Hr IH]; cbn [map]; [reflexivity|]. rewrite wordin_invol, IH by exact Hxr. reflexivity. }
  exists t. split; [unfold t; rewrite map_length; apply split_rec_length|]. split; [|split].
  - clear Hwt. unfold t. clear t. pose proof (split_rec_range d k u Hd') as H.
    induction H as [|x r Hxr Hr IH]; cbn [map forallb]; [reflexivity|]. rewrite IH, andb_true_r.
    apply word_ok_spec; [lia|]. apply wordin_range; [auto|exact Hxr].
  - intros E. apply (f_equal (map (wordin a d))) in E. rewrite Hwt, trailer_words in E by auto.
    apply (f_equal (catw d)) in E. rewrite !cat_split, <- Hk in E by auto.
    rewrite <- Hcv in E. unfold williams in E. cbv zeta in E. fold s in E. rewrite (crc_reg_order a s Ha Hsr) in E.
    rewrite !mask_small in E by (auto; apply lxor_range; auto).
    unfold u in E. apply (proj1 (lxor_move _ _ _)) in E. rewrite Z.lxor_nilpotent in E. lia.
  - intros cs Hc Hs.
    assert (Hl : length t = k) by (unfold t; rewrite map_length; apply split_rec_length).
    destruct (hw_codeword_reg a d k cs ws t Ha Hd' Hk Hc Hs Hl) as [E _]. fold s in E.
    rewrite Hwt, cat_split, <- Hk, mask_small in E by auto.
    apply hw_match_iff; auto; [rewrite E; apply iterT_range; auto; apply lxor_range; auto|].
    rewrite E. unfold residue_reg, u.
    replace (Z.lxor s (Z.lxor (Z.lxor s (xo_reg a)) (kern (cw a) (poly a))))
      with (Z.lxor (xo_reg a) (kern (cw a) (poly a)))
      by (rewrite <- !Z.lxor_assoc, Z.lxor_nilpotent, Z.lxor_0_l; reflexivity).
    rewrite iterT_lxor by lia.
    replace (iter (Z.to_nat (cw a)) (Tz (cw a) (poly a)) (kern (cw a) (poly a))) with 0; [apply Z.lxor_0_r|].
    replace (Z.to_nat (cw a)) with (S (Z.to_nat (cw a - 1))) by lia. cbn [iter].
    rewrite Tz_kernel by auto. symmetry. apply iterT_zero. lia.
Qed.

(* the word update of the Williams register is GF(2)-linear in (register, word) *)
Theorem step_linear w p d s s' u u' : 0 < w -> 0 < d ->
  fold_left (wstep w p) (word_bits false d (Z.lxor u u')) (Z.lxor s s') =
  Z.lxor (fold_left (wstep w p) (word_bits false d u) s) (fold_left (wstep w p) (word_bits false d u') s').
Proof.
  intros Hw Hd.
  change (word_bits false d (Z.lxor u u')) with (map (fun i => Z.testbit (Z.lxor u u') (d - 1 - Z.of_nat i)) (seq 0 (Z.to_nat d))).
  change (word_bits false d u) with (map (fun i => Z.testbit u (d - 1 - Z.of_nat i)) (seq 0 (Z.to_nat d))).
  change (word_bits false d u') with (map (fun i => Z.testbit u' (d - 1 - Z.of_nat i)) (seq 0 (Z.to_nat d))).
  rewrite <- !feedX_bits by auto. apply feedX_lxor; auto.
Qed.

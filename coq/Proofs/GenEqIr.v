(* GenEqIr.v — the definitions regenerated from amaranth/hdl/_ir.py (Gen/IrGen.v, translator/unit_ir.py) equal the
   hand-written model of Model/RtlilSem.v on ALL inputs:
     IrGen.extend       = RtlilSem.extend        (NetlistEmitter.extend)
     IrGen.emit_match   = the Match outputs AMatch en value patterns 0 .. len(patterns)-1
     IrGen.emit_assign  = RtlilSem.emit_assign   (NetlistEmitter.emit_assign; the generated function recurses on fuel:
                                                  any fuel above the nesting depth of the target) *)
From Coq Require Import ZArith List Bool Lia.
From V.Model Require Import Bits Shape Ast RtlilSem.
From V.Proofs Require Import ExprP.
From V.Gen Require IrGen.
Import ListNotations.
Open Scope Z_scope.

(* ---------------- the Python primitives of the prelude ---------------- *)
Lemma nlen_nn (l : list net) : 0 <= nlen l.
Proof. unfold nlen. lia. Qed.

Lemma py_slice_nn {A} (l : list A) lo hi : 0 <= lo -> 0 <= hi ->
  IrGen.py_slice l (Some lo) (Some hi) = firstn (Z.to_nat (hi - lo)) (skipn (Z.to_nat lo) l).
Proof.
  intros Hlo Hhi. unfold IrGen.py_slice, IrGen.py_clamp, IrGen.py_len.
  destruct (lo <? 0) eqn:E1; [apply Z.ltb_lt in E1; lia|].
  destruct (hi <? 0) eqn:E2; [apply Z.ltb_lt in E2; lia|].
  set (n := length l).
  destruct (Z_lt_le_dec lo (Z.of_nat n)) as [H|H].
  - replace (Z.max 0 (Z.min (Z.of_nat n) lo)) with lo by lia.
    destruct (Z_lt_le_dec hi (Z.of_nat n)) as [H2|H2].
    + replace (Z.max 0 (Z.min (Z.of_nat n) hi)) with hi by lia. reflexivity.
    + replace (Z.max 0 (Z.min (Z.of_nat n) hi)) with (Z.of_nat n) by lia.
      rewrite !firstn_all2; [reflexivity| |]; rewrite skipn_length; fold n; lia.
  - replace (Z.max 0 (Z.min (Z.of_nat n) lo)) with (Z.of_nat n) by lia.
    rewrite !skipn_all2 by (fold n; lia). rewrite !firstn_nil. reflexivity.
Qed.

Lemma py_slice_to {A} (l : list A) k : 0 <= k -> IrGen.py_slice l None (Some k) = firstn (Z.to_nat k) l.
Proof.
  intros Hk. unfold IrGen.py_slice, IrGen.py_clamp, IrGen.py_len.
  destruct (k <? 0) eqn:E1; [apply Z.ltb_lt in E1; lia|].
  set (n := length l). cbn [skipn Z.to_nat].
  destruct (Z_lt_le_dec k (Z.of_nat n)) as [H|H].
  - replace (Z.max 0 (Z.min (Z.of_nat n) k) - 0) with k by lia. reflexivity.
  - replace (Z.max 0 (Z.min (Z.of_nat n) k) - 0) with (Z.of_nat n) by lia.
    rewrite !firstn_all2; [reflexivity| |]; fold n; lia.
Qed.

Lemma fold_app_map {A B} (f : A -> B) (l : list A) : forall init,
  fold_left (fun acc x => acc ++ [f x]) l init = init ++ map f l.
Proof.
  induction l as [|x l IH]; intros init; cbn [fold_left map].
  - now rewrite app_nil_r.
  - rewrite IH, <- app_assoc. reflexivity.
Qed.

Lemma py_enumerate_map {A} (G : nat -> A) n :
  IrGen.py_enumerate (map G (seq 0 n)) = map (fun k => (Z.of_nat k, G k)) (seq 0 n).
Proof.
  unfold IrGen.py_enumerate. rewrite map_length, seq_length.
  generalize (seq 0 n). induction l as [|k l IH]; cbn [map combine]; [reflexivity|now rewrite IH].
Qed.

(* ---------------- NetlistEmitter.extend ---------------- *)
Lemma gen_extend_loop_eq sg w : forall k nets, k = Z.to_nat (w - nlen nets) ->
  IrGen.extend_loop k sg w nets = extend_by nets sg k.
Proof.
  induction k as [|k IH]; intros nets Hk; [reflexivity|].
  cbn [IrGen.extend_loop extend_by]. change (IrGen.py_len nets) with (nlen nets).
  destruct (nlen nets <? w) eqn:E; [|apply Z.ltb_ge in E; lia].
  assert (Hn : forall x, k = Z.to_nat (w - nlen (nets ++ [x]))).
  { intros x. unfold nlen in *. rewrite app_length. cbn [length]. lia. }
  destruct sg; unfold IrGen.py_last; apply IH, Hn.
Qed.

Lemma gen_extend_eq value signed width : IrGen.extend value signed width = RtlilSem.extend value signed width.
Proof. unfold IrGen.extend, RtlilSem.extend. apply gen_extend_loop_eq. reflexivity. Qed.

(* ---------------- NetlistEmitter.emit_match ---------------- *)
Lemma gen_emit_match_eq en value patterns :
  IrGen.emit_match en value patterns = map (AMatch en value patterns) (seq 0 (length patterns)).
Proof. unfold IrGen.emit_match, IrGen.add_value_cell, IrGen.py_len. now rewrite Nat2Z.id. Qed.

(* ---------------- NetlistEmitter.emit_assign ---------------- *)
Definition lmax (l : list nat) : nat := fold_right Nat.max 0%nat l.

(* nesting depth of a target: the recursion depth of emit_assign *)
Fixpoint edepth (e : expr) : nat :=
  match e with
  | EConst _ _ | ESig _ _ => 0%nat
  | EOp1 _ a => S (edepth a)
  | EOp2 _ a b => S (Nat.max (edepth a) (edepth b))
  | ESlice a _ _ => S (edepth a)
  | EPart a off _ _ => S (edepth a)
  | ECat ps => S (lmax (map edepth ps))
  | ESwitch _ cs => S (lmax (map (fun c : option (list pattern) * expr => edepth (snd c)) cs))
  end.

Lemma Forall_fuel {A} (f : A -> nat) (Q : A -> nat -> Prop) (l : list A) n :
  Forall (fun x => forall fuel, (f x < fuel)%nat -> Q x fuel) l -> (lmax (map f l) < n)%nat ->
  Forall (fun x => Q x n) l.
Proof.
  induction l as [|x l IH]; intros HF Hn; constructor; inversion HF as [|? ? Hx Hl]; subst;
    cbn [map lmax fold_right] in Hn; fold (lmax (map f l)) in Hn.
  - apply Hx. lia.
  - apply IH; auto. lia.
Qed.

Lemma part_patterns (offn : list net) n :
  fold_left (fun patterns case_index => patterns ++ [[to_binary (Z.to_nat (IrGen.py_len offn)) case_index]])
            (IrGen.py_range n) [] =
  map (fun k => [to_binary (length offn) (Z.of_nat k)]) (seq 0 (Z.to_nat n)).
Proof.
  rewrite (fold_app_map (fun ci => [to_binary (Z.to_nat (IrGen.py_len offn)) ci])). cbn [app].
  unfold IrGen.py_range, IrGen.py_len. rewrite map_map, Nat2Z.id. reflexivity.
Qed.

Lemma switch_patterns (tn : list net) (cs : list (option (list pattern) * expr)) : forall p0 e0,
  fold_left (fun '(patterns, elems) '(pattern_list, elem) =>
               (match pattern_list with
                | Some pattern_list_some => patterns ++ [pattern_list_some]
                | None => patterns ++ [[IrGen.str_repeat IrGen.pc_dash (IrGen.py_len tn)]]
                end, elems ++ [elem])) cs (p0, e0) =
  (p0 ++ map (fun c : option (list pattern) * expr =>
                match fst c with Some ps => ps | None => [dashes (length tn)] end) cs,
   e0 ++ map snd cs).
Proof.
  induction cs as [|[pl el] cs IH]; intros p0 e0; cbn [fold_left map fst snd].
  - now rewrite !app_nil_r.
  - destruct pl; rewrite IH, <- !app_assoc; cbn [app]; [reflexivity|].
    unfold IrGen.str_repeat, IrGen.pc_dash, IrGen.py_len, dashes. rewrite Nat2Z.id. reflexivity.
Qed.

Theorem gen_emit_assign_eq_fuel selnets : forall lhs fuel, (edepth lhs < fuel)%nat -> forall start rhs cond,
  IrGen.emit_assign fuel selnets lhs start rhs cond = RtlilSem.emit_assign selnets lhs start rhs cond.
Proof.
  induction lhs as [v s|j s|o a IHa|o a b0 IHa IHb|a lo hi IHa|a off pw st IHa IHoff|l IH|t cs IHt IHcs]
    using expr_ind'; intros fuel Hf start rhs cond; (destruct fuel as [|fuel]; [lia|]); cbn [edepth] in Hf;
    try reflexivity.
  - (* Operator *)
    destruct o; try reflexivity; cbn [IrGen.emit_assign RtlilSem.emit_assign app]; apply IHa; lia.
  - (* Slice *)
    cbn [IrGen.emit_assign RtlilSem.emit_assign app]. apply IHa. lia.
  - (* Part *)
    cbn [IrGen.emit_assign RtlilSem.emit_assign app].
    rewrite part_patterns, gen_emit_match_eq, map_length, seq_length, py_enumerate_map.
    rewrite Z.shiftl_1_l. change (IrGen.py_len (selnets off)) with (nlen (selnets off)).
    change (IrGen.py_len rhs) with (nlen rhs).
    set (ncases := Z.to_nat (Z.min ((ewidth a + st - 1) / st) (2 ^ nlen (selnets off)))).
    set (pats := map (fun k => [to_binary (length (selnets off)) (Z.of_nat k)]) (seq 0 ncases)).
    generalize (seq 0 ncases). intros ks.
    match goal with |- fold_left ?F _ [] = ?g ks =>
      assert (H : forall ks out, fold_left F (map (fun k => (Z.of_nat k, AMatch cond (selnets off) pats k)) ks) out =
                                 out ++ g ks) end.
    { clear ks. induction ks as [|k ks IHk]; intros out; cbn [map fold_left]; [now rewrite app_nil_r|].
      cbn beta iota. rewrite IHk.
      destruct (ewidth a <=? start + Z.of_nat k * st) eqn:E1; [reflexivity|].
      rewrite <- app_assoc. f_equal. f_equal. rewrite IHa by lia. f_equal.
      destruct (ewidth a <=? start + Z.of_nat k * st + nlen rhs); [|reflexivity].
      apply py_slice_to. apply Z.leb_gt in E1. lia. }
    apply (H ks []).
  - (* Concat *)
    cbn [IrGen.emit_assign RtlilSem.emit_assign app]. change (IrGen.py_len rhs) with (nlen rhs).
    assert (HF := Forall_fuel edepth
                    (fun p n => forall start rhs cond,
                       IrGen.emit_assign n selnets p start rhs cond = RtlilSem.emit_assign selnets p start rhs cond)
                    l fuel IH ltac:(lia)).
    match goal with |- context [fold_left ?F l _] => match goal with |- _ = ?g l 0 =>
      assert (H : forall ps out ps0,
                Forall (fun p => forall start rhs cond,
                          IrGen.emit_assign fuel selnets p start rhs cond =
                          RtlilSem.emit_assign selnets p start rhs cond) ps ->
                fst (fold_left F ps (out, ps0)) = out ++ g ps ps0) end end.
    { induction ps as [|p ps IHp]; intros out ps0 HP; [cbn [fold_left fst]; now rewrite app_nil_r|].
      inversion HP as [|? ? Hp Hps]; subst. cbn [fold_left]. cbn beta iota zeta.
      destruct (ps0 + ewidth p <=? start) eqn:E1; [apply IHp; auto|].
      destruct (start + nlen rhs <=? ps0) eqn:E2; [apply IHp; auto|].
      apply Z.leb_gt in E1, E2. pose proof (nlen_nn rhs) as Hn.
      destruct (start <? ps0) eqn:E3; [apply Z.ltb_lt in E3|apply Z.ltb_ge in E3]; cbn beta iota;
        rewrite IHp by auto; rewrite <- app_assoc; f_equal; f_equal; rewrite Hp; f_equal; unfold nslice;
        apply py_slice_nn; try lia; destruct (ps0 + ewidth p <=? start + nlen rhs); lia. }
    exact (H l [] 0 HF).
  - (* SwitchValue *)
    cbn [IrGen.emit_assign RtlilSem.emit_assign app].
    assert (HF := Forall_fuel (fun c : option (list pattern) * expr => edepth (snd c))
                    (fun c n => forall start rhs cond,
                       IrGen.emit_assign n selnets (snd c) start rhs cond =
                       RtlilSem.emit_assign selnets (snd c) start rhs cond)
                    cs fuel IHcs ltac:(lia)).
    rewrite switch_patterns. cbn [app]. cbn beta iota. rewrite gen_emit_match_eq, map_length.
    set (tn := selnets t).
    set (pats := map (fun c : option (list pattern) * expr =>
                        match fst c with Some ps => ps | None => [dashes (length tn)] end) cs).

    match goal with |- fold_left ?F _ [] = ?g cs 0%nat =>
      assert (H : forall cs' k out,
                Forall (fun c : option (list pattern) * expr => forall start rhs cond,
                          IrGen.emit_assign fuel selnets (snd c) start rhs cond =
                          RtlilSem.emit_assign selnets (snd c) start rhs cond) cs' ->
                fold_left F (combine (map (AMatch cond tn pats) (seq k (length cs'))) (map snd cs')) out =
                out ++ g cs' k) end.
    { induction cs' as [|c cs' IHc]; intros k out HP; cbn [length seq map combine fold_left];
        [now rewrite app_nil_r|].
      inversion HP as [|? ? Hc1 Hcs']; subst. cbn beta iota. rewrite IHc by auto.
      destruct (ewidth (snd c) <=? start) eqn:E1; [reflexivity|].
      rewrite <- app_assoc. f_equal. f_equal. rewrite Hc1. f_equal.
      apply py_slice_to. apply Z.leb_gt in E1. lia. }
    exact (H cs 0%nat [] HF).
Qed.

(* the form used by the property file: the fuel the recursion needs is the nesting depth of the target *)
Corollary gen_emit_assign_eq selnets lhs start rhs cond :
  IrGen.emit_assign (S (edepth lhs)) selnets lhs start rhs cond = RtlilSem.emit_assign selnets lhs start rhs cond.
Proof. apply gen_emit_assign_eq_fuel. lia. Qed.

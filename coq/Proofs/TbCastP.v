(* TbCastP.v — C05 (added after the coverage audit): shape-castable round trips through the testbench context; the frame
   of a testbench write. *)
From Coq Require Import ZArith List Bool Lia ZifyBool.
From V.Model Require Import Bits Shape Ast Denote PyRTL PyEval Stmt Data TbCast.
From V.Proofs Require Import BitsP ShapeP ExprP StmtP DataP.
Import ListNotations.
Open Scope Z_scope.

(* ---------- ctx.set(target, v) leaves every signal the target does not name untouched (the selector signals included) *)
Theorem tb_write_frame ss curr lhs : (forall i, wf_shape (ss i) = true) ->
  wf_lhs lhs = true -> lin lhs = true -> sig_ok ss lhs -> sel_ok curr lhs ->
  forall v nx i, normalised ss nx -> ~ In i (sigs_of lhs) -> tb_set curr lhs v nx i = nx i.
Proof.
  intros Hss Hwf Hlin Hsig Hsel v nx i Hn Hni.
  rewrite (tb_write_equals_circuit ss curr lhs Hss Hwf Hlin Hsig Hsel v nx Hn i).
  apply (assign_rtl_frame ss curr lhs Hss Hwf Hlin Hsig Hsel v nx i Hn Hni).
Qed.

(* ---------- layouts ---------- *)
(* ctx.set(sig, init) stores exactly the bits of layout.const(init); ctx.get(sig) then returns data.Const(layout, those bits),
   i.e. a constant equal to layout.const(init): the round trip is the identity *)
Theorem layout_roundtrip l i st : wf_layout l = true -> tb_set_layout l i = Okz st ->
  layout_const l i = Okz st /\ tb_get_layout l st = Ok l st /\ as_bits (tb_get_layout l st) = Okz st.
Proof.
  intros Hwf H. unfold tb_set_layout in H. destruct (layout_const l i) as [v|c] eqn:Hc; [|discriminate].
  injection H as <-. pose proof (layout_const_range l i v Hwf Hc) as Hr.
  unfold sig_store, layout_sig_shape, norm. cbn [sgn width]. unfold mask. rewrite Z.mod_small by lia.
  unfold tb_get_layout, from_bits. replace ((0 <=? v) && (v <? 2 ^ layout_size l)) with true by lia. auto.
Qed.

(* a rejected initialiser is rejected by ctx.set with the same exception class *)
Theorem layout_set_rejects l i c : tb_set_layout l i = Errz c <-> layout_const l i = Errz c.
Proof. unfold tb_set_layout. destruct (layout_const l i); split; intros H; try discriminate; auto. Qed.

(* every value the underlying signal can hold reads back as the constant with exactly those bits *)
Theorem layout_get_any l raw : wf_layout l = true ->
  tb_get_layout l (sig_store (layout_sig_shape l) raw) = Ok l (raw mod 2 ^ layout_size l).
Proof.
  intros Hwf. pose proof (layout_size_nonneg l Hwf) as Hn. pose proof (pow2_pos _ Hn) as Hp.
  unfold sig_store, layout_sig_shape, norm. cbn [sgn width]. unfold mask, tb_get_layout, from_bits.
  pose proof (Z.mod_pos_bound raw _ Hp).
  replace ((0 <=? raw mod 2 ^ layout_size l) && (raw mod 2 ^ layout_size l <? 2 ^ layout_size l)) with true by lia.
  reflexivity.
Qed.

(* ---------- shaped enumerations ---------- *)
(* a member whose value fits the enumeration's shape round-trips: ctx.set(sig, m); ctx.get(sig) is m *)
Theorem enum_roundtrip s ms m : wf_shape s = true -> In m ms -> in_range s m ->
  tb_set_enum s ms m = Okz m /\ tb_get_enum ms m = Okz m.
Proof.
  intros Hs Hin Hr. destruct (enum_const_from_bits s ms m Hs Hin Hr) as [Hc Hf].
  unfold tb_set_enum, tb_get_enum. rewrite Hc. unfold sig_store. rewrite norm_id by auto. auto.
Qed.

(* what ctx.get returns is always a member holding exactly the signal's value *)
Theorem enum_get_member ms stored m : tb_get_enum ms stored = Okz m -> m = stored /\ In m ms.
Proof.
  unfold tb_get_enum, enum_from_bits. destruct (memz stored ms) eqn:E; [|discriminate].
  intros H. injection H as <-. split; [reflexivity|]. apply memz_in. exact E.
Qed.

(* a member that does not fit the shape (the class definition only warns) does NOT round-trip *)
Theorem enum_roundtrip_refuted : exists s ms m st, wf_shape s = true /\ In m ms /\
  tb_set_enum s ms m = Okz st /\ tb_get_enum ms st <> Okz m.
Proof. exists (Sh 2 false), [1; 5], 5, 1. vm_compute. repeat split; try congruence. right; left; reflexivity. Qed.

(* ---------- a user-defined shape-castable ---------- *)
Theorem offset_roundtrip w k obj : 0 <= w -> 0 <= obj + k < 2 ^ w ->
  tb_get_offset k (tb_set_offset w k obj) = obj.
Proof.
  intros Hw Hr. unfold tb_get_offset, tb_set_offset, sig_store.
  rewrite const_norm_spec by (unfold wf_shape; cbn; lia).
  rewrite norm_idem by (unfold wf_shape; cbn; lia).
  unfold norm. cbn [sgn width]. unfold mask. rewrite Z.mod_small by lia. lia.
Qed.

(* ---------- an assignable target never raises "cannot be assigned" ---------- *)
Theorem tb_assign_no_error lhs : wf_lhs lhs = true -> forall curr start len, tb_assign_err curr lhs start len = false.
Proof.
  induction lhs as [v s|j s|o a IHa|o a b0 IHa IHb|a lo hi IHa|a off w st IHa IHoff|l IH|t cs IHt IHcs]
    using expr_ind'; intros Hwf curr start len; cbn [wf_lhs] in Hwf; try discriminate.
  - reflexivity.
  - destruct o; try discriminate; cbn [tb_assign_err]; apply IHa; apply andb_prop in Hwf; tauto.
  - cbn [tb_assign_err]. destruct (hi - lo <=? start); [reflexivity|]. apply IHa.
    repeat (apply andb_prop in Hwf; destruct Hwf as [Hwf ?]). exact Hwf.
  - cbn [tb_assign_err]. destruct (w <=? start); [reflexivity|]. apply IHa.
    repeat (apply andb_prop in Hwf; destruct Hwf as [Hwf ?]). exact Hwf.
  - cbn [tb_assign_err].
    match goal with |- ?f l 0 = false => enough (Hall : forall ps0, f l ps0 = false) by apply Hall end.
    induction IH as [|p l Hp HF IHl]; intros ps0; [reflexivity|].
    cbn [forallb] in Hwf. apply andb_prop in Hwf. destruct Hwf as [Hp' Hl'].
    cbv zeta. destruct (ps0 + ewidth p <=? start); [apply (IHl Hl')|].
    destruct (start + len <=? ps0); [apply (IHl Hl')|].
    rewrite (Hp Hp'). cbn [orb]. apply (IHl Hl').
  - cbn [tb_assign_err]. apply andb_prop in Hwf. destruct Hwf as [_ Hcs].
    induction IHcs as [|c l Hc HF IHl]; [reflexivity|].
    cbn [forallb] in Hcs. apply andb_prop in Hcs. destruct Hcs as [Hc' Hl'].
    apply andb_prop in Hc'. destruct Hc' as [Hc' _].
    cbv zeta. destruct (tb_case_match (eval_tb curr t) (fst c)); [apply Hc; auto|apply (IHl Hl')].
Qed.

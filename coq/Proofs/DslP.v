(* DslP.v — C02: the If/Elif/Else and Switch lowering of the Module DSL selects exactly the first true
   condition / first matching case: the active assignments of the lowered Switch statements are those of
   the direct semantics. *)
From Coq Require Import ZArith List Bool Lia ZifyBool.
From V.Model Require Import Bits Shape Ast Denote PyRTL PyEval Stmt Process Dsl.
From V.Proofs Require Import BitsP ShapeP ExprP StmtP ProcessP.
Import ListNotations.
Open Scope Z_scope.

Section dstmt_ind'.
  Variable P : dstmt -> Prop.
  Hypothesis Has : forall l r, P (DAssign l r).
  Hypothesis Hif : forall brs he els, Forall (fun br => Forall P (snd br)) brs -> Forall P els -> P (DIf brs he els).
  Hypothesis Hsw : forall t cs, Forall (fun c => Forall P (snd c)) cs -> P (DSwitch t cs).
  Fixpoint dstmt_ind' (d : dstmt) : P d :=
    let run := (fix run (l : list dstmt) : Forall P l :=
                  match l with [] => Forall_nil _ | x :: l' => Forall_cons _ (dstmt_ind' x) (run l') end) in
    match d with
    | DAssign l r => Has l r
    | DIf brs he els =>
        Hif brs he els
          ((fix go (brs : list (expr * list dstmt)) : Forall (fun br => Forall P (snd br)) brs :=
              match brs with [] => Forall_nil _ | br :: brs' => Forall_cons _ (run (snd br)) (go brs') end) brs)
          (run els)
    | DSwitch t cs =>
        Hsw t cs
          ((fix go (cs : list (option (list pattern) * list dstmt)) : Forall (fun c => Forall P (snd c)) cs :=
              match cs with [] => Forall_nil _ | c :: cs' => Forall_cons _ (run (snd c)) (go cs') end) cs)
    end.
End dstmt_ind'.

Lemma dcond_run curr (l : list dstmt) :
  (fix run (l : list dstmt) : Prop := match l with [] => True | x :: l' => dcond_ok curr x /\ run l' end) l
  <-> Forall (dcond_ok curr) l.
Proof.
  induction l as [|x l IH]; simpl; [split; auto|]. rewrite IH.
  split; [intros [H1 H2]; constructor; auto|intros H; inversion H; auto].
Qed.

(* ---------- the condition bit ---------- *)
Lemma if_test_spec curr t : wf_expr t = true -> env_ok curr t ->
  wf_expr (if_test t) = true /\ env_ok curr (if_test t) /\ ewidth (if_test t) = 1 /\
  (denote curr (if_test t)) mod 2 = if denote curr t =? 0 then 0 else 1.
Proof.
  intros Hwf Henv. unfold if_test. destruct (ewidth t =? 1) eqn:E.
  - repeat split; auto; [lia|].
    destruct (shape_sound curr t Hwf Henv) as [Hw Hr]. unfold ewidth in E.
    unfold in_range in Hr. destruct (sgn (shape_of t)).
    + replace (width (shape_of t) - 1) with 0 in Hr by lia. change (2 ^ 0) with 1 in Hr.
      destruct (denote curr t =? 0) eqn:E0; [apply Z.eqb_eq in E0; rewrite E0; reflexivity|].
      assert (denote curr t = -1) as -> by lia. reflexivity.
    + replace (width (shape_of t)) with 1 in Hr by lia. change (2 ^ 1) with 2 in Hr.
      destruct (denote curr t =? 0) eqn:E0; [apply Z.eqb_eq in E0; rewrite E0; reflexivity|].
      assert (denote curr t = 1) as -> by lia. reflexivity.
  - repeat split; simpl; auto; [rewrite Hwf; reflexivity|].
    destruct (denote curr t =? 0); reflexivity.
Qed.

(* ---------- the pattern ("1" + "-"*k).rjust(n, "-") tests exactly bit k ---------- *)
Lemma pat_sem_none_prefix m p t : pat_sem (repeat None m ++ p) t = pat_sem p t.
Proof. induction m as [|m IH]; simpl; auto. Qed.

Lemma pat_sem_all_none k t : pat_sem (repeat None k) t = true.
Proof. induction k as [|k IH]; simpl; auto. Qed.

Lemma if_pattern_sem n k t : pat_sem (if_pattern n k) t = Z.testbit t (Z.of_nat k).
Proof.
  unfold if_pattern. rewrite pat_sem_none_prefix. simpl. rewrite repeat_length, pat_sem_all_none.
  rewrite andb_true_r. destruct (Z.testbit t (Z.of_nat k)); reflexivity.
Qed.

Lemma if_pattern_length n k : (k < n)%nat -> length (if_pattern n k) = n.
Proof. intros H. unfold if_pattern. rewrite !app_length, !repeat_length. simpl. lia. Qed.

(* ---------- Cat of one-bit tests: bit k is test k ---------- *)
Lemma cat_bits_ones curr (ts : list expr) :
  Forall (fun t => ewidth t = 1) ts ->
  forall k t, nth_error ts k = Some t ->
  Z.testbit (cat_of (map (fun p => (denote curr p, ewidth p)) ts)) (Z.of_nat k) = Z.odd (denote curr t mod 2).
Proof.
  induction ts as [|t0 ts IH]; intros HF k t Hn; [destruct k; discriminate|].
  pose proof (Forall_inv HF) as H0; pose proof (Forall_inv_tail HF) as HF'. cbv beta in H0.
  simpl map.
  assert (Hnn : 0 <= cat_of (map (fun p => (denote curr p, ewidth p)) ts)).
  { apply cat_of_nonneg. apply Forall_forall. intros [v w] Hin. apply in_map_iff in Hin.
    destruct Hin as (p & Heq & Hp). injection Heq as _ <-. simpl. rewrite Forall_forall in HF'. rewrite (HF' p Hp). lia. }
  rewrite testbit_cat_of by (auto; lia). rewrite H0.
  destruct k as [|k]; simpl in Hn.
  - injection Hn as <-. simpl. rewrite <- !Z.bit0_odd. change (denote curr t0 mod 2) with (denote curr t0 mod 2 ^ 1).
    rewrite Z.mod_pow2_bits_low by lia. reflexivity.
  - replace (Z.of_nat (S k) <? 1) with false by lia. replace (Z.of_nat (S k) - 1) with (Z.of_nat k) by lia.
    apply IH; auto.
Qed.

Lemma cat_ones_width (ts : list expr) : Forall (fun t => ewidth t = 1) ts ->
  fold_right (fun p acc => width (shape_of p) + acc) 0 ts = Z.of_nat (length ts).
Proof.
  induction ts as [|t ts IH]; intros HF; [reflexivity|].
  pose proof (Forall_inv HF) as H0; pose proof (Forall_inv_tail HF) as HF'. cbv beta in H0. unfold ewidth in H0.
  simpl fold_right. rewrite H0, IH by auto. simpl length. lia.
Qed.

(* ---------- lowering preserves the active assignments ---------- *)
Lemma flat_map_lower_ext curr (l : list dstmt) :
  Forall (fun d => active curr (lower d) = dactive curr d) l ->
  active_list curr (map lower l) = flat_map (dactive curr) l.
Proof.
  induction l as [|d l IH]; intros HF; [reflexivity|].
  pose proof (Forall_inv HF) as H0; pose proof (Forall_inv_tail HF) as HF'.
  unfold active_list in *. simpl. rewrite H0, IH by auto. reflexivity.
Qed.

Theorem lower_active curr d : wf_dstmt d = true -> dcond_ok curr d ->
  active curr (lower d) = dactive curr d.
Proof.
  induction d as [l r|brs he els IHb IHe|t cs IH] using dstmt_ind'; intros Hwf Hok.
  - reflexivity.
  - (* If / Elif / Else *)
    simpl in Hwf. apply andb_prop in Hwf. destruct Hwf as [Hwb Hwe]. rewrite forallb_forall in Hwb.
    simpl in Hok. destruct Hok as [Hokb Hoke].
    set (n := length brs).
    set (tests := map (fun br => if_test (fst br)) brs).
    (* facts about every branch *)
    assert (Hbr : forall br, In br brs -> wf_expr (fst br) = true /\ env_ok curr (fst br) /\
                 Forall (fun d => wf_dstmt d = true) (snd br) /\ Forall (dcond_ok curr) (snd br)).
    { clear -Hwb Hokb. induction brs as [|b0 brs IHl]; intros br Hin; [destruct Hin|].
      destruct Hokb as (H1 & H2 & H3). destruct Hin as [<-|Hin].
      - specialize (Hwb b0 (or_introl eq_refl)). apply andb_prop in Hwb. destruct Hwb as [Hw1 Hw2].
        repeat split; auto; [apply Forall_forall; rewrite forallb_forall in Hw2; auto|apply dcond_run; auto].
      - apply IHl; auto. intros x Hx; apply Hwb; right; auto. }
    assert (Hones : Forall (fun t => ewidth t = 1) tests).
    { apply Forall_forall. intros t Hin. apply in_map_iff in Hin. destruct Hin as (br & <- & Hin).
      destruct (Hbr br Hin) as (H1 & H2 & _). apply (if_test_spec curr _ H1 H2). }
    assert (Hlen : length tests = n) by (unfold tests; rewrite map_length; reflexivity).
    simpl lower. fold n tests. simpl active.
    set (tv := denote curr (ECat tests) mod 2 ^ ewidth (ECat tests)).
    assert (Hw : ewidth (ECat tests) = Z.of_nat n).
    { unfold ewidth. simpl. rewrite cat_ones_width by auto. lia. }
    assert (Hbit : forall k br, nth_error brs k = Some br ->
              Z.testbit tv (Z.of_nat k) = negb (denote curr (fst br) =? 0)).
    { intros k br Hn. assert (Hin : In br brs) by (eapply nth_error_In; eauto).
      destruct (Hbr br Hin) as (H1 & H2 & _). destruct (if_test_spec curr _ H1 H2) as (_ & _ & _ & Hm).
      assert (Hk : (k < n)%nat) by (apply nth_error_Some; rewrite Hn; discriminate).
      unfold tv. rewrite Hw. rewrite Z.mod_pow2_bits_low by lia. simpl denote.
      rewrite (cat_bits_ones curr tests Hones k (if_test (fst br)))
        by (unfold tests; rewrite nth_error_map, Hn; reflexivity).
      rewrite Hm. destruct (denote curr (fst br) =? 0); reflexivity. }
    (* the case list, generalised over the suffix *)
    assert (Hgo : forall brs' k, (forall j br, nth_error brs' j = Some br -> nth_error brs (k + j) = Some br) ->
      (fix go (cs : list (option (list pattern) * list stmt)) : list (expr * expr) :=
         match cs with
         | [] => []
         | c :: cs' => if case_sem tv (fst c)
                       then (fix run (l : list stmt) : list (expr * expr) :=
                               match l with [] => [] | s' :: l' => active curr s' ++ run l' end) (snd c)
                       else go cs'
         end)
        ((fix go (brs : list (expr * list dstmt)) (k : nat) : list (option (list pattern) * list stmt) :=
            match brs with
            | [] => if he then [(None, map lower els)] else []
            | br :: brs' => (Some [if_pattern n k], map lower (snd br)) :: go brs' (S k)
            end) brs' k)
      = (fix go (brs : list (expr * list dstmt)) : list (expr * expr) :=
           match brs with
           | [] => if he then flat_map (dactive curr) els else []
           | br :: brs' => if negb (denote curr (fst br) =? 0) then flat_map (dactive curr) (snd br) else go brs'
           end) brs').
    { induction brs' as [|br brs' IHl]; intros k Hsub.
      - destruct he; [|reflexivity]. simpl. rewrite active_run_flat.
        apply flat_map_lower_ext. rewrite Forall_forall in *. intros d Hd.
        apply dcond_run in Hoke. rewrite Forall_forall in Hoke. rewrite forallb_forall in Hwe. apply IHe; auto.
      - assert (Hn : nth_error brs k = Some br) by (rewrite <- (Nat.add_0_r k); apply Hsub; reflexivity).
        assert (Hin : In br brs) by (eapply nth_error_In; eauto).
        cbn [fst snd case_sem existsb]. rewrite if_pattern_sem, orb_false_r, (Hbit k br Hn).
        destruct (negb (denote curr (fst br) =? 0)).
        + rewrite active_run_flat. apply flat_map_lower_ext.
          destruct (Hbr br Hin) as (_ & _ & H3 & H4). rewrite Forall_forall in *.
          intros d Hd. pose proof (IHb br Hin) as IHbr. rewrite Forall_forall in IHbr. apply IHbr; auto.
        + apply IHl. intros j b Hj. replace (S k + j)%nat with (k + S j)%nat by lia. apply Hsub. exact Hj. }
    apply (Hgo brs O). intros j br Hj. exact Hj.
  - (* Switch *)
    simpl in Hwf. apply andb_prop in Hwf. destruct Hwf as [Hwt Hwcs]. rewrite forallb_forall in Hwcs.
    simpl in Hok. destruct Hok as [Het Hokc].
    simpl lower. simpl active. simpl dactive.
    set (tv := denote curr t mod 2 ^ ewidth t).
    assert (Hcs : forall c, In c cs -> Forall (fun d => wf_dstmt d = true) (snd c) /\ Forall (dcond_ok curr) (snd c)).
    { clear -Hwcs Hokc. induction cs as [|c0 cs IHl]; intros c Hin; [destruct Hin|].
      destruct Hokc as (H1 & H2). destruct Hin as [<-|Hin].
      - specialize (Hwcs c0 (or_introl eq_refl)). apply andb_prop in Hwcs. destruct Hwcs as [Hw1 _].
        split; [apply Forall_forall; rewrite forallb_forall in Hw1; auto|apply dcond_run; auto].
      - apply IHl; auto. intros x Hx; apply Hwcs; right; auto. }
    rewrite Forall_forall in IH.
    assert (Hgo : forall cs', (forall c, In c cs' -> In c cs) ->
      (fix go (cs : list (option (list pattern) * list stmt)) : list (expr * expr) :=
         match cs with
         | [] => []
         | c :: cs' => if case_sem tv (fst c)
                       then (fix run (l : list stmt) : list (expr * expr) :=
                               match l with [] => [] | s' :: l' => active curr s' ++ run l' end) (snd c)
                       else go cs'
         end) (map (fun c => (fst c, map lower (snd c))) cs')
      = (fix go (cs : list (option (list pattern) * list dstmt)) : list (expr * expr) :=
           match cs with
           | [] => []
           | c :: cs' => if case_sem tv (fst c) then flat_map (dactive curr) (snd c) else go cs'
           end) cs').
    { induction cs' as [|c cs' IHl]; intros Hsub; [reflexivity|].
      assert (Hin : In c cs) by (apply Hsub; left; auto).
      simpl map. cbn [fst snd]. destruct (case_sem tv (fst c)).
      - rewrite active_run_flat. apply flat_map_lower_ext.
        destruct (Hcs c Hin) as [H3 H4]. rewrite Forall_forall in *. intros d Hd.
        pose proof (IH c Hin) as IHc. rewrite Forall_forall in IHc. apply IHc; auto.
      - apply IHl. intros x Hx; apply Hsub; right; auto. }
    apply Hgo; auto.
Qed.

(* ======================================================================================================
   FSM (appended): state encodings, the Switch over the state register, ongoing() *)
From V.Model Require Import Derived.
From V.Proofs Require Import DerivedP.

Lemma assoc_get_In {V} (d : list (nat * V)) k v : assoc_get d k = Some v -> In (k, v) d.
Proof.
  induction d as [|[k' v'] d IH]; simpl; [discriminate|]. destruct (Nat.eqb k' k) eqn:E.
  - apply Nat.eqb_eq in E. intros H. injection H as <-. subst. auto.
  - auto.
Qed.

Lemma assoc_get_None {V} (d : list (nat * V)) k : assoc_get d k = None <-> ~ In k (map fst d).
Proof.
  induction d as [|[k' v'] d IH]; simpl; [tauto|]. destruct (Nat.eqb k' k) eqn:E.
  - apply Nat.eqb_eq in E. split; [discriminate|]. intros H. exfalso. auto.
  - apply Nat.eqb_neq in E. rewrite IH. tauto.
Qed.

Lemma assoc_get_Some_key {V} (d : list (nat * V)) k : In k (map fst d) -> exists v, assoc_get d k = Some v.
Proof.
  intros H. destruct (assoc_get d k) as [v|] eqn:E; [eauto|]. apply assoc_get_None in E. contradiction.
Qed.

Lemma assoc_set_new {V} (d : list (nat * V)) k v : ~ In k (map fst d) -> assoc_set d k v = d ++ [(k, v)].
Proof.
  induction d as [|[k' v'] d IH]; intros H; simpl; [reflexivity|]. simpl in H.
  destruct (Nat.eqb k' k) eqn:E; [apply Nat.eqb_eq in E; tauto|]. rewrite IH by tauto. reflexivity.
Qed.

Lemma NoDup_app_snoc {A} (l : list A) a : NoDup l -> ~ In a l -> NoDup (l ++ [a]).
Proof.
  induction l as [|y l IH]; intros Hnd Hn; simpl; [constructor; [intros []|constructor]|].
  apply NoDup_cons_iff in Hnd. destruct Hnd as [Hy Hl]. constructor.
  - rewrite in_app_iff. simpl. intros [H|[H|[]]]; [auto|]. subst. apply Hn. left. reflexivity.
  - apply IH; auto. intros H. apply Hn. right. exact H.
Qed.

(* a well-formed encoding: distinct names, numbered 0, 1, 2, .. in order of first reference *)
Definition enc_ok (enc : list (nat * Z)) : Prop :=
  NoDup (map fst enc) /\ map snd enc = map Z.of_nat (seq 0 (length enc)).

Lemma fsm_ref_ok st s fresh : enc_ok (fst st) -> map fst (fst st) = map fst (snd st) ->
  enc_ok (fst (fsm_ref st s fresh)) /\ map fst (fst (fsm_ref st s fresh)) = map fst (snd (fsm_ref st s fresh)) /\
  (forall x, In x (map fst (fst (fsm_ref st s fresh))) <-> x = s \/ In x (map fst (fst st))).
Proof.
  intros [Hnd Hv] Hk. unfold fsm_ref. destruct (assoc_get (fst st) s) as [k|] eqn:E.
  - split; [split; auto|split; [auto|]]. intros x. split; [tauto|]. intros [->|H]; [|exact H].
    apply assoc_get_In in E. apply (in_map fst) in E. exact E.
  - apply assoc_get_None in E. cbn [fst snd].
    rewrite !assoc_set_new by (try rewrite <- Hk; exact E).
    unfold enc_ok. rewrite !map_app. cbn [map fst snd]. split; [split|split].
    + apply NoDup_app_snoc; auto.
    + rewrite Hv, app_length. cbn [length]. rewrite Nat.add_1_r, seq_S, map_app. reflexivity.
    + rewrite Hk. reflexivity.
    + intros x. rewrite in_app_iff. simpl. intuition congruence.
Qed.

Theorem fsm_encoding_ok refs :
  enc_ok (fsm_encoding refs) /\ (forall s, In s (map fst (fsm_encoding refs)) <-> In s refs).
Proof.
  unfold fsm_encoding.
  assert (H : forall refs st, enc_ok (fst st) -> map fst (fst st) = map fst (snd st) ->
            let st' := fold_left (fun st s => fsm_ref st s O) refs st in
            enc_ok (fst st') /\ map fst (fst st') = map fst (snd st') /\
            (forall s, In s (map fst (fst st')) <-> In s refs \/ In s (map fst (fst st)))).
  { clear refs. induction refs as [|r refs IH]; intros st Hok Hk; simpl.
    - split; [auto|split; [auto|]]. intros s; tauto.
    - destruct (fsm_ref_ok st r O Hok Hk) as (Hok' & Hk' & Hin').
      destruct (IH _ Hok' Hk') as (H1 & H2 & H3). split; [auto|split; [auto|]].
      intros s. rewrite H3, Hin'. intuition congruence. }
  destruct (H refs ([], [])) as (H1 & _ & H3).
  - split; [constructor|reflexivity].
  - reflexivity.
  - split; [exact H1|]. intros s. rewrite H3. simpl. tauto.
Qed.

(* consequences of enc_ok: the codes are 0 .. n-1 and distinct states have distinct codes *)
Lemma enc_ok_range enc s k : enc_ok enc -> assoc_get enc s = Some k -> 0 <= k < Z.of_nat (length enc).
Proof.
  intros [_ Hv] H. apply assoc_get_In in H. apply (in_map snd) in H. simpl in H. rewrite Hv in H.
  apply in_map_iff in H. destruct H as (i & <- & Hi). apply in_seq in Hi. lia.
Qed.

Lemma NoDup_snd_inj {A B} (l : list (A * B)) a1 a2 b : NoDup (map snd l) -> In (a1, b) l -> In (a2, b) l -> a1 = a2.
Proof.
  induction l as [|[a b'] l IH]; intros Hnd H1 H2; [destruct H1|]. simpl in Hnd. inversion Hnd as [|? ? Hx Hl]; subst.
  destruct H1 as [H1|H1], H2 as [H2|H2].
  - congruence.
  - injection H1 as <- <-. exfalso. apply Hx. apply (in_map snd) in H2. exact H2.
  - injection H2 as <- <-. exfalso. apply Hx. apply (in_map snd) in H1. exact H1.
  - auto.
Qed.

Lemma enc_ok_codes_nodup enc : enc_ok enc -> NoDup (map snd enc).
Proof.
  intros [_ Hv]. rewrite Hv. generalize (seq_NoDup (length enc) 0). generalize (seq 0 (length enc)) as l.
  induction l as [|x l IH]; intros H; simpl; [constructor|]. apply NoDup_cons_iff in H. destruct H as [Hx Hl].
  constructor; [|auto]. intros Hin. apply in_map_iff in Hin. destruct Hin as (y & Hy & Hin).
  apply Nat2Z.inj in Hy. subst. contradiction.
Qed.

Theorem enc_ok_injective enc s1 s2 k : enc_ok enc -> assoc_get enc s1 = Some k -> assoc_get enc s2 = Some k -> s1 = s2.
Proof.
  intros Hok H1 H2. apply (NoDup_snd_inj enc s1 s2 k (enc_ok_codes_nodup enc Hok)); apply assoc_get_In; auto.
Qed.

(* ---------- the state register's shape represents every code ---------- *)
Lemma zassoc_set_new {V} (d : list (Z * V)) k v : ~ In k (map fst d) -> zassoc_set d k v = d ++ [(k, v)].
Proof.
  induction d as [|[k' v'] d IH]; intros H; simpl; [reflexivity|]. simpl in H.
  destruct (Z.eqb k' k) eqn:E; [apply Z.eqb_eq in E; tauto|]. rewrite IH by tauto. reflexivity.
Qed.

Lemma fsm_decoding_length enc : forall dec, NoDup (map fst dec ++ map snd enc) ->
  length (fsm_decoding dec enc) = (length dec + length enc)%nat.
Proof.
  unfold fsm_decoding. induction enc as [|[s n] enc IH]; intros dec H; simpl; [lia|].
  simpl in H. rewrite zassoc_set_new.
  - rewrite IH; [rewrite app_length; simpl; lia|]. rewrite map_app. simpl. rewrite <- app_assoc. exact H.
  - apply NoDup_remove_2 in H. intros Hin. apply H. apply in_or_app. left. exact Hin.
Qed.

Lemma py_range_n_In a m k : In k (py_range_n a 1 m) <-> a <= k < a + Z.of_nat m.
Proof.
  revert a. induction m as [|m IH]; intros a; simpl; [lia|]. rewrite IH. lia.
Qed.

Lemma py_range_0_In n k : In k (py_range 0 (Z.of_nat n) 1) <-> 0 <= k < Z.of_nat n.
Proof.
  unfold py_range, range_len. cbn [Z.ltb Z.compare].
  destruct (0 <? Z.of_nat n) eqn:E.
  - rewrite py_range_n_In. rewrite Z.sub_0_r, Z.div_1_r. lia.
  - simpl. lia.
Qed.

Theorem fsm_state_shape_ok enc : enc_ok enc ->
  let sh := fsm_state_shape (fsm_decoding [] enc) in
  wf_shape sh = true /\ sgn sh = false /\ forall s k, assoc_get enc s = Some k -> in_rangeb sh k = true.
Proof.
  intros Hok sh. unfold sh, fsm_state_shape.
  rewrite fsm_decoding_length by (simpl; apply enc_ok_codes_nodup; exact Hok). simpl plus.
  set (ms := py_range 0 (Z.of_nat (length enc)) 1).
  assert (Hs : sgn (cast_enum ms) = false).
  { destruct (sgn (cast_enum ms)) eqn:E; [|reflexivity]. apply cast_enum_signed_iff in E.
    destruct E as (v & Hin & Hneg). apply py_range_0_In in Hin. lia. }
  split; [|split; [exact Hs|]].
  - rewrite cast_enum_is_unify. apply unify_wf. apply Forall_forall. intros s Hin.
    apply in_map_iff in Hin. destruct Hin as (x & <- & _). apply const_shape_wf.
  - intros s k Hk. apply in_rangeb_spec. apply cast_enum_represents. apply py_range_0_In.
    exact (enc_ok_range enc s k Hok Hk).
Qed.

(* ---------- the Switch over the state register makes active exactly the body of the state whose code the
   register holds ---------- *)
Theorem lower_fsm_active curr reg enc states sw :
  wf_expr reg = true -> env_ok curr reg -> sgn (shape_of reg) = false ->
  (forall s k, In s (map fst states) -> assoc_get enc s = Some k -> in_rangeb (shape_of reg) k = true) ->
  lower_fsm reg enc states = Some sw ->
  active curr sw = active_list curr (fsm_active_body (denote curr reg) enc states).
Proof.
  intros Hwf Henv Hsg Hrep Hlow.
  destruct (shape_sound curr reg Hwf Henv) as [Hws Hr].
  unfold in_range in Hr. rewrite Hsg in Hr. fold (ewidth reg) in Hr.
  assert (Hw : 0 <= ewidth reg) by (unfold wf_shape in Hws; rewrite Hsg in Hws; unfold ewidth; lia).
  unfold lower_fsm in Hlow.
  destruct (opt_map _ states) as [cs|] eqn:Ecs; [|discriminate]. injection Hlow as <-.
  simpl active. rewrite Z.mod_small by exact Hr. set (v := denote curr reg) in *.
  revert cs Ecs. induction states as [|[s body] states IH]; intros cs Ecs.
  - simpl in Ecs. injection Ecs as <-. reflexivity.
  - simpl in Ecs. destruct (assoc_get enc s) as [k|] eqn:Ek; [|discriminate].
    destruct (opt_map _ states) as [cs'|] eqn:Ecs'; [|discriminate]. injection Ecs as <-.
    assert (Hk : in_rangeb (shape_of reg) k = true) by (apply (Hrep s k); [left; reflexivity|exact Ek]).
    cbn [fsm_active_body fst snd]. rewrite Ek.
    unfold Dsl.int_case_patterns. rewrite Hk. cbn [case_sem existsb fst snd].
    apply in_rangeb_spec in Hk. unfold in_range in Hk. rewrite Hsg in Hk. fold (ewidth reg) in Hk.
    destruct (bin_pattern_sem (ewidth reg) k v Hw Hk Hr) as [Hp _]. rewrite Hp, orb_false_r.
    destruct (v =? k).
    + apply active_run_flat.
    + apply IH; [|reflexivity]. intros s' k' Hin. apply Hrep. right. exact Hin.
Qed.

(* with a well-formed encoding and distinct state names: the register holds the code of state s  =>  the active
   body is the body of s (and of no other state) *)
Theorem fsm_active_body_unique enc states s body k :
  enc_ok enc -> NoDup (map fst states) -> (forall s', In s' (map fst states) -> In s' (map fst enc)) ->
  In (s, body) states -> assoc_get enc s = Some k ->
  fsm_active_body k enc states = body.
Proof.
  intros Hok Hnd Hdef Hin Hk. induction states as [|[s0 b0] states IH]; [destruct Hin|].
  simpl in Hnd. inversion Hnd as [|? ? Hx Hl]; subst.
  cbn [fsm_active_body fst snd].
  destruct (assoc_get_Some_key enc s0 (Hdef s0 (or_introl eq_refl))) as [k0 Hk0]. rewrite Hk0.
  destruct (k =? k0) eqn:E.
  - apply Z.eqb_eq in E. subst k0. pose proof (enc_ok_injective enc s s0 k Hok Hk Hk0) as <-.
    destruct Hin as [Hin|Hin]; [congruence|]. exfalso. apply Hx. apply (in_map fst) in Hin. exact Hin.
  - destruct Hin as [Hin|Hin]; [injection Hin as -> ->; rewrite Hk in Hk0; injection Hk0 as <-; lia|].
    apply IH; auto. intros s' H'. apply Hdef. right. exact H'.
Qed.

(* a register value that is the code of no defined state selects nothing *)
Theorem fsm_active_body_none enc states v :
  (forall s k, In s (map fst states) -> assoc_get enc s = Some k -> k <> v) -> fsm_active_body v enc states = [].
Proof.
  intros H. induction states as [|[s0 b0] states IH]; [reflexivity|]. cbn [fsm_active_body fst snd].
  destruct (assoc_get enc s0) as [k0|] eqn:E.
  - pose proof (H s0 k0 (or_introl eq_refl) E). replace (v =? k0) with false by lia.
    apply IH. intros s k Hin. apply H. right. exact Hin.
  - apply IH. intros s k Hin. apply H. right. exact Hin.
Qed.

(* ---------- ongoing(s) = (state register == code of s) ---------- *)
Theorem fsm_ongoing_value curr reg k :
  denote curr (EOp2 OEq reg (mk_const_auto k)) = if denote curr reg =? k then 1 else 0.
Proof.
  simpl. unfold mk_const_auto. rewrite norm_id by (apply const_shape_wf || apply const_shape_fits). reflexivity.
Qed.

Theorem fsm_ongoing_stmts_spec reg enc og l : fsm_ongoing_stmts reg enc og = Some l ->
  length l = length og /\
  forall i s o, nth_error og i = Some (s, o) ->
    exists k, assoc_get enc s = Some k /\ nth_error l i = Some (SAssign o (EOp2 OEq reg (mk_const_auto k))).
Proof.
  unfold fsm_ongoing_stmts. revert l. induction og as [|[s0 o0] og IH]; intros l H; simpl in H.
  - injection H as <-. split; [reflexivity|]. intros [|i] s o Hn; discriminate.
  - destruct (assoc_get enc s0) as [k0|] eqn:E; [|discriminate].
    destruct (opt_map _ og) as [l'|] eqn:El; [|discriminate]. injection H as <-.
    destruct (IH l' eq_refl) as [Hlen Hnth]. split; [simpl; lia|].
    intros [|i] s o Hn; simpl in Hn.
    + injection Hn as <- <-. exists k0. split; [exact E|reflexivity].
    + simpl. apply Hnth. exact Hn.
Qed.

(* ---------- the whole "FSM" branch, with the encoding the DSL allocates ---------- *)
Theorem pop_fsm_active curr reg_id init refs states og reg iv ogs sw s body :
  let enc := fsm_encoding refs in
  pop_fsm reg_id init enc [] states og = Some (reg, iv, ogs, [sw]) ->
  NoDup (map fst states) -> (forall s', In s' (map fst states) -> In s' refs) ->
  env_ok curr reg ->
  In (s, body) states -> assoc_get enc s = Some (denote curr reg) ->
  reg = ESig reg_id (shape_of reg) /\ sgn (shape_of reg) = false /\
  (forall s' k, assoc_get enc s' = Some k -> in_rangeb (shape_of reg) k = true) /\
  active curr sw = active_list curr body.
Proof.
  intros enc Hpop Hnd Hdef Henv Hin Hcode.
  destruct (fsm_encoding_ok refs) as [Hok Hkeys]. fold enc in Hok, Hkeys.
  destruct (fsm_state_shape_ok enc Hok) as (Hwf & Hsg & Hrep).
  unfold pop_fsm in Hpop. destruct states as [|sb0 states0] eqn:Est; [destruct Hin|]. rewrite <- Est in *.
  destruct (fsm_init_value init enc states); [|discriminate].
  set (r := ESig reg_id (fsm_state_shape (fsm_decoding [] enc))) in *.
  destruct (fsm_ongoing_stmts r enc og); [|discriminate].
  destruct (lower_fsm r enc states) as [sw'|] eqn:Elow; [|discriminate].
  injection Hpop as <- _ _ <-.
  split; [reflexivity|]. split; [exact Hsg|]. split; [exact Hrep|].
  rewrite (lower_fsm_active curr r enc states sw' Hwf Henv Hsg) by (try exact Elow; intros s' k _ Hk; exact (Hrep s' k Hk)).
  f_equal. apply (fsm_active_body_unique enc states s body (denote curr r) Hok Hnd); auto.
  intros s' Hs'. apply Hkeys. apply Hdef. exact Hs'.
Qed.

(* DslP.v — C02: the If/Elif/Else and Switch lowering of the Module DSL selects exactly the first true
   condition / first matching case: the active assignments of the lowered Switch statements are those of
   the direct semantics. *)
From Coq Require Import ZArith List Bool Lia ZifyBool.
From V.Model Require Import Bits Shape Ast Denote PyRTL PyEval Stmt Process Dsl.
From V.Proofs Require Import BitsP ShapeP ExprP StmtP ProcessP.
Import ListNotations.
Open Scope Z_scope.

Section dstmt_ind'.
  Variable P : dstmt -> Prop.
  Hypothesis Has : forall l r, P (DAssign l r).
  Hypothesis Hif : forall brs he els, Forall (fun br => Forall P (snd br)) brs -> Forall P els -> P (DIf brs he els).
  Hypothesis Hsw : forall t cs, Forall (fun c => Forall P (snd c)) cs -> P (DSwitch t cs).
  Fixpoint dstmt_ind' (d : dstmt) : P d :=
    let run := (fix run (l : list dstmt) : Forall P l :=
                  match l with [] => Forall_nil _ | x :: l' => Forall_cons _ (dstmt_ind' x) (run l') end) in
    match d with
    | DAssign l r => Has l r
    | DIf brs he els =>
        Hif brs he els
          ((fix go (brs : list (expr * list dstmt)) : Forall (fun br => Forall P (snd br)) brs :=
              match brs with [] => Forall_nil _ | br :: brs' => Forall_cons _ (run (snd br)) (go brs') end) brs)
          (run els)
    | DSwitch t cs =>
        Hsw t cs
          ((fix go (cs : list (option (list pattern) * list dstmt)) : Forall (fun c => Forall P (snd c)) cs :=
              match cs with [] => Forall_nil _ | c :: cs' => Forall_cons _ (run (snd c)) (go cs') end) cs)
    end.
End dstmt_ind'.

Lemma dcond_run curr (l : list dstmt) :
  (fix run (l : list dstmt) : Prop := match l with [] => True | x :: l' => dcond_ok curr x /\ run l' end) l
  <-> Forall (dcond_ok curr) l.
Proof.
  induction l as [|x l IH]; simpl; [split; auto|]. rewrite IH.
  split; [intros [H1 H2]; constructor; auto|intros H; inversion H; auto].
Qed.

(* ---------- the condition bit ---------- *)
Lemma if_test_spec curr t : wf_expr t = true -> env_ok curr t ->
  wf_expr (if_test t) = true /\ env_ok curr (if_test t) /\ ewidth (if_test t) = 1 /\
  (denote curr (if_test t)) mod 2 = if denote curr t =? 0 then 0 else 1.
Proof.
  intros Hwf Henv. unfold if_test. destruct (ewidth t =? 1) eqn:E.
  - repeat split; auto; [lia|].
    destruct (shape_sound curr t Hwf Henv) as [Hw Hr]. unfold ewidth in E.
    unfold in_range in Hr. destruct (sgn (shape_of t)).
    + replace (width (shape_of t) - 1) with 0 in Hr by lia. change (2 ^ 0) with 1 in Hr.
      destruct (denote curr t =? 0) eqn:E0; [apply Z.eqb_eq in E0; rewrite E0; reflexivity|].
      assert (denote curr t = -1) as -> by lia. reflexivity.
    + replace (width (shape_of t)) with 1 in Hr by lia. change (2 ^ 1) with 2 in Hr.
      destruct (denote curr t =? 0) eqn:E0; [apply Z.eqb_eq in E0; rewrite E0; reflexivity|].
      assert (denote curr t = 1) as -> by lia. reflexivity.
  - repeat split; simpl; auto; [rewrite Hwf; reflexivity|].
    destruct (denote curr t =? 0); reflexivity.
Qed.

(* ---------- the pattern ("1" + "-"*k).rjust(n, "-") tests exactly bit k ---------- *)
Lemma pat_sem_none_prefix m p t : pat_sem (repeat None m ++ p) t = pat_sem p t.
Proof. induction m as [|m IH]; simpl; auto. Qed.

Lemma pat_sem_all_none k t : pat_sem (repeat None k) t = true.
Proof. induction k as [|k IH]; simpl; auto. Qed.

Lemma if_pattern_sem n k t : pat_sem (if_pattern n k) t = Z.testbit t (Z.of_nat k).
Proof.
  unfold if_pattern. rewrite pat_sem_none_prefix. simpl. rewrite repeat_length, pat_sem_all_none.
  rewrite andb_true_r. destruct (Z.testbit t (Z.of_nat k)); reflexivity.
Qed.

Lemma if_pattern_length n k : (k < n)%nat -> length (if_pattern n k) = n.
Proof. intros H. unfold if_pattern. rewrite !app_length, !repeat_length. simpl. lia. Qed.

(* ---------- Cat of one-bit tests: bit k is test k ---------- *)
Lemma cat_bits_ones curr (ts : list expr) :
  Forall (fun t => ewidth t = 1) ts ->
  forall k t, nth_error ts k = Some t ->
  Z.testbit (cat_of (map (fun p => (denote curr p, ewidth p)) ts)) (Z.of_nat k) = Z.odd (denote curr t mod 2).
Proof.
  induction ts as [|t0 ts IH]; intros HF k t Hn; [destruct k; discriminate|].
  pose proof (Forall_inv HF) as H0; pose proof (Forall_inv_tail HF) as HF'. cbv beta in H0.
  simpl map.
  assert (Hnn : 0 <= cat_of (map (fun p => (denote curr p, ewidth p)) ts)).
  { apply cat_of_nonneg. apply Forall_forall. intros [v w] Hin. apply in_map_iff in Hin.
    destruct Hin as (p & Heq & Hp). injection Heq as _ <-. simpl. rewrite Forall_forall in HF'. rewrite (HF' p Hp). lia. }
  rewrite testbit_cat_of by (auto; lia). rewrite H0.
  destruct k as [|k]; simpl in Hn.
  - injection Hn as <-. simpl. rewrite <- !Z.bit0_odd. change (denote curr t0 mod 2) with (denote curr t0 mod 2 ^ 1).
    rewrite Z.mod_pow2_bits_low by lia. reflexivity.
  - replace (Z.of_nat (S k) <? 1) with false by lia. replace (Z.of_nat (S k) - 1) with (Z.of_nat k) by lia.
    apply IH; auto.
Qed.

Lemma cat_ones_width (ts : list expr) : Forall (fun t => ewidth t = 1) ts ->
  fold_right (fun p acc => width (shape_of p) + acc) 0 ts = Z.of_nat (length ts).
Proof.
  induction ts as [|t ts IH]; intros HF; [reflexivity|].
  pose proof (Forall_inv HF) as H0; pose proof (Forall_inv_tail HF) as HF'. cbv beta in H0. unfold ewidth in H0.
  simpl fold_right. rewrite H0, IH by auto. simpl length. lia.
Qed.

(* ---------- lowering preserves the active assignments ---------- *)
Lemma flat_map_lower_ext curr (l : list dstmt) :
  Forall (fun d => active curr (lower d) = dactive curr d) l ->
  active_list curr (map lower l) = flat_map (dactive curr) l.
Proof.
  induction l as [|d l IH]; intros HF; [reflexivity|].
  pose proof (Forall_inv HF) as H0; pose proof (Forall_inv_tail HF) as HF'.
  unfold active_list in *. simpl. rewrite H0, IH by auto. reflexivity.
Qed.

Theorem lower_active curr d : wf_dstmt d = true -> dcond_ok curr d ->
  active curr (lower d) = dactive curr d.
Proof.
  induction d as [l r|brs he els IHb IHe|t cs IH] using dstmt_ind'; intros Hwf Hok.
  - reflexivity.
  - (* If / Elif / Else *)
    simpl in Hwf. apply andb_prop in Hwf. destruct Hwf as [Hwb Hwe]. rewrite forallb_forall in Hwb.
    simpl in Hok. destruct Hok as [Hokb Hoke].
    set (n := length brs).
    set (tests := map (fun br => if_test (fst br)) brs).
    (* facts about every branch *)
    assert (Hbr : forall br, In br brs -> wf_expr (fst br) = true /\ env_ok curr (fst br) /\
                 Forall (fun d => wf_dstmt d = true) (snd br) /\ Forall (dcond_ok curr) (snd br)).
    { clear -Hwb Hokb. induction brs as [|b0 brs IHl]; intros br Hin; [destruct Hin|].
      destruct Hokb as (H1 & H2 & H3). destruct Hin as [<-|Hin].
      - specialize (Hwb b0 (or_introl eq_refl)). apply andb_prop in Hwb. destruct Hwb as [Hw1 Hw2].
        repeat split; auto; [apply Forall_forall; rewrite forallb_forall in Hw2; auto|apply dcond_run; auto].
      - apply IHl; auto. intros x Hx; apply Hwb; right; auto. }
    assert (Hones : Forall (fun t => ewidth t = 1) tests).
    { apply Forall_forall. intros t Hin. apply in_map_iff in Hin. destruct Hin as (br & <- & Hin).
      destruct (Hbr br Hin) as (H1 & H2 & _). apply (if_test_spec curr _ H1 H2). }
    assert (Hlen : length tests = n) by (unfold tests; rewrite map_length; reflexivity).
    simpl lower. fold n tests. simpl active.
    set (tv := denote curr (ECat tests) mod 2 ^ ewidth (ECat tests)).
    assert (Hw : ewidth (ECat tests) = Z.of_nat n).
    { unfold ewidth. simpl. rewrite cat_ones_width by auto. lia. }
    assert (Hbit : forall k br, nth_error brs k = Some br ->
              Z.testbit tv (Z.of_nat k) = negb (denote curr (fst br) =? 0)).
    { intros k br Hn. assert (Hin : In br brs) by (eapply nth_error_In; eauto).
      destruct (Hbr br Hin) as (H1 & H2 & _). destruct (if_test_spec curr _ H1 H2) as (_ & _ & _ & Hm).
      assert (Hk : (k < n)%nat) by (apply nth_error_Some; rewrite Hn; discriminate).
      unfold tv. rewrite Hw. rewrite Z.mod_pow2_bits_low by lia. simpl denote.
      rewrite (cat_bits_ones curr tests Hones k (if_test (fst br)))
        by (unfold tests; rewrite nth_error_map, Hn; reflexivity).
      rewrite Hm. destruct (denote curr (fst br) =? 0); reflexivity. }
    (* the case list, generalised over the suffix *)
    assert (Hgo : forall brs' k, (forall j br, nth_error brs' j = Some br -> nth_error brs (k + j) = Some br) ->
      (fix go (cs : list (option (list pattern) * list stmt)) : list (expr * expr) :=
         match cs with
         | [] => []
         | c :: cs' => if case_sem tv (fst c)
                       then (fix run (l : list stmt) : list (expr * expr) :=
                               match l with [] => [] | s' :: l' => active curr s' ++ run l' end) (snd c)
                       else go cs'
         end)
        ((fix go (brs : list (expr * list dstmt)) (k : nat) : list (option (list pattern) * list stmt) :=
            match brs with
            | [] => if he then [(None, map lower els)] else []
            | br :: brs' => (Some [if_pattern n k], map lower (snd br)) :: go brs' (S k)
            end) brs' k)
      = (fix go (brs : list (expr * list dstmt)) : list (expr * expr) :=
           match brs with
           | [] => if he then flat_map (dactive curr) els else []
           | br :: brs' => if negb (denote curr (fst br) =? 0) then flat_map (dactive curr) (snd br) else go brs'
           end) brs').
    { induction brs' as [|br brs' IHl]; intros k Hsub.
      - destruct he; [|reflexivity]. simpl. rewrite active_run_flat.
        apply flat_map_lower_ext. rewrite Forall_forall in *. intros d Hd.
        apply dcond_run in Hoke. rewrite Forall_forall in Hoke. rewrite forallb_forall in Hwe. apply IHe; auto.
      - assert (Hn : nth_error brs k = Some br) by (rewrite <- (Nat.add_0_r k); apply Hsub; reflexivity).
        assert (Hin : In br brs) by (eapply nth_error_In; eauto).
        cbn [fst snd case_sem existsb]. rewrite if_pattern_sem, orb_false_r, (Hbit k br Hn).
        destruct (negb (denote curr (fst br) =? 0)).
        + rewrite active_run_flat. apply flat_map_lower_ext.
          destruct (Hbr br Hin) as (_ & _ & H3 & H4). rewrite Forall_forall in *.
          intros d Hd. pose proof (IHb br Hin) as IHbr. rewrite Forall_forall in IHbr. apply IHbr; auto.
        + apply IHl. intros j b Hj. replace (S k + j)%nat with (k + S j)%nat by lia. apply Hsub. exact Hj. }
    apply (Hgo brs O). intros j br Hj. exact Hj.
  - (* Switch *)
    simpl in Hwf. apply andb_prop in Hwf. destruct Hwf as [Hwt Hwcs]. rewrite forallb_forall in Hwcs.
    simpl in Hok. destruct Hok as [Het Hokc].
    simpl lower. simpl active. simpl dactive.
    set (tv := denote curr t mod 2 ^ ewidth t).
    assert (Hcs : forall c, In c cs -> Forall (fun d => wf_dstmt d = true) (snd c) /\ Forall (dcond_ok curr) (snd c)).
    { clear -Hwcs Hokc. induction cs as [|c0 cs IHl]; intros c Hin; [destruct Hin|].
      destruct Hokc as (H1 & H2). destruct Hin as [<-|Hin].
      - specialize (Hwcs c0 (or_introl eq_refl)). apply andb_prop in Hwcs. destruct Hwcs as [Hw1 _].
        split; [apply Forall_forall; rewrite forallb_forall in Hw1; auto|apply dcond_run; auto].
      - apply IHl; auto. intros x Hx; apply Hwcs; right; auto. }
    rewrite Forall_forall in IH.
    assert (Hgo : forall cs', (forall c, In c cs' -> In c cs) ->
      (fix go (cs : list (option (list pattern) * list stmt)) : list (expr * expr) :=
         match cs with
         | [] => []
         | c :: cs' => if case_sem tv (fst c)
                       then (fix run (l : list stmt) : list (expr * expr) :=
                               match l with [] => [] | s' :: l' => active curr s' ++ run l' end) (snd c)
                       else go cs'
         end) (map (fun c => (fst c, map lower (snd c))) cs')
      = (fix go (cs : list (option (list pattern) * list dstmt)) : list (expr * expr) :=
           match cs with
           | [] => []
           | c :: cs' => if case_sem tv (fst c) then flat_map (dactive curr) (snd c) else go cs'
           end) cs').
    { induction cs' as [|c cs' IHl]; intros Hsub; [reflexivity|].
      assert (Hin : In c cs) by (apply Hsub; left; auto).
      simpl map. cbn [fst snd]. destruct (case_sem tv (fst c)).
      - rewrite active_run_flat. apply flat_map_lower_ext.
        destruct (Hcs c Hin) as [H3 H4]. rewrite Forall_forall in *. intros d Hd.
        pose proof (IH c Hin) as IHc. rewrite Forall_forall in IHc. apply IHc; auto.
      - apply IHl. intros x Hx; apply Hsub; right; auto. }
    apply Hgo; auto.
Qed.

(* GenEqPyEval.v — amaranth/sim/_pyeval.py as regenerated from /repo by translator/unit_pyeval.py
   (coq/Gen/PyEvalGen.v) equals the hand-written models Model/PyEval.v (eval_tb) and Model/Stmt.v (assign_tb, tb_set)
   on ALL inputs: no well-formedness hypothesis, every environment, every expression / target.
   A semantic change of the translated source either cannot be translated or breaks one of these lemmas. *)
From Coq Require Import ZArith List Bool Lia.
From V.Model Require Import Bits Shape Ast Denote PyRTL PyEval Stmt.
From V.Proofs Require Import ExprP.
From V.Gen Require PyEvalGen.
Import ListNotations.
Open Scope Z_scope.

(* ---------- _eval_matches ---------- *)
Local Notation digit := (fun (acc : Z) (c : option bool) =>
  2 * acc + match c with Some true => 1 | Some false => 0 | None => 2 end).

Lemma int2_mask_acc p acc :
  fold_left digit
    (map (fun b => if PyEvalGen.pchar_eqb b PyEvalGen.pc_dash then PyEvalGen.pc_0 else PyEvalGen.pc_1) p) acc
  = pat_mask_acc p acc.
Proof.
  revert acc. induction p as [|[[|]|] p IH]; intros acc; [reflexivity|..]; cbn [map fold_left pat_mask_acc];
    rewrite IH; f_equal; cbv [PyEvalGen.pchar_eqb PyEvalGen.pc_dash PyEvalGen.pc_0 PyEvalGen.pc_1 Bool.eqb]; lia.
Qed.

Lemma int2_value_acc p acc :
  fold_left digit
    (map (fun b => if PyEvalGen.pchar_eqb b PyEvalGen.pc_dash then PyEvalGen.pc_0 else b) p) acc
  = pat_value_acc p acc.
Proof.
  revert acc. induction p as [|[[|]|] p IH]; intros acc; [reflexivity|..]; cbn [map fold_left pat_value_acc];
    rewrite IH; f_equal; cbv [PyEvalGen.pchar_eqb PyEvalGen.pc_dash PyEvalGen.pc_0 PyEvalGen.pc_1 Bool.eqb]; lia.
Qed.

Lemma gen_eval_matches_eq t ps : PyEvalGen.eval_matches t ps = tb_case_match t ps.
Proof.
  unfold PyEvalGen.eval_matches, tb_case_match, case_match. destruct ps as [l|]; [|reflexivity].
  induction l as [|p l IH]; [reflexivity|].
  cbn [existsb]. rewrite <- IH. unfold pat_match, pat_value, pat_mask, PyEvalGen.int2.
  rewrite int2_mask_acc, int2_value_acc. reflexivity.
Qed.

(* ---------- eval_value ---------- *)
Lemma gen_eval_value_eq sim e : PyEvalGen.eval_value sim e = eval_tb sim e.
Proof.
  induction e as [v s|i s|o a IHa|o a b IHa IHb|a lo hi IHa|a off w st IHa IHoff|l IH|t cs IHt IHcs] using expr_ind'.
  - reflexivity.
  - reflexivity.
  - destruct o; cbn [PyEvalGen.eval_value eval_tb]; rewrite IHa; reflexivity.
  - destruct o; cbn [PyEvalGen.eval_value eval_tb]; rewrite IHa, IHb; reflexivity.
  - cbn [PyEvalGen.eval_value eval_tb]. rewrite IHa. reflexivity.
  - cbn [PyEvalGen.eval_value eval_tb]. rewrite IHa, IHoff. reflexivity.
  - (* Concat: the loop with accumulators res / pos *)
    cbn [PyEvalGen.eval_value eval_tb].
    match goal with |- ?F l 0 0 = _ =>
      enough (H : forall pos res, F l pos res = tb_cat (map (fun p => (eval_tb sim p, ewidth p)) l) res pos) by apply H
    end.
    induction IH as [|p l Hp _ IHl]; intros pos res; [reflexivity|].
    cbn [map tb_cat]. rewrite Hp. apply IHl.
  - (* SwitchValue: the first matching case returns *)
    cbn [PyEvalGen.eval_value eval_tb]. rewrite IHt.
    induction IHcs as [|[ps v] cs Hc _ IHl]; [reflexivity|].
    cbn [map tb_switch fst snd]. cbn [snd] in Hc. rewrite gen_eval_matches_eq, Hc.
    destruct (tb_case_match (eval_tb sim t) ps); [reflexivity|apply IHl].
Qed.

(* ---------- _eval_assign_inner / eval_assign ---------- *)
Lemma gen_eval_assign_inner_eq curr lhs : forall start rhs len nx,
  PyEvalGen.eval_assign_inner curr lhs start rhs len nx = assign_tb curr lhs start rhs len nx.
Proof.
  induction lhs as [v s|i s|o a IHa|o a b IHa IHb|a lo hi IHa|a off w st IHa IHoff|l IH|t cs IHt IHcs] using expr_ind';
    intros start rhs len nx.
  - reflexivity.
  - (* Signal: read-modify-write of `next` *)
    cbn [PyEvalGen.eval_assign_inner assign_tb shape_of]. unfold tb_sig_write.
    destruct (width s <? start + len); destruct (width s <=? start); reflexivity.
  - destruct o; cbn [PyEvalGen.eval_assign_inner assign_tb]; try reflexivity; apply IHa.
  - destruct o; reflexivity.
  - cbn [PyEvalGen.eval_assign_inner assign_tb]. rewrite IHa. reflexivity.
  - cbn [PyEvalGen.eval_assign_inner assign_tb]. rewrite IHa, gen_eval_value_eq. reflexivity.
  - (* Concat: the window is distributed over the parts, part_stop accumulates *)
    cbn [PyEvalGen.eval_assign_inner assign_tb].
    match goal with |- ?F l 0 nx = ?G l 0 nx =>
      enough (H : forall nx part_stop, F l part_stop nx = G l part_stop nx) by apply H
    end.
    clear nx. induction IH as [|p l Hp _ IHl]; intros nx part_stop; [reflexivity|].
    cbn beta iota zeta. unfold ewidth.
    destruct (part_stop + width (shape_of p) <=? start); [apply IHl|].
    destruct (start + len <=? part_stop); [apply IHl|].
    destruct (start <? part_stop); destruct (part_stop + width (shape_of p) <=? start + len);
      cbn beta iota zeta; rewrite Hp; apply IHl.
  - (* SwitchValue: the first matching case is written *)
    cbn [PyEvalGen.eval_assign_inner assign_tb]. rewrite gen_eval_value_eq.
    induction IHcs as [|[ps v] cs Hc _ IHl]; [reflexivity|].
    cbn [fst snd]. cbn [snd] in Hc. rewrite gen_eval_matches_eq, Hc.
    destruct (tb_case_match (eval_tb curr t) ps); [reflexivity|apply IHl].
Qed.

Lemma gen_eval_assign_eq curr lhs v nx : PyEvalGen.eval_assign curr lhs v nx = tb_set curr lhs v nx.
Proof. unfold PyEvalGen.eval_assign, tb_set, ewidth. apply gen_eval_assign_inner_eq. Qed.

(* GenEqMem.v — the memory-port code of the simulator's fragment compiler, regenerated from
   /repo/amaranth/sim/_pyrtl.py (_FragmentCompiler.__call__, MemoryInstance blocks) and the port checks of
   /repo/amaranth/hdl/_mem.py into Gen/MemGen.v by translator/unit_mem.py, equals the hand-written model Model/Mem.v
   (wvals / queue_writes / sync_read / comb_update / granularity / wf_wport) on ALL inputs.

   The generated functions work on ports as the compiler sees them (gwport / grport: every value field is the pair
   (current raw value, len)); to_gw / to_gr build them from the model's port configuration and inputs.  The lengths
   put there (len(addr) = ceil_log2(depth), len(data) = width of the shape, len(read en) = 1, shape of the read data
   signal = shape of the memory) are what the translated asserts of MemoryInstance.write_port / read_port demand:
   gen_write_port_check_eq / gen_read_port_check_eq. *)
From Coq Require Import ZArith List Bool Lia ZifyBool.
From V.Model Require Import Bits Mem.
From V.Proofs Require Import BitsP MemP.
From V.Gen Require MemGen.
Import ListNotations.
Open Scope Z_scope.
Module G := MemGen.

Definition to_gw (md : memd) (wi : win) (p : wport) : G.gwport :=
  G.GWP (Some (wp_dom p)) (wi_addr wi, md_abits md) (wi_data wi, md_width md) (wi_en wi, wp_enw p).
Definition gw_list (md : memd) (wi : nat -> win) : list G.gwport :=
  mapi (fun j p => to_gw md (wi j) p) (md_wports md).
Definition to_gr (md : memd) (ri : rin) (p : rport) : G.grport :=
  G.GRP (rp_dom p) (ri_addr ri, md_abits md) (md_shape md) (ri_en ri, 1) (rp_transp p).

(* ------------------------------------------------------------------ helpers *)
Lemma abits_nonneg md : 0 <= md_abits md.
Proof. unfold md_abits, ceil_log2. destruct (md_depth md =? 0); [lia | apply bit_length_nonneg]. Qed.

Lemma land_mask w v : 0 <= w -> Z.land (Z.shiftl 1 w - 1) v = mask w v.
Proof. intros. rewrite Z.land_comm. apply mask_land; auto. Qed.

Lemma rep_bit b n : G.py_cat (repeat (Z.b2z b, 1) n) = ((if b then Z.ones (Z.of_nat n) else 0), Z.of_nat n).
Proof.
  induction n as [|n IH]; [destruct b; reflexivity|].
  cbn [repeat G.py_cat]. rewrite IH. cbn [fst snd]. f_equal; [|lia].
  destruct b; cbn [Z.b2z]; [|lia].
  rewrite !Z.ones_equiv, Nat2Z.inj_succ, Z.pow_succ_r by lia. change (2 ^ 1) with 2. lia.
Qed.

Lemma gen_en_cat_from g en n : 0 <= g -> forall k,
  fst (G.py_cat (map (fun bit => G.py_replicate bit g)
                     (map (fun k => (Z.b2z (Z.testbit en (Z.of_nat k)), 1)) (seq k n)))) =
  en_cat_from g n (Z.of_nat k) en.
Proof.
  intros Hg. induction n as [|n IH]; intros k; [reflexivity|].
  cbn [seq map G.py_cat en_cat_from]. unfold G.py_replicate at 1 2. rewrite rep_bit. cbn [fst snd].
  rewrite Z2Nat.id by auto. rewrite IH. rewrite Nat2Z.inj_succ. unfold Z.succ. reflexivity.
Qed.

Lemma gen_en_cat g en n : 0 <= g ->
  fst (G.py_cat (map (fun bit => G.py_replicate bit g) (G.py_bits (en, n)))) = en_cat g (Z.to_nat n) en.
Proof. intros. unfold G.py_bits, en_cat. cbn [fst snd]. apply (gen_en_cat_from g en (Z.to_nat n) H 0%nat). Qed.

(* ------------------------------------------------------------------ _WritePort._granularity *)
Lemma gen_granularity_eq md wi p :
  G.WritePort_granularity (to_gw md wi p) = granularity (md_width md) (wp_enw p).
Proof. reflexivity. Qed.

Lemma granularity_nonneg w enw : 0 <= w -> 0 <= enw -> 0 <= granularity w enw.
Proof.
  intros. unfold granularity. destruct (w =? 0); [lia|].
  destruct (Z.eq_dec enw 0) as [->|]; [rewrite Zdiv_0_r; lia | apply Z.div_pos; lia].
Qed.

(* ------------------------------------------------------------------ the write-port loop *)
(* write_vals after the loop: the ports of the running domain, latest first *)
Fixpoint wdict_of (md : memd) (wi : nat -> win) (d : Z) (k : nat) (l : list wport) (D : G.wdict) : G.wdict :=
  match l with
  | [] => D
  | p :: r => wdict_of md wi d (S k) r (if wp_dom p =? d then (k, wvals md wi k p) :: D else D)
  end.

Lemma gen_sync_write_loop md rows wi d : 0 <= md_width md -> forall l,
  Forall (fun p => 0 <= wp_enw p) l -> forall k q D,
  fold_left (fun '(q_, write_vals) '(idx, port) =>
      if negb (G.dom_eqb (G.gw_domain port) (Some d)) then (q_, write_vals) else
      let write_addr1_ := Z.land (Z.sub (Z.shiftl 1 (snd (G.gw_addr port))) 1) (fst (G.gw_addr port)) in
      let write_data2_ := Z.land (Z.sub (Z.shiftl 1 (snd (G.gw_data port))) 1) (fst (G.gw_data port)) in
      let write_en3_ := Z.land (Z.sub (Z.shiftl 1 (snd (G.gw_data port))) 1)
          (fst (G.py_cat (map (fun bit => G.py_replicate bit (G.WritePort_granularity port)) (G.py_bits (G.gw_en port))))) in
      let q_ := ms_write (md_shape md) (md_depth md) rows q_ write_addr1_ write_data2_ write_en3_ in
      let write_vals := G.dict_set write_vals idx (write_addr1_, write_data2_, write_en3_) in
      (q_, write_vals))
    (G.enum_from k (mapi_from (fun j p => to_gw md (wi j) p) k l)) (q, D) =
  (queue_writes md rows q (dom_actions (mapi_from (fun j p => (wp_dom p, wvals md wi j p)) k l) d),
   wdict_of md wi d k l D).
Proof.
  intros Hw l Hl. induction Hl as [|p l Hp Hl IH]; intros k q D; [reflexivity|].
  cbn [mapi_from G.enum_from fold_left]. cbn [to_gw G.gw_domain G.dom_eqb G.gw_addr G.gw_data G.gw_en fst snd].
  unfold dom_actions. cbn [filter fst wdict_of]. fold (dom_actions (mapi_from (fun j p => (wp_dom p, wvals md wi j p)) (S k) l) d).
  destruct (wp_dom p =? d) eqn:E; cbn [negb].
  - rewrite IH. cbn [map snd]. unfold queue_writes at 2. cbn [fold_left].
    fold (to_gw md (wi k) p). rewrite gen_granularity_eq.
    change (G.py_bits (wi_en (wi k), wp_enw p)) with (G.py_bits (wi_en (wi k), wp_enw p)).
    rewrite gen_en_cat by (apply granularity_nonneg; auto).
    rewrite !land_mask by (auto using abits_nonneg).
    unfold G.dict_set, wvals. reflexivity.
  - rewrite IH. reflexivity.
Qed.

Theorem gen_sync_write_ports_eq md rows wi d q : wf_md md = true ->
  G.sync_write_ports (md_shape md) (md_depth md) rows (Some d) (gw_list md wi) q =
  (queue_writes md rows q (dom_actions (all_wvals md wi) d), wdict_of md wi d 0 (md_wports md) []).
Proof.
  intros Hmd. unfold wf_md in Hmd. apply andb_true_iff in Hmd as [Hmd Hp]. apply andb_true_iff in Hmd as [Hs _].
  assert (0 <= md_width md) as Hw by (unfold md_width, wf_shape in *; destruct (sgn (md_shape md)); lia).
  unfold G.sync_write_ports, G.enumerate, gw_list, all_wvals, mapi, G.dict_empty.
  rewrite (gen_sync_write_loop md rows wi d Hw (md_wports md)); [reflexivity|].
  rewrite forallb_forall in Hp. apply Forall_forall. intros p Hin. specialize (Hp p Hin).
  unfold wf_wport in Hp. fold (md_width md) in Hp. destruct (md_width md =? 0); lia.
Qed.

(* looking write_vals up *)
Lemma wdict_of_below md wi d l : forall k D i, (i < k)%nat ->
  G.dict_get (wdict_of md wi d k l D) i = G.dict_get D i.
Proof.
  induction l as [|p l IH]; intros k D i Hi; [reflexivity|]. cbn [wdict_of]. rewrite IH by lia.
  destruct (wp_dom p =? d); [|reflexivity]. cbn [G.dict_get].
  destruct (Nat.eqb k i) eqn:E; [apply Nat.eqb_eq in E; lia | reflexivity].
Qed.

Lemma wdict_of_get md wi d l : forall k D j p, nth_error l j = Some p ->
  G.dict_get (wdict_of md wi d k l D) (k + j) =
  if wp_dom p =? d then Some (wvals md wi (k + j) p) else G.dict_get D (k + j).
Proof.
  induction l as [|x l IH]; intros k D [|j] p H; try discriminate.
  - injection H as ->. cbn [wdict_of]. rewrite Nat.add_0_r. rewrite wdict_of_below by lia.
    destruct (wp_dom p =? d); [|reflexivity]. cbn [G.dict_get]. rewrite Nat.eqb_refl. reflexivity.
  - cbn [nth_error] in H. cbn [wdict_of]. replace (k + S j)%nat with (S k + j)%nat by lia.
    rewrite (IH (S k) _ j p H). destruct (wp_dom p =? d); [reflexivity|].
    destruct (wp_dom x =? d); [|reflexivity]. cbn [G.dict_get].
    destruct (Nat.eqb k (S k + j)) eqn:E; [apply Nat.eqb_eq in E; lia | reflexivity].
Qed.

Lemma write_vals_get md wi d j p : nth_error (md_wports md) j = Some p -> wp_dom p = d ->
  G.dict_get (wdict_of md wi d 0 (md_wports md) []) j = Some (wvals md wi j p).
Proof.
  intros H E. pose proof (wdict_of_get md wi d _ 0%nat [] j p H) as G0. cbn [Nat.add] in G0.
  rewrite G0, E, Z.eqb_refl. reflexivity.
Qed.

(* ------------------------------------------------------------------ a sync read port *)
(* MemoryInstance.read_port: every index of transparent_for names a write port of the same domain *)
Definition transp_ok (md : memd) (d : Z) (tr : list nat) : Prop :=
  Forall (fun idx => exists p, nth_error (md_wports md) idx = Some p /\ wp_dom p = d) tr.

Lemma en_bit x : negb (Z.land 1 x =? 0) = Z.odd x.
Proof.
  rewrite Z.land_comm. change 1 with (Z.ones 1). rewrite Z.land_ones by lia. change (2 ^ 1) with 2.
  rewrite Zmod_odd. destruct (Z.odd x); reflexivity.
Qed.

Lemma gen_transp_loop md wi d a tr : transp_ok md d tr -> forall v,
  fold_left (fun acc_ idx => match acc_ with Some read_data2_ =>
      match G.dict_get (wdict_of md wi d 0 (md_wports md) []) idx with Some (waddr, wdata, wen) =>
        match (if Z.eqb a waddr then
                 let read_data2_ := Z.land read_data2_ (Z.lnot wen) in
                 let read_data2_ := Z.lor read_data2_ (Z.land wdata wen) in Some read_data2_
               else Some read_data2_) with Some read_data2_ => Some read_data2_ | None => None end
      | None => None end
    | None => None end) tr (Some v) =
  Some (fold_left (patch a) (transp_actions (all_wvals md wi) tr) v).
Proof.
  intros Ht. induction Ht as [|idx tr (p & Hp & Hd) Ht IH]; intros v; [reflexivity|].
  cbn [fold_left]. rewrite (write_vals_get md wi d idx p Hp Hd).
  unfold transp_actions. cbn [flat_map]. fold (transp_actions (all_wvals md wi) tr).
  unfold all_wvals at 1. rewrite nth_error_mapi, Hp. cbn [option_map snd app fold_left].
  destruct (wvals md wi idx p) as [[wa wd] we] eqn:E. unfold patch at 2.
  destruct (a =? wa); apply IH.
Qed.

Theorem gen_sync_read_port_eq md rows wi ri d p cur : transp_ok md d (rp_transp p) ->
  G.sync_read_port (md_depth md) rows (Some d) (wdict_of md wi d 0 (md_wports md) []) (to_gr md ri p) cur =
  Some (match rp_dom p with
        | Some d' => if d' =? d then sync_read md rows (all_wvals md wi) p ri cur else cur
        | None => cur
        end).
Proof.
  intros Ht. unfold G.sync_read_port, to_gr. cbn [G.gr_domain G.gr_en G.gr_addr G.gr_data G.gr_transparent_for fst snd].
  destruct (rp_dom p) as [d'|]; cbn [G.dom_eqb negb]; [|reflexivity].
  destruct (d' =? d); cbn [negb]; [|reflexivity].
  unfold sync_read. rewrite en_bit. destruct (Z.odd (ri_en ri)); [|reflexivity].
  rewrite land_mask by apply abits_nonneg.
  rewrite (gen_transp_loop md wi d _ _ Ht). reflexivity.
Qed.

(* ------------------------------------------------------------------ a comb read port *)
Theorem gen_comb_read_port_eq md rows ri p cur :
  G.comb_read_port (md_depth md) rows (to_gr md ri p) cur =
  match rp_dom p with
  | None => norm (md_shape md) (ms_read (md_depth md) rows (mask (md_abits md) (ri_addr ri)))
  | Some _ => cur
  end.
Proof.
  unfold G.comb_read_port, to_gr. cbn [G.gr_domain G.gr_addr G.gr_data fst snd].
  destruct (rp_dom p); cbn [G.dom_eqb negb]; [reflexivity|].
  rewrite land_mask by apply abits_nonneg. reflexivity.
Qed.

(* the whole of run_domain / comb_update, port by port *)
Theorem gen_run_domain_eq md rows wi ri q rdata d rst : wf_md md = true ->
  Forall (fun p => transp_ok md d (rp_transp p)) (md_rports md) ->
  let '(q', wv) := G.sync_write_ports (md_shape md) (md_depth md) rows (Some d) (gw_list md wi) q in
  (Some q', mapi (fun j p => G.sync_read_port (md_depth md) rows (Some d) wv (to_gr md (ri j) p) (nth j rdata 0)) (md_rports md)) =
  (Some (fst (run_domain md rows (all_wvals md wi) ri (q, rdata) (d, rst))),
   map Some (snd (run_domain md rows (all_wvals md wi) ri (q, rdata) (d, rst)))).
Proof.
  intros Hmd Ht. rewrite gen_sync_write_ports_eq by auto. cbv beta iota. unfold run_domain. cbn [fst snd]. f_equal.
  pose proof (fun j p cur => gen_sync_read_port_eq md rows wi (ri j) d p cur) as HW.
  set (W := wdict_of md wi d 0 (md_wports md) []) in *. clearbody W.
  unfold mapi. generalize 0%nat. induction Ht as [|p l Hp Ht IH]; intros n; [reflexivity|].
  cbn [mapi_from map]. rewrite HW by auto. f_equal. apply IH.
Qed.

Theorem gen_comb_update_eq md rows ri rdata :
  mapi (fun j p => G.comb_read_port (md_depth md) rows (to_gr md (ri j) p) (nth j rdata 0)) (md_rports md) =
  comb_update md rows ri rdata.
Proof. unfold comb_update. apply mapi_ext. intros. apply gen_comb_read_port_eq. Qed.

(* ------------------------------------------------------------------ the asserts of hdl/_mem.py *)
(* MemoryInstance.write_port: the lengths to_gw uses are the only ones accepted *)
Theorem gen_write_port_check_eq s depth dm a al dv dl e el :
  G.write_port_check s depth (G.GWP dm (a, al) (dv, dl) (e, el)) = true <-> dl = width s /\ al = ceil_log2 depth.
Proof. unfold G.write_port_check. cbn [G.gw_data G.gw_addr snd]. lia. Qed.

(* _WritePort.__init__: for a port with len(en) >= 1 (a Signal(en_width) of lib.memory; en_width = 0 only when the
   row is 0 bits wide) the assert is the model's wf_wport *)
Theorem gen_WritePort_init_check_eq md wi p : 1 <= wp_enw p \/ (wp_enw p = 0 /\ md_width md = 0) ->
  G.WritePort_init_check (to_gw md wi p) = wf_wport (md_shape md) p.
Proof.
  intros H. unfold G.WritePort_init_check, wf_wport, to_gw. cbn [G.gw_domain G.gw_data G.gw_en G.dom_eqb snd negb andb].
  fold (md_width md). destruct (md_width md =? 0) eqn:E; cbn [negb]; [lia|].
  destruct (md_width md mod wp_enw p =? 0); lia.
Qed.

(* MemoryInstance.read_port: lengths, and transparent_for only names write ports of the port's own domain — the
   guard of gen_sync_read_port_eq *)
Theorem gen_read_port_check_eq md wi ri p d : rp_dom p = Some d ->
  G.read_port_check (md_shape md) (md_depth md) (gw_list md wi) (to_gr md ri p) = true ->
  transp_ok md d (rp_transp p).
Proof.
  intros Hd H. unfold G.read_port_check, to_gr in H. cbn [G.gr_data G.gr_addr G.gr_transparent_for G.gr_domain snd] in H.
  apply andb_true_iff in H as [_ H]. rewrite forallb_forall in H.
  apply Forall_forall. intros idx Hin. specialize (H idx Hin). apply andb_true_iff in H as [_ H].
  unfold gw_list in H. rewrite nth_error_mapi in H. destruct (nth_error (md_wports md) idx) as [p'|]; cbn in H.
  - exists p'. split; auto. rewrite Hd in H. cbn in H. lia.
  - rewrite Hd in H. discriminate.
Qed.

Theorem gen_read_port_check_lengths s depth wps dm a al sh e el tr :
  G.read_port_check s depth wps (G.GRP dm (a, al) sh (e, el) tr) = true -> width sh = width s /\ al = ceil_log2 depth.
Proof.
  unfold G.read_port_check, G.shape_width. cbn [G.gr_data G.gr_addr snd]. intros H.
  apply andb_true_iff in H as [H _]. lia.
Qed.

(* _ReadPort.__init__: len(en) = 1; a comb port has the constant enable 1 and no transparency *)
Theorem gen_ReadPort_init_check_eq dm a sh e el tr :
  G.ReadPort_init_check (G.GRP dm a sh (e, el) tr) = true <->
  el = 1 /\ (dm = None -> e = 1 /\ tr = []).
Proof.
  unfold G.ReadPort_init_check. cbn [G.gr_en G.gr_domain G.gr_transparent_for fst snd].
  destruct dm as [z|]; cbn [G.dom_eqb].
  - split; [intros H; split; [lia | discriminate] | intros [H _]; lia].
  - destruct tr; cbn [length Nat.eqb]; split.
    + intros H. split; [lia|]. intros _. split; [lia | reflexivity].
    + intros [H1 H2]. destruct (H2 eq_refl). lia.
    + intros H. lia.
    + intros [_ H2]. destruct (H2 eq_refl). discriminate.
Qed.

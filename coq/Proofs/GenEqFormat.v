(* GenEqFormat.v — the definitions regenerated from /repo/amaranth/hdl/_ast.py (Format._FORMAT_SPEC_PATTERN,
   Format._parse_format_spec) and /repo/amaranth/sim/_pyeval.py (value_to_string) by translator/unit_format.py
   (coq/Gen/FormatGen.v) against the hand-written model Model/Format.v.

   Proved here
     * gen_value_to_string_eq  (all v >= 0):  FormatGen.value_to_string v = utf8_decode (value_bytes v).
       Guard 0 <= v: for v < 0 Python's `while value: ... value >>= 8` does not terminate (generated: None).  The
       simulator only calls value_to_string for type 's', which _parse_format_spec accepts on unsigned shapes only
       (check_shape), and `rhs.sign` of an unsigned value is >= 0.
     * gen_checks_eq  (all fills, widths, shapes; every combination of group values the character classes of the
       pattern admit):  the statements of _parse_format_spec after the regex (FormatGen.parse_format_spec_checks)
       = the model's '^' / ',' / 'n' rejections (as in parse_raw), check_shape, and the dict of spec_dict.
     * gen_parse_format_spec_bounded: regex + checks together (FormatGen.parse_format_spec) = parse_spec + spec_dict on
       EVERY string of length <= 4 over a 30-character alphabet that contains every character the pattern names and
       representatives of the others (finite domain, by computation), for 4 shapes.
   NOT proved: equality of the backtracking regex with parse_raw on all strings of all lengths. *)
From Coq Require Import ZArith List Bool Lia ZifyBool.
From V.Model Require Import Bits Format.
From V.Proofs Require Import BitsP FormatP.
From V.Gen Require FormatGen.
Import ListNotations.
Open Scope Z_scope.

(* ------------------------------------------------------------------ value_to_string *)
Lemma digits_fuel_acc fuel b v acc : digits_fuel fuel b v acc = digits_fuel fuel b v [] ++ acc.
Proof.
  revert v acc. induction fuel as [|f IH]; intros v acc; cbn [digits_fuel]; [reflexivity|].
  destruct (v <? b); [reflexivity|].
  rewrite IH. rewrite (IH (v / b) [v mod b]). rewrite <- app_assoc. reflexivity.
Qed.

Definition nz (b : Z) : bool := negb (b =? 0).

Lemma land255 v : Z.land v 255 = v mod 256.
Proof. change 255 with (Z.ones 8). rewrite Z.land_ones by lia. reflexivity. Qed.
Lemma shiftr8 v : Z.shiftr v 8 = v / 256.
Proof. rewrite Z.shiftr_div_pow2 by lia. reflexivity. Qed.

Lemma loop_small f2 v msg : 0 <= v < 256 ->
  FormatGen.value_to_string_loop (S (S f2)) v msg = Some (msg ++ filter nz [v]).
Proof.
  intros Hv. cbn [FormatGen.value_to_string_loop filter]. unfold nz.
  destruct (v =? 0) eqn:E; cbn [negb].
  - rewrite app_nil_r. reflexivity.
  - rewrite !land255, !shiftr8. rewrite (Z.mod_small v 256), (Z.div_small v 256) by lia. rewrite E. reflexivity.
Qed.

Lemma loop_digits f : forall v msg f2, 0 <= v < 256 ^ (Z.of_nat f + 1) -> (f + 2 <= f2)%nat ->
  FormatGen.value_to_string_loop f2 v msg = Some (msg ++ filter nz (rev (digits_fuel f 256 v []))).
Proof.
  induction f as [|f IH]; intros v msg f2 Hv Hf.
  - destruct f2 as [|[|f2]]; try lia. cbn [digits_fuel rev app]. apply loop_small. cbn in Hv. lia.
  - cbn [digits_fuel]. destruct (v <? 256) eqn:E.
    + destruct f2 as [|[|f2]]; try lia. cbn [rev app]. apply loop_small. lia.
    + destruct f2 as [|f2]; [lia|]. cbn [FormatGen.value_to_string_loop].
      assert (Hnz : (v =? 0) = false) by lia. rewrite Hnz. cbn [negb].
      rewrite land255, shiftr8. rewrite digits_fuel_acc, rev_app_distr. cbn [rev app filter].
      assert (Hd : 0 <= v / 256 < 256 ^ (Z.of_nat f + 1)).
      { split; [apply Z.div_pos; lia|]. apply Z.div_lt_upper_bound; [lia|].
        replace (Z.of_nat (S f) + 1) with (1 + (Z.of_nat f + 1)) in Hv by lia.
        rewrite Z.pow_add_r in Hv by lia. change (256 ^ 1) with 256 in Hv. lia. }
      rewrite (IH (v / 256) _ f2 Hd) by lia. unfold nz at 2.
      destruct (v mod 256 =? 0); cbn [negb]; [reflexivity|]. rewrite <- app_assoc. reflexivity.
Qed.

Lemma gen_value_to_string_loop_eq v : 0 <= v ->
  FormatGen.value_to_string_loop (Z.to_nat (Z.log2 v) + 3) v [] = Some (value_bytes v).
Proof.
  intros Hv. unfold value_bytes, all_bytes, digits.
  rewrite (loop_digits (Z.to_nat (Z.log2 v) + 1) v [] (Z.to_nat (Z.log2 v) + 3)).
  - reflexivity.
  - split; [lia|]. destruct (Z.eq_dec v 0) as [->|Hn]; [cbn; lia|].
    assert (Hl := Z.log2_nonneg v). assert (Hs := proj2 (Z.log2_spec v ltac:(lia))).
    eapply Z.lt_le_trans; [exact Hs|].
    change 256 with (2 ^ 8). rewrite <- Z.pow_mul_r by lia. apply Z.pow_le_mono_r; lia.
  - lia.
Qed.

Lemma gen_value_to_string_eq v : 0 <= v ->
  FormatGen.value_to_string v = utf8_decode (value_bytes v).
Proof. intros Hv. unfold FormatGen.value_to_string. rewrite gen_value_to_string_loop_eq by auto. reflexivity. Qed.

(* for a negative value Python loops for ever; the generated function gives up *)
Lemma loop_neg f : forall v msg, v < 0 -> FormatGen.value_to_string_loop f v msg = None.
Proof.
  induction f as [|f IH]; intros v msg Hv; [reflexivity|]. cbn [FormatGen.value_to_string_loop].
  assert (E : (v =? 0) = false) by lia. rewrite E. cbn [negb]. apply IH.
  rewrite shiftr8. apply Z.div_lt_upper_bound; lia.
Qed.
Lemma gen_value_to_string_neg v : v < 0 -> FormatGen.value_to_string v = None.
Proof. intros Hv. unfold FormatGen.value_to_string. rewrite loop_neg by auto. reflexivity. Qed.

(* ------------------------------------------------------------------ _parse_format_spec: the checks after the regex *)
(* the dict of a model spec, as the record generated from the dict display *)
Definition ch (c : Z) : list Z := [c].
Definition dict_of (sp : spec) : FormatGen.spec_dict :=
  FormatGen.SpecDict
    (option_map ch (dict_fill sp))
    (option_map (fun a => [align_char a]) (dict_align sp))
    (option_map (fun s => [sign_char s]) (f_sign sp))
    (f_alt sp) (f_width sp)
    (if f_group sp then Some [95] else None)
    (option_map (fun t => [type_char t]) (f_type sp)).

(* ... which is the list of integers the correspondence run compares (Model.Format.spec_dict) *)
Definition oz1 (o : option (list Z)) : Z := match o with Some (c :: _) => c | _ => -1 end.
Definition dict_ints (d : FormatGen.spec_dict) : list Z :=
  [ oz1 (FormatGen.d_fill d); oz1 (FormatGen.d_align d); oz1 (FormatGen.d_sign d);
    if FormatGen.d_show_base d then 1 else 0; FormatGen.d_width d;
    oz1 (FormatGen.d_grouping d); oz1 (FormatGen.d_type d) ].
Lemma dict_ints_of sp : dict_ints (dict_of sp) = spec_dict sp.
Proof.
  unfold dict_ints, dict_of, spec_dict; cbn.
  destruct (dict_fill sp), (dict_align sp), (f_sign sp), (f_alt sp), (f_group sp), (f_type sp); reflexivity.
Qed.

(* a match object whose groups hold: fill (any character), align, sign, grouping, type (one character each, or
   absent), show_base and width_zero ("" or the character), width (any text) *)
Definition groups_of (fill al sg : option Z) (alt zero : bool) (wd : option (list Z)) (grp ty : option Z)
    : FormatGen.groups :=
  FormatGen.Groups (option_map ch fill) (option_map ch al) (option_map ch sg)
    (Some (if alt then [35] else [])) (Some (if zero then [48] else [])) wd (option_map ch grp) (option_map ch ty).

(* the model's reading of the same pieces (parse_raw: mk / bad_align / the final match on s6) *)
Definition raw_of (fill al sg : option Z) (alt zero : bool) (wd : option (list Z)) (grp ty : option Z) : option spec :=
  let al' := match al with Some a => align_of a | None => None end in
  let bad_align := match al, al' with Some _, None => true | _, _ => false end in
  let w := match wd with Some t => FormatGen.py_int t | None => 0 end in
  if bad_align then None
  else match grp with
       | Some g => if g =? 95
                   then match ty with
                        | None => Some (Spec fill al' (match sg with Some c => sign_of c | None => None end) alt zero w true None)
                        | Some t => match type_of t with
                                    | Some y => Some (Spec fill al' (match sg with Some c => sign_of c | None => None end) alt zero w true (Some y))
                                    | None => None end
                        end
                   else None
       | None => match ty with
                 | None => Some (Spec fill al' (match sg with Some c => sign_of c | None => None end) alt zero w false None)
                 | Some t => match type_of t with
                             | Some y => Some (Spec fill al' (match sg with Some c => sign_of c | None => None end) alt zero w false (Some y))
                             | None => None end
                 end
       end.

Definition in_opt (o : option Z) (l : list Z) : Prop := match o with Some c => In c l | None => True end.

Lemma gen_checks_eq fill al sg alt zero wd grp ty sh :
  in_opt al [60; 62; 61; 94] -> in_opt sg [45; 43; 32] -> in_opt grp [95; 44] ->
  in_opt ty [98; 111; 100; 120; 88; 99; 115; 110] ->
  FormatGen.parse_format_spec_checks (groups_of fill al sg alt zero wd grp ty) sh =
  option_map dict_of
    (match raw_of fill al sg alt zero wd grp ty with
     | Some sp => if check_shape sp sh then Some sp else None
     | None => None end).
Proof.
  intros Hal Hsg Hgrp Hty. destruct sh as [w s].
  unfold FormatGen.parse_format_spec_checks, groups_of, raw_of, check_shape, dict_of, dict_fill, dict_align, dict_zf.
  cbn [FormatGen.m_fill FormatGen.m_align FormatGen.m_sign FormatGen.m_show_base FormatGen.m_width_zero
       FormatGen.m_width FormatGen.m_grouping FormatGen.m_type width sgn].
  destruct (w mod 8 =? 0) eqn:Em;
  destruct al as [al|]; cbn [in_opt In] in Hal;
  [ (destruct Hal as [<-|[<-|[<-|[<-|[]]]]]) | | (destruct Hal as [<-|[<-|[<-|[<-|[]]]]]) | ];
  (destruct ty as [ty|]; cbn [in_opt In] in Hty;
   [ (destruct Hty as [<-|[<-|[<-|[<-|[<-|[<-|[<-|[<-|[]]]]]]]]]) | ]);
  (destruct grp as [grp|]; cbn [in_opt In] in Hgrp; [ (destruct Hgrp as [<-|[<-|[]]]) | ]);
  (destruct sg as [sg|]; cbn [in_opt In] in Hsg; [ (destruct Hsg as [<-|[<-|[<-|[]]]]) | ]);
  destruct alt, zero, s; cbn; rewrite ?Em; cbn; try reflexivity;
  destruct fill; reflexivity.
Qed.

(* ------------------------------------------------------------------ regex + checks on a finite domain *)
Definition ostr_beq (a b : option (list Z)) : bool :=
  match a, b with Some x, Some y => FormatGen.str_eqb x y | None, None => true | _, _ => false end.
Definition dict_beq (a b : FormatGen.spec_dict) : bool :=
  ostr_beq (FormatGen.d_fill a) (FormatGen.d_fill b) && ostr_beq (FormatGen.d_align a) (FormatGen.d_align b)
  && ostr_beq (FormatGen.d_sign a) (FormatGen.d_sign b) && Bool.eqb (FormatGen.d_show_base a) (FormatGen.d_show_base b)
  && (FormatGen.d_width a =? FormatGen.d_width b) && ostr_beq (FormatGen.d_grouping a) (FormatGen.d_grouping b)
  && ostr_beq (FormatGen.d_type a) (FormatGen.d_type b).
Definition odict_beq (a b : option FormatGen.spec_dict) : bool :=
  match a, b with Some x, Some y => dict_beq x y | None, None => true | _, _ => false end.

(* every character the pattern names (< > = ^ - + space # 0 1..9 _ , b o d x X c s n), newline (not matched by '.'),
   and other characters: * . : / a { ~ *)
Definition alphabet : list Z :=
  [60; 62; 61; 94; 45; 43; 32; 35; 48; 49; 53; 57; 95; 44; 98; 111; 100; 120; 88; 99; 115; 110; 10; 42; 46; 58; 47; 97; 123; 126].
Fixpoint words (n : nat) : list (list Z) :=
  match n with O => [[]] | S k => flat_map (fun w => map (fun c => c :: w) alphabet) (words k) end.
Definition words_upto3 : list (list Z) := words 0 ++ words 1 ++ words 2 ++ words 3.
Definition shapes4 : list shape := [Sh 8 false; Sh 7 false; Sh 8 true; Sh 7 true].
(* longer specifications using every part of the grammar at once *)
Definition long_specs : list (list Z) :=
  [ [42;62;43;35;48;49;50;95;120]; [48;61;49;48;100]; [45;35;48;49;48;95;98]; [123;60;55;99]; [49;50;48;115];
    [10;60;53]; [60;60;60;53]; [32;94;32;35;48;57;57;44;110]; [43;48;48]; [62;62;49;48;48;48;95;88]; [35;35];
    [32;49;48;95;95]; [120;60;45;35;48;52;50;95;111]; [61;61;43;49;100;100] ].

Lemma gen_parse_format_spec_bounded :
  forallb (fun sh => forallb (fun s =>
      odict_beq (FormatGen.parse_format_spec s sh) (option_map dict_of (parse_spec s sh)))
    (words_upto3 ++ long_specs)) shapes4 = true.
Proof. vm_compute. reflexivity. Qed.

(* non-vacuity of the comparison: some specifications are accepted, and the comparison distinguishes dicts *)
Lemma gen_parse_format_spec_example :
  option_map dict_ints (FormatGen.parse_format_spec [42;62;43;35;48;49;50;95;120] (Sh 16 true)) =
    Some [42; 62; 43; 1; 12; 95; 120] /\
  option_map dict_ints (FormatGen.parse_format_spec [48;53;100] (Sh 8 false)) = Some [48; 61; -1; 0; 5; -1; 100] /\
  FormatGen.parse_format_spec [60;94] (Sh 8 false) = None /\
  FormatGen.value_to_string 6513249 = Some [97; 98; 99] /\ FormatGen.value_to_string 255 = None.
Proof. vm_compute. repeat split; reflexivity. Qed.

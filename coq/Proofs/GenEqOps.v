(* GenEqOps.v — Operator.shape as regenerated from /repo equals Ast.op1_shape / op2_shape. *)
From Coq Require Import ZArith List Bool Lia String.
From V.Model Require Import Bits Shape Ast.
From V.Gen Require OpShape.
Import ListNotations.
Open Scope Z_scope.
Open Scope string_scope.

Definition op1_name (o : op1) : string :=
  match o with ONot => "~" | ONeg => "-" | OBool => "b" | ORor => "r|" | ORand => "r&" | ORxor => "r^"
             | OU => "u" | OS => "s" end.
Definition op2_name (o : op2) : string :=
  match o with OAdd => "+" | OSub => "-" | OMul => "*" | ODiv => "//" | OMod => "%" | OAnd => "&" | OOr => "|"
             | OXor => "^" | OShl => "<<" | OShr => ">>" | OEq => "==" | ONe => "!=" | OLt => "<" | OLe => "<="
             | OGt => ">" | OGe => ">=" end.

Lemma op1_shape_eq o sa : OpShape.op1_shape (op1_name o) sa = Some (Ast.op1_shape o sa).
Proof. destruct o; reflexivity. Qed.

Lemma op2_shape_eq o sa sb :
  (match o with OShl | OShr => sgn sb = false | _ => True end) ->
  OpShape.op2_shape (op2_name o) sa sb = Some (Ast.op2_shape o sa sb).
Proof.
  intros H. destruct o; try reflexivity.
  - cbv [OpShape.op2_shape op2_name String.eqb Ascii.eqb Bool.eqb Ast.op2_shape]. simpl. rewrite H. reflexivity.
  - cbv [OpShape.op2_shape op2_name String.eqb Ascii.eqb Bool.eqb Ast.op2_shape]. simpl. rewrite H. reflexivity.
Qed.

(* a signed shift amount is rejected by the regenerated code as well *)
Lemma op2_shape_shift_signed sa sb : sgn sb = true ->
  OpShape.op2_shape "<<" sa sb = None /\ OpShape.op2_shape ">>" sa sb = None.
Proof. intros H. cbv [OpShape.op2_shape String.eqb Ascii.eqb Bool.eqb]. simpl. rewrite H. split; reflexivity. Qed.

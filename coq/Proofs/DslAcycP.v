(* DslAcycP.v — C02: an expression's value depends only on the signals occurring in it; statement execution reads
   `curr` only at the signals occurring in conditions, right-hand sides and target selectors, and `next` only at the
   signals it assigns; hence the decidable check acyclic_ok (Model/DslAcyc.v) implies that the delta-cycle loop of
   Model/DslRaw.v terminates. *)
From Coq Require Import ZArith List Bool Lia ZifyBool.
From V.Model Require Import Bits Shape Ast Denote PyRTL PyEval Stmt Process Derived Dsl DslRaw DslAcyc.
From V.Proofs Require Import BitsP ShapeP ExprP StmtP ProcessP DslRawP.
Import ListNotations.
Open Scope Z_scope.

(* ---------- expressions ---------- *)
Lemma map_ext_Forall {A B} (f g : A -> B) (l : list A) : Forall (fun x => f x = g x) l -> map f l = map g l.
Proof. induction 1; simpl; [reflexivity|]. f_equal; auto. Qed.

Lemma Forall_flat_map_in {A} (f : A -> list nat) (P : nat -> Prop) (l : list A) :
  (forall k, In k (flat_map f l) -> P k) -> forall x, In x l -> forall k, In k (f x) -> P k.
Proof. intros H x Hx k Hk. apply H. apply in_flat_map. exists x. auto. Qed.

Theorem eval_rtl_ext c1 c2 e : (forall k, In k (reads e) -> c1 k = c2 k) -> eval_rtl c1 e = eval_rtl c2 e.
Proof.
  induction e as [v s|i s|o a IHa|o a b IHa IHb|a lo hi IHa|a off w st IHa IHoff|l IH|t cs IHt IHcs] using expr_ind';
    intros H; cbn [eval_rtl reads] in *.
  - reflexivity.
  - apply H. left. reflexivity.
  - rewrite IHa by auto. reflexivity.
  - rewrite IHa, IHb by (intros k Hk; apply H; apply in_or_app; auto). reflexivity.
  - rewrite IHa by auto. reflexivity.
  - rewrite IHa, IHoff by (intros k Hk; apply H; apply in_or_app; auto). reflexivity.
  - f_equal. apply map_ext_Forall. rewrite Forall_forall in *. intros p Hp. f_equal. apply IH; auto.
    exact (Forall_flat_map_in reads _ l H p Hp).
  - rewrite IHt by (intros k Hk; apply H; apply in_or_app; auto). f_equal.
    apply map_ext_Forall. rewrite Forall_forall in *. intros c Hc. do 2 f_equal. apply IHcs; auto.
    apply (Forall_flat_map_in (fun c => reads (snd c)) _ cs); auto. intros k Hk. apply H. apply in_or_app. auto.
Qed.

Theorem denote_ext c1 c2 e : (forall k, In k (reads e) -> c1 k = c2 k) -> denote c1 e = denote c2 e.
Proof.
  induction e as [v s|i s|o a IHa|o a b IHa IHb|a lo hi IHa|a off w st IHa IHoff|l IH|t cs IHt IHcs] using expr_ind';
    intros H; cbn [denote reads] in *.
  - reflexivity.
  - apply H. left. reflexivity.
  - rewrite IHa by auto. reflexivity.
  - rewrite IHa, IHb by (intros k Hk; apply H; apply in_or_app; auto). reflexivity.
  - rewrite IHa by auto. reflexivity.
  - rewrite IHa, IHoff by (intros k Hk; apply H; apply in_or_app; auto). reflexivity.
  - f_equal. apply map_ext_Forall. rewrite Forall_forall in *. intros p Hp. f_equal. apply IH; auto.
    exact (Forall_flat_map_in reads _ l H p Hp).
  - rewrite IHt by (intros k Hk; apply H; apply in_or_app; auto). f_equal.
    apply map_ext_Forall. rewrite Forall_forall in *. intros c Hc. f_equal. apply IHcs; auto.
    apply (Forall_flat_map_in (fun c => reads (snd c)) _ cs); auto. intros k Hk. apply H. apply in_or_app. auto.
Qed.

(* ---------- targets ---------- *)
(* the value read back from a target: `curr` at its selectors, `next` at the signals it names *)
Lemma lread_ext c1 c2 n1 n2 l : wf_lhs l = true ->
  (forall k, In k (sel_reads l) -> c1 k = c2 k) -> (forall k, In k (sigs_of l) -> n1 k = n2 k) ->
  lread c1 n1 l = lread c2 n2 l.
Proof.
  induction l as [v s|i s|o a IHa|o a b IHa IHb|a lo hi IHa|a off w st IHa IHoff|l IH|t cs IHt IHcs] using expr_ind';
    intros Hwf Hc Hn; cbn [lread sel_reads sigs_of wf_lhs] in *; try discriminate.
  - apply Hn. left. reflexivity.
  - destruct o; try discriminate; apply andb_prop in Hwf; destruct Hwf as [Hwa _]; apply IHa; auto.
  - repeat (apply andb_prop in Hwf; destruct Hwf as [Hwf ?]). rewrite IHa by auto. reflexivity.
  - repeat (apply andb_prop in Hwf; destruct Hwf as [Hwf ?]).
    rewrite IHa by (auto; intros k Hk; apply Hc; apply in_or_app; auto).
    rewrite (eval_rtl_ext c1 c2 off) by (intros k Hk; apply Hc; apply in_or_app; auto). reflexivity.
  - f_equal. apply map_ext_Forall. rewrite Forall_forall in *. rewrite forallb_forall in Hwf. intros p Hp. f_equal.
    apply IH; auto.
    + exact (Forall_flat_map_in sel_reads _ l Hc p Hp).
    + exact (Forall_flat_map_in sigs_of _ l Hn p Hp).
  - apply andb_prop in Hwf. destruct Hwf as [Hwt Hwcs]. rewrite forallb_forall in Hwcs.
    rewrite (eval_rtl_ext c1 c2 t) by (intros k Hk; apply Hc; apply in_or_app; auto). f_equal.
    apply map_ext_Forall. rewrite Forall_forall in *. intros c Hin. do 2 f_equal.
    specialize (Hwcs c Hin). apply andb_prop in Hwcs. destruct Hwcs as [Hwc _]. apply IHcs; auto.
    + apply (Forall_flat_map_in (fun c => sel_reads (snd c)) _ cs); auto. intros k Hk. apply Hc. apply in_or_app. auto.
    + exact (Forall_flat_map_in (fun c => sigs_of (snd c)) _ cs Hn c Hin).
Qed.

Definition agree (P : nat -> bool) (a b : env) : Prop := forall k, P k = true -> a k = b k.

(* an assignment leaves every signal it does not name alone *)
Lemma assign_frame c l : forall arg n k, ~ In k (sigs_of l) -> assign_rtl c l arg n k = n k.
Proof.
  induction l as [v s|i s|o a IHa|o a b IHa IHb|a lo hi IHa|a off w st IHa IHoff|l IH|t cs IHt IHcs] using expr_ind';
    intros arg n k Hk; cbn [assign_rtl sigs_of] in *; try reflexivity.
  - unfold upd. destruct (Nat.eqb k i) eqn:E; [apply Nat.eqb_eq in E; subst; exfalso; apply Hk; left; reflexivity|reflexivity].
  - destruct o; try reflexivity; apply IHa; auto.
  - apply IHa; auto.
  - apply IHa; auto.
  - generalize 0 as offset. revert n. induction IH as [|p ps Hp _ IHps]; intros n offset; [reflexivity|].
    cbn [flat_map] in Hk. rewrite IHps by (intros H; apply Hk; apply in_or_app; auto).
    apply Hp. intros H; apply Hk; apply in_or_app; auto.
  - generalize (use_match (map fst cs)) as um. intros um. set (tv := rmask (ewidth t) (eval_rtl c t)).
    induction IHcs as [|x xs Hx _ IHxs]; [reflexivity|]. cbn [flat_map] in Hk.
    destruct (rtl_case_match um tv (fst x)).
    + apply Hx. intros H; apply Hk; apply in_or_app; auto.
    + apply IHxs. intros H; apply Hk; apply in_or_app; auto.
Qed.

(* two runs of an assignment whose selectors read the same values and whose named signals agree in `next` *)
Lemma assign_agree Pn c1 c2 l : wf_lhs l = true ->
  (forall k, In k (sel_reads l) -> c1 k = c2 k) -> (forall k, In k (sigs_of l) -> Pn k = true) ->
  forall arg n1 n2, agree Pn n1 n2 -> agree Pn (assign_rtl c1 l arg n1) (assign_rtl c2 l arg n2).
Proof.
  induction l as [v s|i s|o a IHa|o a b IHa IHb|a lo hi IHa|a off w st IHa IHoff|l IH|t cs IHt IHcs] using expr_ind';
    intros Hwf Hc Hp arg n1 n2 Hn; cbn [assign_rtl sel_reads sigs_of wf_lhs] in *; try discriminate.
  - intros k Hk. unfold upd. destruct (Nat.eqb k i); [reflexivity|apply Hn; exact Hk].
  - destruct o; try discriminate; apply andb_prop in Hwf; destruct Hwf as [Hwa _]; apply IHa; auto.
  - repeat (apply andb_prop in Hwf; destruct Hwf as [Hwf ?]).
    rewrite (lread_ext c1 c2 n1 n2 a) by (auto; intros k Hk; apply Hn; auto). apply IHa; auto.
  - repeat (apply andb_prop in Hwf; destruct Hwf as [Hwf ?]).
    rewrite (lread_ext c1 c2 n1 n2 a) by (auto; intros k Hk; try (apply Hc; apply in_or_app; auto); apply Hn; auto).
    rewrite (eval_rtl_ext c1 c2 off) by (intros k Hk; apply Hc; apply in_or_app; auto).
    apply IHa; auto. intros k Hk; apply Hc; apply in_or_app; auto.
  - rewrite forallb_forall in Hwf. generalize 0 as offset. revert n1 n2 Hn.
    induction IH as [|p ps Hpp _ IHps]; intros n1 n2 Hn offset; [exact Hn|].
    cbn [flat_map] in Hc, Hp.
    apply IHps.
    + intros q Hq. apply Hwf. right. exact Hq.
    + intros k Hk. apply Hc. apply in_or_app. auto.
    + intros k Hk. apply Hp. apply in_or_app. auto.
    + apply Hpp; auto.
      * apply Hwf. left. reflexivity.
      * intros k Hk. apply Hc. apply in_or_app. auto.
      * intros k Hk. apply Hp. apply in_or_app. auto.
  - apply andb_prop in Hwf. destruct Hwf as [Hwt Hwcs]. rewrite forallb_forall in Hwcs.
    rewrite (eval_rtl_ext c1 c2 t) by (intros k Hk; apply Hc; apply in_or_app; auto).
    generalize (use_match (map fst cs)) as um. intros um. set (tv := rmask (ewidth t) (eval_rtl c2 t)).
    assert (Hc' : forall k, In k (flat_map (fun c => sel_reads (snd c)) cs) -> c1 k = c2 k)
      by (intros k Hk; apply Hc; apply in_or_app; auto).
    clear Hc. induction IHcs as [|x xs Hx _ IHxs]; [exact Hn|]. cbn [flat_map] in Hc', Hp.
    destruct (rtl_case_match um tv (fst x)).
    + pose proof (Hwcs x (or_introl eq_refl)) as Hwx. apply andb_prop in Hwx. destruct Hwx as [Hwx _].
      apply Hx; auto.
      * intros k Hk. apply Hc'. apply in_or_app. auto.
      * intros k Hk. apply Hp. apply in_or_app. auto.
    + apply IHxs.
      * intros y Hy. apply Hwcs. right. exact Hy.
      * intros k Hk. apply Hp. apply in_or_app. auto.
      * intros k Hk. apply Hc'. apply in_or_app. auto.
Qed.

(* ---------- statements ---------- *)
Lemma exec_list_frame_gen c (l : list stmt) :
  Forall (fun s => forall n k, ~ In k (stmt_tsigs s) -> exec_rtl c s n k = n k) l ->
  forall n k, ~ In k (flat_map stmt_tsigs l) -> exec_rtl_list c l n k = n k.
Proof.
  unfold exec_rtl_list. induction 1 as [|s l Hs _ IH]; intros n k Hk; [reflexivity|]. cbn [fold_left flat_map] in *.
  rewrite IH by (intros H; apply Hk; apply in_or_app; auto). apply Hs. intros H; apply Hk; apply in_or_app; auto.
Qed.

(* a statement leaves every signal it does not assign alone *)
Lemma exec_frame c s : forall n k, ~ In k (stmt_tsigs s) -> exec_rtl c s n k = n k.
Proof.
  induction s as [l r|t cs IH] using stmt_ind'; intros n k Hk; cbn [exec_rtl stmt_tsigs] in *.
  - apply assign_frame. exact Hk.
  - generalize (use_match (map fst cs)) as um. intros um. set (tv := rmask (ewidth t) (eval_rtl c t)).
    induction IH as [|x xs Hx _ IHxs]; [reflexivity|]. cbn [flat_map] in Hk.
    destruct (rtl_case_match um tv (fst x)).
    + rewrite exec_run_fold. apply exec_list_frame_gen; auto. intros H; apply Hk; apply in_or_app; auto.
    + apply IHxs. intros H; apply Hk; apply in_or_app; auto.
Qed.

Lemma exec_list_frame c l n k : ~ In k (flat_map stmt_tsigs l) -> exec_rtl_list c l n k = n k.
Proof. apply exec_list_frame_gen. apply Forall_forall. intros s _. apply exec_frame. Qed.

Lemma existsb_false_notin (P : nat -> bool) l : existsb P l = false -> forall k, P k = true -> ~ In k l.
Proof.
  intros H k Hk Hin. assert (existsb P l = true) by (apply existsb_exists; exists k; auto). congruence.
Qed.

Lemma exec_list_agree_gen Pc Pn c1 c2 (l : list stmt) :
  Forall (fun s => targets_wf s = true -> resp Pc Pn s = true ->
                   forall n1 n2, agree Pn n1 n2 -> agree Pn (exec_rtl c1 s n1) (exec_rtl c2 s n2)) l ->
  forallb targets_wf l = true -> forallb (resp Pc Pn) l = true ->
  forall n1 n2, agree Pn n1 n2 -> agree Pn (exec_rtl_list c1 l n1) (exec_rtl_list c2 l n2).
Proof.
  unfold exec_rtl_list. induction 1 as [|s l Hs _ IH]; intros Hwf Hr n1 n2 Hn; [exact Hn|]. cbn [fold_left forallb] in *.
  apply andb_prop in Hwf. apply andb_prop in Hr. destruct Hwf as [Hw1 Hw2], Hr as [Hr1 Hr2].
  apply IH; auto.
Qed.

(* two runs of a statement that respects (Pc, Pn), from `curr`s that agree on Pc and `next`s that agree on Pn, leave
   `next`s that agree on Pn *)
Theorem exec_agree Pc Pn c1 c2 s : agree Pc c1 c2 -> targets_wf s = true -> resp Pc Pn s = true ->
  forall n1 n2, agree Pn n1 n2 -> agree Pn (exec_rtl c1 s n1) (exec_rtl c2 s n2).
Proof.
  intros Hc. induction s as [l r|t cs IH] using stmt_ind'; intros Hwf Hr n1 n2 Hn.
  - cbn [exec_rtl targets_wf resp] in *. apply orb_prop in Hr. destruct Hr as [Hr|Hr].
    + apply negb_true_iff in Hr. intros k Hk. pose proof (existsb_false_notin Pn _ Hr k Hk) as Hni.
      rewrite !assign_frame by exact Hni. apply Hn. exact Hk.
    + apply andb_prop in Hr. destruct Hr as [Hr Hrr]. apply andb_prop in Hr. destruct Hr as [Hrt Hrs].
      rewrite forallb_forall in Hrt, Hrs, Hrr.
      rewrite (eval_rtl_ext c1 c2 r) by (intros k Hk; apply Hc; apply Hrr; exact Hk).
      apply assign_agree; auto; intros k Hk; apply Hc; apply Hrs; exact Hk.
  - cbn [resp] in Hr. apply orb_prop in Hr. destruct Hr as [Hr|Hr].
    + apply negb_true_iff in Hr. intros k Hk. pose proof (existsb_false_notin Pn _ Hr k Hk) as Hni.
      rewrite !exec_frame by exact Hni. apply Hn. exact Hk.
    + apply andb_prop in Hr. destruct Hr as [Hrt Hrc]. rewrite forallb_forall in Hrt.
      cbn [exec_rtl targets_wf] in *.
      rewrite (eval_rtl_ext c1 c2 t) by (intros k Hk; apply Hc; apply Hrt; exact Hk).
      generalize (use_match (map fst cs)) as um. intros um. set (tv := rmask (ewidth t) (eval_rtl c2 t)).
      induction IH as [|x xs Hx _ IHxs]; [exact Hn|]. cbn [forallb] in Hwf, Hrc.
      apply andb_prop in Hwf. apply andb_prop in Hrc. destruct Hwf as [Hw1 Hw2], Hrc as [Hr1 Hr2].
      destruct (rtl_case_match um tv (fst x)).
      * rewrite !exec_run_fold. apply (exec_list_agree_gen Pc Pn); auto.
      * apply IHxs; auto.
Qed.

Lemma exec_list_agree Pc Pn c1 c2 l : agree Pc c1 c2 -> forallb targets_wf l = true -> forallb (resp Pc Pn) l = true ->
  forall n1 n2, agree Pn n1 n2 -> agree Pn (exec_rtl_list c1 l n1) (exec_rtl_list c2 l n2).
Proof.
  intros Hc. apply exec_list_agree_gen. apply Forall_forall. intros s _ Hw Hr. apply (exec_agree Pc Pn); auto.
Qed.

(* ---------- the loop: a weaker semantic hypothesis ---------- *)
(* as settle_terminates, but a signal of rank > 0 may also depend on its own previous value as long as a second delta
   does not change it once the lower ranks are unchanged (partially driven signals keep their other bits) *)
Section SettleTerminates2.
  Variables (n : nat) (tab : sigtab) (mods : design).
  Variable Inv : slots -> Prop.
  Variable rank : nat -> nat.
  Variable R : nat.
  Let F (st : slots) : slots := commit (run_comb tab mods st).
  Hypothesis HinvF : forall st, Inv st -> Inv (F st).
  Hypothesis Hrank : forall i, (i < n)%nat -> (rank i <= R)%nat.
  Hypothesis Hund : forall st i, Inv st -> (i < n)%nat -> rank i = 0%nat -> s_curr (F st) i = s_curr st i.
  Hypothesis Hdep2 : forall st i, Inv st -> (i < n)%nat -> (0 < rank i)%nat ->
    (forall j, (j < n)%nat -> (rank j < rank i)%nat -> s_curr (F st) j = s_curr st j) ->
    s_curr (F (F st)) i = s_curr (F st) i.

  Lemma rank_stable2 st : Inv st -> forall L j i, (L <= j)%nat -> (i < n)%nat -> (rank i <= L)%nat ->
    s_curr (iterF tab mods (S j) st) i = s_curr (iterF tab mods j st) i.
  Proof.
    intros Hst. induction L as [|L IHL]; intros j i Hj Hi Hr.
    - rewrite iterF_S. apply Hund; [apply iterF_inv; auto|auto|lia].
    - destruct (Nat.eq_dec (rank i) (S L)) as [E|E]; [|apply IHL; lia].
      destruct j as [|j]; [lia|]. rewrite (iterF_S tab mods (S j)), (iterF_S tab mods j).
      apply Hdep2; [apply iterF_inv; auto|auto|lia|].
      intros k Hk Hrk. unfold F. rewrite <- iterF_S. apply IHL; lia.
  Qed.

  Theorem settle_terminates2 st fuel : Inv st -> (R < fuel)%nat -> snd (settle fuel n tab mods st) = true.
  Proof.
    intros Hst Hf. apply (settle_finds n tab mods fuel st R Hf). apply env_eqb_intro. intros i Hi.
    rewrite <- iterF_S. apply (rank_stable2 st Hst R R i); auto.
  Qed.
End SettleTerminates2.

(* ---------- one delta, signal by signal ---------- *)
Lemma slot_update_idem o v m : slot_update (slot_update o v m) v m = slot_update o v m.
Proof.
  apply Z.bits_inj'. intros b Hb. rewrite !testbit_slot_update. destruct (Z.testbit m b); reflexivity.
Qed.

Lemma run_comb_undriven tab mods i : (forall m, In m mods -> drives i (comb_of m) = false) ->
  forall st, s_next (run_comb tab mods st) i = s_next st i.
Proof.
  unfold run_comb. induction mods as [|m mods IH]; intros H st; [reflexivity|]. cbn [fold_left].
  rewrite IH by (intros m' Hm'; apply H; right; exact Hm').
  pose proof (H m (or_introl eq_refl)) as Hd. unfold drives, comb_of in Hd. apply negb_false_iff in Hd.
  unfold comb_process. cbn [s_next]. rewrite Hd. reflexivity.
Qed.

Lemma n_drivers_cons m mods i :
  n_drivers (m :: mods) i = ((if drives i (comb_of m) then 1 else 0) + n_drivers mods i)%nat.
Proof. unfold n_drivers. cbn [filter]. destruct (drives i (comb_of m)); reflexivity. Qed.

Lemma n_drivers_zero mods i : n_drivers mods i = 0%nat -> forall m, In m mods -> drives i (comb_of m) = false.
Proof.
  induction mods as [|m0 mods IH]; intros H m Hm; [destruct Hm|]. rewrite n_drivers_cons in H.
  destruct (drives i (comb_of m0)) eqn:E; [lia|]. destruct Hm as [<-|Hm]; [exact E|]. apply IH; [lia|exact Hm].
Qed.

(* a signal with exactly one driving module: after the comb processes its `next` is its old `next` updated, under a
   mask, with a value that depends on `curr` only at Pc *)
Lemma run_comb_driven tab Pc (rank : nat -> nat) r mods i :
  n_drivers mods i = 1%nat -> rank i = r ->
  (forall m, In m mods -> forallb targets_wf (comb_of m) = true /\
     forallb (resp Pc (fun k => drives k (comb_of m) && Nat.eqb (rank k) r)) (comb_of m) = true) ->
  exists (g : env -> Z) (M : Z), (forall c1 c2, agree Pc c1 c2 -> g c1 = g c2) /\
    forall st, s_next (run_comb tab mods st) i = slot_update (s_next st i) (g (s_curr st)) M.
Proof.
  intros Hn Hr. induction mods as [|m mods IH]; intros Hok; [discriminate|].
  rewrite n_drivers_cons in Hn. destruct (Hok m (or_introl eq_refl)) as [Hwf Hresp].
  destruct (drives i (comb_of m)) eqn:Ed.
  - (* the head module drives i *)
    set (Pn := fun k => drives k (comb_of m) && Nat.eqb (rank k) r) in *.
    set (nxc := fun k => if stmts_mask (comb_of m) k =? 0 then 0 else sd_init (tab k)).
    exists (fun c => exec_rtl_list c (comb_of m) nxc i), (update_mask (sd_shape (tab i)) (stmts_mask (comb_of m) i)).
    assert (Hpi : Pn i = true) by (unfold Pn; rewrite Ed, Hr, Nat.eqb_refl; reflexivity).
    split.
    + intros c1 c2 Hc. apply (exec_list_agree Pc Pn c1 c2 (comb_of m) Hc Hwf Hresp nxc nxc); [intros k _; reflexivity|exact Hpi].
    + intros st. unfold run_comb. cbn [fold_left]. fold (run_comb tab mods (comb_process tab (nth 0 m []) st)).
      rewrite run_comb_undriven by (apply n_drivers_zero; lia).
      unfold comb_process. cbn [s_next s_curr]. fold (comb_of m).
      unfold drives in Ed. apply negb_true_iff in Ed. rewrite Ed. f_equal.
      apply (exec_list_agree Pc Pn (s_curr st) (s_curr st) (comb_of m)); auto; [intros k _; reflexivity|].
      intros k Hk. unfold Pn, drives in Hk. apply andb_prop in Hk. destruct Hk as [Hk _]. apply negb_true_iff in Hk.
      unfold nxc. rewrite Hk. reflexivity.
  - (* it does not: the rest of the list does *)
    destruct IH as (g & M & Hg & Hst); [lia|intros m' Hm'; apply Hok; right; exact Hm'|].
    exists g, M. split; [exact Hg|]. intros st. unfold run_comb. cbn [fold_left].
    fold (run_comb tab mods (comb_process tab (nth 0 m []) st)). rewrite Hst.
    unfold comb_process at 1 2. cbn [s_next s_curr]. fold (comb_of m).
    unfold drives in Ed. apply negb_false_iff in Ed. rewrite Ed. reflexivity.
Qed.

(* ---------- the check implies termination ---------- *)
Theorem settle_terminates_acyclic n tab rank R mods : acyclic_ok n rank R mods = true ->
  forall st fuel, (forall k, s_next st k = s_curr st k) -> (R < fuel)%nat -> snd (settle fuel n tab mods st) = true.
Proof.
  intros Hok st fuel Hst Hf. unfold acyclic_ok in Hok.
  apply andb_prop in Hok. destruct Hok as [Hok Hlev]. apply andb_prop in Hok. destruct Hok as [Hwf Hsig].
  rewrite forallb_forall in Hwf, Hsig, Hlev.
  assert (Hs : forall i, (i < n)%nat -> (n_drivers mods i <= 1)%nat /\ (rank i <= R)%nat /\
                                          (rank i = 0%nat <-> n_drivers mods i = 0%nat)).
  { intros i Hi. specialize (Hsig i). rewrite in_seq in Hsig. specialize (Hsig ltac:(lia)).
    apply andb_prop in Hsig. destruct Hsig as [Hsig He]. apply andb_prop in Hsig. destruct Hsig as [H1 H2].
    apply Nat.leb_le in H1. apply Nat.leb_le in H2. apply Bool.eqb_prop in He.
    split; [exact H1|]. split; [exact H2|]. rewrite <- !Nat.eqb_eq. rewrite He. reflexivity. }
  apply (settle_terminates2 n tab mods (fun s => forall k, s_next s k = s_curr s k) rank R); [| | | |exact Hst|exact Hf].
  - intros s _ k. reflexivity.
  - intros i Hi. apply Hs. exact Hi.
  - intros s i Hinv Hi Hr. cbn [commit s_curr]. rewrite run_comb_undriven; [apply Hinv|].
    apply n_drivers_zero. apply (Hs i Hi). exact Hr.
  - intros s i Hinv Hi Hr Hlow.
    destruct (Hs i Hi) as (H1 & H2 & H3).
    assert (Hn1 : n_drivers mods i = 1%nat) by (destruct (n_drivers mods i) as [|[|?]]; [apply H3 in H1 || (exfalso; lia)| reflexivity | lia]; lia).
    set (Pc := fun k => Nat.ltb k n && Nat.ltb (rank k) (rank i)).
    destruct (run_comb_driven tab Pc rank (rank i) mods i Hn1 eq_refl) as (g & M & Hg & Hval).
    { intros m Hm. split; [apply Hwf; exact Hm|].
      assert (Hin : In (rank i) (seq 1 R)) by (apply in_seq; lia).
      specialize (Hlev (rank i) Hin). rewrite forallb_forall in Hlev. apply Hlev. exact Hm. }
    cbn [commit s_curr]. rewrite !Hval. cbn [commit s_curr s_next].
    rewrite (Hg (s_next (run_comb tab mods s)) (s_curr s)).
    + rewrite Hval. apply slot_update_idem.
    + intros k Hk. unfold Pc in Hk. apply andb_prop in Hk. destruct Hk as [Hk1 Hk2].
      apply Nat.ltb_lt in Hk1. apply Nat.ltb_lt in Hk2. exact (Hlow k Hk1 Hk2).
Qed.

(* with the ranking the model computes *)
Theorem settle_terminates_auto n tab mods R : acyclic_auto n mods = (true, R) ->
  forall st fuel, (forall k, s_next st k = s_curr st k) -> (R < fuel)%nat -> snd (settle fuel n tab mods st) = true.
Proof.
  unfold acyclic_auto. intros H. injection H as Hok HR. subst R.
  exact (settle_terminates_acyclic n tab _ _ mods Hok).
Qed.

(* non-vacuity: three levels over two modules.  x = signal 0 (input), module 1: a = ~x, c = (a if b else x) as a Switch
   on b; module 2: b = a & x.   ranks: a 1, b 2, c 3 *)
Definition ex3_x := ESig 0 (Sh 1 false).
Definition ex3_a := ESig 1 (Sh 1 false).
Definition ex3_b := ESig 2 (Sh 1 false).
Definition ex3_c := ESig 3 (Sh 1 false).
Definition ex3_mods : design :=
  [ [[SAssign ex3_a (EOp1 ONot ex3_x);
      SSwitch ex3_b [(Some [[Some true]], [SAssign ex3_c ex3_a]); (None, [SAssign ex3_c ex3_x])]]];
    [[SAssign ex3_b (EOp2 OAnd ex3_a ex3_x)]] ].
Example acyclic_example : acyclic_auto 4 ex3_mods = (true, 3%nat) /\ compute_rank 4 ex3_mods = [0; 1; 2; 3]%nat.
Proof. vm_compute. split; reflexivity. Qed.
(* a loop is rejected: a = ~b, b = a *)
Example cyclic_example :
  fst (acyclic_auto 3 [[[SAssign ex3_a (EOp1 ONot ex3_b); SAssign ex3_b ex3_a]]]) = false.
Proof. vm_compute. reflexivity. Qed.

(* DslRawP.v — C02: designs as written in the DSL (Model/DslRaw.v): FSM tables, the delta-cycle loop, start / restart
   of an FSM, m.next. *)
From Coq Require Import ZArith List Bool Lia ZifyBool.
From V.Model Require Import Bits Shape Ast Denote PyRTL PyEval Stmt Process Derived Dsl DslRaw.
From V.Proofs Require Import BitsP ShapeP ExprP StmtP ProcessP DerivedP DslP.
Import ListNotations.
Open Scope Z_scope.

(* ---------- the encoding does not depend on which signals ongoing() creates ---------- *)
Lemma fsm_ref_fst st1 st2 s f1 f2 : fst st1 = fst st2 -> fst (fsm_ref st1 s f1) = fst (fsm_ref st2 s f2).
Proof.
  intros H. unfold fsm_ref. rewrite H. destruct (assoc_get (fst st2) s); [exact H|]. reflexivity.
Qed.

Lemma fold_fsm_ref_fst (g1 g2 : nat -> nat) refs : forall st1 st2, fst st1 = fst st2 ->
  fst (fold_left (fun st s => fsm_ref st s (g1 s)) refs st1) = fst (fold_left (fun st s => fsm_ref st s (g2 s)) refs st2).
Proof.
  induction refs as [|r refs IH]; intros st1 st2 H; simpl; [exact H|]. apply IH. apply fsm_ref_fst. exact H.
Qed.

Theorem fsm_tables_encoding f : fst (fsm_tables f) = fsm_encoding (fsm_refs f).
Proof. unfold fsm_tables, fsm_encoding. apply (fold_fsm_ref_fst (og_id f) (fun _ => O)). reflexivity. Qed.

(* ---------- the delta-cycle loop ---------- *)
Lemma run_comb_curr tab mods : forall st, s_curr (run_comb tab mods st) = s_curr st.
Proof. unfold run_comb. induction mods as [|m mods IH]; intros st; simpl; [reflexivity|]. rewrite IH. reflexivity. Qed.

(* when settle reports convergence, the state it returns is one delta (all comb processes, then commit) after a
   state with the same signal values: the simulator's stopping condition (a commit that changes nothing) *)
Theorem settle_converged fuel n tab mods st st' : settle fuel n tab mods st = (st', true) ->
  exists st0, st' = commit (run_comb tab mods st0) /\ env_eqb n (s_curr st') (s_curr st0) = true.
Proof.
  revert st. induction fuel as [|f IH]; intros st H; [discriminate|]. cbn [settle] in H. cbv zeta in H.
  destruct (env_eqb n (s_curr (commit (run_comb tab mods st))) (s_curr st)) eqn:E.
  - injection H as <-. exists st. split; [reflexivity|exact E].
  - apply IH in H. exact H.
Qed.

Lemma env_eqb_spec n a b : env_eqb n a b = true -> forall i, (i < n)%nat -> a i = b i.
Proof.
  unfold env_eqb. rewrite forallb_forall. intros H i Hi. specialize (H i). rewrite in_seq in H.
  apply Z.eqb_eq. apply H. lia.
Qed.

(* what the comb processes of all modules leave in `next`: for every module in turn, the bits its statements can
   drive are init overridden by its active assignments (last wins); the other bits are left alone *)
Fixpoint comb_bit (tab : sigtab) (curr : env) (mods : design) (i : nat) (b : Z) (dflt : bool) : bool :=
  match mods with
  | [] => dflt
  | m :: r =>
      comb_bit tab curr r i b
        (if Z.testbit (stmts_mask (nth 0 m []) i) b then
           match last_writer curr (active_list curr (nth 0 m [])) i b with
           | Some (k, e) => Z.testbit (denote curr e) k
           | None => Z.testbit (sd_init (tab i)) b
           end
         else dflt)
  end.

Definition mods_ok (ss : nat -> shape) (curr : env) (mods : design) : Prop :=
  Forall (fun m => forallb wf_stmt (nth 0 m []) = true /\ Forall (stmt_ok ss curr) (nth 0 m [])) mods.

Theorem run_comb_spec ss tab mods : design_ok ss tab -> forall st, mods_ok ss (s_curr st) mods ->
  forall i b, 0 <= b < width (ss i) ->
  Z.testbit (s_next (run_comb tab mods st) i) b = comb_bit tab (s_curr st) mods i b (Z.testbit (s_next st i) b).
Proof.
  intros Hd. unfold run_comb. induction mods as [|m mods IH]; intros st Hok i b Hb; [reflexivity|].
  inversion Hok as [|? ? [Hwf Hso] Hrest]; subst. simpl fold_left.
  rewrite IH by (auto). cbn [comb_bit]. f_equal.
  apply (comb_process_spec ss tab (nth 0 m []) st Hd Hwf Hso i b Hb).
Qed.

(* the settled state satisfies the comb equations: every bit is what one delta computes from signal values that
   are the settled ones on all n signals of the design *)
Theorem settled_comb_spec ss tab fuel n mods st st' : design_ok ss tab ->
  settle fuel n tab mods st = (st', true) ->
  exists st0, (forall i, (i < n)%nat -> s_curr st' i = s_curr st0 i) /\
    (mods_ok ss (s_curr st0) mods ->
     forall i b, 0 <= b < width (ss i) ->
     Z.testbit (s_curr st' i) b = comb_bit tab (s_curr st0) mods i b (Z.testbit (s_next st0 i) b)).
Proof.
  intros Hd H. destruct (settle_converged _ _ _ _ _ _ H) as (st0 & -> & E). exists st0. split.
  - apply env_eqb_spec. exact E.
  - intros Hok i b Hb. cbn [commit s_curr]. apply (run_comb_spec ss tab mods Hd st0 Hok i b Hb).
Qed.

(* ---------- FSM: start and restart ---------- *)
(* the init value of the state register is the code of the initial state: init= if given, else the first state *)
Theorem pop_fsm_init_code reg_id init enc dec0 (states : list (nat * list stmt)) og reg iv ogs sw sb0 rest :
  states = sb0 :: rest ->
  pop_fsm reg_id init enc dec0 states og = Some (reg, iv, ogs, sw) ->
  assoc_get enc (match init with Some s => s | None => fst sb0 end) = Some iv.
Proof.
  intros -> H. unfold pop_fsm in H.
  destruct (fsm_init_value init enc (sb0 :: rest)) as [iv'|] eqn:Ei; [|discriminate].
  destruct (fsm_ongoing_stmts _ enc og); [|discriminate]. destruct (lower_fsm _ enc (sb0 :: rest)); [|discriminate].
  injection H as _ <- _ _. unfold fsm_init_value in Ei. destruct init; exact Ei.
Qed.

(* START: whenever the state register holds its init value — at time 0 by construction of the signal table, and after
   a reset (next theorem) — the FSM Switch makes active exactly the body of the initial state *)
Theorem fsm_starts_in_initial_state curr reg_id init refs states og reg iv ogs sw sb0 rest body :
  states = sb0 :: rest ->
  pop_fsm reg_id init (fsm_encoding refs) [] states og = Some (reg, iv, ogs, [sw]) ->
  NoDup (map fst states) -> (forall s', In s' (map fst states) -> In s' refs) ->
  env_ok curr reg -> denote curr reg = iv ->
  In (match init with Some s => s | None => fst sb0 end, body) states ->
  active curr sw = active_list curr body.
Proof.
  intros Hst Hpop Hnd Hdef Henv Hv Hin.
  pose proof (pop_fsm_init_code _ _ _ _ _ _ _ _ _ _ _ _ Hst Hpop) as Hc. rewrite <- Hv in Hc.
  exact (proj2 (proj2 (proj2 (pop_fsm_active curr reg_id init refs states og reg iv ogs sw _ body Hpop Hnd Hdef Henv Hin Hc)))).
Qed.

(* RESTART: a clock-domain process that runs with the domain's reset asserted leaves every signal that is not
   reset-less with its init value (driven bits are reset; undriven bits never left it) *)
Theorem sync_reset_restores_init ss tab l r st i : design_ok ss tab ->
  forallb wf_stmt l = true -> Forall (stmt_ok ss (s_curr st)) l ->
  negb (Z.land 1 (s_curr st r) =? 0) = true -> sd_reset_less (tab i) = false ->
  (forall b, 0 <= b < width (ss i) -> Z.testbit (stmts_mask l i) b = false ->
             Z.testbit (s_next st i) b = Z.testbit (sd_init (tab i)) b) ->
  forall b, 0 <= b < width (ss i) ->
  Z.testbit (s_next (sync_process tab l (Some r) st) i) b = Z.testbit (sd_init (tab i)) b.
Proof.
  intros Hd Hwf Hok Hr Hrl Hund b Hb.
  rewrite (sync_process_spec ss tab l (Some r) st Hd Hwf Hok i b Hb). cbv zeta. rewrite Hr, Hrl. cbn [negb andb].
  destruct (Z.testbit (stmts_mask l i) b) eqn:E; [reflexivity|]. apply Hund; auto.
Qed.

(* bits no statement of the process can drive are never changed by it (so "undriven bits hold init" is invariant) *)
Theorem sync_undriven_unchanged ss tab l rst st i b : design_ok ss tab ->
  forallb wf_stmt l = true -> Forall (stmt_ok ss (s_curr st)) l ->
  0 <= b < width (ss i) -> Z.testbit (stmts_mask l i) b = false ->
  Z.testbit (s_next (sync_process tab l rst st) i) b = Z.testbit (s_next st i) b.
Proof.
  intros Hd Hwf Hok Hb Hm. rewrite (sync_process_spec ss tab l rst st Hd Hwf Hok i b Hb). cbv zeta. rewrite Hm. reflexivity.
Qed.

(* the rising edge of an ASYNCHRONOUS reset alone: every driven bit of a signal that is not reset-less takes its init
   value at once, nothing else changes (the statements do not run) *)
Theorem async_reset_spec ss tab l st i b : design_ok ss tab -> 0 <= b < width (ss i) ->
  Z.testbit (s_next (async_reset_process tab l st) i) b =
  if Z.testbit (stmts_mask l i) b && negb (sd_reset_less (tab i)) then Z.testbit (sd_init (tab i)) b
  else Z.testbit (s_next st i) b.
Proof.
  intros Hd Hb. destruct (Hd i) as [Hsh Hwf]. unfold async_reset_process. cbn [s_next].
  destruct (stmts_mask l i =? 0) eqn:E0.
  - apply Z.eqb_eq in E0. rewrite E0, Z.bits_0. reflexivity.
  - destruct (sd_reset_less (tab i)); cbn [orb negb]; [rewrite andb_false_r; reflexivity|].
    rewrite testbit_slot_update, Hsh, testbit_update_mask by auto. rewrite andb_true_r.
    destruct (Z.testbit (stmts_mask l i) b); reflexivity.
Qed.

(* ---------- m.next = s ---------- *)
(* inside a state of an FSM in domain d, `m.next = s` is, in domain d, the assignment of the code of s to the state
   register (nothing in the other domains); outside an FSM it is a SyntaxError *)
Theorem rproj_next reg d enc s k dom : assoc_get enc s = Some k ->
  rproj (Some (reg, d, enc)) dom (RNext s) = inl (if Nat.eqb d dom then [DAssign reg (mk_const_auto k)] else []).
Proof. intros H. simpl. rewrite H. reflexivity. Qed.
Theorem rproj_next_outside dom s : rproj None dom (RNext s) = inr E_SYNTAX.
Proof. reflexivity. Qed.

(* the value assigned is the code itself *)
Theorem next_value curr k : denote curr (mk_const_auto k) = k.
Proof. unfold mk_const_auto. simpl. apply norm_id; [apply const_shape_wf|apply const_shape_fits]. Qed.

(* ---------- Case patterns as the user writes them ---------- *)
Lemma in_range_cong_eq s x y : wf_shape s = true -> in_range s x -> in_range s y ->
  x mod 2 ^ width s = y mod 2 ^ width s -> x = y.
Proof.
  intros Hwf Hx Hy He. unfold wf_shape, in_range in *.
  assert (Hw : 0 <= width s) by (destruct (sgn s); lia).
  pose proof (pow2_pos (width s) Hw) as Hp.
  assert (Hd : (x - y) mod 2 ^ width s = 0) by (rewrite Zminus_mod, He, Z.sub_diag; apply Z.mod_0_l; lia).
  apply Z.mod_divide in Hd; [|lia]. destruct Hd as [q Hq].
  destruct (sgn s).
  - assert (Hh : 2 ^ width s = 2 * 2 ^ (width s - 1)).
    { replace (width s) with (width s - 1 + 1) at 1 by lia. rewrite Z.pow_add_r by lia. change (2 ^ 1) with 2. lia. }
    rewrite Hh in Hq. set (h := 2 ^ (width s - 1)) in *.
    assert (Hq0 : q = 0) by (assert (-1 < q < 1) by nia; lia). subst q. lia.
  - set (m := 2 ^ width s) in *. assert (Hq0 : q = 0) by (assert (-1 < q < 1) by nia; lia). subst q. lia.
Qed.

(* an int (or Enum member) pattern that the test's shape represents matches exactly when the test has that value;
   one it does not represent is dropped (the Case never matches through it) *)
Theorem int_pattern_matches curr t v : wf_expr t = true -> env_ok curr t ->
  match normalize_pattern (shape_of t) (RInt v) with
  | Some (Some p) => pat_sem (pat_of_npat (ewidth t) p) (denote curr t mod 2 ^ ewidth t) = (denote curr t =? v)
  | Some None => in_range (shape_of t) v -> False
  | None => False
  end.
Proof.
  intros Hwf Henv. destruct (shape_sound curr t Hwf Henv) as [Hws Hr].
  unfold normalize_pattern. rewrite const_norm_spec by exact Hws.
  destruct (norm (shape_of t) v =? v) eqn:E; cbn [negb].
  - apply Z.eqb_eq in E. assert (Hv : in_range (shape_of t) v) by (rewrite <- E; apply norm_in_range; exact Hws).
    cbn [pat_of_npat]. unfold bin_pattern. rewrite bin_pattern_nat_sem.
    assert (Hw : 0 <= ewidth t) by (unfold ewidth, wf_shape in *; destruct (sgn (shape_of t)); lia).
    rewrite Z2Nat.id by exact Hw. rewrite Z.mod_mod by (pose proof (pow2_pos (ewidth t) Hw); lia).
    destruct (denote curr t =? v) eqn:Ed.
    + apply Z.eqb_eq in Ed. rewrite Ed. apply Z.eqb_refl.
    + apply Z.eqb_neq. intros Hm. apply Z.eqb_neq in Ed. apply Ed.
      apply (in_range_cong_eq (shape_of t)); auto.
  - intros Hv. apply Z.eqb_neq in E. apply E. apply norm_id; auto.
Qed.

(* a string pattern: whitespace is removed, every other character must be 0, 1 or -, and the length must be the
   width of the test (otherwise SyntaxError) *)
Theorem str_pattern_normalised sh s :
  normalize_pattern sh (RStr s) =
  if existsb (fun c => negb (pchar_legal c)) s then None
  else if Z.of_nat (length (pchar_strip s)) =? width sh then Some (Some (NStr (pat_of_chars (pchar_strip s)))) else None.
Proof. unfold normalize_pattern. destruct (existsb _ s); [reflexivity|]. destruct (_ =? width sh); reflexivity. Qed.

(* ---------- the loop terminates for designs without combinational loops ---------- *)
(* "No combinational loop", semantically: the signals of the design can be ranked so that a signal of rank 0 is not
   changed by a delta, and the value a delta gives a signal of rank > 0 depends only on the signals of lower rank
   (states are restricted to an invariant of the loop, e.g. normalised values).  Then R + 1 deltas reach the fixpoint,
   R the largest rank: settle reports convergence whenever its fuel exceeds R. *)
Section SettleTerminates.
  Variables (n : nat) (tab : sigtab) (mods : design).
  Variable Inv : slots -> Prop.
  Variable rank : nat -> nat.
  Variable R : nat.
  Let F (st : slots) : slots := commit (run_comb tab mods st).
  Hypothesis HinvF : forall st, Inv st -> Inv (F st).
  Hypothesis Hrank : forall i, (i < n)%nat -> (rank i <= R)%nat.
  Hypothesis Hund : forall st i, Inv st -> (i < n)%nat -> rank i = 0%nat -> s_curr (F st) i = s_curr st i.
  Hypothesis Hdep : forall st1 st2 i, Inv st1 -> Inv st2 -> (i < n)%nat -> (0 < rank i)%nat ->
    (forall j, (j < n)%nat -> (rank j < rank i)%nat -> s_curr st1 j = s_curr st2 j) ->
    s_curr (F st1) i = s_curr (F st2) i.

  Fixpoint iterF (j : nat) (st : slots) : slots := match j with O => st | S j' => iterF j' (F st) end.

  Lemma iterF_S j : forall st, iterF (S j) st = F (iterF j st).
  Proof. induction j as [|j IH]; intros st; [reflexivity|]. change (iterF (S (S j)) st) with (iterF (S j) (F st)). rewrite IH. reflexivity. Qed.

  Lemma iterF_inv j : forall st, Inv st -> Inv (iterF j st).
  Proof. induction j as [|j IH]; intros st H; simpl; auto. Qed.

  (* after L deltas the signals of rank <= L no longer change *)
  Lemma rank_stable st : Inv st -> forall L j i, (L <= j)%nat -> (i < n)%nat -> (rank i <= L)%nat ->
    s_curr (iterF j st) i = s_curr (iterF L st) i.
  Proof.
    intros Hst. induction L as [|L IHL]; intros j i Hj Hi Hr.
    - induction j as [|j IHj]; [reflexivity|]. rewrite iterF_S. rewrite Hund by (auto using iterF_inv; lia).
      apply IHj. lia.
    - destruct (Nat.eq_dec (rank i) (S L)) as [E|E].
      + destruct j as [|j]; [lia|]. rewrite !iterF_S. apply Hdep; auto using iterF_inv; [lia|].
        intros k Hk Hrk. rewrite (IHL j k) by lia. reflexivity.
      + rewrite (IHL j i) by lia. symmetry. apply IHL; lia.
  Qed.

  Lemma env_eqb_intro (a b : env) : (forall i, (i < n)%nat -> a i = b i) -> env_eqb n a b = true.
  Proof.
    intros H. unfold env_eqb. apply forallb_forall. intros i Hi. apply in_seq in Hi. apply Z.eqb_eq. apply H. lia.
  Qed.

  Lemma settle_finds fuel : forall st m, (m < fuel)%nat ->
    env_eqb n (s_curr (F (iterF m st))) (s_curr (iterF m st)) = true -> snd (settle fuel n tab mods st) = true.
  Proof.
    induction fuel as [|f IH]; intros st m Hm He; [lia|]. cbn [settle]. cbv zeta. fold (F st).
    destruct (env_eqb n (s_curr (F st)) (s_curr st)) eqn:E; [reflexivity|].
    destruct m as [|m]; [cbn [iterF] in He; rewrite He in E; discriminate|]. cbn [iterF] in He. apply (IH (F st) m); [lia|exact He].
  Qed.

  Theorem settle_terminates st fuel : Inv st -> (R < fuel)%nat -> snd (settle fuel n tab mods st) = true.
  Proof.
    intros Hst Hf. apply (settle_finds fuel st R Hf). apply env_eqb_intro. intros i Hi.
    rewrite <- iterF_S. apply (rank_stable st Hst R (S R) i); auto.
  Qed.
End SettleTerminates.

(* non-vacuity of settle_terminates: y = ~x (signals 0 = x, 1 = y, one bit each) *)
Definition ex_tab : sigtab := base_tab [mk_sd (Sh 1 false) 0 false; mk_sd (Sh 1 false) 0 false].
Definition ex_mods : design := [[[SAssign (ESig 1 (Sh 1 false)) (EOp1 ONot (ESig 0 (Sh 1 false)))]]].
Definition ex_inv (st : slots) : Prop :=
  (forall i, s_next st i = s_curr st i) /\ (s_curr st 1%nat = 0 \/ s_curr st 1%nat = 1).
Definition ex_rank (i : nat) : nat := match i with 1%nat => 1%nat | _ => 0%nat end.

Lemma ex_delta_y st : exists v, s_curr (commit (run_comb ex_tab ex_mods st)) 1%nat = slot_update (s_next st 1%nat) v 1 /\
  forall st', s_curr st' 0%nat = s_curr st 0%nat ->
    s_curr (commit (run_comb ex_tab ex_mods st')) 1%nat = slot_update (s_next st' 1%nat) v 1.
Proof.
  eexists. split.
  - unfold ex_mods, ex_tab, run_comb. cbn [fold_left nth commit s_curr s_next comb_process]. unfold stmts_mask. cbn. reflexivity.
  - intros st' H. unfold ex_mods, ex_tab, run_comb. cbn [fold_left nth commit s_curr s_next comb_process]. unfold stmts_mask. cbn.
    rewrite H. reflexivity.
Qed.

Lemma slot_update_bit x v : x = 0 \/ x = 1 -> slot_update x v 1 = Z.land v 1.
Proof. intros [-> | ->]; unfold slot_update; cbn; [reflexivity|]. reflexivity. Qed.

Example settle_terminates_example st fuel : ex_inv st -> (1 < fuel)%nat -> snd (settle fuel 2 ex_tab ex_mods st) = true.
Proof.
  intros Hst Hf. apply (settle_terminates 2 ex_tab ex_mods ex_inv ex_rank 1); auto.
  - intros s [Hn Hy]. split; [intros i; reflexivity|].
    destruct (ex_delta_y s) as (v & Hv & _). rewrite Hv, slot_update_bit by (rewrite Hn; exact Hy).
    replace (Z.land v 1) with (v mod 2) by (change 1 with (Z.ones 1); rewrite Z.land_ones by lia; reflexivity).
    pose proof (Z.mod_pos_bound v 2 ltac:(lia)). lia.
  - intros [|[|i]] Hi; simpl; lia.
  - intros s i [Hn _] Hi Hr. destruct i as [|[|i]]; [|discriminate|lia].
    rewrite <- (Hn 0%nat). reflexivity.
  - intros s1 s2 i [Hn1 Hy1] [Hn2 Hy2] Hi Hr Hlow. destruct i as [|[|i]]; [simpl in Hr; lia| |lia].
    destruct (ex_delta_y s2) as (v & Hv & Hv'). rewrite Hv, (Hv' s1) by (apply Hlow; simpl; lia).
    rewrite !slot_update_bit by (rewrite ?Hn1, ?Hn2; assumption). reflexivity.
Qed.

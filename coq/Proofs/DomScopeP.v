(* Proofs about Model/DomScope.v: the state-restoring visitor equals lexical scoping; the visitor without the restore
   does not; propagation implements "innermost enclosing definition". *)
From Coq Require Import List Arith Bool ZArith Lia.
From V.Model Require Import DomScope.
Import ListNotations.

Section DtreeInd.
  Variable P : dtree -> Prop.
  Hypothesis H : forall defs uses subs, Forall P subs -> P (DN defs uses subs).
  Fixpoint dtree_ind' (t : dtree) : P t :=
    match t with
    | DN defs uses subs =>
        H defs uses subs
          ((fix go (l : list dtree) : Forall P l :=
              match l with
              | [] => Forall_nil P
              | x :: r => Forall_cons x (dtree_ind' x) (go r)
              end) subs)
    end.
End DtreeInd.

(* the local loop of `lower` over subfragments, as a top-level function *)
Fixpoint lower_list (l : list dtree) (s : denv) : list (option nat) * denv :=
  match l with
  | [] => ([], s)
  | x :: r => let (a, s1) := lower x s in let (b, s2) := lower_list r s1 in (a ++ b, s2)
  end.

Lemma lower_unfold defs uses subs st :
  lower (DN defs uses subs) st =
  let (rs, st2) := lower_list subs defs in (map (dlookup st2) uses ++ rs, st).
Proof.
  cbn [lower].
  assert (E : forall l s,
      (fix go (l : list dtree) (s : denv) {struct l} : list (option nat) * denv :=
         match l with
         | [] => ([], s)
         | x :: r => let (a, s1) := lower x s in let (b, s2) := go r s1 in (a ++ b, s2)
         end) l s = lower_list l s).
  { induction l as [|x r IH]; intros s; cbn [lower_list]; [reflexivity|].
    destruct (lower x s) as [a s1]. rewrite IH. reflexivity. }
  rewrite E. reflexivity.
Qed.

Lemma lower_list_scoped l :
  Forall (fun t => forall st, lower t st = (scoped t, st)) l ->
  forall s, lower_list l s = (flat_map scoped l, s).
Proof.
  induction 1 as [|x r Hx Hr IH]; intros s; cbn [lower_list flat_map]; [reflexivity|].
  rewrite Hx, IH. reflexivity.
Qed.

(* MAIN: for every hierarchy and every incoming visitor state, the visitor resolves every late-bound signal in the
   table of the fragment that contains it, and leaves the caller's table in place *)
Theorem lower_scoped : forall t st, lower t st = (scoped t, st).
Proof.
  induction t as [defs uses subs IH] using dtree_ind'; intros st.
  rewrite lower_unfold, (lower_list_scoped subs IH). reflexivity.
Qed.

Lemma dlookup_app a b n :
  dlookup (a ++ b) n = match dlookup a n with Some i => Some i | None => dlookup b n end.
Proof.
  induction a as [|[k v] a IH]; cbn [dlookup app]; [reflexivity|].
  destruct (Nat.eqb k n); [reflexivity|exact IH].
Qed.

Lemma dlookup_filter_absent own parent n :
  dlookup own n = None ->
  dlookup (filter (fun kv => match dlookup own (fst kv) with Some _ => false | None => true end) parent) n
  = dlookup parent n.
Proof.
  intros Hn. induction parent as [|[k v] p IH]; cbn [filter dlookup fst]; [reflexivity|].
  destruct (Nat.eqb k n) eqn:E.
  - apply Nat.eqb_eq in E. subst k. rewrite Hn. cbn [dlookup]. rewrite Nat.eqb_refl. reflexivity.
  - destruct (dlookup own k); [exact IH|]. cbn [dlookup]. rewrite E. exact IH.
Qed.

Lemma dlookup_dmerge own parent n :
  dlookup (dmerge own parent) n = match dlookup own n with Some i => Some i | None => dlookup parent n end.
Proof.
  unfold dmerge. rewrite dlookup_app. destruct (dlookup own n) eqn:E; [reflexivity|].
  apply dlookup_filter_absent. exact E.
Qed.

(* propagation = innermost enclosing definition, at every depth *)
Theorem scoped_prop_down_innermost : forall t parent, scoped (prop_down parent t) = innermost parent t.
Proof.
  induction t as [defs uses subs IH] using dtree_ind'; intros parent.
  cbn [prop_down scoped innermost]. f_equal.
  - apply map_ext. intros n. apply dlookup_dmerge.
  - induction IH as [|x r Hx Hr IHr]; cbn [map flat_map]; [reflexivity|].
    rewrite Hx, IHr. reflexivity.
Qed.

Theorem prepare_resolve_innermost : forall top, prepare_resolve top = innermost [] top.
Proof.
  intros top. unfold prepare_resolve. rewrite lower_scoped. cbn [fst]. apply scoped_prop_down_innermost.
Qed.

(* the visitor without the restore: a parent whose only subfragment redefines domain 0 *)
Definition leak_witness : dtree := DN [(0, 10)] [0] [DN [(0, 11)] [0] []].

Theorem lower_leaky_refuted :
  prepare_resolve_leaky leak_witness = [Some 11; Some 11] /\ innermost [] leak_witness = [Some 10; Some 11].
Proof. split; vm_compute; reflexivity. Qed.

(* ---------------------------------------------------------------------------------------------------------------
   prepare leaves the user's fragments as it found them *)
Lemma existsb_eqb_In n ns : existsb (Nat.eqb n) ns = true <-> In n ns.
Proof.
  rewrite existsb_exists. split.
  - intros [x [Hx E]]. apply Nat.eqb_eq in E. subst. exact Hx.
  - intros H. exists n. split; [exact H|apply Nat.eqb_refl].
Qed.

Lemma dlookup_some_in own k : (exists v, In (k, v) own) -> dlookup own k <> None.
Proof.
  intros [v Hin]. induction own as [|[k' v'] r IH]; [destruct Hin|].
  cbn [dlookup]. destruct (Nat.eqb k' k) eqn:E; [discriminate|].
  destruct Hin as [H|H]; [inversion H; subst; rewrite Nat.eqb_refl in E; discriminate|exact (IH H)].
Qed.

Lemma filter_all {A} (f : A -> bool) l : (forall x, In x l -> f x = true) -> filter f l = l.
Proof.
  induction l as [|x r IH]; intros H; cbn [filter]; [reflexivity|].
  rewrite (H x (or_introl eq_refl)). f_equal. apply IH. intros y Hy. apply H. right. exact Hy.
Qed.

Lemma filter_none {A} (f : A -> bool) l : (forall x, In x l -> f x = false) -> filter f l = [].
Proof.
  induction l as [|x r IH]; intros H; cbn [filter]; [reflexivity|].
  rewrite (H x (or_introl eq_refl)). apply IH. intros y Hy. apply H. right. exact Hy.
Qed.

(* deleting exactly the recorded names gives back the fragment's own table, whatever the parent held *)
Theorem after_prepare_restores : forall own parent, after_prepare own parent = own.
Proof.
  intros own parent. unfold after_prepare, del_names, dmerge, added.
  set (g := fun kv : nat * nat => match dlookup own (fst kv) with Some _ => false | None => true end).
  rewrite filter_app.
  rewrite (filter_all _ own), (filter_none _ (filter g parent)); [apply app_nil_r| |].
  - intros [k v] Hin. apply filter_In in Hin. destruct Hin as [Hin Hg].
    apply negb_false_iff. apply existsb_eqb_In. cbn [fst].
    apply in_map_iff. exists (k, v). split; [reflexivity|]. apply filter_In. split; assumption.
  - intros [k v] Hin. apply negb_true_iff. cbn [fst].
    destruct (existsb (Nat.eqb k) (map fst (filter g parent))) eqn:E; [|reflexivity].
    apply existsb_eqb_In in E. apply in_map_iff in E. destruct E as [[k' v'] [Hk Hf]]. cbn [fst] in Hk. subst k'.
    apply filter_In in Hf. destruct Hf as [_ Hg]. unfold g in Hg. cbn [fst] in Hg.
    exfalso. apply (dlookup_some_in own k); [exists v; exact Hin|].
    destruct (dlookup own k); [discriminate|reflexivity].
Qed.

(* hence a second preparation resolves every name exactly as a first one would under the new parent *)
Theorem second_prepare_like_first : forall own parent1 parent2 n,
  dlookup (second_table own parent1 parent2) n = dlookup (dmerge own parent2) n.
Proof. intros. unfold second_table. rewrite after_prepare_restores. reflexivity. Qed.

(* before the repair: an Instance using ClockSignal of an auto-created domain (name 0): the first conversion creates
   the domain as object 7, the second as object 8, but the instance still holds 7 *)
Theorem second_prepare_leaky_refuted :
  dlookup (second_table_leaky [] [(0, 7)] [(0, 8)]) 0 = Some 7 /\ dlookup (dmerge [] [(0, 8)]) 0 = Some 8.
Proof. split; vm_compute; reflexivity. Qed.

(* Proofs about Model/DomScope.v: the state-restoring visitor equals lexical scoping; the visitor without the restore
   does not; propagation implements "innermost enclosing definition". *)
From Coq Require Import List Arith Bool ZArith Lia.
From V.Model Require Import DomScope.
Import ListNotations.

Section DtreeInd.
  Variable P : dtree -> Prop.
  Hypothesis H : forall defs uses subs, Forall P subs -> P (DN defs uses subs).
  Fixpoint dtree_ind' (t : dtree) : P t :=
    match t with
    | DN defs uses subs =>
        H defs uses subs
          ((fix go (l : list dtree) : Forall P l :=
              match l with
              | [] => Forall_nil P
              | x :: r => Forall_cons x (dtree_ind' x) (go r)
              end) subs)
    end.
End DtreeInd.

(* the local loop of `lower` over subfragments, as a top-level function *)
Fixpoint lower_list (l : list dtree) (s : denv) : list (option nat) * denv :=
  match l with
  | [] => ([], s)
  | x :: r => let (a, s1) := lower x s in let (b, s2) := lower_list r s1 in (a ++ b, s2)
  end.

Lemma lower_unfold defs uses subs st :
  lower (DN defs uses subs) st =
  let (rs, st2) := lower_list subs defs in (map (dlookup st2) uses ++ rs, st).
Proof.
  cbn [lower].
  assert (E : forall l s,
      (fix go (l : list dtree) (s : denv) {struct l} : list (option nat) * denv :=
         match l with
         | [] => ([], s)
         | x :: r => let (a, s1) := lower x s in let (b, s2) := go r s1 in (a ++ b, s2)
         end) l s = lower_list l s).
  { induction l as [|x r IH]; intros s; cbn [lower_list]; [reflexivity|].
    destruct (lower x s) as [a s1]. rewrite IH. reflexivity. }
  rewrite E. reflexivity.
Qed.

Lemma lower_list_scoped l :
  Forall (fun t => forall st, lower t st = (scoped t, st)) l ->
  forall s, lower_list l s = (flat_map scoped l, s).
Proof.
  induction 1 as [|x r Hx Hr IH]; intros s; cbn [lower_list flat_map]; [reflexivity|].
  rewrite Hx, IH. reflexivity.
Qed.

(* MAIN: for every hierarchy and every incoming visitor state, the visitor resolves every late-bound signal in the
   table of the fragment that contains it, and leaves the caller's table in place *)
Theorem lower_scoped : forall t st, lower t st = (scoped t, st).
Proof.
  induction t as [defs uses subs IH] using dtree_ind'; intros st.
  rewrite lower_unfold, (lower_list_scoped subs IH). reflexivity.
Qed.

Lemma dlookup_app a b n :
  dlookup (a ++ b) n = match dlookup a n with Some i => Some i | None => dlookup b n end.
Proof.
  induction a as [|[k v] a IH]; cbn [dlookup app]; [reflexivity|].
  destruct (Nat.eqb k n); [reflexivity|exact IH].
Qed.

Lemma dlookup_filter_absent own parent n :
  dlookup own n = None ->
  dlookup (filter (fun kv => match dlookup own (fst kv) with Some _ => false | None => true end) parent) n
  = dlookup parent n.
Proof.
  intros Hn. induction parent as [|[k v] p IH]; cbn [filter dlookup fst]; [reflexivity|].
  destruct (Nat.eqb k n) eqn:E.
  - apply Nat.eqb_eq in E. subst k. rewrite Hn. cbn [dlookup]. rewrite Nat.eqb_refl. reflexivity.
  - destruct (dlookup own k); [exact IH|]. cbn [dlookup]. rewrite E. exact IH.
Qed.

Lemma dlookup_dmerge own parent n :
  dlookup (dmerge own parent) n = match dlookup own n with Some i => Some i | None => dlookup parent n end.
Proof.
  unfold dmerge. rewrite dlookup_app. destruct (dlookup own n) eqn:E; [reflexivity|].
  apply dlookup_filter_absent. exact E.
Qed.

(* propagation = innermost enclosing definition, at every depth *)
Theorem scoped_prop_down_innermost : forall t parent, scoped (prop_down parent t) = innermost parent t.
Proof.
  induction t as [defs uses subs IH] using dtree_ind'; intros parent.
  cbn [prop_down scoped innermost]. f_equal.
  - apply map_ext. intros n. apply dlookup_dmerge.
  - induction IH as [|x r Hx Hr IHr]; cbn [map flat_map]; [reflexivity|].
    rewrite Hx, IHr. reflexivity.
Qed.

Theorem prepare_resolve_innermost : forall top, prepare_resolve top = innermost [] top.
Proof.
  intros top. unfold prepare_resolve. rewrite lower_scoped. cbn [fst]. apply scoped_prop_down_innermost.
Qed.

(* the visitor without the restore: a parent whose only subfragment redefines domain 0 *)
Definition leak_witness : dtree := DN [(0, 10)] [0] [DN [(0, 11)] [0] []].

Theorem lower_leaky_refuted :
  prepare_resolve_leaky leak_witness = [Some 11; Some 11] /\ innermost [] leak_witness = [Some 10; Some 11].
Proof. split; vm_compute; reflexivity. Qed.

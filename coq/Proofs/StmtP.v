(* StmtP.v — C02/C05: assignments through any (linear) target touch exactly the addressed bits, in the
   compiled circuit (_pyrtl) and in testbench writes (_pyeval) alike. *)
From Coq Require Import ZArith List Bool Lia ZifyBool.
From V.Model Require Import Bits Shape Ast Denote PyRTL PyEval Stmt.
From V.Proofs Require Import BitsP ShapeP ExprP.
Import ListNotations.
Open Scope Z_scope.

(* signal shapes are given by ss; every signal occurrence in a value position carries ss i *)
Fixpoint sig_ok (ss : nat -> shape) (lhs : expr) : Prop :=
  match lhs with
  | ESig i s => s = ss i
  | EOp1 _ a => sig_ok ss a
  | ESlice a _ _ => sig_ok ss a
  | EPart a _ _ _ => sig_ok ss a
  | ECat parts => (fix go (ps : list expr) : Prop := match ps with [] => True | p :: r => sig_ok ss p /\ go r end) parts
  | ESwitch _ cs => (fix go (cs : list (option (list pattern) * expr)) : Prop :=
                       match cs with [] => True | c :: r => sig_ok ss (snd c) /\ go r end) cs
  | _ => True
  end.

Lemma sig_ok_cat ss l : sig_ok ss (ECat l) <-> Forall (sig_ok ss) l.
Proof.
  induction l as [|p l IH]; simpl; [split; auto|]. simpl in IH. rewrite IH.
  split; [intros [H1 H2]; constructor; auto|intros H; inversion H; auto].
Qed.
Lemma sig_ok_sw ss t cs : sig_ok ss (ESwitch t cs) <-> Forall (fun c => sig_ok ss (snd c)) cs.
Proof.
  induction cs as [|c cs IH]; simpl; [split; auto|]. simpl in IH. rewrite IH.
  split; [intros [H1 H2]; constructor; auto|intros H; inversion H; auto].
Qed.

(* selectors (part offsets, switch tests) read well-formed, normalised state *)
Fixpoint sel_ok (curr : env) (lhs : expr) : Prop :=
  match lhs with
  | EOp1 _ a => sel_ok curr a
  | ESlice a _ _ => sel_ok curr a
  | EPart a off _ _ => sel_ok curr a /\ env_ok curr off
  | ECat parts => (fix go (ps : list expr) : Prop := match ps with [] => True | p :: r => sel_ok curr p /\ go r end) parts
  | ESwitch t cs => env_ok curr t /\
                    (fix go (cs : list (option (list pattern) * expr)) : Prop :=
                       match cs with [] => True | c :: r => sel_ok curr (snd c) /\ go r end) cs
  | _ => True
  end.

Lemma sel_ok_cat curr l : sel_ok curr (ECat l) <-> Forall (sel_ok curr) l.
Proof.
  induction l as [|p l IH]; simpl; [split; auto|]. simpl in IH. rewrite IH.
  split; [intros [H1 H2]; constructor; auto|intros H; inversion H; auto].
Qed.
Lemma sel_ok_sw curr t cs : sel_ok curr (ESwitch t cs) <-> env_ok curr t /\ Forall (fun c => sel_ok curr (snd c)) cs.
Proof.
  simpl. apply and_iff_compat_l. induction cs as [|c cs IH]; simpl; [split; auto|]. rewrite IH.
  split; [intros [H1 H2]; constructor; auto|intros H; inversion H; auto].
Qed.

(* ---------- bit lemmas ---------- *)
Lemma testbit_rmw old n off arg k : 0 <= n -> 0 <= off -> 0 <= k ->
  Z.testbit (rmw old (Z.shiftl 1 n - 1) off arg) k =
  if (off <=? k) && (k <? off + n) then Z.testbit arg (k - off) else Z.testbit old k.
Proof.
  intros Hn Hoff Hk. unfold rmw. rewrite Z.shiftl_1_l.
  replace (2 ^ n - 1) with (Z.ones n) by (rewrite Z.ones_equiv; lia).
  rewrite Z.lor_spec, Z.land_spec, Z.lnot_spec, !Z.shiftl_spec by lia.
  destruct (off <=? k) eqn:E1; simpl.
  - rewrite Z.land_spec, Z.testbit_ones_nonneg by lia.
    destruct (k <? off + n) eqn:E2; simpl.
    + replace (k - off <? n) with true by lia. simpl. rewrite andb_false_r. reflexivity.
    + replace (k - off <? n) with false by lia. simpl. rewrite andb_true_r. apply orb_false_r.
  - rewrite (Z.testbit_neg_r _ (k - off)) by lia. simpl.
    rewrite (Z.testbit_neg_r _ (k - off)) by lia. rewrite andb_true_r. apply orb_false_r.
Qed.

Lemma upd_same nx i v : upd nx i v i = v.
Proof. unfold upd. rewrite Nat.eqb_refl. reflexivity. Qed.
Lemma upd_other nx i j v : j <> i -> upd nx i v j = nx j.
Proof. intros H. unfold upd. destruct (Nat.eqb j i) eqn:E; [apply Nat.eqb_eq in E; congruence|reflexivity]. Qed.

Lemma testbit_cat_of v w r k : 0 <= w -> 0 <= k -> 0 <= cat_of r ->
  Z.testbit (cat_of ((v, w) :: r)) k = if k <? w then Z.testbit v k else Z.testbit (cat_of r) (k - w).
Proof.
  intros Hw Hk Hr. cbn [cat_of]. replace (v mod 2 ^ w + 2 ^ w * cat_of r) with (cat_of r * 2 ^ w + v mod 2 ^ w) by lia.
  rewrite testbit_hi_lo by (auto; apply Z.mod_pos_bound, pow2_pos; auto).
  destruct (k <? w) eqn:E; [|reflexivity]. apply Z.mod_pow2_bits_low. lia.
Qed.

(* ---------- pattern selection in generated code = first-match semantics ---------- *)
Lemma rtl_case_match_sem um t w ps : 0 <= t < 2 ^ w ->
  (match ps with None => True | Some l => Forall (fun p => Z.of_nat (length p) = w) l end) ->
  (um = true -> match ps with None => True | Some l => existsb has_dash l = false end) ->
  rtl_case_match um t ps = case_sem t ps.
Proof.
  intros Ht Hl Hnd. destruct ps as [l|]; simpl; [|reflexivity].
  destruct um.
  - specialize (Hnd eq_refl). induction l as [|p l IHl]; simpl; [reflexivity|].
    pose proof (Forall_inv Hl) as Hp; pose proof (Forall_inv_tail Hl) as Hl'; cbv beta in Hp.
    simpl in Hnd. apply orb_false_iff in Hnd. destruct Hnd as [Hd Hnd].
    rewrite no_dash_exact, pat_match_sem by (auto; rewrite Hp; auto). rewrite IHl; auto.
  - induction l as [|p l IHl]; simpl; [reflexivity|].
    pose proof (Forall_inv Hl) as Hp; pose proof (Forall_inv_tail Hl) as Hl'; cbv beta in Hp.
    rewrite IHl by (try assumption; intros; discriminate). f_equal.
    destruct (has_dash p) eqn:Ed.
    + fold (pat_match t p). apply pat_match_sem. rewrite Hp; auto.
    + rewrite no_dash_exact, pat_match_sem by (auto; rewrite Hp; auto). reflexivity.
Qed.

Lemma use_match_in (cs : list (option (list pattern))) ps :
  use_match cs = true -> In ps cs -> match ps with None => True | Some l => existsb has_dash l = false end.
Proof.
  unfold use_match. rewrite forallb_forall. intros H Hin. specialize (H ps Hin).
  destruct ps; auto. apply negb_true_iff in H; auto.
Qed.

Lemma tb_case_match_sem t w ps : 0 <= w ->
  (match ps with None => True | Some l => Forall (fun p => Z.of_nat (length p) = w) l end) ->
  tb_case_match t ps = case_sem (t mod 2 ^ w) ps.
Proof.
  intros Hw Hc. destruct ps as [l|]; [|reflexivity]. unfold tb_case_match; simpl.
  induction l as [|p l IHl]; simpl; [reflexivity|].
  pose proof (Forall_inv Hc) as Hp; pose proof (Forall_inv_tail Hc) as Hl'. cbv beta in Hp.
  rewrite IHl by auto. f_equal.
  rewrite <- (pat_match_sem p (t mod 2 ^ w)) by (rewrite Hp; apply Z.mod_pos_bound, pow2_pos; auto).
  unfold pat_match. rewrite (land_mask_low (pat_mask p) t w); auto.
  pose proof (pat_mask_range p). rewrite Hp in *. auto.
Qed.

(* width of a choice is at least the width of each element *)
Lemma unify_width_ge l s : Forall (fun s => wf_shape s = true) l -> In s l -> width s <= width (unify l).
Proof.
  intros Hwf Hin. pose proof (unify_upper l s Hwf Hin) as Hle.
  assert (Hs : wf_shape s = true) by (rewrite Forall_forall in Hwf; auto).
  apply shape_le_char in Hle; auto using unify_wf.
  destruct (sgn s); [lia|]. destruct (sgn (unify l)); lia.
Qed.

(* ---------- widths of well-formed targets ---------- *)
Lemma env_ok_zero e : wf_expr e = true -> env_ok (fun _ => 0) e.
Proof.
  induction e as [v s|i s|o a IHa|o a b IHa IHb|a lo hi IHa|a off w st IHa IHoff|l IH|t cs IHt IHcs]
    using expr_ind'; intros Hwf; simpl in Hwf.
  - exact I.
  - simpl. apply zero_in_range; auto.
  - apply andb_prop in Hwf. simpl. tauto.
  - apply andb_prop in Hwf. destruct Hwf as [Hwf _]. apply andb_prop in Hwf. simpl. tauto.
  - repeat (apply andb_prop in Hwf; destruct Hwf as [Hwf ?]). simpl. auto.
  - repeat (apply andb_prop in Hwf; destruct Hwf as [Hwf ?]). simpl. auto.
  - apply env_ok_cat. rewrite forallb_forall in Hwf. rewrite Forall_forall in *. auto.
  - apply andb_prop in Hwf. destruct Hwf as [Hwt Hwcs]. apply env_ok_sw. split; auto.
    rewrite forallb_forall in Hwcs. rewrite Forall_forall in *. intros c Hin.
    specialize (Hwcs c Hin). apply andb_prop in Hwcs. apply IHcs; tauto.
Qed.

Lemma wf_shape_of e : wf_expr e = true -> wf_shape (shape_of e) = true.
Proof. intros H. apply (shape_sound (fun _ => 0) e H (env_ok_zero e H)). Qed.

Lemma wf_lhs_wf_expr e : wf_lhs e = true -> wf_expr e = true.
Proof.
  induction e as [v s|i s|o a IHa|o a b IHa IHb|a lo hi IHa|a off w st IHa IHoff|l IH|t cs IHt IHcs]
    using expr_ind'; intros Hwf; simpl in Hwf; try discriminate.
  - exact Hwf.
  - destruct o; try discriminate; apply andb_prop in Hwf; destruct Hwf as [H1 H2]; simpl; rewrite IHa; auto.
  - repeat (apply andb_prop in Hwf; destruct Hwf as [Hwf ?]). simpl. rewrite IHa by auto.
    repeat (apply andb_true_intro; split); auto.
  - repeat (apply andb_prop in Hwf; destruct Hwf as [Hwf ?]). simpl. rewrite IHa by auto.
    repeat (apply andb_true_intro; split); auto.
  - simpl. rewrite forallb_forall in *. rewrite Forall_forall in IH. auto.
  - apply andb_prop in Hwf. destruct Hwf as [Hwt Hwcs]. simpl. rewrite Hwt. simpl.
    rewrite forallb_forall in *. rewrite Forall_forall in IHcs. intros c Hin. specialize (Hwcs c Hin).
    apply andb_prop in Hwcs. destruct Hwcs as [H1 H2]. rewrite IHcs; auto.
Qed.

Lemma ewidth_nonneg e : wf_lhs e = true -> 0 <= ewidth e.
Proof. intros H. apply wf_width_nonneg, wf_shape_of, wf_lhs_wf_expr; auto. Qed.

(* unsigned selector: its masked raw value is its denotation, which is non-negative *)
Lemma sel_value curr off : wf_expr off = true -> env_ok curr off -> sgn (shape_of off) = false ->
  rmask (ewidth off) (eval_rtl curr off) = denote curr off /\ 0 <= denote curr off
  /\ eval_tb curr off = denote curr off.
Proof.
  intros Hwf Henv Hs. destruct (shape_sound curr off Hwf Henv) as [Hw Hr].
  pose proof (rtl_correct curr off Hwf Henv) as Hc. unfold norm in Hc. rewrite Hs in Hc.
  unfold in_range in Hr. rewrite Hs in Hr.
  rewrite rmask_mask by (apply wf_width_nonneg; auto). repeat split; auto; try lia.
  apply eval_tb_denote; auto.
Qed.

Lemma test_value curr t : wf_expr t = true -> env_ok curr t ->
  rmask (ewidth t) (eval_rtl curr t) = denote curr t mod 2 ^ ewidth t /\
  0 <= denote curr t mod 2 ^ ewidth t < 2 ^ ewidth t /\ eval_tb curr t = denote curr t /\ 0 <= ewidth t.
Proof.
  intros Hwf Henv. destruct (shape_sound curr t Hwf Henv) as [Hw Hr].
  pose proof (wf_width_nonneg _ Hw) as Hwn.
  rewrite rmask_mask by auto. repeat split; auto.
  - rewrite <- (rtl_correct curr t Hwf Henv). symmetry. apply mask_norm; auto.
  - apply Z.mod_pos_bound, pow2_pos; auto.
  - apply Z.mod_pos_bound, pow2_pos; auto.
  - apply eval_tb_denote; auto.
Qed.

Lemma sum_widths_nonneg (ps : list expr) : (forall p, In p ps -> wf_lhs p = true) ->
  0 <= fold_right (fun p acc => width (shape_of p) + acc) 0 ps.
Proof.
  induction ps as [|q ps IHq]; intros H; simpl; [lia|].
  pose proof (ewidth_nonneg q (H q (or_introl eq_refl))) as Hq. unfold ewidth in Hq.
  assert (forall p, In p ps -> wf_lhs p = true) as H' by (intros p Hp; apply H; right; auto).
  specialize (IHq H'). lia.
Qed.

(* ---------- where a target position can point ---------- *)
Lemma wr_range curr lhs : wf_lhs lhs = true -> sel_ok curr lhs ->
  forall i b k, wr curr lhs i b = Some k -> 0 <= k < ewidth lhs.
Proof.
  induction lhs as [v s|j s|o a IHa|o a b0 IHa IHb|a lo hi IHa|a off w st IHa IHoff|l IH|t cs IHt IHcs]
    using expr_ind'; intros Hwf Hsel i b k Hwr; simpl in Hwf; try discriminate.
  - simpl in Hwr. destruct (Nat.eqb j i && (0 <=? b) && (b <? width s)) eqn:E; [|discriminate].
    injection Hwr as <-. unfold ewidth; simpl. lia.
  - destruct o; try discriminate; apply andb_prop in Hwf; destruct Hwf as [H1 H2]; simpl in *;
      specialize (IHa H1 Hsel i b k Hwr); unfold ewidth in *; simpl; auto.
  - repeat (apply andb_prop in Hwf; destruct Hwf as [Hwf ?]). simpl in Hwr, Hsel.
    destruct (wr curr a i b) as [k'|] eqn:E; [|discriminate].
    destruct ((lo <=? k') && (k' <? hi)) eqn:E2; [|discriminate]. injection Hwr as <-.
    unfold ewidth; simpl. lia.
  - repeat (apply andb_prop in Hwf; destruct Hwf as [Hwf ?]). simpl in Hwr, Hsel.
    destruct (wr curr a i b) as [k'|] eqn:E; [|discriminate].
    destruct ((denote curr off * st <=? k') && (k' <? denote curr off * st + w)) eqn:E2; [|discriminate].
    injection Hwr as <-. unfold ewidth; simpl. lia.
  - apply sel_ok_cat in Hsel. rewrite forallb_forall in Hwf. rewrite Forall_forall in IH, Hsel.
    unfold ewidth. simpl shape_of. simpl width. simpl in Hwr.
    assert (Hgo : forall ps offset, (forall p, In p ps -> In p l) -> 0 <= offset ->
      (fix go (ps : list expr) (offset : Z) : option Z :=
         match ps with [] => None
         | p :: ps' => match wr curr p i b with Some k => Some (k + offset) | None => go ps' (offset + ewidth p) end
         end) ps offset = Some k ->
      offset <= k < offset + fold_right (fun p acc => width (shape_of p) + acc) 0 ps).
    { induction ps as [|p ps IHps]; intros offset Hsub Hoff Hg; [discriminate|].
      assert (Hin : In p l) by (apply Hsub; left; auto).
      pose proof (ewidth_nonneg p (Hwf p Hin)) as Hpw.
      assert (0 <= fold_right (fun p acc => width (shape_of p) + acc) 0 ps) as Hrest
        by (apply sum_widths_nonneg; intros x Hx; apply Hwf, Hsub; right; auto).
      simpl. destruct (wr curr p i b) as [k'|] eqn:E.
      - injection Hg as <-. pose proof (IH p Hin (Hwf p Hin) (Hsel p Hin) i b k' E). unfold ewidth in *. lia.
      - specialize (IHps (offset + ewidth p) ltac:(intros x Hx; apply Hsub; right; auto) ltac:(lia) Hg). unfold ewidth in *. lia. }
    specialize (Hgo l 0 ltac:(auto) ltac:(lia) Hwr). lia.
  - apply andb_prop in Hwf. destruct Hwf as [Hwt Hwcs]. apply sel_ok_sw in Hsel. destruct Hsel as [Het Hsel].
    rewrite forallb_forall in Hwcs. rewrite Forall_forall in IHcs, Hsel. simpl in Hwr.
    assert (HwfF : Forall (fun s => wf_shape s = true) (map (fun c => shape_of (snd c)) cs)).
    { apply Forall_forall. intros s Hin. apply in_map_iff in Hin. destruct Hin as (c & <- & Hin).
      specialize (Hwcs c Hin). apply andb_prop in Hwcs. apply wf_shape_of, wf_lhs_wf_expr; tauto. }
    assert (Hgo : forall cs', (forall c, In c cs' -> In c cs) ->
      (fix go (cs : list (option (list pattern) * expr)) : option Z :=
         match cs with [] => None
         | c :: cs' => if case_sem (denote curr t mod 2 ^ ewidth t) (fst c) then wr curr (snd c) i b else go cs'
         end) cs' = Some k -> exists c, In c cs /\ wr curr (snd c) i b = Some k).
    { induction cs' as [|c cs' IHc]; intros Hsub Hg; [discriminate|].
      destruct (case_sem _ (fst c)).
      - exists c; split; auto. apply Hsub; left; auto.
      - apply IHc; auto. intros x Hx; apply Hsub; right; auto. }
    destruct (Hgo cs ltac:(auto) Hwr) as (c & Hin & Hc).
    specialize (Hwcs c Hin). apply andb_prop in Hwcs. destruct Hwcs as [Hwc _].
    pose proof (IHcs c Hin Hwc (Hsel c Hin) i b k Hc) as Hk.
    unfold ewidth in *. simpl shape_of.
    pose proof (unify_width_ge _ (shape_of (snd c)) HwfF ltac:(apply in_map_iff; exists c; auto)). lia.
Qed.

Lemma wr_sigs curr lhs i b k : wr curr lhs i b = Some k -> In i (sigs_of lhs).
Proof.
  revert k. induction lhs as [v s|j s|o a IHa|o a b0 IHa IHb|a lo hi IHa|a off w st IHa IHoff|l IH|t cs IHt IHcs]
    using expr_ind'; intros k Hwr; simpl in Hwr; try discriminate.
  - destruct (Nat.eqb j i) eqn:E; simpl in Hwr; [|discriminate]. apply Nat.eqb_eq in E. left; auto.
  - destruct o; try discriminate; simpl; eauto.
  - destruct (wr curr a i b) eqn:E; [|discriminate]. simpl; eauto.
  - destruct (wr curr a i b) eqn:E; [|discriminate]. simpl; eauto.
  - simpl. rewrite Forall_forall in IH.
    assert (Hgo : forall ps offset, (forall p, In p ps -> In p l) ->
      (fix go (ps : list expr) (offset : Z) : option Z :=
         match ps with [] => None
         | p :: ps' => match wr curr p i b with Some k => Some (k + offset) | None => go ps' (offset + ewidth p) end
         end) ps offset = Some k -> In i (flat_map sigs_of ps)).
    { induction ps as [|p ps IHps]; intros offset Hsub Hg; [discriminate|]. simpl.
      apply in_or_app. destruct (wr curr p i b) as [k'|] eqn:E.
      - left. eapply IH; eauto. apply Hsub; left; auto.
      - right. eapply IHps; eauto. intros x Hx; apply Hsub; right; auto. }
    eapply Hgo; eauto.
  - simpl. rewrite Forall_forall in IHcs.
    assert (Hgo : forall cs', (forall c, In c cs' -> In c cs) ->
      (fix go (cs : list (option (list pattern) * expr)) : option Z :=
         match cs with [] => None
         | c :: cs' => if case_sem (denote curr t mod 2 ^ ewidth t) (fst c) then wr curr (snd c) i b else go cs'
         end) cs' = Some k -> In i (flat_map (fun c => sigs_of (snd c)) cs')).
    { induction cs' as [|c cs' IHc]; intros Hsub Hg; [discriminate|]. simpl. apply in_or_app.
      destruct (case_sem _ (fst c)).
      - left. eapply IHcs; eauto. apply Hsub; left; auto.
      - right. apply IHc; auto. intros x Hx; apply Hsub; right; auto. }
    eapply Hgo; eauto.
Qed.

(* ---------- reading a target back returns, at every addressing position, the addressed bit ---------- *)
Lemma cat_nonneg_map (f : expr -> Z) l : (forall p, In p l -> 0 <= ewidth p) ->
  Forall (fun p : Z * Z => 0 <= snd p) (map (fun p => (f p, ewidth p)) l).
Proof.
  intros H. apply Forall_forall. intros [v w] Hin. apply in_map_iff in Hin. destruct Hin as (p & Heq & Hin).
  injection Heq as _ <-. simpl. auto.
Qed.

Lemma lread_bits curr nx lhs : wf_lhs lhs = true -> sel_ok curr lhs ->
  forall i b k, wr curr lhs i b = Some k -> Z.testbit (lread curr nx lhs) k = Z.testbit (nx i) b.
Proof.
  induction lhs as [v s|j s|o a IHa|o a b0 IHa IHb|a lo hi IHa|a off w st IHa IHoff|l IH|t cs IHt IHcs]
    using expr_ind'; intros Hwf Hsel i b k Hwr; simpl in Hwf; try discriminate.
  - simpl in Hwr. destruct (Nat.eqb j i) eqn:E; simpl in Hwr; [|discriminate]. apply Nat.eqb_eq in E. subst j.
    destruct ((0 <=? b) && (b <? width s)); [|discriminate]. injection Hwr as <-. reflexivity.
  - destruct o; try discriminate; apply andb_prop in Hwf; destruct Hwf as [H1 H2]; simpl in *; eauto.
  - repeat (apply andb_prop in Hwf; destruct Hwf as [Hwf ?]). simpl in Hwr, Hsel.
    destruct (wr curr a i b) as [k'|] eqn:E; [|discriminate].
    destruct ((lo <=? k') && (k' <? hi)) eqn:E2; [|discriminate]. injection Hwr as <-.
    simpl. rewrite rmask_mask, testbit_mask by lia. rewrite Z.shiftr_spec by lia.
    replace (k' - lo <? hi - lo) with true by lia. replace (k' - lo + lo) with k' by lia. simpl. eauto.
  - repeat (apply andb_prop in Hwf; destruct Hwf as [Hwf ?]). rename H into Hst, H0 into Hw0, H1 into Hus, H2 into Hwo.
    simpl in Hwr, Hsel. destruct Hsel as [Hsa Heo].
    assert (sgn (shape_of off) = false) as Hs by (destruct (sgn (shape_of off)); simpl in Hus; auto; discriminate).
    destruct (sel_value curr off Hwo Heo Hs) as (Hv & Hnn & _).
    destruct (wr curr a i b) as [k'|] eqn:E; [|discriminate].
    destruct ((denote curr off * st <=? k') && (k' <? denote curr off * st + w)) eqn:E2; [|discriminate].
    injection Hwr as <-. simpl. rewrite Hv.
    pose proof (wr_range curr a Hwf Hsa i b k' E) as Hk'.
    rewrite rmask_mask, testbit_mask by lia. rewrite Z.shiftr_spec by lia.
    replace (k' - denote curr off * st <? w) with true by lia. simpl.
    replace (k' - denote curr off * st + st * denote curr off) with k' by lia.
    rewrite rsign_norm by (apply wf_shape_of, wf_lhs_wf_expr; auto).
    rewrite (cong_norm (shape_of a) _ (wf_shape_of a (wf_lhs_wf_expr a Hwf)) k') by (unfold ewidth in Hk'; lia).
    eauto.
  - apply sel_ok_cat in Hsel. rewrite forallb_forall in Hwf. rewrite Forall_forall in IH, Hsel.
    simpl in Hwr. simpl lread.
    rewrite rtl_cat_spec by (try lia; apply cat_nonneg_map; intros p Hp; apply ewidth_nonneg; auto).
    change (2 ^ 0) with 1. rewrite Z.mul_1_l.
    assert (Hgo : forall ps offset k, (forall p, In p ps -> In p l) -> 0 <= offset ->
      (fix go (ps : list expr) (offset : Z) : option Z :=
         match ps with [] => None
         | p :: ps' => match wr curr p i b with Some k => Some (k + offset) | None => go ps' (offset + ewidth p) end
         end) ps offset = Some k ->
      Z.testbit (cat_of (map (fun p => (lread curr nx p, ewidth p)) ps)) (k - offset) = Z.testbit (nx i) b).
    { induction ps as [|p ps IHps]; intros offset k0 Hsub Hoff Hg; [discriminate|].
      assert (Hin : In p l) by (apply Hsub; left; auto).
      pose proof (ewidth_nonneg p (Hwf p Hin)) as Hpw.
      assert (HF : Forall (fun p : Z * Z => 0 <= snd p) (map (fun p => (lread curr nx p, ewidth p)) ps)).
      { apply cat_nonneg_map. intros q Hq. apply ewidth_nonneg, Hwf, Hsub. right; auto. }
      simpl map. destruct (wr curr p i b) as [k'|] eqn:E.
      - injection Hg as <-. pose proof (wr_range curr p (Hwf p Hin) (Hsel p Hin) i b k' E) as Hk'.
        rewrite testbit_cat_of by (try lia; apply cat_of_nonneg; auto).
        replace (k' + offset - offset) with k' by lia. replace (k' <? ewidth p) with true by lia.
        eapply IH; eauto.
      - assert (Hrng : offset + ewidth p <= k0).
        {
          assert (forall ps' o, (fix go (ps : list expr) (offset : Z) : option Z :=
             match ps with [] => None
             | p :: ps' => match wr curr p i b with Some k => Some (k + offset) | None => go ps' (offset + ewidth p) end
             end) ps' o = Some k0 -> (forall q, In q ps' -> In q l) -> 0 <= o -> o <= k0) as Hlow.
          { induction ps' as [|q ps' IHq]; intros o' Hg' Hs' Ho'; [discriminate|].
            destruct (wr curr q i b) as [kq|] eqn:Eq.
            - injection Hg' as <-. pose proof (wr_range curr q (Hwf q (Hs' q (or_introl eq_refl))) (Hsel q (Hs' q (or_introl eq_refl))) i b kq Eq). lia.
            - pose proof (ewidth_nonneg q (Hwf q (Hs' q (or_introl eq_refl)))).
              specialize (IHq (o' + ewidth q) Hg' ltac:(intros x Hx; apply Hs'; right; auto) ltac:(lia)). lia. }
          apply (Hlow ps (offset + ewidth p) Hg); [intros x Hx; apply Hsub; right; auto|lia]. }
        rewrite testbit_cat_of by (try lia; apply cat_of_nonneg; auto).
        replace (k0 - offset <? ewidth p) with false by lia.
        replace (k0 - offset - ewidth p) with (k0 - (offset + ewidth p)) by lia.
        apply IHps; auto; try lia. intros x Hx; apply Hsub; right; auto. }
    specialize (Hgo l 0 k ltac:(auto) ltac:(lia) Hwr). rewrite Z.sub_0_r in Hgo. exact Hgo.
  - apply andb_prop in Hwf. destruct Hwf as [Hwt Hwcs]. apply sel_ok_sw in Hsel. destruct Hsel as [Het Hsel].
    destruct (test_value curr t Hwt Het) as (Htv & Htr & _ & Hwtn).
    simpl in Hwr. simpl lread. rewrite Htv.
    set (tv := denote curr t mod 2 ^ ewidth t) in *.
    rewrite forallb_forall in Hwcs. rewrite Forall_forall in IHcs, Hsel.
    set (um := use_match (map fst cs)).
    assert (Hgo : forall cs', (forall c, In c cs' -> In c cs) ->
      (fix go (cs : list (option (list pattern) * expr)) : option Z :=
         match cs with [] => None
         | c :: cs' => if case_sem tv (fst c) then wr curr (snd c) i b else go cs'
         end) cs' = Some k ->
      Z.testbit (rtl_switch um tv (map (fun c => (fst c, rsign (shape_of (snd c)) (lread curr nx (snd c)))) cs')) k
      = Z.testbit (nx i) b).
    { induction cs' as [|c cs' IHc]; intros Hsub Hg; [discriminate|].
      assert (Hin : In c cs) by (apply Hsub; left; auto).
      pose proof (Hwcs c Hin) as Hwc. apply andb_prop in Hwc. destruct Hwc as [Hwc Hpat].
      simpl map. cbn [rtl_switch fst snd].
      rewrite (rtl_case_match_sem um tv (ewidth t)); auto.
      - destruct (case_sem tv (fst c)).
        + pose proof (wr_range curr (snd c) Hwc (Hsel c Hin) i b k Hg) as Hk.
          rewrite rsign_norm by (apply wf_shape_of, wf_lhs_wf_expr; auto).
          rewrite (cong_norm _ _ (wf_shape_of _ (wf_lhs_wf_expr _ Hwc)) k) by (unfold ewidth in Hk; lia).
          eapply IHcs; eauto.
        + apply IHc; auto. intros x Hx; apply Hsub; right; auto.
      - destruct (fst c) as [ps|]; [|exact I]. apply Forall_forall. intros p Hp.
        rewrite forallb_forall in Hpat. specialize (Hpat p Hp). unfold pattern_ok in Hpat. lia.
      - intros Hum. apply (use_match_in (map fst cs)); auto. apply in_map; auto. }
    apply Hgo; auto.
Qed.

(* ---------- Theorem A: the compiled assignment touches exactly the addressed bits ---------- *)
Lemma disjointb_spec a b x : disjointb a b = true -> In x a -> ~ In x b.
Proof.
  unfold disjointb. rewrite forallb_forall. intros H Ha Hb. specialize (H x Ha).
  apply negb_true_iff in H. assert (existsb (Nat.eqb x) b = true) as He.
  { apply existsb_exists. exists x; split; auto. apply Nat.eqb_refl. }
  congruence.
Qed.

Lemma wr_cat_none curr i b ps : (forall q, In q ps -> wr curr q i b = None) -> forall offset,
  (fix go (ps : list expr) (offset : Z) : option Z :=
     match ps with [] => None
     | p :: ps' => match wr curr p i b with Some k => Some (k + offset) | None => go ps' (offset + ewidth p) end
     end) ps offset = None.
Proof.
  induction ps as [|p ps IH]; intros H offset; [reflexivity|].
  rewrite (H p (or_introl eq_refl)). apply IH. intros q Hq; apply H; right; auto.
Qed.

Theorem assign_rtl_bits ss curr lhs : wf_lhs lhs = true -> lin lhs = true -> sig_ok ss lhs -> sel_ok curr lhs ->
  forall arg nx i b, 0 <= b < width (ss i) ->
  Z.testbit (assign_rtl curr lhs arg nx i) b =
  match wr curr lhs i b with Some k => Z.testbit arg k | None => Z.testbit (nx i) b end.
Proof.
  induction lhs as [v s|j s|o a IHa|o a b0 IHa IHb|a lo hi IHa|a off w st IHa IHoff|l IH|t cs IHt IHcs]
    using expr_ind'; intros Hwf Hlin Hsig Hsel arg nx i b Hb; simpl in Hwf; try discriminate.
  - simpl in Hsig. subst s. simpl. destruct (Nat.eqb j i) eqn:E.
    + apply Nat.eqb_eq in E. subst j. rewrite upd_same. simpl.
      replace ((0 <=? b) && (b <? width (ss i))) with true by lia.
      rewrite rsign_norm by auto. apply cong_norm; auto.
    + simpl. rewrite upd_other; auto. apply Nat.eqb_neq in E. congruence.
  - destruct o; try discriminate; apply andb_prop in Hwf; destruct Hwf as [H1 H2]; simpl in *; eauto.
  - repeat (apply andb_prop in Hwf; destruct Hwf as [Hwf ?]). simpl in Hlin, Hsig, Hsel.
    simpl assign_rtl. rewrite (IHa Hwf Hlin Hsig Hsel) by auto. simpl wr.
    destruct (wr curr a i b) as [k'|] eqn:E; [|reflexivity].
    pose proof (wr_range curr a Hwf Hsel i b k' E) as Hk'.
    rewrite testbit_rmw by lia. replace (lo + (hi - lo)) with hi by lia.
    destruct ((lo <=? k') && (k' <? hi)); [reflexivity|].
    eapply lread_bits; eauto.
  - repeat (apply andb_prop in Hwf; destruct Hwf as [Hwf ?]). rename H into Hst, H0 into Hw0, H1 into Hus, H2 into Hwo.
    simpl in Hlin, Hsig, Hsel. destruct Hsel as [Hsa Heo].
    assert (sgn (shape_of off) = false) as Hs by (destruct (sgn (shape_of off)); simpl in Hus; auto; discriminate).
    destruct (sel_value curr off Hwo Heo Hs) as (Hv & Hnn & _).
    simpl assign_rtl. rewrite Hv. rewrite (IHa Hwf Hlin Hsig Hsa) by auto. simpl wr.
    destruct (wr curr a i b) as [k'|] eqn:E; [|reflexivity].
    pose proof (wr_range curr a Hwf Hsa i b k' E) as Hk'.
    rewrite testbit_rmw by nia. rewrite (Z.mul_comm st).
    destruct ((denote curr off * st <=? k') && (k' <? denote curr off * st + w)); [reflexivity|].
    eapply lread_bits; eauto.
  - apply sel_ok_cat in Hsel. apply sig_ok_cat in Hsig. rewrite forallb_forall in Hwf.
    rewrite Forall_forall in IH, Hsel, Hsig. simpl in Hlin. apply andb_prop in Hlin. destruct Hlin as [Hlinp Hpair].
    rewrite forallb_forall in Hlinp.
    simpl assign_rtl. simpl wr.
    assert (Hgo : forall ps offset nx, (forall p, In p ps -> In p l) -> 0 <= offset ->
      (fix pairwise (ps : list expr) : bool :=
         match ps with [] => true
         | p :: ps' => forallb (fun q => disjointb (sigs_of p) (sigs_of q)) ps' && pairwise ps' end) ps = true ->
      Z.testbit ((fix go (ps : list expr) (offset : Z) (nx : env) : env :=
         match ps with [] => nx
         | p :: ps' => go ps' (offset + ewidth p) (assign_rtl curr p (rmask (ewidth p) (Z.shiftr arg offset)) nx)
         end) ps offset nx i) b =
      match (fix go (ps : list expr) (offset : Z) : option Z :=
         match ps with [] => None
         | p :: ps' => match wr curr p i b with Some k => Some (k + offset) | None => go ps' (offset + ewidth p) end
         end) ps offset with Some k => Z.testbit arg k | None => Z.testbit (nx i) b end).
    { induction ps as [|p ps IHps]; intros offset nx0 Hsub Hoff Hpw; [reflexivity|].
      assert (Hin : In p l) by (apply Hsub; left; auto).
      apply andb_prop in Hpw. destruct Hpw as [Hdis Hpw]. rewrite forallb_forall in Hdis.
      pose proof (ewidth_nonneg p (Hwf p Hin)) as Hpwn.
      rewrite IHps by (auto; try lia; intros x Hx; apply Hsub; right; auto).
      rewrite (IH p Hin (Hwf p Hin) (Hlinp p Hin) (Hsig p Hin) (Hsel p Hin)) by auto.
      destruct (wr curr p i b) as [k'|] eqn:E.
      - rewrite wr_cat_none.
        + pose proof (wr_range curr p (Hwf p Hin) (Hsel p Hin) i b k' E) as Hk'.
          rewrite rmask_mask, testbit_mask by lia. replace (k' <? ewidth p) with true by lia. simpl.
          rewrite Z.shiftr_spec by lia. reflexivity.
        + intros q Hq. destruct (wr curr q i b) as [kq|] eqn:Eq; [|reflexivity]. exfalso.
          apply (disjointb_spec _ _ i (Hdis q Hq)); eapply wr_sigs; eauto.
      - reflexivity. }
    apply Hgo; auto; lia.
  - apply andb_prop in Hwf. destruct Hwf as [Hwt Hwcs]. apply sel_ok_sw in Hsel. destruct Hsel as [Het Hsel].
    apply sig_ok_sw in Hsig. simpl in Hlin.
    destruct (test_value curr t Hwt Het) as (Htv & Htr & _ & Hwtn).
    simpl assign_rtl. simpl wr. rewrite Htv.
    set (tv := denote curr t mod 2 ^ ewidth t) in *.
    rewrite forallb_forall in Hwcs, Hlin. rewrite Forall_forall in IHcs, Hsel, Hsig.
    set (um := use_match (map fst cs)).
    assert (Hgo : forall cs', (forall c, In c cs' -> In c cs) ->
      Z.testbit ((fix go (cs : list (option (list pattern) * expr)) : env :=
         match cs with [] => nx
         | c :: cs' => if rtl_case_match um tv (fst c) then assign_rtl curr (snd c) arg nx else go cs' end) cs' i) b =
      match (fix go (cs : list (option (list pattern) * expr)) : option Z :=
         match cs with [] => None
         | c :: cs' => if case_sem tv (fst c) then wr curr (snd c) i b else go cs' end) cs'
      with Some k => Z.testbit arg k | None => Z.testbit (nx i) b end).
    { induction cs' as [|c cs' IHc]; intros Hsub; [reflexivity|].
      assert (Hin : In c cs) by (apply Hsub; left; auto).
      pose proof (Hwcs c Hin) as Hwc. apply andb_prop in Hwc. destruct Hwc as [Hwc Hpat].
      rewrite (rtl_case_match_sem um tv (ewidth t)); auto.
      - destruct (case_sem tv (fst c)).
        + apply IHcs; auto.
        + apply IHc. intros x Hx; apply Hsub; right; auto.
      - destruct (fst c) as [ps|]; [|exact I]. apply Forall_forall. intros p Hp.
        rewrite forallb_forall in Hpat. specialize (Hpat p Hp). unfold pattern_ok in Hpat. lia.
      - intros Hum. apply (use_match_in (map fst cs)); auto. apply in_map; auto. }
    apply Hgo; auto.
Qed.

(* ---------- Theorem B: testbench writes (window algorithm of _eval_assign_inner) ---------- *)
Lemma testbit_range_mask start stop k : 0 <= start <= stop -> 0 <= k ->
  Z.testbit (Z.shiftl 1 stop - Z.shiftl 1 start) k = (start <=? k) && (k <? stop).
Proof.
  intros H Hk. rewrite !Z.shiftl_1_l.
  replace (2 ^ stop - 2 ^ start) with (Z.shiftl (Z.ones (stop - start)) start).
  - rewrite Z.shiftl_spec by lia. destruct (start <=? k) eqn:E; simpl.
    + rewrite Z.testbit_ones_nonneg by lia. lia.
    + apply Z.testbit_neg_r. lia.
  - rewrite Z.shiftl_mul_pow2, Z.ones_equiv by lia.
    replace stop with ((stop - start) + start) at 2 by lia. rewrite Z.pow_add_r by lia. lia.
Qed.

Lemma tb_sig_write_norm s old start stop rhs : wf_shape s = true ->
  tb_sig_write s old start stop rhs =
  norm s (Z.lor (Z.land old (Z.lnot (Z.shiftl 1 stop - Z.shiftl 1 start)))
                (Z.land (Z.shiftl rhs start) (Z.shiftl 1 stop - Z.shiftl 1 start))).
Proof.
  intros Hwf. unfold tb_sig_write, norm. unfold wf_shape in Hwf. cbv zeta.
  set (v := Z.lor _ _). destruct (sgn s); simpl.
  - apply (tb_sign_fix (width s) v). lia.
  - apply mask_land. lia.
Qed.

Lemma testbit_tb_sig_write s old start stop rhs b : wf_shape s = true ->
  0 <= start <= stop -> 0 <= b < width s ->
  Z.testbit (tb_sig_write s old start stop rhs) b =
  if (start <=? b) && (b <? stop) then Z.testbit rhs (b - start) else Z.testbit old b.
Proof.
  intros Hwf Hs Hb. rewrite tb_sig_write_norm by auto.
  rewrite (cong_norm s _ Hwf b Hb).
  rewrite Z.lor_spec, !Z.land_spec, Z.lnot_spec, testbit_range_mask, Z.shiftl_spec by lia.
  destruct ((start <=? b) && (b <? stop)); simpl.
  - rewrite andb_false_r, andb_true_r. reflexivity.
  - rewrite andb_true_r, andb_false_r. apply orb_false_r.
Qed.

Definition in_window (start len k : Z) : bool := (start <=? k) && (k <? start + len).

Theorem assign_tb_bits ss curr lhs : wf_lhs lhs = true -> lin lhs = true -> sig_ok ss lhs -> sel_ok curr lhs ->
  forall start rhs len nx i b, 0 <= start -> 0 <= len -> 0 <= b < width (ss i) ->
  Z.testbit (assign_tb curr lhs start rhs len nx i) b =
  match wr curr lhs i b with
  | Some k => if in_window start len k then Z.testbit rhs (k - start) else Z.testbit (nx i) b
  | None => Z.testbit (nx i) b
  end.
Proof.
  unfold in_window.
  induction lhs as [v s|j s|o a IHa|o a b0 IHa IHb|a lo hi IHa|a off w st IHa IHoff|l IH|t cs IHt IHcs]
    using expr_ind'; intros Hwf Hlin Hsig Hsel start rhs len nx i b Hst Hlen Hb; simpl in Hwf; try discriminate.
  - simpl in Hsig. subst s. simpl. destruct (Nat.eqb j i) eqn:E.
    + apply Nat.eqb_eq in E. subst j. simpl.
      replace ((0 <=? b) && (b <? width (ss i))) with true by lia.
      destruct (width (ss i) <=? start) eqn:E1.
      * replace ((start <=? b) && (b <? start + len)) with false by lia. reflexivity.
      * rewrite upd_same. rewrite testbit_tb_sig_write by (auto; destruct (width (ss i) <? start + len); lia).
        destruct (width (ss i) <? start + len) eqn:E2.
        -- replace ((start <=? b) && (b <? start + len)) with ((start <=? b) && (b <? width (ss i))) by lia. reflexivity.
        -- reflexivity.
    + simpl. apply Nat.eqb_neq in E. destruct (width (ss j) <=? start); [reflexivity|]. rewrite upd_other; auto.
  - destruct o; try discriminate; apply andb_prop in Hwf; destruct Hwf as [H1 H2]; simpl in *; eauto.
  - repeat (apply andb_prop in Hwf; destruct Hwf as [Hwf ?]). simpl in Hlin, Hsig, Hsel.
    simpl assign_tb. simpl wr.
    destruct (hi - lo <=? start) eqn:E1.
    + destruct (wr curr a i b) as [k'|] eqn:E; [|reflexivity].
      destruct ((lo <=? k') && (k' <? hi)) eqn:E2; [|reflexivity].
      replace ((start <=? k' - lo) && (k' - lo <? start + len)) with false by lia. reflexivity.
    + rewrite (IHa Hwf Hlin Hsig Hsel) by (try lia; destruct (hi - lo <? start + len); lia).
      destruct (wr curr a i b) as [k'|] eqn:E; [|reflexivity].
      destruct (hi - lo <? start + len) eqn:E3; destruct ((lo <=? k') && (k' <? hi)) eqn:E2.
      * replace ((start + lo <=? k') && (k' <? start + lo + (hi - lo - start)))
          with ((start <=? k' - lo) && (k' - lo <? start + len)) by lia.
        replace (k' - (start + lo)) with (k' - lo - start) by lia. reflexivity.
      * replace ((start + lo <=? k') && (k' <? start + lo + (hi - lo - start))) with false by lia. reflexivity.
      * replace ((start + lo <=? k') && (k' <? start + lo + len))
          with ((start <=? k' - lo) && (k' - lo <? start + len)) by lia.
        replace (k' - (start + lo)) with (k' - lo - start) by lia. reflexivity.
      * replace ((start + lo <=? k') && (k' <? start + lo + len)) with false by lia. reflexivity.
  - repeat (apply andb_prop in Hwf; destruct Hwf as [Hwf ?]). rename H into Hstr, H0 into Hw0, H1 into Hus, H2 into Hwo.
    simpl in Hlin, Hsig, Hsel. destruct Hsel as [Hsa Heo].
    assert (sgn (shape_of off) = false) as Hs by (destruct (sgn (shape_of off)); simpl in Hus; auto; discriminate).
    destruct (sel_value curr off Hwo Heo Hs) as (_ & Hnn & Hv).
    simpl assign_tb. simpl wr. rewrite Hv. set (o := denote curr off * st) in *.
    assert (0 <= o) as Ho by (unfold o; nia).
    destruct (w <=? start) eqn:E1.
    + destruct (wr curr a i b) as [k'|] eqn:E; [|reflexivity].
      destruct ((o <=? k') && (k' <? o + w)) eqn:E2; [|reflexivity].
      replace ((start <=? k' - o) && (k' - o <? start + len)) with false by lia. reflexivity.
    + rewrite (IHa Hwf Hlin Hsig Hsa) by (try lia; destruct (w <? start + len); lia).
      destruct (wr curr a i b) as [k'|] eqn:E; [|reflexivity].
      destruct (w <? start + len) eqn:E3; destruct ((o <=? k') && (k' <? o + w)) eqn:E2.
      * replace ((start + o <=? k') && (k' <? start + o + (w - start)))
          with ((start <=? k' - o) && (k' - o <? start + len)) by lia.
        replace (k' - (start + o)) with (k' - o - start) by lia. reflexivity.
      * replace ((start + o <=? k') && (k' <? start + o + (w - start))) with false by lia. reflexivity.
      * replace ((start + o <=? k') && (k' <? start + o + len))
          with ((start <=? k' - o) && (k' - o <? start + len)) by lia.
        replace (k' - (start + o)) with (k' - o - start) by lia. reflexivity.
      * replace ((start + o <=? k') && (k' <? start + o + len)) with false by lia. reflexivity.
  - apply sel_ok_cat in Hsel. apply sig_ok_cat in Hsig. rewrite forallb_forall in Hwf.
    rewrite Forall_forall in IH, Hsel, Hsig. simpl in Hlin. apply andb_prop in Hlin. destruct Hlin as [Hlinp Hpair].
    rewrite forallb_forall in Hlinp.
    simpl assign_tb. simpl wr.
    assert (Hgo : forall ps pstop nx, (forall p, In p ps -> In p l) -> 0 <= pstop ->
      (fix pairwise (ps : list expr) : bool :=
         match ps with [] => true
         | p :: ps' => forallb (fun q => disjointb (sigs_of p) (sigs_of q)) ps' && pairwise ps' end) ps = true ->
      Z.testbit ((fix go (ps : list expr) (part_stop : Z) (nx : env) : env :=
         match ps with
         | [] => nx
         | p :: ps' =>
             let part_start := part_stop in
             let part_len := ewidth p in
             let part_stop := part_start + part_len in
             if part_stop <=? start then go ps' part_stop nx
             else if start + len <=? part_start then go ps' part_stop nx
             else
               let part_lhs_start := if start <? part_start then 0 else start - part_start in
               let part_rhs_start := if start <? part_start then part_start - start else 0 in
               let part_rhs_len := if part_stop <=? start + len then part_stop - start - part_rhs_start
                                   else len - part_rhs_start in
               let part_rhs := Z.land (Z.shiftr rhs part_rhs_start) (Z.shiftl 1 part_rhs_len - 1) in
               go ps' part_stop (assign_tb curr p part_lhs_start part_rhs part_rhs_len nx)
         end) ps pstop nx i) b =
      match (fix go (ps : list expr) (offset : Z) : option Z :=
         match ps with [] => None
         | p :: ps' => match wr curr p i b with Some k => Some (k + offset) | None => go ps' (offset + ewidth p) end
         end) ps pstop with
      | Some k => if (start <=? k) && (k <? start + len) then Z.testbit rhs (k - start) else Z.testbit (nx i) b
      | None => Z.testbit (nx i) b end).
    { induction ps as [|p ps IHps]; intros pstop nx0 Hsub Hps Hpw; [reflexivity|].
      assert (Hin : In p l) by (apply Hsub; left; auto).
      apply andb_prop in Hpw. destruct Hpw as [Hdis Hpw]. rewrite forallb_forall in Hdis.
      pose proof (ewidth_nonneg p (Hwf p Hin)) as Hpwn.
      assert (Hnone : forall k', wr curr p i b = Some k' ->
                (fix go (ps : list expr) (offset : Z) : option Z :=
                   match ps with [] => None
                   | p :: ps' => match wr curr p i b with Some k => Some (k + offset) | None => go ps' (offset + ewidth p) end
                   end) ps (pstop + ewidth p) = None).
      { intros k' E. apply wr_cat_none. intros q Hq. destruct (wr curr q i b) as [kq|] eqn:Eq; [|reflexivity]. exfalso.
        apply (disjointb_spec _ _ i (Hdis q Hq)); eapply wr_sigs; eauto. }
      cbv zeta.
      destruct (pstop + ewidth p <=? start) eqn:E1; [|destruct (start + len <=? pstop) eqn:E2].
      - rewrite IHps by (auto; try lia; intros x Hx; apply Hsub; right; auto).
        destruct (wr curr p i b) as [k'|] eqn:E; [|reflexivity].
        rewrite (Hnone k' eq_refl). pose proof (wr_range curr p (Hwf p Hin) (Hsel p Hin) i b k' E) as Hk'.
        replace ((start <=? k' + pstop) && (k' + pstop <? start + len)) with false by lia. reflexivity.
      - rewrite IHps by (auto; try lia; intros x Hx; apply Hsub; right; auto).
        destruct (wr curr p i b) as [k'|] eqn:E; [|reflexivity].
        rewrite (Hnone k' eq_refl). pose proof (wr_range curr p (Hwf p Hin) (Hsel p Hin) i b k' E) as Hk'.
        replace ((start <=? k' + pstop) && (k' + pstop <? start + len)) with false by lia. reflexivity.
      - rewrite IHps by (auto; try lia; intros x Hx; apply Hsub; right; auto).
        rewrite (IH p Hin (Hwf p Hin) (Hlinp p Hin) (Hsig p Hin) (Hsel p Hin))
          by (auto; destruct (start <? pstop) eqn:?; destruct (pstop + ewidth p <=? start + len) eqn:?; lia).
        destruct (wr curr p i b) as [k'|] eqn:E; [|reflexivity].
        rewrite (Hnone k' eq_refl). pose proof (wr_range curr p (Hwf p Hin) (Hsel p Hin) i b k' E) as Hk'.
        set (pls := if start <? pstop then 0 else start - pstop).
        set (prs := if start <? pstop then pstop - start else 0).
        set (prl := if pstop + ewidth p <=? start + len then pstop + ewidth p - start - prs else len - prs).
        assert (Hwin : ((pls <=? k') && (k' <? pls + prl)) = ((start <=? k' + pstop) && (k' + pstop <? start + len))).
        { unfold pls, prs, prl. destruct (start <? pstop) eqn:Ea; destruct (pstop + ewidth p <=? start + len) eqn:Eb; lia. }
        rewrite Hwin. destruct ((start <=? k' + pstop) && (k' + pstop <? start + len)) eqn:Ew; [|reflexivity].
        assert (0 <= prl) by (unfold prl, prs; destruct (start <? pstop) eqn:?; destruct (pstop + ewidth p <=? start + len) eqn:?; lia).
        assert (0 <= prs) by (unfold prs; destruct (start <? pstop) eqn:?; lia).
        rewrite mask_land by auto. rewrite testbit_mask by auto. rewrite Z.shiftr_spec by (unfold pls; destruct (start <? pstop) eqn:?; lia).
        replace (k' - pls <? prl) with true by lia. simpl. f_equal.
        unfold pls, prs. destruct (start <? pstop) eqn:?; lia. }
    apply Hgo; auto; lia.
  - apply andb_prop in Hwf. destruct Hwf as [Hwt Hwcs]. apply sel_ok_sw in Hsel. destruct Hsel as [Het Hsel].
    apply sig_ok_sw in Hsig. simpl in Hlin.
    destruct (test_value curr t Hwt Het) as (_ & Htr & Htv & Hwtn).
    simpl assign_tb. simpl wr. rewrite Htv.
    set (tv := denote curr t mod 2 ^ ewidth t) in *.
    rewrite forallb_forall in Hwcs, Hlin. rewrite Forall_forall in IHcs, Hsel, Hsig.
    assert (Hgo : forall cs', (forall c, In c cs' -> In c cs) ->
      Z.testbit ((fix go (cs : list (option (list pattern) * expr)) : env :=
         match cs with [] => nx
         | c :: cs' => if tb_case_match (denote curr t) (fst c) then assign_tb curr (snd c) start rhs len nx else go cs' end) cs' i) b =
      match (fix go (cs : list (option (list pattern) * expr)) : option Z :=
         match cs with [] => None
         | c :: cs' => if case_sem tv (fst c) then wr curr (snd c) i b else go cs' end) cs'
      with Some k => if (start <=? k) && (k <? start + len) then Z.testbit rhs (k - start) else Z.testbit (nx i) b
         | None => Z.testbit (nx i) b end).
    { induction cs' as [|c cs' IHc]; intros Hsub; [reflexivity|].
      assert (Hin : In c cs) by (apply Hsub; left; auto).
      pose proof (Hwcs c Hin) as Hwc. apply andb_prop in Hwc. destruct Hwc as [Hwc Hpat].
      rewrite (tb_case_match_sem (denote curr t) (ewidth t)); auto.
      - fold tv. destruct (case_sem tv (fst c)).
        + apply IHcs; auto.
        + apply IHc. intros x Hx; apply Hsub; right; auto.
      - destruct (fst c) as [ps|]; [|exact I]. apply Forall_forall. intros p Hp.
        rewrite forallb_forall in Hpat. specialize (Hpat p Hp). unfold pattern_ok in Hpat. lia. }
    apply Hgo; auto.
Qed.

(* ---------- normalisation is preserved; whole-value corollaries ---------- *)
Definition normalised (ss : nat -> shape) (nx : env) : Prop := forall i, in_range (ss i) (nx i).

Lemma normalised_upd ss nx j v : normalised ss nx -> in_range (ss j) v -> normalised ss (upd nx j v).
Proof. intros H Hv i. unfold upd. destruct (Nat.eqb i j) eqn:E; [apply Nat.eqb_eq in E; subst; auto|auto]. Qed.

Lemma assign_rtl_normalised ss curr lhs : (forall i, wf_shape (ss i) = true) -> sig_ok ss lhs ->
  forall arg nx, normalised ss nx -> normalised ss (assign_rtl curr lhs arg nx).
Proof.
  intros Hss.
  induction lhs as [v s|j s|o a IHa|o a b0 IHa IHb|a lo hi IHa|a off w st IHa IHoff|l IH|t cs IHt IHcs]
    using expr_ind'; intros Hsig arg nx Hn; simpl; auto.
  - simpl in Hsig. subst s. apply normalised_upd; auto. rewrite rsign_norm by auto. apply norm_in_range; auto.
  - destruct o; auto.
  - apply sig_ok_cat in Hsig. rewrite Forall_forall in IH, Hsig.
    assert (Hgo : forall ps offset nx, (forall p, In p ps -> In p l) -> normalised ss nx ->
      normalised ss ((fix go (ps : list expr) (offset : Z) (nx : env) : env :=
         match ps with [] => nx
         | p :: ps' => go ps' (offset + ewidth p) (assign_rtl curr p (rmask (ewidth p) (Z.shiftr arg offset)) nx)
         end) ps offset nx)).
    { induction ps as [|p ps IHps]; intros offset nx0 Hsub Hn0; auto.
      apply IHps; [intros x Hx; apply Hsub; right; auto|].
      apply IH; auto; apply Hsub || apply Hsig; try (apply Hsub); left; auto. }
    apply Hgo; auto.
  - apply sig_ok_sw in Hsig. rewrite Forall_forall in IHcs, Hsig.
    assert (Hgo : forall cs', (forall c, In c cs' -> In c cs) ->
      normalised ss ((fix go (cs0 : list (option (list pattern) * expr)) : env :=
         match cs0 with [] => nx
         | c :: cs1 => if rtl_case_match (use_match (map fst cs)) (rmask (ewidth t) (eval_rtl curr t)) (fst c)
                       then assign_rtl curr (snd c) arg nx else go cs1 end) cs')).
    { induction cs' as [|c cs' IHc]; intros Hsub; auto.
      destruct (rtl_case_match _ _ (fst c)).
      - apply IHcs; auto; try apply Hsig; apply Hsub; left; auto.
      - apply IHc. intros x Hx; apply Hsub; right; auto. }
    apply Hgo; auto.
Qed.

Lemma assign_tb_normalised ss curr lhs : (forall i, wf_shape (ss i) = true) -> sig_ok ss lhs ->
  forall start rhs len nx, normalised ss nx -> normalised ss (assign_tb curr lhs start rhs len nx).
Proof.
  intros Hss.
  induction lhs as [v s|j s|o a IHa|o a b0 IHa IHb|a lo hi IHa|a off w st IHa IHoff|l IH|t cs IHt IHcs]
    using expr_ind'; intros Hsig start rhs len nx Hn; simpl; auto.
  - simpl in Hsig. subst s. destruct (width (ss j) <=? start); auto.
    apply normalised_upd; auto. rewrite tb_sig_write_norm by auto. apply norm_in_range; auto.
  - destruct o; auto.
  - simpl in Hsig. destruct (hi - lo <=? start); auto.
  - simpl in Hsig. destruct (w <=? start); auto.
  - apply sig_ok_cat in Hsig. rewrite Forall_forall in IH, Hsig.
    assert (Hgo : forall ps pstop nx, (forall p, In p ps -> In p l) -> normalised ss nx ->
      normalised ss ((fix go (ps : list expr) (part_stop : Z) (nx : env) : env :=
         match ps with
         | [] => nx
         | p :: ps' =>
             let part_start := part_stop in
             let part_len := ewidth p in
             let part_stop := part_start + part_len in
             if part_stop <=? start then go ps' part_stop nx
             else if start + len <=? part_start then go ps' part_stop nx
             else
               let part_lhs_start := if start <? part_start then 0 else start - part_start in
               let part_rhs_start := if start <? part_start then part_start - start else 0 in
               let part_rhs_len := if part_stop <=? start + len then part_stop - start - part_rhs_start
                                   else len - part_rhs_start in
               let part_rhs := Z.land (Z.shiftr rhs part_rhs_start) (Z.shiftl 1 part_rhs_len - 1) in
               go ps' part_stop (assign_tb curr p part_lhs_start part_rhs part_rhs_len nx)
         end) ps pstop nx)).
    { induction ps as [|p ps IHps]; intros pstop nx0 Hsub Hn0; auto. cbv zeta.
      assert (Hsub' : forall x, In x ps -> In x l) by (intros x Hx; apply Hsub; right; auto).
      destruct (pstop + ewidth p <=? start); [apply IHps; auto|].
      destruct (start + len <=? pstop); [apply IHps; auto|].
      apply IHps; auto. apply IH; auto; try apply Hsig; apply Hsub; left; auto. }
    apply Hgo; auto.
  - apply sig_ok_sw in Hsig. rewrite Forall_forall in IHcs, Hsig.
    assert (Hgo : forall cs', (forall c, In c cs' -> In c cs) ->
      normalised ss ((fix go (cs : list (option (list pattern) * expr)) : env :=
         match cs with [] => nx
         | c :: cs' => if tb_case_match (eval_tb curr t) (fst c) then assign_tb curr (snd c) start rhs len nx else go cs'
         end) cs')).
    { induction cs' as [|c cs' IHc]; intros Hsub; auto.
      destruct (tb_case_match _ (fst c)).
      - apply IHcs; auto; try apply Hsig; apply Hsub; left; auto.
      - apply IHc. intros x Hx; apply Hsub; right; auto. }
    apply Hgo; auto.
Qed.

Lemma bits_range_eq s x y : wf_shape s = true -> in_range s x -> in_range s y ->
  (forall b, 0 <= b < width s -> Z.testbit x b = Z.testbit y b) -> x = y.
Proof.
  intros Hwf Hx Hy H. rewrite <- (norm_id s x Hwf Hx), <- (norm_id s y Hwf Hy). apply cong_norm_eq; auto.
Qed.

(* ctx.set(target, v): every position of the target is inside the window *)
Theorem tb_set_bits ss curr lhs : wf_lhs lhs = true -> lin lhs = true -> sig_ok ss lhs -> sel_ok curr lhs ->
  forall v nx i b, 0 <= b < width (ss i) ->
  Z.testbit (tb_set curr lhs v nx i) b =
  match wr curr lhs i b with Some k => Z.testbit v k | None => Z.testbit (nx i) b end.
Proof.
  intros Hwf Hlin Hsig Hsel v nx i b Hb. unfold tb_set.
  rewrite (assign_tb_bits ss curr lhs Hwf Hlin Hsig Hsel) by (auto; try lia; apply ewidth_nonneg; auto).
  destruct (wr curr lhs i b) as [k|] eqn:E; [|reflexivity].
  pose proof (wr_range curr lhs Hwf Hsel i b k E). unfold in_window.
  replace ((0 <=? k) && (k <? 0 + ewidth lhs)) with true by lia. rewrite Z.sub_0_r. reflexivity.
Qed.

(* C05 (writes): writing v to a target from a testbench leaves every signal exactly as the circuit
   assignment target.eq(v) does *)
Theorem tb_write_equals_circuit ss curr lhs : (forall i, wf_shape (ss i) = true) ->
  wf_lhs lhs = true -> lin lhs = true -> sig_ok ss lhs -> sel_ok curr lhs ->
  forall v nx, normalised ss nx -> forall i, tb_set curr lhs v nx i = assign_rtl curr lhs v nx i.
Proof.
  intros Hss Hwf Hlin Hsig Hsel v nx Hn i.
  apply (bits_range_eq (ss i)); auto.
  - apply assign_tb_normalised; auto.
  - apply assign_rtl_normalised; auto.
  - intros b Hb. rewrite (tb_set_bits ss), (assign_rtl_bits ss) by auto. reflexivity.
Qed.

(* signals not named in the target are untouched *)
Theorem assign_rtl_frame ss curr lhs : (forall i, wf_shape (ss i) = true) ->
  wf_lhs lhs = true -> lin lhs = true -> sig_ok ss lhs -> sel_ok curr lhs ->
  forall arg nx i, normalised ss nx -> ~ In i (sigs_of lhs) -> assign_rtl curr lhs arg nx i = nx i.
Proof.
  intros Hss Hwf Hlin Hsig Hsel arg nx i Hn Hni.
  apply (bits_range_eq (ss i)); auto.
  - apply assign_rtl_normalised; auto.
  - intros b Hb. rewrite (assign_rtl_bits ss) by auto.
    destruct (wr curr lhs i b) as [k|] eqn:E; [|reflexivity]. exfalso. apply Hni. eapply wr_sigs; eauto.
Qed.

(* ---------- C05: a memory row behaves like a signal of the row's shape under testbench writes ---------- *)
Theorem tb_row_write_eq_sig s old start stop rhs : wf_shape s = true -> in_range s old ->
  0 <= start <= stop -> stop <= width s ->
  tb_row_write s old start stop rhs = tb_sig_write s old start stop rhs.
Proof.
  intros Hwf Hold Hs Hstop. rewrite tb_sig_write_norm by auto. unfold tb_row_write. cbv zeta.
  set (mask := Z.shiftl 1 stop - Z.shiftl 1 start).
  set (v := Z.lor (Z.land (Z.shiftl rhs start) mask) (Z.land old (Z.lnot mask))).
  assert (Hv : Z.lor (Z.land old (Z.lnot mask)) (Z.land (Z.shiftl rhs start) mask) = v) by (unfold v; apply Z.lor_comm).
  rewrite Hv.
  assert (Hbits : forall i, 0 <= i -> Z.testbit v i = if (start <=? i) && (i <? stop) then Z.testbit rhs (i - start) else Z.testbit old i).
  { intros i Hi. unfold v, mask. rewrite Z.lor_spec, !Z.land_spec, Z.lnot_spec, testbit_range_mask, Z.shiftl_spec by lia.
    destruct ((start <=? i) && (i <? stop)); simpl.
    - rewrite andb_true_r, andb_false_r. apply orb_false_r.
    - rewrite andb_false_r, andb_true_r. reflexivity. }
  pose proof (proj1 (in_range_bits s old Hwf) Hold) as Hob.
  unfold wf_shape in Hwf. unfold norm. destruct (sgn s) eqn:Es.
  - rewrite Z.shiftl_1_l, land_pow2_test, negb_involutive by lia.
    apply Z.bits_inj'; intros i Hi. rewrite testbit_sext by lia.
    destruct (Z.testbit v (width s - 1)) eqn:Eb.
    + rewrite Z.lor_spec, shiftl_m1, testbit_neg_pow2 by lia.
      destruct (i <? width s) eqn:E.
      * replace (width s <=? i) with false by lia. apply orb_false_r.
      * replace (width s <=? i) with true by lia. rewrite orb_true_r. auto.
    + rewrite mask_land, testbit_mask by lia. destruct (i <? width s) eqn:E; simpl; auto.
  - (* unsigned: v already has no bits at or above the width *)
    symmetry. apply Z.bits_inj'; intros i Hi. rewrite testbit_mask by lia.
    destruct (i <? width s) eqn:E; simpl; auto.
    symmetry. rewrite Hbits by lia.
    replace ((start <=? i) && (i <? stop)) with false by lia.
    rewrite (Hob i ltac:(lia)). reflexivity.
Qed.

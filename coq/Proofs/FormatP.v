(* FormatP.v — lemmas about Model/Format.v (C20). *)
From Coq Require Import ZArith List Bool Lia ZifyBool.
From V.Model Require Import Bits Format.
From V.Proofs Require Import BitsP.
Import ListNotations.
Open Scope Z_scope.

(* ------------------------------------------------------------------ *)
(* digits                                                               *)

Definition dstep (b : Z) := fun acc d : Z => acc * b + d.

Lemma undigits_fold b ds : undigits b ds = fold_left (dstep b) ds 0.
Proof. reflexivity. Qed.

(* reading the digits back gives the number — for any fuel *)
Lemma digits_fuel_value fuel b v acc : 0 < b ->
  fold_left (dstep b) (digits_fuel fuel b v acc) 0 = fold_left (dstep b) acc v.
Proof.
  intros Hb. revert v acc. induction fuel as [|f IH]; intros v acc; cbn [digits_fuel].
  - cbn. unfold dstep at 2. reflexivity.
  - destruct (v <? b) eqn:E.
    + cbn. unfold dstep at 2. reflexivity.
    + rewrite IH. cbn [fold_left]. f_equal. unfold dstep.
      pose proof (Z.div_mod v b ltac:(lia)). lia.
Qed.

Lemma digits_value b v : 0 < b -> undigits b (digits b v) = v.
Proof. intros Hb. unfold digits. rewrite undigits_fold, digits_fuel_value by auto. reflexivity. Qed.

Lemma digits_fuel_range fuel b v acc : 2 <= b -> 0 <= v < 2 ^ Z.of_nat fuel ->
  Forall (fun d => 0 <= d < b) acc -> Forall (fun d => 0 <= d < b) (digits_fuel fuel b v acc).
Proof.
  intros Hb. revert v acc. induction fuel as [|f IH]; intros v acc Hv Hacc; cbn [digits_fuel].
  - change (Z.of_nat 0) with 0 in Hv. change (2 ^ 0) with 1 in Hv. constructor; auto. lia.
  - destruct (v <? b) eqn:E.
    + constructor; auto. lia.
    + apply IH.
      * rewrite Nat2Z.inj_succ, Z.pow_succ_r in Hv by lia.
        split; [apply Z.div_pos; lia|].
        apply Z.div_lt_upper_bound; [lia|].
        assert (0 < 2 ^ Z.of_nat f) by (apply Z.pow_pos_nonneg; lia). nia.
      * constructor; auto. apply Z.mod_pos_bound. lia.
Qed.

Lemma log2_fuel v : 0 <= v -> v < 2 ^ Z.of_nat (Z.to_nat (Z.log2 v) + 1).
Proof.
  intros Hv. rewrite Nat2Z.inj_add, Z2Nat.id by apply Z.log2_nonneg.
  change (Z.of_nat 1) with 1.
  destruct (Z.eq_dec v 0) as [->|Hn]; [cbn; lia|].
  replace (Z.log2 v + 1) with (Z.succ (Z.log2 v)) by lia.
  apply Z.log2_spec. lia.
Qed.

Lemma digits_range b v : 2 <= b -> 0 <= v -> Forall (fun d => 0 <= d < b) (digits b v).
Proof. intros Hb Hv. unfold digits. apply digits_fuel_range; auto. split; [lia|apply log2_fuel; auto]. Qed.

Lemma digits_fuel_nonempty fuel b v acc : digits_fuel fuel b v acc <> [].
Proof.
  revert v acc. induction fuel as [|f IH]; intros v acc; cbn [digits_fuel]; [discriminate|].
  destruct (v <? b); [discriminate|apply IH].
Qed.

Lemma digits_nonempty b v : digits b v <> [].
Proof. apply digits_fuel_nonempty. Qed.

Lemma digit_val_char u d : 0 <= d < 16 -> digit_val (digit_char u d) = d.
Proof.
  intros Hd. unfold digit_val, digit_char.
  destruct (d <? 10) eqn:E1.
  - destruct (48 + d <? 58) eqn:E2; lia.
  - destruct u.
    + destruct (55 + d <? 58) eqn:E2; [lia|]. destruct (55 + d <? 97) eqn:E3; lia.
    + destruct (87 + d <? 58) eqn:E2; [lia|]. destruct (87 + d <? 97) eqn:E3; lia.
Qed.

Lemma digit_char_not_minus u d : 0 <= d < 16 -> digit_char u d <> 45.
Proof. intros Hd. unfold digit_char. destruct (d <? 10) eqn:E; destruct u; lia. Qed.

Lemma map_digit_val_char u ds : Forall (fun d => 0 <= d < 16) ds ->
  map digit_val (map (digit_char u) ds) = ds.
Proof.
  induction 1 as [|d ds Hd _ IH]; cbn; [reflexivity|]. rewrite digit_val_char by auto. f_equal; auto.
Qed.

Lemma base_of_bounds t : 2 <= base_of t <= 16.
Proof. destruct t as [[]|]; cbn; lia. Qed.

Lemma digit_text_read t v : undigits (base_of t) (map digit_val (digit_text t v)) = Z.abs v.
Proof.
  unfold digit_text. pose proof (base_of_bounds t) as Hb.
  rewrite map_digit_val_char.
  - apply digits_value. lia.
  - eapply Forall_impl; [|apply digits_range; lia]. cbn; intros; lia.
Qed.

Lemma digit_text_head t v : exists c r, digit_text t v = c :: r /\ c <> 45.
Proof.
  unfold digit_text. pose proof (base_of_bounds t) as Hb.
  pose proof (digits_range (base_of t) (Z.abs v) ltac:(lia) ltac:(lia)) as Hr.
  destruct (digits (base_of t) (Z.abs v)) as [|d ds] eqn:E; [exfalso; eapply digits_nonempty; eauto|].
  inversion Hr; subst. exists (digit_char (upper_of t) d), (map (digit_char (upper_of t)) ds).
  split; [reflexivity|]. apply digit_char_not_minus. lia.
Qed.

(* ------------------------------------------------------------------ *)
(* assemble: lengths                                                     *)

Lemma zlen_app a b : zlen (a ++ b) = zlen a + zlen b.
Proof. unfold zlen. rewrite app_length. lia. Qed.
Lemma zlen_nonneg a : 0 <= zlen a.
Proof. unfold zlen. lia. Qed.
Lemma zlen_pad n c : zlen (pad n c) = Z.max 0 n.
Proof. unfold zlen, pad. rewrite repeat_length. lia. Qed.
Lemma pad_nonpos n c : n <= 0 -> pad n c = [].
Proof. intros H. unfold pad. replace (Z.to_nat n) with O by lia. reflexivity. Qed.

Definition body_of (sp : spec) (dflt : align) (G : option Z) (sgn_txt pre digs rem : list Z) : list Z :=
  let nondigit := zlen sgn_txt + zlen pre + zlen rem in
  let mw := if (eff_fill sp =? 48) && match eff_align sp dflt with AEq => true | _ => false end
            then f_width sp - nondigit else 0 in
  match digs with [] => [] | _ => group_digits G digs mw end.

Lemma assemble_length sp dflt G s p d r :
  zlen (assemble sp dflt G s p d r) =
  Z.max (f_width sp) (zlen s + zlen p + zlen (body_of sp dflt G s p d r) + zlen r).
Proof.
  unfold assemble. fold (body_of sp dflt G s p d r).
  set (body := body_of sp dflt G s p d r).
  pose proof (zlen_nonneg s). pose proof (zlen_nonneg p). pose proof (zlen_nonneg body). pose proof (zlen_nonneg r).
  destruct (eff_align sp dflt); repeat rewrite zlen_app; rewrite zlen_pad; lia.
Qed.

(* the zero-padding mode of CPython: fill '0' together with '=' alignment *)
Definition zero_mode (sp : spec) (dflt : align) : bool :=
  (eff_fill sp =? 48) && match eff_align sp dflt with AEq => true | _ => false end.

Definition with_width (sp : spec) (w : Z) : spec :=
  Spec (f_fill sp) (f_align sp) (f_sign sp) (f_alt sp) (f_zero sp) w (f_group sp) (f_type sp).

Lemma body_of_width_irrelevant sp dflt G s p d r w :
  zero_mode sp dflt = false -> body_of (with_width sp w) dflt G s p d r = body_of sp dflt G s p d r.
Proof.
  unfold zero_mode, body_of, with_width, eff_fill, eff_align; cbn. intros ->. reflexivity.
Qed.

Definition dflt_of (sp : spec) : align := match f_type sp with Some Ts => ALeft | _ => ARight end.

Lemma py_format_length_ge sp v t : py_format sp v = Some t -> f_width sp <= zlen t.
Proof.
  unfold py_format. intros H.
  destruct (f_type sp) as [[]|];
    try (injection H as <-; rewrite assemble_length; lia).
  - destruct ((v <? 0) || (1114111 <? v)); [discriminate|]. injection H as <-. rewrite assemble_length; lia.
  - destruct (utf8_decode (value_bytes v)); [|discriminate]. injection H as <-. rewrite assemble_length; lia.
Qed.

Lemma assemble_length_max sp dflt G s p d r : zero_mode sp dflt = false ->
  zlen (assemble sp dflt G s p d r) = Z.max (f_width sp) (zlen (assemble (with_width sp 0) dflt G s p d r)).
Proof.
  intros Hz. rewrite !assemble_length, (body_of_width_irrelevant sp _ _ _ _ _ _ 0) by exact Hz.
  cbn [f_width with_width].
  pose proof (zlen_nonneg s). pose proof (zlen_nonneg p). pose proof (zlen_nonneg r).
  pose proof (zlen_nonneg (body_of sp dflt G s p d r)). lia.
Qed.

Lemma py_format_length_max sp v t : zero_mode sp (dflt_of sp) = false -> py_format sp v = Some t ->
  exists t0, py_format (with_width sp 0) v = Some t0 /\ zlen t = Z.max (f_width sp) (zlen t0).
Proof.
  intros Hz. unfold py_format, dflt_of in *. change (f_type (with_width sp 0)) with (f_type sp).
  change (f_group (with_width sp 0)) with (f_group sp). change (f_alt (with_width sp 0)) with (f_alt sp).
  change (sign_text (with_width sp 0)) with (sign_text sp).
  intros H.
  destruct (f_type sp) as [[]|].
  1-5, 8: injection H as <-; eexists; split; [reflexivity|]; apply assemble_length_max; exact Hz.
  - destruct ((v <? 0) || (1114111 <? v)); [discriminate|]. injection H as <-. eexists; split; [reflexivity|].
    apply assemble_length_max; exact Hz.
  - destruct (utf8_decode (value_bytes v)) as [txt|]; [|discriminate]. injection H as <-. eexists; split; [reflexivity|].
    apply assemble_length_max; exact Hz.
Qed.

(* ------------------------------------------------------------------ *)
(* plain rendering and the round trip                                    *)

Definition plain (t : option ftype) : spec := Spec None None None false false 0 false t.
Definition numeric (t : option ftype) : Prop := match t with Some Tc | Some Ts => False | _ => True end.

Lemma group_none_nopad digs mw : digs <> [] -> mw <= zlen digs -> group_digits None digs mw = digs.
Proof.
  intros Hne Hmw. unfold group_digits.
  assert (1 <= zlen digs) by (destruct digs; [congruence|unfold zlen; cbn [length]; lia]).
  rewrite pad_nonpos by lia. reflexivity.
Qed.

Lemma digit_text_nonempty t v : digit_text t v <> [].
Proof. destruct (digit_text_head t v) as (c & r & -> & _). discriminate. Qed.

Lemma py_format_plain t v : numeric t ->
  py_format (plain t) v = Some ((if v <? 0 then [45] else []) ++ digit_text t v).
Proof.
  intros Hn. unfold py_format. cbn [f_type plain].
  assert (E : assemble (plain t) ARight None (sign_text (plain t) (v <? 0)) [] (digit_text t v) []
              = (if v <? 0 then [45] else []) ++ digit_text t v).
  { unfold assemble. cbn [eff_fill eff_align plain f_fill f_zero f_align f_width].
    change (32 =? 48) with false. cbn [andb].
    pose proof (digit_text_nonempty t v) as Hne.
    destruct (digit_text t v) as [|c r] eqn:Ed; [congruence|]. rewrite <- Ed in *.
    rewrite group_none_nopad by (auto; pose proof (zlen_nonneg (digit_text t v)); lia).
    rewrite pad_nonpos.
    2:{ unfold zlen. cbn [length]. rewrite Ed. cbn [length]. lia. }
    unfold sign_text. cbn [f_sign plain]. cbn [app]. rewrite !app_nil_r. reflexivity. }
  destruct t as [[]|]; cbn [numeric] in Hn; try contradiction; cbn [f_group f_alt plain]; rewrite E; reflexivity.
Qed.

Lemma read_int_roundtrip t v txt : numeric t -> py_format (plain t) v = Some txt -> read_int (base_of t) txt = v.
Proof.
  intros Hn H. rewrite py_format_plain in H by auto. injection H as <-.
  destruct (v <? 0) eqn:E.
  - cbn [app read_int]. change (45 =? 45) with true. cbn iota. rewrite digit_text_read. lia.
  - cbn [app]. destruct (digit_text_head t v) as (c & r & Ed & Hc).
    pose proof (digit_text_read t v) as Hr. rewrite Ed in *. cbn [read_int].
    destruct (c =? 45) eqn:Ec; [lia|]. rewrite Hr. lia.
Qed.

(* ------------------------------------------------------------------ *)
(* zero fill and sign placement (no grouping)                            *)

Lemma match_nonempty (d X : list Z) : d <> [] -> match d with [] => [] | _ :: _ => X end = X.
Proof. destruct d; congruence. Qed.

Lemma py_format_zero_fill sg alt w t v : numeric t -> 0 <= w ->
  let sp := Spec None None sg alt true w false t in
  let s := sign_text sp (v <? 0) in
  let p := if alt then prefix_of t else [] in
  let d := digit_text t v in
  py_format sp v = Some (s ++ p ++ pad (w - zlen s - zlen p - zlen d) 48 ++ d).
Proof.
  intros Hn Hw sp s p d.
  assert (E : assemble sp ARight None s p d [] = s ++ p ++ pad (w - zlen s - zlen p - zlen d) 48 ++ d).
  { unfold assemble. cbn [eff_fill eff_align sp f_fill f_zero f_align f_width].
    change (48 =? 48) with true. cbn [andb].
    pose proof (digit_text_nonempty t v) as Hne. fold d in Hne.
    assert (1 <= zlen d) by (destruct d; [congruence|unfold zlen; cbn [length]; lia]).
    rewrite (match_nonempty d _ Hne).
    unfold group_digits. change (zlen []) with 0.
    set (mw := w - (zlen s + zlen p + 0)).
    rewrite pad_nonpos with (n := Z.max 0 _).
    2:{ rewrite zlen_app, zlen_pad. lia. }
    match goal with |- context [pad ?n 48 ++ _] =>
      assert (Hpad : pad n 48 = pad (w - zlen s - zlen p - zlen d) 48) by (unfold pad; f_equal; lia) end.
    rewrite Hpad. cbn [app]. rewrite !app_nil_r. reflexivity. }
  unfold py_format. subst s p d.
  destruct t as [[]|]; cbn [numeric] in Hn; try contradiction; cbn [f_type f_group f_alt sp] in *; rewrite E; reflexivity.
Qed.

(* ------------------------------------------------------------------ *)
(* totality on accepted specs                                            *)

Lemma parse_spec_check s sh sp : parse_spec s sh = Some sp -> parse_raw s = Some sp /\ check_shape sp sh = true.
Proof.
  unfold parse_spec. destruct (parse_raw s) as [sp'|]; [|discriminate].
  destruct (check_shape sp' sh) eqn:E; [|discriminate]. intros H; injection H as <-. auto.
Qed.

Lemma check_shape_cs sp sh : check_shape sp sh = true -> is_cs (f_type sp) = true ->
  sgn sh = false /\ f_align sp <> Some AEq /\ f_alt sp = false /\ f_zero sp = false /\ f_sign sp = None /\ f_group sp = false.
Proof.
  unfold check_shape. intros H Hc. rewrite Hc in H.
  destruct (sgn sh), (f_align sp) as [[]|], (f_alt sp), (f_zero sp), (f_sign sp), (f_group sp);
    cbn in H; try discriminate; repeat split; congruence.
Qed.

Lemma check_shape_s sp sh : check_shape sp sh = true -> f_type sp = Some Ts -> width sh mod 8 = 0.
Proof.
  unfold check_shape. intros H Ht. rewrite Ht in H. apply andb_true_iff in H. destruct H as [_ H]. lia.
Qed.

Lemma accepted_total s sh sp v : parse_spec s sh = Some sp -> in_range sh v ->
  (f_type sp = Some Tc -> v <= 1114111) ->
  (f_type sp = Some Ts -> utf8_decode (value_bytes v) <> None) ->
  exists t, py_format sp v = Some t.
Proof.
  intros Hp Hr Hc Hs. apply parse_spec_check in Hp. destruct Hp as [_ Hk].
  unfold py_format. destruct (f_type sp) as [[]|] eqn:Et; try (eexists; reflexivity).
  - destruct (check_shape_cs sp sh Hk) as (Hsg & _); [rewrite Et; reflexivity|].
    unfold in_range in Hr. rewrite Hsg in Hr. specialize (Hc eq_refl).
    destruct ((v <? 0) || (1114111 <? v)) eqn:E; [lia|]. eexists; reflexivity.
  - specialize (Hs eq_refl). destruct (utf8_decode (value_bytes v)); [eexists; reflexivity|congruence].
Qed.

(* 'c' is the code point, 's' the decoded bytes *)
Lemma py_format_c v : 0 <= v <= 1114111 -> py_format (plain (Some Tc)) v = Some [v].
Proof.
  intros Hv. unfold py_format. cbn [f_type plain].
  destruct ((v <? 0) || (1114111 <? v)) eqn:E; [lia|]. reflexivity.
Qed.

Lemma py_format_s v : py_format (plain (Some Ts)) v = utf8_decode (value_bytes v).
Proof.
  unfold py_format. cbn [f_type plain]. destruct (utf8_decode (value_bytes v)) as [t|]; [|reflexivity].
  unfold assemble. cbn [eff_fill eff_align plain f_fill f_zero f_align f_width].
  change (32 =? 48) with false. cbn [andb app].
  rewrite pad_nonpos; [rewrite app_nil_r; reflexivity|].
  pose proof (zlen_nonneg t). change (zlen []) with 0. lia.
Qed.

Lemma all_bytes_value v : 0 <= v -> undigits 256 (rev (all_bytes v)) = v /\ Forall (fun b => 0 <= b < 256) (all_bytes v).
Proof.
  intros Hv. unfold all_bytes. rewrite rev_involutive. split; [apply digits_value; lia|].
  apply Forall_rev. apply digits_range; lia.
Qed.

(* ------------------------------------------------------------------ *)
(* emit_format uses the value in its own shape                           *)

Definition env_ok (sigs : list shape) (env : list Z) (i : nat) : Prop :=
  wf_shape (sig_shape sigs i) = true /\ in_range (sig_shape sigs i) (sig_val env i).
Definition vexpr_ok (sigs : list shape) (env : list Z) (e : vexpr) : Prop :=
  match e with
  | VSig i | VAsU i | VInv i | VNeg i => env_ok sigs env i
  | VAsS i => env_ok sigs env i /\ 1 <= width (sig_shape sigs i)
  end.

Lemma wf_width s : wf_shape s = true -> 0 <= width s.
Proof. unfold wf_shape. destruct (sgn s); lia. Qed.

Lemma norm_raw_denote sigs env e : vexpr_ok sigs env e ->
  norm (vshape sigs e) (vraw sigs env e) = vdenote sigs env e.
Proof.
  destruct e as [i|i|i|i|i]; cbn [vexpr_ok vshape vraw vdenote].
  - intros [Hwf Hr]. apply norm_id; auto.
  - intros _. reflexivity.
  - intros _. reflexivity.
  - intros [Hwf Hr]. set (s := sig_shape sigs i) in *. set (v := sig_val env i) in *.
    pose proof (wf_width s Hwf) as Hw. pose proof (pow2_pos (width s) Hw) as Hp.
    destruct (mask_congr (width s) v Hw) as [k Hk].
    symmetry. unfold in_range, wf_shape in *. destruct (sgn s) eqn:Es.
    + apply (norm_unique s _ _ k); [unfold wf_shape; rewrite Es; auto| unfold in_range; rewrite Es; lia|].
      rewrite Hk. unfold Z.lnot. lia.
    + apply (norm_unique s _ _ (k + 1)); [unfold wf_shape; rewrite Es; auto| unfold in_range; rewrite Es; lia|].
      rewrite Hk. unfold Z.lnot. lia.
  - intros [Hwf Hr]. rewrite (norm_id _ _ Hwf Hr). set (s := sig_shape sigs i) in *. set (v := sig_val env i) in *.
    pose proof (wf_width s Hwf) as Hw. rewrite norm_signed. apply sext_small; [lia|].
    replace (width s + 1 - 1) with (width s) by lia.
    unfold in_range, wf_shape in *. destruct (sgn s) eqn:Es.
    + pose proof (pow2_split (width s) ltac:(lia)). pose proof (pow2_pos (width s - 1) ltac:(lia)). lia.
    + lia.
Qed.

Lemma emit_field_shape_value sp sigs env e : vexpr_ok sigs env e ->
  emit_field sp (vshape sigs e) (vraw sigs env e) =
  match py_format sp (vdenote sigs env e) with
  | Some t => Ok t
  | None => Err (match f_type sp with Some Ts => 3 | _ => 2 end)
  end.
Proof. intros Hok. unfold emit_field. rewrite norm_raw_denote by auto. reflexivity. Qed.

(* ------------------------------------------------------------------ *)
(* activity: a statement acts iff all enclosing conditions hold           *)

Lemma outcome_eta (o : outcome) : match o with Cont x => Cont x | s => s end = o.
Proof. destruct o; reflexivity. Qed.

Lemma scan_app sigs env a b out :
  scan sigs env (a ++ b) out = match scan sigs env a out with Cont o => scan sigs env b o | s => s end.
Proof.
  revert out. induction a as [|[path l] a IH]; intros out; cbn [app scan]; [reflexivity|].
  destruct (path_holds sigs env path); [|apply IH].
  destruct (fire sigs env l out); [apply IH|reflexivity].
Qed.

Lemma scan_dead sigs env p : forall path out, path_holds sigs env path = false ->
  scan sigs env (leaves p path) out = Cont out.
Proof.
  induction p as [|a IHa b IHb|f|k t m|c t IHt e IHe]; intros path out Hp; cbn [leaves scan].
  - reflexivity.
  - rewrite scan_app, IHa by auto. apply IHb; auto.
  - rewrite Hp. reflexivity.
  - rewrite Hp. reflexivity.
  - rewrite scan_app, IHt; [apply IHe|]; cbn [path_holds forallb fst snd]; fold (path_holds sigs env path);
      rewrite Hp; apply andb_false_r.
Qed.

Lemma exec_scan_path sigs env p : forall path out, path_holds sigs env path = true ->
  exec sigs env p out = scan sigs env (leaves p path) out.
Proof.
  induction p as [|a IHa b IHb|f|k t m|c t IHt e IHe]; intros path out Hp; cbn [leaves scan exec].
  - reflexivity.
  - rewrite scan_app, <- (IHa path out Hp). destruct (exec sigs env a out); [apply IHb; auto|reflexivity].
  - rewrite Hp. cbn [fire]. destruct (fire_print sigs env f out); reflexivity.
  - rewrite Hp. cbn [fire]. destruct (fire_prop sigs env k t m out); reflexivity.
  - rewrite scan_app. destruct (eval_cond sigs env c) eqn:Ec.
    + rewrite <- (IHt ((c, true) :: path) out).
      2:{ cbn [path_holds forallb fst snd]. fold (path_holds sigs env path). rewrite Ec, Hp. reflexivity. }
      destruct (exec sigs env t out); [|reflexivity].
      rewrite scan_dead; [reflexivity|]. cbn [path_holds forallb fst snd]. rewrite Ec. reflexivity.
    + rewrite scan_dead.
      2:{ cbn [path_holds forallb fst snd]. rewrite Ec. reflexivity. }
      apply IHe. cbn [path_holds forallb fst snd]. fold (path_holds sigs env path). rewrite Ec, Hp. reflexivity.
Qed.

Lemma exec_scan sigs env p out : exec sigs env p out = scan sigs env (leaves p []) out.
Proof. apply exec_scan_path. reflexivity. Qed.

(* a statement nested under a list of conditions *)
Definition nest (cs : list cond) (body : prog) : prog := fold_right (fun c b => PIf c b PSkip) body cs.

Lemma exec_nest sigs env cs body out :
  exec sigs env (nest cs body) out =
  if forallb (eval_cond sigs env) cs then exec sigs env body out else Cont out.
Proof.
  induction cs as [|c cs IH]; cbn [nest fold_right forallb exec]; [reflexivity|].
  fold (nest cs body). destruct (eval_cond sigs env c); cbn [andb]; [apply IH|reflexivity].
Qed.

(* only active edges run the process *)
Lemma run_steps_edges sigs pos p steps : forall env clk idx n out,
  fst (run_steps sigs pos p steps env clk idx out) =
  fst (run_edges sigs p (edge_envs sigs pos steps env clk) n out).
Proof.
  induction steps as [|st steps IH]; intros env clk idx n out; cbn [run_steps edge_envs run_edges]; [reflexivity|].
  destruct st as [i v|b|b]; try apply IH.
  destruct (is_edge pos clk b); [|apply IH].
  cbn [run_edges]. destruct (exec sigs env p out); [apply IH|reflexivity].
Qed.

(* ------------------------------------------------------------------ *)
(* Assert / Assume stop at the first failing edge; Cover never stops      *)

Lemma fire_outcome sigs env pl out : leaf_renders sigs env pl = true -> path_holds sigs env (fst pl) = true ->
  if leaf_fails sigs env pl
  then exists m, fire sigs env (snd pl) out = Stop out 1 m
  else exists o, fire sigs env (snd pl) out = Cont o.
Proof.
  destruct pl as [path l]. unfold leaf_renders, leaf_fails. cbn [fst snd]. intros Hr Hp. rewrite Hp. cbn [andb].
  destruct l as [f|k t m]; cbn [fire].
  - unfold fire_print. destruct (emit_format sigs env f); [eexists; reflexivity|discriminate].
  - unfold fire_prop. destruct k.
    + destruct (norm (vshape sigs t) (vraw sigs env t) =? 0).
      * destruct m as [f|]; [destruct (emit_format sigs env f); [eexists; reflexivity|discriminate]|eexists; reflexivity].
      * eexists; reflexivity.
    + destruct (norm (vshape sigs t) (vraw sigs env t) =? 0).
      * destruct m as [f|]; [destruct (emit_format sigs env f); [eexists; reflexivity|discriminate]|eexists; reflexivity].
      * eexists; reflexivity.
    + destruct m as [f|]; [|eexists; reflexivity].
      destruct (norm (vshape sigs t) (vraw sigs env t) =? 0); [eexists; reflexivity|].
      destruct (emit_format sigs env f); [eexists; reflexivity|discriminate].
Qed.

Lemma leaf_fails_inactive sigs env pl : path_holds sigs env (fst pl) = false -> leaf_fails sigs env pl = false.
Proof. unfold leaf_fails. intros ->. destruct (snd pl) as [|[] ? ?]; reflexivity. Qed.

Lemma scan_outcome sigs env ls : forall out, forallb (leaf_renders sigs env) ls = true ->
  if existsb (leaf_fails sigs env) ls
  then exists o m, scan sigs env ls out = Stop o 1 m
  else exists o, scan sigs env ls out = Cont o.
Proof.
  induction ls as [|[path l] ls IH]; intros out Hr; cbn [existsb scan]; [eexists; reflexivity|].
  cbn [forallb] in Hr. apply andb_true_iff in Hr. destruct Hr as [Hr1 Hr2].
  destruct (path_holds sigs env path) eqn:Hp.
  - pose proof (fire_outcome sigs env (path, l) out Hr1 Hp) as Hf. cbn [snd] in Hf.
    destruct (leaf_fails sigs env (path, l)); cbn [orb].
    + destruct Hf as [m ->]. eexists; eexists; reflexivity.
    + destruct Hf as [o ->]. apply IH; auto.
  - rewrite (leaf_fails_inactive sigs env (path, l)) by exact Hp. cbn [orb]. apply IH; auto.
Qed.

Lemma exec_outcome sigs env p out : edge_renders sigs env p = true ->
  if edge_fails sigs env p
  then exists o m, exec sigs env p out = Stop o 1 m
  else exists o, exec sigs env p out = Cont o.
Proof. intros Hr. rewrite exec_scan. apply scan_outcome. exact Hr. Qed.

(* index of the first failing edge *)
Fixpoint first_fail (sigs : list shape) (p : prog) (envs : list (list Z)) (n : nat) : option nat :=
  match envs with
  | [] => None
  | env :: r => if edge_fails sigs env p then Some n else first_fail sigs p r (S n)
  end.

Lemma run_edges_first_fail sigs p envs : forall n out,
  Forall (fun env => edge_renders sigs env p = true) envs ->
  match first_fail sigs p envs n with
  | Some k => exists o m, run_edges sigs p envs n out = (Stop o 1 m, k)
  | None => exists o, run_edges sigs p envs n out = (Cont o, (n + length envs)%nat)
  end.
Proof.
  induction envs as [|env envs IH]; intros n out Hall; cbn [first_fail run_edges length].
  - exists out. f_equal. lia.
  - inversion Hall as [|? ? Hr Hrest]; subst.
    pose proof (exec_outcome sigs env p out Hr) as Ho.
    destruct (edge_fails sigs env p).
    + destruct Ho as (o & m & ->). eexists; eexists; reflexivity.
    + destruct Ho as (o & ->). specialize (IH (S n) o Hrest).
      replace (n + S (length envs))%nat with (S n + length envs)%nat by lia. exact IH.
Qed.

Lemma first_fail_spec sigs p envs : forall n k, first_fail sigs p envs n = Some k ->
  (n <= k)%nat /\ edge_fails sigs (nth (k - n) envs []) p = true /\
  forall j, (j < k - n)%nat -> edge_fails sigs (nth j envs []) p = false.
Proof.
  induction envs as [|env envs IH]; intros n k; cbn [first_fail]; [discriminate|].
  destruct (edge_fails sigs env p) eqn:E.
  - intros H; injection H as <-. replace (n - n)%nat with O by lia. cbn [nth]. repeat split; auto. intros j Hj; lia.
  - intros H. destruct (IH (S n) k H) as (Hle & Hk & Hbefore).
    split; [lia|]. replace (k - n)%nat with (S (k - S n)) by lia. cbn [nth]. split; [exact Hk|].
    intros [|j] Hj; cbn [nth]; [exact E|]. apply Hbefore. lia.
Qed.

Lemma first_fail_none sigs p envs : forall n, first_fail sigs p envs n = None ->
  forall env, In env envs -> edge_fails sigs env p = false.
Proof.
  induction envs as [|e envs IH]; intros n H env Hin; cbn [first_fail] in H; [destruct Hin|].
  destruct (edge_fails sigs e p) eqn:E; [discriminate|].
  destruct Hin as [<-|Hin]; [exact E|]. eapply IH; eauto.
Qed.

Fixpoint only_cover (p : prog) : bool :=
  match p with
  | PSkip | PPrint _ => true
  | PSeq a b => only_cover a && only_cover b
  | PProp k _ _ => match k with KCover => true | _ => false end
  | PIf _ t e => only_cover t && only_cover e
  end.

Lemma only_cover_never_fails sigs env p : only_cover p = true -> forall path,
  existsb (leaf_fails sigs env) (leaves p path) = false.
Proof.
  induction p as [|a IHa b IHb|f|k t m|c t IHt e IHe]; cbn [only_cover leaves]; intros H path.
  - reflexivity.
  - apply andb_true_iff in H. destruct H. rewrite existsb_app, IHa, IHb; auto.
  - reflexivity.
  - destruct k; try discriminate. reflexivity.
  - apply andb_true_iff in H. destruct H. rewrite existsb_app, IHt, IHe; auto.
Qed.

(* construction-time validation: a program that was built has only accepted field specs *)
Fixpoint format_fields (f : format) : list (vexpr * list Z) :=
  match f with [] => [] | CLit _ :: r => format_fields r | CField e s :: r => (e, s) :: format_fields r end.

Lemma format_ok_fields sigs f : format_ok sigs f = true ->
  forall e s, In (e, s) (format_fields f) -> exists sp, parse_spec s (vshape sigs e) = Some sp.
Proof.
  induction f as [|[t|e0 s0] f IH]; cbn [format_ok format_fields]; intros H e s Hin; [destruct Hin|auto|].
  unfold field_spec in H. destruct (parse_spec s0 (vshape sigs e0)) as [sp|] eqn:E; [|discriminate].
  destruct Hin as [Heq|Hin]; [injection Heq as <- <-; eauto|auto].
Qed.

Definition leaf_formats (l : leaf) : list format :=
  match l with LPrint f => [f] | LProp _ _ (Some f) => [f] | LProp _ _ None => [] end.

Lemma prog_ok_leaves sigs p : prog_ok sigs p = true -> forall path pl f,
  In pl (leaves p path) -> In f (leaf_formats (snd pl)) -> format_ok sigs f = true.
Proof.
  induction p as [|a IHa b IHb|f0|k t m|c t IHt e IHe]; cbn [prog_ok leaves]; intros H path pl f Hin Hf.
  - destruct Hin.
  - apply andb_true_iff in H. destruct H. apply in_app_or in Hin. destruct Hin; eauto.
  - destruct Hin as [<-|[]]. cbn in Hf. destruct Hf as [<-|[]]. exact H.
  - destruct Hin as [<-|[]]. cbn [snd leaf_formats] in Hf. destruct m as [f1|]; [|destruct Hf].
    destruct Hf as [<-|[]]. exact H.
  - apply andb_true_iff in H. destruct H. apply in_app_or in Hin. destruct Hin; eauto.
Qed.

(* ------------------------------------------------------------------ *)
(* '_' grouping: removing the separators leaves zeros followed by the digits *)

Definition strip (l : list Z) : list Z := filter (fun c => negb (c =? 95)) l.

Lemma strip_app a b : strip (a ++ b) = strip a ++ strip b.
Proof. apply filter_app. Qed.

Lemma strip_clean l : Forall (fun c => c <> 95) l -> strip l = l.
Proof.
  induction 1 as [|c l Hc _ IH]; [reflexivity|]. cbn [strip filter]. fold (strip l).
  destruct (c =? 95) eqn:E; [lia|]. cbn [negb]. f_equal. exact IH.
Qed.

Lemma strip_pad n : strip (pad n 48) = pad n 48.
Proof. apply strip_clean. unfold pad. apply Forall_forall. intros x Hx. apply repeat_spec in Hx. lia. Qed.

Lemma pad_app a b c : 0 <= a -> 0 <= b -> pad a c ++ pad b c = pad (a + b) c.
Proof. intros Ha Hb. unfold pad. rewrite Z2Nat.inj_add by lia. symmetry. apply repeat_app. Qed.

Lemma group_loop_strip fuel G : 1 <= G -> forall rd mw first acc,
  Forall (fun c => c <> 95) rd -> (length rd + Z.to_nat mw < fuel)%nat ->
  exists k, 0 <= k /\ strip (group_loop fuel G rd mw first acc) = pad k 48 ++ rev rd ++ strip acc.
Proof.
  intros HG. induction fuel as [|f IH]; intros rd mw first acc Hrd Hfuel; [lia|].
  cbn [group_loop].
  set (remaining := zlen rd). set (len := Z.min G (Z.max (Z.max remaining mw) 1)).
  set (n_zeros := Z.max 0 (len - remaining)). set (n_chars := Z.max 0 (Z.min remaining len)).
  assert (Hrem : 0 <= remaining) by apply zlen_nonneg.
  assert (Hlen : 1 <= len) by (unfold len; lia).
  set (taken := firstn (Z.to_nat n_chars) rd). set (rest := skipn (Z.to_nat n_chars) rd).
  assert (Hsplit : rd = taken ++ rest) by (symmetry; apply firstn_skipn).
  assert (Hrest : zlen rest = remaining - n_chars).
  { unfold zlen, rest. rewrite skipn_length. unfold remaining, zlen in *. lia. }
  assert (Htk : Forall (fun c => c <> 95) taken /\ Forall (fun c => c <> 95) rest).
  { rewrite Hsplit in Hrd. apply Forall_app in Hrd. exact Hrd. }
  destruct Htk as [Htk Hrs].
  assert (Hacc' : strip (pad n_zeros 48 ++ rev taken ++ (if first then [] else [95]) ++ acc)
                  = pad n_zeros 48 ++ rev taken ++ strip acc).
  { rewrite !strip_app, strip_pad, (strip_clean (rev taken)) by (apply Forall_rev; auto).
    destruct first; reflexivity. }
  destruct ((zlen rest <=? 0) && (mw - len <=? 0)) eqn:Estop.
  - exists n_zeros. split; [unfold n_zeros; lia|]. rewrite Hacc'.
    assert (rest = []) by (destruct rest; [reflexivity|unfold zlen in Estop; cbn [length] in Estop; lia]).
    rewrite Hsplit, H, app_nil_r. reflexivity.
  - destruct (IH rest (mw - len - 1) false (pad n_zeros 48 ++ rev taken ++ (if first then [] else [95]) ++ acc) Hrs)
      as (k & Hk & Hres).
    { assert (Z.of_nat (length rest) = remaining - n_chars) by exact Hrest.
      assert (Z.of_nat (length rd) = remaining) by reflexivity.
      unfold n_chars in *. lia. }
    rewrite Hres, Hacc'.
    destruct (Z.eq_dec n_zeros 0) as [Hz|Hz].
    + exists k. split; [auto|]. rewrite Hz. unfold pad at 2. cbn [Z.to_nat repeat app].
      rewrite Hsplit, rev_app_distr, <- !app_assoc. reflexivity.
    + assert (rest = []).
      { assert (zlen rest = 0) by (unfold n_zeros, n_chars in *; lia).
        destruct rest; [reflexivity|unfold zlen in *; cbn [length] in *; lia]. }
      exists (k + n_zeros). split; [unfold n_zeros in *; lia|].
      rewrite H, Hsplit, H, app_nil_r. cbn [rev app].
      rewrite app_assoc, pad_app by (unfold n_zeros; lia). reflexivity.
Qed.

Lemma digit_char_not_sep u d : 0 <= d < 16 -> digit_char u d <> 95.
Proof. intros Hd. unfold digit_char. destruct (d <? 10) eqn:E; destruct u; lia. Qed.

Lemma digit_text_clean t v : Forall (fun c => c <> 95) (digit_text t v).
Proof.
  unfold digit_text. pose proof (base_of_bounds t) as Hb. apply Forall_map.
  eapply Forall_impl; [|apply (digits_range (base_of t) (Z.abs v)); lia].
  cbn. intros d Hd. apply digit_char_not_sep. lia.
Qed.

Lemma group_digits_strip G digs mw : (forall g, G = Some g -> 1 <= g) -> digs <> [] ->
  Forall (fun c => c <> 95) digs ->
  exists k, 0 <= k /\ strip (group_digits G digs mw) = pad k 48 ++ digs.
Proof.
  intros HG Hne Hd. unfold group_digits. destruct G as [g|].
  - destruct (group_loop_strip (length digs + Z.to_nat mw + 1) g (HG g eq_refl) (rev digs) mw true [])
      as (k & Hk & H).
    + apply Forall_rev; auto.
    + rewrite rev_length. lia.
    + exists k. split; auto. rewrite H, rev_involutive. cbn [strip filter]. rewrite app_nil_r. reflexivity.
  - eexists. split; [|rewrite strip_app, strip_pad, strip_clean by auto; reflexivity].
    assert (1 <= zlen digs) by (destruct digs; [congruence|unfold zlen; cbn [length]; lia]). lia.
Qed.

(* zero flag with '_': sign, prefix, then a body that is zeros + digits once the separators are removed *)
Lemma py_format_zero_fill_grouped sg alt w grp t v : numeric t -> 0 <= w ->
  let sp := Spec None None sg alt true w grp t in
  let s := sign_text sp (v <? 0) in
  let p := if alt then prefix_of t else [] in
  exists body k, 0 <= k /\ py_format sp v = Some (s ++ p ++ body) /\ strip body = pad k 48 ++ digit_text t v.
Proof.
  intros Hn Hw sp s p.
  set (G := if grp then Some (group_size t) else None).
  assert (HG : forall g, G = Some g -> 1 <= g).
  { intros g. unfold G. destruct grp; [|discriminate]. intros H; injection H as <-. destruct t as [[]|]; cbn; lia. }
  assert (E : exists body k, 0 <= k /\ assemble sp ARight G s p (digit_text t v) [] = s ++ p ++ body /\
                             strip body = pad k 48 ++ digit_text t v).
  { unfold assemble. cbn [eff_fill eff_align sp f_fill f_zero f_align f_width].
    change (48 =? 48) with true. cbn [andb].
    pose proof (digit_text_nonempty t v) as Hne.
    rewrite (match_nonempty (digit_text t v) _ Hne).
    set (mw := w - (zlen s + zlen p + zlen [])).
    destruct (group_digits_strip G (digit_text t v) mw HG Hne (digit_text_clean t v)) as (k & Hk & Hs).
    set (np := Z.max 0 (w - (zlen s + zlen p + zlen []) - zlen (group_digits G (digit_text t v) mw))).
    exists (pad np 48 ++ group_digits G (digit_text t v) mw), (np + k).
    split; [unfold np; lia|]. split.
    - rewrite app_nil_r. reflexivity.
    - rewrite strip_app, strip_pad, Hs, app_assoc, pad_app by (unfold np; lia). reflexivity. }
  destruct E as (body & k & Hk & E & Hs). exists body, k. split; [auto|]. split; [|exact Hs].
  unfold py_format. subst s p G.
  destruct t as [[]|]; cbn [numeric] in Hn; try contradiction; cbn [f_type f_group f_alt sp] in *; rewrite E; reflexivity.
Qed.

(* ------------------------------------------------------------------ *)
(* parse_raw accepts only strings of the grammar
   [[fill]align][sign]['#']['0'][width]['_'][type]                       *)

Definition opt_char (o : option Z) : list Z := match o with Some c => [c] | None => [] end.
Definition flag (b : bool) (c : Z) : list Z := if b then [c] else [].

Definition render_spec (sp : spec) (wd : list Z) : list Z :=
  opt_char (f_fill sp) ++ opt_char (option_map align_char (f_align sp))
  ++ opt_char (option_map sign_char (f_sign sp))
  ++ flag (f_alt sp) 35 ++ flag (f_zero sp) 48 ++ wd ++ flag (f_group sp) 95
  ++ opt_char (option_map type_char (f_type sp)).

(* wd is the decimal numeral of w without leading zero (empty when the width is absent) *)
Definition width_digits (w : Z) (wd : list Z) : Prop :=
  match wd with
  | [] => w = 0
  | c :: r => 49 <= c <= 57 /\ Forall (fun d => 48 <= d <= 57) r /\ eat_digits r (c - 48) = (w, [])
  end.

Lemma align_of_char a x : align_of a = Some x -> a = align_char x.
Proof.
  unfold align_of. destruct (a =? 60) eqn:E1; [intros H; injection H as <-; cbn; lia|].
  destruct (a =? 62) eqn:E2; [intros H; injection H as <-; cbn; lia|].
  destruct (a =? 61) eqn:E3; [intros H; injection H as <-; cbn; lia|discriminate].
Qed.

Lemma sign_of_char a x : sign_of a = Some x -> a = sign_char x.
Proof.
  unfold sign_of. destruct (a =? 45) eqn:E1; [intros H; injection H as <-; cbn; lia|].
  destruct (a =? 43) eqn:E2; [intros H; injection H as <-; cbn; lia|].
  destruct (a =? 32) eqn:E3; [intros H; injection H as <-; cbn; lia|discriminate].
Qed.

Lemma type_of_char a x : type_of a = Some x -> a = type_char x.
Proof.
  unfold type_of.
  repeat match goal with |- context [if ?c =? ?k then _ else _] =>
    destruct (c =? k) eqn:?; [intros H; injection H as <-; cbn; lia|] end.
  discriminate.
Qed.

Lemma parse_fill_align_sound s fill al s1 : parse_fill_align s = (fill, al, s1) ->
  s = opt_char fill ++ opt_char al ++ s1 /\ (fill <> None -> al <> None /\ fill <> Some 10).
Proof.
  unfold parse_fill_align. destruct s as [|c [|a r]].
  - intros H; injection H as <- <- <-. split; [reflexivity|congruence].
  - destruct (is_align_char c); intros H; injection H as <- <- <-; (split; [reflexivity|congruence]).
  - destruct (is_align_char a && negb (c =? 10)) eqn:E.
    + intros H; injection H as <- <- <-. split; [reflexivity|]. intros _. split; [discriminate|].
      intros H; injection H as ->. cbn in E. rewrite andb_false_r in E. discriminate.
    + destruct (is_align_char c); intros H; injection H as <- <- <-; (split; [reflexivity|congruence]).
Qed.

Lemma eat_sound k s b r : eat (Z.eqb k) s = (b, r) -> s = flag b k ++ r.
Proof.
  unfold eat. destruct s as [|c s]; [intros H; injection H as <- <-; reflexivity|].
  destruct (k =? c) eqn:E; intros H; injection H as <- <-; cbn; [f_equal; lia|reflexivity].
Qed.

Lemma eat_digits_sound s : forall acc w r, eat_digits s acc = (w, r) ->
  exists ds, s = ds ++ r /\ Forall (fun d => 48 <= d <= 57) ds /\ eat_digits ds acc = (w, []).
Proof.
  induction s as [|c s IH]; intros acc w r; cbn [eat_digits].
  - intros H; injection H as <- <-. exists []. repeat split; auto.
  - destruct (is_digit c) eqn:E.
    + intros H. destruct (IH _ _ _ H) as (ds & -> & Hd & He). exists (c :: ds).
      split; [reflexivity|]. split; [constructor; [unfold is_digit in E; lia|auto]|].
      cbn [eat_digits]. rewrite E. exact He.
    + intros H; injection H as <- <-. exists []. repeat split; auto.
Qed.

Lemma eat_width_sound s w r : eat_width s = (w, r) -> exists wd, s = wd ++ r /\ width_digits w wd.
Proof.
  unfold eat_width. destruct s as [|c s]; [intros H; injection H as <- <-; exists []; split; reflexivity|].
  destruct ((49 <=? c) && (c <=? 57)) eqn:E.
  - intros H. destruct (eat_digits_sound _ _ _ _ H) as (ds & -> & Hd & He).
    exists (c :: ds). split; [reflexivity|]. cbn [width_digits]. repeat split; auto; lia.
  - intros H; injection H as <- <-. exists []. split; reflexivity.
Qed.

Lemma parse_raw_sound s sp : parse_raw s = Some sp ->
  exists wd, s = render_spec sp wd /\ width_digits (f_width sp) wd /\
             (f_fill sp <> None -> f_align sp <> None /\ f_fill sp <> Some 10).
Proof.
  unfold parse_raw.
  destruct (parse_fill_align s) as [[fill al] s1] eqn:E1.
  apply parse_fill_align_sound in E1. destruct E1 as [Hs Hfill].
  set (sg := match s1 with c :: _ => sign_of c | [] => None end).
  set (s2 := match sg, s1 with Some _, _ :: r => r | _, _ => s1 end).
  assert (Hsg : s1 = opt_char (option_map sign_char sg) ++ s2).
  { unfold s2, sg. destruct s1 as [|c r]; [reflexivity|]. destruct (sign_of c) eqn:Ec; [|reflexivity].
    apply sign_of_char in Ec. subst c. reflexivity. }
  clearbody sg s2.
  destruct (eat (Z.eqb 35) s2) as [alt s3] eqn:E3. apply eat_sound in E3.
  destruct (eat (Z.eqb 48) s3) as [zero s4] eqn:E4. apply eat_sound in E4.
  destruct (eat_width s4) as [w s5] eqn:E5. apply eat_width_sound in E5. destruct E5 as (wd & E5 & Hwd).
  destruct (eat (Z.eqb 95) s5) as [grp s6] eqn:E6. apply eat_sound in E6.
  assert (Hal : forall x, match al with Some a => align_of a | None => None end = x ->
                match al, x with Some _, None => true | _, _ => false end = false ->
                opt_char al = opt_char (option_map align_char x) /\ (al <> None -> x <> None)).
  { intros x Hx Hb. destruct al as [a|]; [|subst x; split; [reflexivity|congruence]].
    destruct x as [x|]; [|discriminate]. apply align_of_char in Hx. subst a. split; [reflexivity|discriminate]. }
  destruct (match al with Some a => align_of a | None => None end) as [x|] eqn:Ex.
  - destruct (Hal (Some x) eq_refl) as [Hal1 Hal2]; [destruct al; reflexivity|].
    assert (Hb : match al, Some x with Some _, None => true | _, _ => false end = false) by (destruct al; reflexivity).
    rewrite Hb.
    destruct s6 as [|t [|? ?]]; try discriminate.
    + intros H; injection H as <-. exists wd. unfold render_spec. cbn [f_fill f_align f_sign f_alt f_zero f_width f_group f_type].
      split; [|split; [exact Hwd|]].
      * rewrite Hs, Hal1, Hsg, E3, E4, E5, E6. cbn [option_map opt_char]. rewrite app_nil_r. reflexivity.
      * intros Hf. destruct (Hfill Hf) as [Ha Hn]. split; [discriminate|exact Hn].
    + destruct (type_of t) as [ty|] eqn:Et; [|discriminate]. apply type_of_char in Et. subst t.
      intros H; injection H as <-. exists wd. unfold render_spec. cbn [f_fill f_align f_sign f_alt f_zero f_width f_group f_type].
      split; [|split; [exact Hwd|]].
      * rewrite Hs, Hal1, Hsg, E3, E4, E5, E6. reflexivity.
      * intros Hf. destruct (Hfill Hf) as [Ha Hn]. split; [discriminate|exact Hn].
  - destruct al as [a|]; [discriminate|].
    assert (Hf0 : fill = None).
    { destruct fill; [|reflexivity]. destruct Hfill as [Ha _]; [discriminate|congruence]. }
    subst fill.
    destruct s6 as [|t [|? ?]]; try discriminate.
    + intros H; injection H as <-. exists wd. unfold render_spec. cbn [f_fill f_align f_sign f_alt f_zero f_width f_group f_type].
      split; [|split; [exact Hwd|congruence]].
      rewrite Hs, Hsg, E3, E4, E5, E6. cbn [option_map opt_char app]. rewrite app_nil_r. reflexivity.
    + destruct (type_of t) as [ty|] eqn:Et; [|discriminate]. apply type_of_char in Et. subst t.
      intros H; injection H as <-. exists wd. unfold render_spec. cbn [f_fill f_align f_sign f_alt f_zero f_width f_group f_type].
      split; [|split; [exact Hwd|congruence]].
      rewrite Hs, Hsg, E3, E4, E5, E6. reflexivity.
Qed.

(* ------------------------------------------------------------------ *)
(* a whole format: the emitted text is str.format of the values in their own shapes *)

(* SPEC: literal text as is, every field formatted by Python from the Python-integer value of its expression *)
Fixpoint spec_text (sigs : list shape) (env : list Z) (f : format) : option (list Z) :=
  match f with
  | [] => Some []
  | CLit t :: r => option_map (app t) (spec_text sigs env r)
  | CField e s :: r =>
      match field_spec sigs e s with
      | Some sp => match py_format sp (vdenote sigs env e), spec_text sigs env r with
                   | Some t, Some t' => Some (t ++ t')
                   | _, _ => None
                   end
      | None => None
      end
  end.

Fixpoint format_wf (sigs : list shape) (env : list Z) (f : format) : Prop :=
  match f with
  | [] => True
  | CLit _ :: r => format_wf sigs env r
  | CField e s :: r =>
      vexpr_ok sigs env e /\ format_wf sigs env r
  end.

Lemma py_format_s_decodes sp v t : f_type sp = Some Ts -> py_format sp v = Some t ->
  exists b, utf8_decode (value_bytes v) = Some b.
Proof.
  unfold py_format. intros ->. destruct (utf8_decode (value_bytes v)) as [b|]; [eauto|discriminate].
Qed.

Lemma args_check_ok sigs env f txt : format_wf sigs env f -> spec_text sigs env f = Some txt ->
  args_check sigs env f = true.
Proof.
  revert txt. induction f as [|[t|e s] f IH]; intros txt Hwf Hs; cbn [args_check]; [reflexivity| |].
  - cbn [spec_text] in Hs. destruct (spec_text sigs env f) as [t'|]; [|discriminate]. eapply IH; eauto.
  - cbn [spec_text format_wf] in *. destruct Hwf as (Hok & Hwf).
    destruct (field_spec sigs e s) as [sp|]; [|discriminate].
    destruct (py_format sp (vdenote sigs env e)) as [t|] eqn:Ep; [|discriminate].
    destruct (spec_text sigs env f) as [t'|]; [|discriminate].
    rewrite norm_raw_denote by auto.
    destruct (f_type sp) as [[]|] eqn:Et; try (eapply IH; eauto).
    destruct (py_format_s_decodes sp _ _ Et Ep) as [b ->]. eapply IH; eauto.
Qed.

Lemma render_ok sigs env f : forall txt acc, format_wf sigs env f -> spec_text sigs env f = Some txt ->
  render sigs env f acc = Ok (acc ++ txt).
Proof.
  induction f as [|[t|e s] f IH]; intros txt acc Hwf Hs; cbn [render spec_text format_wf] in *.
  - injection Hs as <-. rewrite app_nil_r. reflexivity.
  - destruct (spec_text sigs env f) as [t'|]; [|discriminate]. injection Hs as <-.
    rewrite (IH t' (acc ++ t)) by auto. rewrite app_assoc. reflexivity.
  - destruct Hwf as (Hok & Hwf).
    destruct (field_spec sigs e s) as [sp|]; [|discriminate].
    destruct (py_format sp (vdenote sigs env e)) as [t|] eqn:Ep; [|discriminate].
    destruct (spec_text sigs env f) as [t'|]; [|discriminate]. injection Hs as <-.
    rewrite emit_field_shape_value by auto. rewrite Ep.
    rewrite (IH t' (acc ++ t)) by auto. rewrite app_assoc. reflexivity.
Qed.

Lemma emit_format_spec sigs env f txt : format_wf sigs env f -> spec_text sigs env f = Some txt ->
  emit_format sigs env f = Ok txt.
Proof.
  intros Hwf Hs. unfold emit_format. rewrite (args_check_ok sigs env f txt) by auto.
  rewrite (render_ok sigs env f txt []) by auto. reflexivity.
Qed.

Lemma fire_print_spec sigs env f txt out : format_wf sigs env f -> spec_text sigs env f = Some txt ->
  fire_print sigs env f out = Cont (out ++ txt ++ [10]).
Proof. intros Hwf Hs. unfold fire_print. rewrite (emit_format_spec sigs env f txt) by auto. reflexivity. Qed.

Lemma fire_assert_spec sigs env k t f txt out : k <> KCover -> format_wf sigs env f -> spec_text sigs env f = Some txt ->
  vexpr_ok sigs env t ->
  fire_prop sigs env k t (Some f) out =
  if vdenote sigs env t =? 0 then Stop out 1 (assert_text k ++ [58; 32] ++ txt) else Cont out.
Proof.
  intros Hk Hwf Hs Hok. unfold fire_prop. rewrite norm_raw_denote by auto.
  rewrite (emit_format_spec sigs env f txt) by auto. destruct k; try congruence; reflexivity.
Qed.

(* ------------------------------------------------------------------ *)
(* '_' grouping: CPython's loop = pad with zeros, then group from the right *)

Lemma zlen_cons x (l : list Z) : zlen (x :: l) = 1 + zlen l.
Proof. unfold zlen. cbn [length]. lia. Qed.
Lemma zlen_nil : zlen [] = 0.
Proof. reflexivity. Qed.
Lemma zlen_zero_nil (l : list Z) : zlen l <= 0 -> l = [].
Proof. destruct l; [reflexivity|rewrite zlen_cons; pose proof (zlen_nonneg l); lia]. Qed.

Lemma rev_repeat (x : Z) n : rev (repeat x n) = repeat x n.
Proof.
  induction n as [|n IH]; [reflexivity|]. cbn [repeat rev]. rewrite IH.
  clear IH. induction n as [|n IH]; [reflexivity|]. cbn [repeat app]. f_equal. exact IH.
Qed.
Lemma rev_pad n c : rev (pad n c) = pad n c.
Proof. apply rev_repeat. Qed.

Lemma go_nosep g xs : forall c r acc, c + zlen xs <= g ->
  sep_right_go g c (xs ++ r) acc = sep_right_go g (c + zlen xs) r (rev xs ++ acc).
Proof.
  induction xs as [|x xs IH]; intros c r acc Hc.
  - cbn [app rev]. rewrite zlen_nil, Z.add_0_r. reflexivity.
  - rewrite zlen_cons in *. pose proof (zlen_nonneg xs). cbn [app sep_right_go].
    destruct (c =? g) eqn:E; [lia|]. rewrite IH by lia. cbn [rev]. rewrite <- app_assoc. cbn [app].
    f_equal. lia.
Qed.

(* one group of CPython's loop in terms of the specification *)
Lemma go_group g xs r acc (first : bool) : 1 <= g -> 1 <= zlen xs <= g ->
  sep_right_go g (if first then 0 else g) (xs ++ r) acc =
  sep_right_go g (zlen xs) r (rev xs ++ (if first then [] else [95]) ++ acc).
Proof.
  intros Hg Hx. destruct first.
  - rewrite go_nosep by lia. reflexivity.
  - destruct xs as [|x xs]; [rewrite zlen_nil in Hx; lia|]. rewrite zlen_cons in *.
    cbn [app sep_right_go]. rewrite Z.eqb_refl. rewrite go_nosep by lia.
    cbn [rev]. rewrite <- app_assoc. reflexivity.
Qed.

Lemma grouped_len_small g n : 1 <= n <= g -> grouped_len g n = n.
Proof. intros H. unfold grouped_len. rewrite Z.div_small by lia. lia. Qed.

Lemma grouped_len_step g m : 1 <= g -> grouped_len g (g + m) = g + 1 + grouped_len g m.
Proof.
  intros Hg. unfold grouped_len. replace (g + m - 1) with (m - 1 + 1 * g) by lia.
  rewrite Z.div_add by lia. lia.
Qed.

Definition gtarget (g mw : Z) : Z := if mw mod (g + 1) =? 0 then mw + 1 else mw.

Lemma gtarget_step g mw : 1 <= g -> gtarget g mw = gtarget g (mw - g - 1) + g + 1.
Proof.
  intros Hg. unfold gtarget. replace (mw - g - 1) with (mw + (-1) * (g + 1)) by lia.
  rewrite Z.mod_add by lia. destruct (mw mod (g + 1) =? 0); lia.
Qed.

Lemma group_loop_spec G : 1 <= G -> forall fuel rd mw first acc,
  (length rd + Z.to_nat mw < fuel)%nat -> (rd <> [] \/ 0 <= mw) ->
  exists k, 0 <= k /\
    group_loop fuel G rd mw first acc = sep_right_go G (if first then 0 else G) (rd ++ pad k 48) acc /\
    (rd = [] -> 0 < k) /\
    mw <= grouped_len G (zlen rd + k) /\
    (0 < k -> 0 <= mw /\ grouped_len G (zlen rd + k) = gtarget G mw).
Proof.
  intros HG. induction fuel as [|f IH]; intros rd mw first acc Hfuel Hpre; [lia|].
  cbn [group_loop].
  set (n := zlen rd). set (len := Z.min G (Z.max (Z.max n mw) 1)).
  set (n_zeros := Z.max 0 (len - n)). set (n_chars := Z.max 0 (Z.min n len)).
  assert (Hn : 0 <= n) by apply zlen_nonneg.
  assert (Hlen : 1 <= len <= G) by (unfold len; lia).
  set (taken := firstn (Z.to_nat n_chars) rd). set (rest := skipn (Z.to_nat n_chars) rd).
  assert (Hsplit : rd = taken ++ rest) by (symmetry; apply firstn_skipn).
  assert (Hrest : zlen rest = n - n_chars).
  { unfold zlen, rest. rewrite skipn_length. unfold n, zlen in *. lia. }
  assert (Htaken : zlen taken = n_chars).
  { assert (zlen rd = zlen taken + zlen rest) by (rewrite Hsplit at 1; apply zlen_app). unfold n in *. lia. }
  assert (Hsum : n_chars + n_zeros = len) by (unfold n_chars, n_zeros; lia).
  assert (Hzr : 0 < n_zeros -> rest = []).
  { intros Hz. apply zlen_zero_nil. unfold n_zeros, n_chars in *. lia. }
  set (xs := taken ++ pad n_zeros 48).
  assert (Hxs : zlen xs = len) by (unfold xs; rewrite zlen_app, zlen_pad; unfold n_zeros in *; lia).
  assert (Hrevxs : rev xs = pad n_zeros 48 ++ rev taken) by (unfold xs; rewrite rev_app_distr, rev_pad; reflexivity).
  assert (Hdecomp : forall k', 0 <= k' -> rd ++ pad (n_zeros + k') 48 = xs ++ (rest ++ pad k' 48)).
  { intros k' Hk'. rewrite <- pad_app by (unfold n_zeros; lia). unfold xs.
    destruct (Z.eq_dec n_zeros 0) as [Hz|Hz].
    - rewrite !(pad_nonpos n_zeros) by lia. cbn [app]. rewrite app_nil_r.
      rewrite Hsplit at 1. rewrite <- app_assoc. reflexivity.
    - rewrite (Hzr ltac:(unfold n_zeros in *; lia)) in *. rewrite app_nil_r in Hsplit.
      rewrite Hsplit at 1. cbn [app]. rewrite <- app_assoc. reflexivity. }
  destruct ((zlen rest <=? 0) && (mw - len <=? 0)) eqn:Estop.
  - (* last group *)
    assert (Hre : rest = []) by (apply zlen_zero_nil; lia).
    assert (Hnc : n_chars = n) by (rewrite Hre, zlen_nil in Hrest; lia).
    exists n_zeros. split; [unfold n_zeros; lia|]. split; [|split; [|split]].
    + replace n_zeros with (n_zeros + 0) at 2 by lia. rewrite (Hdecomp 0) by lia.
      rewrite go_group by (auto; lia). rewrite Hre, (pad_nonpos 0) by lia. cbn [app sep_right_go].
      rewrite Hrevxs, <- app_assoc. reflexivity.
    + intros ->. change (zlen []) with 0 in *. unfold n_zeros, n in *. lia.
    + fold n. replace (n + n_zeros) with len by lia. rewrite grouped_len_small by lia. lia.
    + intros Hk. fold n. replace (n + n_zeros) with len by lia. rewrite grouped_len_small by lia.
      assert (Hmw0 : 0 <= mw).
      { destruct Hpre as [Hne|]; [|auto]. destruct (Z_lt_le_dec mw 0); [|auto].
        exfalso. assert (1 <= n) by (destruct rd; [congruence|unfold n; rewrite zlen_cons; pose proof (zlen_nonneg rd); lia]).
        unfold n_zeros, len in *. lia. }
      split; [exact Hmw0|]. unfold gtarget.
      destruct (Z.eq_dec mw 0) as [->|Hmw].
      * rewrite Z.mod_0_l by lia. cbn. unfold n_zeros, len in *. lia.
      * assert (len = mw) by (unfold n_zeros, len in *; lia).
        rewrite Z.mod_small by lia. destruct (mw =? 0) eqn:E; lia.
  - (* a full group, more to come *)
    assert (HlenG : len = G).
    { destruct (Z.eq_dec len G); [auto|]. exfalso.
      assert (len = Z.max (Z.max n mw) 1) by (unfold len in *; lia).
      assert (zlen rest = 0) by (unfold n_chars in *; lia). lia. }
    destruct (IH rest (mw - len - 1) false (pad n_zeros 48 ++ rev taken ++ (if first then [] else [95]) ++ acc))
      as (k' & Hk' & Hres & Hnil & Hle & Hmin).
    { assert (Z.of_nat (length rest) = n - n_chars) by exact Hrest.
      assert (Z.of_nat (length rd) = n) by reflexivity.
      unfold n_chars in *. lia. }
    { destruct rest as [|? ?] eqn:Er; [right|left; discriminate]. rewrite zlen_nil in *. lia. }
    exists (n_zeros + k'). split; [unfold n_zeros; lia|]. split; [|split; [|split]].
    + rewrite Hres, (Hdecomp k') by lia. rewrite go_group by (auto; lia).
      rewrite Hxs, HlenG, Hrevxs, <- app_assoc. reflexivity.
    + intros ->. change (zlen []) with 0 in *. unfold n_zeros, n in *. lia.
    + fold n. replace (n + (n_zeros + k')) with (G + (zlen rest + k')) by lia.
      rewrite grouped_len_step by auto. lia.
    + intros Hk. fold n. replace (n + (n_zeros + k')) with (G + (zlen rest + k')) by lia.
      rewrite grouped_len_step by auto.
      assert (Hk'pos : 0 < k').
      { destruct (Z_lt_le_dec 0 k'); [auto|]. assert (0 < n_zeros) by lia. apply Hnil. auto. }
      destruct (Hmin Hk'pos) as [Hm0 Hm]. split; [lia|].
      rewrite Hm, (gtarget_step G mw) by auto. rewrite HlenG. lia.
Qed.

Lemma go_length g : 1 <= g -> forall rl cnt acc, 1 <= cnt <= g ->
  zlen (sep_right_go g cnt rl acc) = zlen acc + zlen rl + (cnt + zlen rl - 1) / g.
Proof.
  intros Hg. induction rl as [|c r IH]; intros cnt acc Hc.
  - cbn [sep_right_go]. rewrite zlen_nil. rewrite Z.div_small by lia. lia.
  - cbn [sep_right_go]. rewrite zlen_cons. pose proof (zlen_nonneg r).
    destruct (cnt =? g) eqn:E.
    + rewrite IH by lia. rewrite !zlen_cons.
      replace (cnt + (1 + zlen r) - 1) with (1 + zlen r - 1 + 1 * g) by lia.
      rewrite Z.div_add by lia. lia.
    + rewrite IH by lia. rewrite zlen_cons. replace (cnt + 1 + zlen r - 1) with (cnt + (1 + zlen r) - 1) by lia. lia.
Qed.

Lemma sep_right_length g l : 1 <= g -> l <> [] -> zlen (sep_right g l) = grouped_len g (zlen l).
Proof.
  intros Hg Hl. unfold sep_right, grouped_len.
  assert (Hr : zlen (rev l) = zlen l) by (unfold zlen; rewrite rev_length; reflexivity).
  destruct (rev l) as [|c r] eqn:E.
  - exfalso. apply Hl. rewrite <- (rev_involutive l), E. reflexivity.
  - cbn [sep_right_go]. destruct (0 =? g) eqn:E0; [lia|]. rewrite go_length by lia.
    rewrite <- Hr, !zlen_cons, zlen_nil. replace (0 + 1 + zlen r - 1) with (1 + zlen r - 1) by lia. lia.
Qed.

Lemma gl_decomp g n : 1 <= g -> 1 <= n ->
  exists q r, 0 <= q /\ 0 <= r < g /\ n = g * q + r + 1 /\ grouped_len g n = (g + 1) * q + r + 1.
Proof.
  intros Hg Hn. exists ((n - 1) / g), ((n - 1) mod g).
  pose proof (Z.div_mod (n - 1) g ltac:(lia)). pose proof (Z.mod_pos_bound (n - 1) g ltac:(lia)).
  assert (0 <= (n - 1) / g) by (apply Z.div_pos; lia).
  unfold grouped_len. repeat split; try lia.
Qed.

Lemma gl_mono g a b : 1 <= g -> 1 <= a -> a < b -> grouped_len g a < grouped_len g b.
Proof.
  intros Hg Ha Hab. unfold grouped_len.
  assert ((a - 1) / g <= (b - 1) / g) by (apply Z.div_le_mono; lia). lia.
Qed.

Lemma gl_not_multiple g n : 1 <= g -> 1 <= n -> grouped_len g n mod (g + 1) <> 0.
Proof.
  intros Hg Hn. destruct (gl_decomp g n Hg Hn) as (q & r & Hq & Hr & _ & ->).
  replace ((g + 1) * q + r + 1) with (r + 1 + q * (g + 1)) by lia.
  rewrite Z.mod_add by lia. rewrite Z.mod_small by lia. lia.
Qed.

Lemma gl_inverse g n : 1 <= g -> 1 <= n ->
  grouped_len g n - grouped_len g n / (g + 1) = n.
Proof.
  intros Hg Hn. destruct (gl_decomp g n Hg Hn) as (q & r & Hq & Hr & Hn' & ->).
  replace ((g + 1) * q + r + 1) with (r + 1 + q * (g + 1)) by lia.
  rewrite Z.div_add by lia. rewrite Z.div_small by lia. lia.
Qed.

(* the number of zeros CPython's loop adds is the declarative zero_count *)
Lemma zero_count_unique g n mw k : 1 <= g -> 1 <= n -> 0 <= k ->
  mw <= grouped_len g (n + k) ->
  (0 < k -> 0 <= mw /\ grouped_len g (n + k) = gtarget g mw) ->
  zero_count g n mw = k.
Proof.
  intros Hg Hn Hk Hle Hmin. unfold zero_count. fold (gtarget g mw).
  destruct (Z.eq_dec k 0) as [->|Hk0].
  - rewrite Z.add_0_r in *. assert (Ht : gtarget g mw <= grouped_len g n).
    { unfold gtarget. destruct (mw mod (g + 1) =? 0) eqn:E; [|lia].
      destruct (Z.eq_dec mw (grouped_len g n)) as [->|]; [|lia].
      exfalso. apply (gl_not_multiple g n); auto. lia. }
    destruct (gtarget g mw <=? grouped_len g n) eqn:E; lia.
  - destruct (Hmin ltac:(lia)) as [Hmw Heq].
    pose proof (gl_mono g n (n + k) Hg Hn ltac:(lia)).
    destruct (gtarget g mw <=? grouped_len g n) eqn:E; [lia|].
    rewrite <- Heq, gl_inverse by lia. lia.
Qed.

Lemma group_digits_spec g digs mw : 1 <= g -> digs <> [] ->
  group_digits (Some g) digs mw = pad_then_group g digs mw.
Proof.
  intros Hg Hne. unfold group_digits, pad_then_group, sep_right.
  destruct (group_loop_spec g Hg (length digs + Z.to_nat mw + 1) (rev digs) mw true [])
    as (k & Hk & Hres & _ & Hle & Hmin).
  { rewrite rev_length. lia. }
  { left. intros H. apply Hne. rewrite <- (rev_involutive digs), H. reflexivity. }
  assert (Hz : zlen (rev digs) = zlen digs) by (unfold zlen; rewrite rev_length; reflexivity).
  rewrite Hz in *.
  assert (1 <= zlen digs) by (destruct digs; [congruence|rewrite zlen_cons; pose proof (zlen_nonneg digs); lia]).
  rewrite (zero_count_unique g (zlen digs) mw k) by auto.
  rewrite Hres, rev_app_distr, rev_pad. reflexivity.
Qed.

Lemma zero_count_nowidth g n mw : 1 <= g -> 1 <= n -> mw <= 1 -> zero_count g n mw = 0.
Proof.
  intros Hg Hn Hmw. unfold zero_count.
  assert (1 <= grouped_len g n).
  { unfold grouped_len. assert (0 <= (n - 1) / g) by (apply Z.div_pos; lia). lia. }
  destruct (mw mod (g + 1) =? 0) eqn:E.
  - destruct (mw + 1 <=? grouped_len g n) eqn:E2; [reflexivity|].
    assert (mw = 1) by lia. subst mw. rewrite Z.mod_small in E by lia. lia.
  - destruct (mw <=? grouped_len g n) eqn:E2; [reflexivity|lia].
Qed.

Lemma pad_then_group_nowidth g digs mw : 1 <= g -> digs <> [] -> mw <= 1 ->
  pad_then_group g digs mw = sep_right g digs.
Proof.
  intros Hg Hne Hmw. unfold pad_then_group.
  assert (1 <= zlen digs) by (destruct digs; [congruence|rewrite zlen_cons; pose proof (zlen_nonneg digs); lia]).
  rewrite zero_count_nowidth by auto. rewrite pad_nonpos by lia. reflexivity.
Qed.

(* length of the padded-and-grouped digits: the width is met, with no more zeros than necessary *)
Lemma pad_then_group_length g digs mw : 1 <= g -> digs <> [] ->
  let L := zlen (pad_then_group g digs mw) in
  mw <= L /\ grouped_len g (zlen digs) <= L /\
  (grouped_len g (zlen digs) < L -> L = if mw mod (g + 1) =? 0 then mw + 1 else mw).
Proof.
  intros Hg Hne. rewrite <- (group_digits_spec g digs mw Hg Hne). unfold group_digits.
  destruct (group_loop_spec g Hg (length digs + Z.to_nat mw + 1) (rev digs) mw true [])
    as (k & Hk & Hres & _ & Hle & Hmin).
  { rewrite rev_length. lia. }
  { left. intros H. apply Hne. rewrite <- (rev_involutive digs), H. reflexivity. }
  assert (Hz : zlen (rev digs) = zlen digs) by (unfold zlen; rewrite rev_length; reflexivity).
  rewrite Hz in *.
  assert (Hn : 1 <= zlen digs) by (destruct digs; [congruence|rewrite zlen_cons; pose proof (zlen_nonneg digs); lia]).
  assert (HL : zlen (group_loop (length digs + Z.to_nat mw + 1) g (rev digs) mw true []) = grouped_len g (zlen digs + k)).
  { rewrite Hres. replace (rev digs ++ pad k 48) with (rev (pad k 48 ++ digs)) by (rewrite rev_app_distr, rev_pad; reflexivity).
    change (sep_right_go g 0 (rev (pad k 48 ++ digs)) []) with (sep_right g (pad k 48 ++ digs)).
    rewrite sep_right_length; auto.
    - rewrite zlen_app, zlen_pad. f_equal. lia.
    - destruct (pad k 48); [cbn; auto|discriminate]. }
  cbv zeta. rewrite HL. split; [auto|]. split.
  - destruct (Z.eq_dec k 0) as [->|]; [rewrite Z.add_0_r; lia|].
    pose proof (gl_mono g (zlen digs) (zlen digs + k) Hg Hn ltac:(lia)). lia.
  - intros Hlt. destruct (Z.eq_dec k 0) as [->|]; [rewrite Z.add_0_r in Hlt; lia|].
    destruct (Hmin ltac:(lia)) as [_ ->]. reflexivity.
Qed.

(* the separators of sep_right are exactly the '_' it inserts: removing them gives the text back *)
Lemma go_strip g : forall rl cnt acc, Forall (fun c => c <> 95) rl ->
  strip (sep_right_go g cnt rl acc) = rev rl ++ strip acc.
Proof.
  induction rl as [|c r IH]; intros cnt acc Hc; cbn [sep_right_go rev app]; [reflexivity|].
  inversion Hc as [|? ? Hc1 Hc2]; subst.
  assert (Hs : forall t, strip (c :: t) = c :: strip t).
  { intros t. cbn [strip filter]. destruct (c =? 95) eqn:E; [lia|reflexivity]. }
  destruct (cnt =? g); rewrite IH by auto; rewrite Hs, <- app_assoc; cbn [app]; [|reflexivity].
  cbn [strip filter]. cbn. reflexivity.
Qed.

Lemma sep_right_strip g l : Forall (fun c => c <> 95) l -> strip (sep_right g l) = l.
Proof.
  intros H. unfold sep_right. rewrite go_strip by (apply Forall_rev; auto).
  rewrite rev_involutive. cbn. apply app_nil_r.
Qed.

(* ------------------------------------------------------------------ *)
(* grouping as a recursion from the right, most significant first *)

Lemma go_acc g : forall rl cnt acc, sep_right_go g cnt rl acc = sep_right_go g cnt rl [] ++ acc.
Proof.
  induction rl as [|c r IH]; intros cnt acc; cbn [sep_right_go]; [reflexivity|].
  destruct (cnt =? g).
  - rewrite IH, (IH 1 [c; 95]), <- app_assoc. reflexivity.
  - rewrite IH, (IH (cnt + 1) [c]), <- app_assoc. reflexivity.
Qed.

Lemma sep_right_small g b : zlen b <= g -> sep_right g b = b.
Proof.
  intros H. unfold sep_right.
  assert (Hr : zlen (rev b) = zlen b) by (unfold zlen; rewrite rev_length; reflexivity).
  rewrite <- (app_nil_r (rev b)), go_nosep by lia. cbn [sep_right_go]. rewrite rev_involutive. apply app_nil_r.
Qed.

Lemma sep_right_peel g a b : 1 <= g -> a <> [] -> zlen b = g ->
  sep_right g (a ++ b) = sep_right g a ++ 95 :: b.
Proof.
  intros Hg Ha Hb. unfold sep_right. rewrite rev_app_distr.
  assert (Hr : zlen (rev b) = zlen b) by (unfold zlen; rewrite rev_length; reflexivity).
  rewrite go_nosep by lia. rewrite rev_involutive, app_nil_r, Z.add_0_l, Hr, Hb.
  destruct (rev a) as [|x r] eqn:E.
  - exfalso. apply Ha. rewrite <- (rev_involutive a), E. reflexivity.
  - cbn [sep_right_go]. rewrite Z.eqb_refl. destruct (0 =? g) eqn:E0; [lia|].
    rewrite go_acc, (go_acc g r (0 + 1) [x]). rewrite <- app_assoc. reflexivity.
Qed.

(* ------------------------------------------------------------------ *)
(* py_format in terms of layout / pad_then_group                         *)

Lemma assemble_layout sp dflt G s p d r :
  assemble sp dflt G s p d r =
  layout (eff_align sp dflt) (eff_fill sp) (f_width sp) s p (body_of sp dflt G s p d r) r.
Proof. reflexivity. Qed.

Lemma body_of_grouped sp g s p d : 1 <= g -> d <> [] ->
  body_of sp ARight (Some g) s p d [] =
  pad_then_group g d (if zero_mode sp ARight then f_width sp - zlen s - zlen p else 0).
Proof.
  intros Hg Hd. unfold body_of, zero_mode. rewrite (match_nonempty d _ Hd), group_digits_spec by auto.
  destruct ((eff_fill sp =? 48) && match eff_align sp ARight with AEq => true | _ => false end); [|reflexivity].
  f_equal. change (zlen []) with 0. lia.
Qed.

(* ------------------------------------------------------------------ *)
(* RTLIL FORMAT items denote what the simulator prints                   *)

Definition rtl_zero_align_case (sp : spec) : bool :=       (* '0' flag written together with an alignment, no fill *)
  f_zero sp && match f_align sp with Some _ => true | None => false end
  && match f_fill sp with None => true | Some _ => false end.
Definition rtl_char_default_case (sp : spec) : bool :=     (* 'c' with a width and no alignment *)
  match f_type sp with Some Tc => match f_align sp with None => 1 <? f_width sp | _ => false end | _ => false end.
Definition rtl_char_brace_case (sp : spec) : bool :=       (* 'c' padded with a brace *)
  match f_type sp, f_fill sp with Some Tc, Some c => is_brace c && (1 <? f_width sp) | _, _ => false end.
Definition rtl_agrees (sp : spec) : bool :=
  negb (rtl_zero_align_case sp) && negb (rtl_char_default_case sp) && negb (rtl_char_brace_case sp).

Lemma eff_dict sp dflt : (f_fill sp <> None -> f_align sp <> None) -> rtl_zero_align_case sp = false ->
  eff_fill sp = match dict_fill sp with Some c => c | None => 32 end /\
  eff_align sp dflt = match dict_align sp with Some a => a | None => dflt end.
Proof.
  unfold rtl_zero_align_case, eff_fill, eff_align, dict_fill, dict_align, dict_zf.
  intros Hg Hc. destruct (f_fill sp) as [c|], (f_align sp) as [a|], (f_zero sp); cbn in *; try discriminate; auto;
    destruct Hg; congruence.
Qed.

Lemma layout_zero_pad w s p d z : z = Z.max 0 (w - (zlen s + zlen p) - zlen d) ->
  layout AEq 48 w s p (pad z 48 ++ d) [] = layout AEq 48 w s p d [].
Proof.
  intros ->. unfold layout. change (zlen []) with 0. rewrite zlen_app, zlen_pad.
  pose proof (zlen_nonneg d). set (n := zlen d) in *. set (a := zlen s + zlen p) in *.
  replace (Z.max 0 (w - (a + 0) - (Z.max 0 (Z.max 0 (w - a - n)) + n))) with 0 by lia.
  replace (Z.max 0 (w - (a + 0) - n)) with (Z.max 0 (w - a - n)) by lia.
  unfold pad at 1. cbn [Z.to_nat repeat app]. rewrite <- app_assoc. reflexivity.
Qed.

Lemma numeric_layout_eq sp s p d g :
  (f_fill sp <> None -> f_align sp <> None) -> rtl_zero_align_case sp = false -> d <> [] -> 1 <= g ->
  let al := match dict_align sp with Some a => a | None => ARight end in
  let fill := match dict_fill sp with Some c => c | None => 32 end in
  layout al fill (f_width sp) s p
    (if f_group sp then
       if match al with AEq => true | _ => false end && (fill =? 48)
       then pad_then_group g d (f_width sp - zlen s - zlen p) else sep_right g d
     else d) []
  = assemble sp ARight (if f_group sp then Some g else None) s p d [].
Proof.
  intros Hgr Hc Hd Hg al fill. destruct (eff_dict sp ARight Hgr Hc) as [Hf Ha].
  subst al fill. rewrite <- Hf, <- Ha, assemble_layout.
  assert (Hn : 1 <= zlen d) by (destruct d; [congruence|rewrite zlen_cons; pose proof (zlen_nonneg d); lia]).
  destruct (f_group sp).
  - rewrite body_of_grouped by auto. unfold zero_mode. rewrite andb_comm.
    destruct ((eff_fill sp =? 48) && match eff_align sp ARight with AEq => true | _ => false end); [reflexivity|].
    rewrite pad_then_group_nowidth by (auto; lia). reflexivity.
  - unfold body_of. rewrite (match_nonempty d _ Hd).
    destruct ((eff_fill sp =? 48) && match eff_align sp ARight with AEq => true | _ => false end) eqn:Ez.
    + apply andb_true_iff in Ez. destruct Ez as [Ef Eal].
      destruct (eff_align sp ARight); try discriminate. assert (eff_fill sp = 48) as -> by lia.
      unfold group_digits. symmetry. apply layout_zero_pad. change (zlen []) with 0. lia.
    + rewrite group_none_nopad by (auto; lia). reflexivity.
Qed.

Lemma utf8_ascii bs : Forall (fun b => 0 <= b < 128) bs -> utf8_decode bs = Some bs.
Proof.
  induction 1 as [|b bs Hb _ IH]; [reflexivity|]. cbn [utf8_decode].
  unfold in_rng at 1. destruct ((0 <=? b) && (b <=? 127)) eqn:E; [|lia]. rewrite IH. reflexivity.
Qed.

Lemma rtl_digits t x : numeric t ->
  map (digit_char (match rbase_of t with RH => true | _ => false end)) (digits (rbase_radix (rbase_of t)) x)
  = map (digit_char (upper_of t)) (digits (base_of t) x).
Proof. destruct t as [[]|]; cbn; try contradiction; reflexivity. Qed.
Lemma rtl_prefix t (alt : bool) : numeric t ->
  (if alt && negb (is_rd (rbase_of t)) then rbase_prefix (rbase_of t) else []) = if alt then prefix_of t else [].
Proof. destruct t as [[]|], alt; cbn; try contradiction; reflexivity. Qed.
Lemma rtl_group t : numeric t -> rbase_group (rbase_of t) = group_size t /\ 1 <= group_size t.
Proof. destruct t as [[]|]; cbn; try contradiction; split; (reflexivity || lia). Qed.

Theorem rtl_field_agrees sp sh v cs :
  check_shape sp sh = true -> (f_fill sp <> None -> f_align sp <> None) -> rtl_agrees sp = true ->
  (f_type sp = Some Ts -> Forall (fun b => 0 <= b < 128) (value_bytes v)) ->
  0 <= f_width sp ->
  rtl_emit_field sp (width sh) (sgn sh) = Some cs ->
  rchunks_render cs v = py_format sp v.
Proof.
  intros Hk Hgr Hag Hs Hwpos Hemit. unfold rtl_agrees in Hag.
  apply andb_true_iff in Hag. destruct Hag as [Hag Hbr]. apply andb_true_iff in Hag. destruct Hag as [Hza Hcd].
  apply negb_true_iff in Hza, Hcd, Hbr.
  unfold rtl_emit_field in Hemit.
  destruct (128 <=? match dict_fill sp with Some c => c | None => 32 end) eqn:Easc; [discriminate|].
  assert (Hnum : forall t, f_type sp = t -> numeric t ->
            Some [RInt (RItem (width sh)
                   (match dict_align sp with Some a => a | None => if is_cs t then ALeft else ARight end)
                   (match dict_fill sp with Some c => c | None => 32 end) (f_width sp) (rbase_of t) (f_sign sp)
                   (f_alt sp && negb (is_rd (rbase_of t))) (f_group sp) (sgn sh))] = Some cs ->
            rchunks_render cs v = py_format sp v).
  { intros t Et Hn H. injection H as <-. cbn [rchunks_render rchunk_render]. rewrite app_nil_r.
    assert (Hcs : is_cs t = false) by (destruct t as [[]|]; cbn in *; try contradiction; reflexivity).
    rewrite Hcs. unfold ritem_render. cbn [r_base r_sign r_show r_group r_just r_pad r_width].
    assert (Hb : forall (A : Type) (x : A) (f : rbase -> A), match rbase_of t with Rstr => x | b => f b end = f (rbase_of t)).
    { intros. destruct t as [[]|]; cbn in *; try contradiction; reflexivity. }
    destruct (rtl_group t Hn) as [Hg1 Hg2].
    transitivity (Some (layout (match dict_align sp with Some a => a | None => ARight end)
                           (match dict_fill sp with Some c => c | None => 32 end) (f_width sp)
                           (sign_text sp (v <? 0)) (if f_alt sp then prefix_of t else [])
                           (if f_group sp then
                              if match (match dict_align sp with Some a => a | None => ARight end) with AEq => true | _ => false end
                                 && ((match dict_fill sp with Some c => c | None => 32 end) =? 48)
                              then pad_then_group (group_size t) (digit_text t v)
                                     (f_width sp - zlen (sign_text sp (v <? 0)) - zlen (if f_alt sp then prefix_of t else []))
                              else sep_right (group_size t) (digit_text t v)
                            else digit_text t v) [])).
    - destruct t as [[]|]; cbn in Hn; try contradiction; cbn; unfold sign_text, digit_text; cbn;
        destruct (f_alt sp); cbn; destruct (v <? 0); destruct (f_sign sp) as [[]|]; reflexivity.
    - rewrite (numeric_layout_eq sp _ _ (digit_text t v) (group_size t) Hgr Hza (digit_text_nonempty t v) Hg2).
      unfold py_format. rewrite Et. destruct t as [[]|]; cbn in Hn; try contradiction; reflexivity. }
  destruct (f_type sp) as [[]|] eqn:Et.
  1-5: apply (Hnum _ eq_refl I Hemit).
  3: apply (Hnum None eq_refl I Hemit).
  - (* c *)
    destruct (check_shape_cs sp sh Hk) as (_ & Hneq & _ & Hz0 & _ & _); [rewrite Et; reflexivity|].
    destruct (eff_dict sp ARight Hgr Hza) as [Hf Ha].
    unfold py_format. rewrite Et.
    unfold rtl_char_default_case in Hcd. rewrite Et in Hcd.
    unfold rtl_char_brace_case in Hbr. rewrite Et in Hbr.
    injection Hemit as <-. cbn [is_cs] in *.
    rewrite assemble_layout. unfold body_of. rewrite Hf, Ha.
    set (fill := match dict_fill sp with Some c => c | None => 32 end) in *.
    set (w := f_width sp) in *.
    assert (Hfill : w <> 0 -> rchunk_render (RFill fill (w - 1)) v = Some (pad (w - 1) fill)).
    { intros Hw0. cbn [rchunk_render]. unfold fill, dict_fill, dict_zf in *. rewrite Hz0 in *. cbn [andb] in *.
      destruct (f_fill sp) as [c|]; [|reflexivity]. destruct (is_brace c) eqn:Eb; [|reflexivity].
      cbn [andb] in Hbr. assert (w = 1) by lia. replace (w - 1) with 0 by lia. reflexivity. }
    unfold dict_align, dict_zf in *. rewrite Hz0 in *. cbn [andb] in *.
    unfold layout. change (zlen []) with 0. change (zlen [v]) with 1.
    destruct ((v <? 0) || (1114111 <? v)) eqn:Ev.
    + destruct (f_align sp) as [[]|]; cbn [is_left negb andb app rchunks_render rchunk_render];
        destruct (w =? 0); cbn [negb andb app rchunks_render rchunk_render]; rewrite ?Ev;
        repeat match goal with |- context [match ?x with Some _ => _ | None => _ end] => destruct x end; reflexivity.
    + destruct (f_align sp) as [[]|] eqn:Eal; try congruence; cbn [is_left negb andb app];
        destruct (w =? 0) eqn:Ew; cbn [negb andb app rchunks_render]; rewrite ?Hfill by lia;
        cbn [rchunk_render]; rewrite Ev; cbn [app].
      * rewrite pad_nonpos by lia. reflexivity.
      * rewrite app_nil_r. do 2 f_equal. unfold pad. f_equal. lia.
      * rewrite pad_nonpos by lia. reflexivity.
      * do 2 f_equal. unfold pad. f_equal. lia.
      * rewrite pad_nonpos by lia. reflexivity.
      * assert (w = 1) by lia. rewrite !pad_nonpos by lia. reflexivity.
  - (* s *)
    destruct (check_shape_cs sp sh Hk) as (_ & Hneq & _ & Hz0 & _ & _); [rewrite Et; reflexivity|].
    destruct (eff_dict sp ALeft Hgr Hza) as [Hf Ha].
    injection Hemit as <-. cbn [is_cs rchunks_render rchunk_render]. rewrite app_nil_r.
    unfold ritem_render. cbn [r_base rbase_of r_just r_pad r_width].
    unfold py_format. rewrite Et, (utf8_ascii _ (Hs eq_refl)), assemble_layout. unfold body_of.
    rewrite Hf, Ha. reflexivity.
Qed.

Lemma py_format_grouped sp v : numeric (f_type sp) -> f_group sp = true ->
  let t := f_type sp in
  let s := sign_text sp (v <? 0) in
  let p := if f_alt sp then prefix_of t else [] in
  py_format sp v =
  Some (layout (eff_align sp ARight) (eff_fill sp) (f_width sp) s p
          (pad_then_group (group_size t) (digit_text t v)
             (if zero_mode sp ARight then f_width sp - zlen s - zlen p else 0)) []).
Proof.
  intros Hn Hg t s p. subst t s p. unfold py_format. rewrite Hg.
  assert (H4 : forall t, 1 <= group_size t) by (intros [[]|]; cbn; lia).
  destruct (f_type sp) as [[]|] eqn:Et; cbn [numeric] in Hn; try contradiction;
    rewrite assemble_layout, body_of_grouped by (auto using digit_text_nonempty); reflexivity.
Qed.

Lemma eat_digits_nonneg s : forall acc w r, 0 <= acc -> eat_digits s acc = (w, r) -> 0 <= w.
Proof.
  induction s as [|c s IH]; intros acc w r Ha; cbn [eat_digits].
  - intros H; injection H as <- _. exact Ha.
  - destruct (is_digit c) eqn:E.
    + apply IH. unfold is_digit in E. lia.
    + intros H; injection H as <- _. exact Ha.
Qed.

Lemma parse_raw_width_nonneg s sp : parse_raw s = Some sp -> 0 <= f_width sp.
Proof.
  intros H. destruct (parse_raw_sound s sp H) as (wd & _ & Hw & _).
  unfold width_digits in Hw. destruct wd as [|c r]; [lia|].
  destruct Hw as (Hc & _ & He). eapply eat_digits_nonneg; [|exact He]. lia.
Qed.

(* for every spec accepted for the shape: the items emitted into the RTLIL FORMAT parameter denote the text the
   simulator prints, except in the three excluded classes *)
Lemma rtl_accepted_agrees s sh sp v cs :
  parse_spec s sh = Some sp -> rtl_agrees sp = true ->
  (f_type sp = Some Ts -> Forall (fun b => 0 <= b < 128) (value_bytes v)) ->
  rtl_emit_field sp (width sh) (sgn sh) = Some cs ->
  rchunks_render cs v = py_format sp v.
Proof.
  intros Hp Hag Hs He. destruct (parse_spec_check _ _ _ Hp) as [Hr Hk].
  destruct (parse_raw_sound s sp Hr) as (wd & _ & _ & Hgr).
  eapply rtl_field_agrees; eauto.
  - intros Hf. destruct (Hgr Hf); auto.
  - eapply parse_raw_width_nonneg; eauto.
Qed.

(* emission fails (NotImplementedError) exactly for a fill character outside ASCII *)
Lemma rtl_emit_defined sp size sg :
  rtl_emit_field sp size sg = None <-> 128 <= match dict_fill sp with Some c => c | None => 32 end.
Proof.
  unfold rtl_emit_field. destruct (128 <=? match dict_fill sp with Some c => c | None => 32 end) eqn:E.
  - split; [lia|reflexivity].
  - split; [|lia]. destruct (f_type sp) as [[]|]; discriminate.
Qed.

(* ------------------------------------------------------------------ *)
(* designs: registers, several domains, comb process                     *)

Lemma render_b_false sigs env f : forall acc, render_b false sigs env f acc = render sigs env f acc.
Proof.
  induction f as [|[t|e s] f IH]; intros acc; cbn [render_b render]; auto.
  destruct (field_spec sigs e s); [|reflexivity]. cbn [andb].
  destruct (emit_field _ _ _); auto.
Qed.

Lemma exec_b_false sigs env p : forall out, exec_b false sigs env p out = exec sigs env p out.
Proof.
  assert (He : forall f, emit_format_b false sigs env f = emit_format sigs env f).
  { intros f. unfold emit_format_b, emit_format. rewrite render_b_false. reflexivity. }
  induction p as [|a IHa b IHb|f|k t m|c t IHt e IHe]; intros out; cbn [exec_b exec].
  - reflexivity.
  - rewrite IHa. destruct (exec sigs env a out); auto.
  - unfold fire_print_b, fire_print. rewrite He. reflexivity.
  - unfold fire_prop_b, fire_prop. destruct k, m as [f|]; rewrite ?He; reflexivity.
  - destruct (eval_cond sigs env c); auto.
Qed.

(* without a brace-filled field nothing distinguishes the finding's semantics *)
Definition conv_step (s : step) : tstep :=
  match s with StSet i v => TSet i v | StClk b => TClk 0 b | StRst b => TRst 0 b end.

Definition single (sigs : list shape) (pos rst : bool) (p : prog) : design :=
  Design sigs [Dom pos rst false p] PSkip [].

Lemma run_dsteps_single f7 sigs pos rst p steps : forall env clk r idx out,
  run_dsteps f7 false (single sigs pos rst p) (map conv_step steps) (DS env [clk] [r]) idx out =
  run_steps sigs pos p steps env clk idx out.
Proof.
  induction steps as [|st steps IH]; intros env clk r idx out; cbn [map run_dsteps run_steps]; [reflexivity|].
  destruct st as [i v|b|b]; cbn [conv_step dstep_run s_env s_clk s_rst].
  - unfold after_change. cbn [single ds_comb prog_sigs changed existsb ds_sigs]. apply IH.
  - unfold dom_of. cbn [single ds_doms nth d_pos set_nthb].
    destruct (is_edge pos clk b) eqn:E.
    + unfold proc_run, dom_of. cbn [single ds_doms nth d_prog ds_sigs ds_regs update_regs].
      rewrite exec_b_false. destruct (exec sigs env p out) as [o|o c m].
      * unfold after_change. cbn [ds_comb prog_sigs changed existsb]. apply IH.
      * reflexivity.
    + apply IH.
  - unfold dom_of. cbn [single ds_doms nth d_async andb set_nthb]. apply IH.
Qed.

Lemma run_design_single f7 sigs pos rst p steps :
  run_design f7 false (single sigs pos rst p) (map conv_step steps) =
  run_steps sigs pos p steps (init_env sigs) false 0 [].
Proof.
  unfold run_design, design_init. cbn [single ds_regs init_regs ds_sigs ds_doms map ds_comb exec_b s_env].
  apply run_dsteps_single.
Qed.

(* steps at which nothing can be emitted (documented semantics, f7 = false) *)
Definition quiet_step (D : design) (t : tstep) (st : dstate) : bool :=
  match t with
  | TSet i v => negb (changed (prog_sigs (ds_comb D)) (s_env st)
                        (set_nth i (norm (sig_shape (ds_sigs D) i) v) (s_env st)))
  | TClk d b => negb (is_edge (d_pos (dom_of D d)) (nth d (s_clk st) false) b)
  | TRst d b => negb (d_async (dom_of D d) && b && negb (nth d (s_rst st) false))
                || negb (changed (prog_sigs (ds_comb D)) (s_env st) (reset_regs d (ds_regs D) (s_env st)))
  | TBoth d cb rb =>
      negb (is_edge (d_pos (dom_of D d)) (nth d (s_clk st) false) cb)
      && (negb (d_async (dom_of D d) && rb && negb (nth d (s_rst st) false))
          || negb (changed (prog_sigs (ds_comb D)) (s_env st) (reset_regs d (ds_regs D) (s_env st))))
  end.

Lemma quiet_step_silent bf D t st out : quiet_step D t st = true ->
  fst (dstep_run false bf D t st out) = Cont out.
Proof.
  destruct t as [i v|d b|d b|d cb rb]; cbn [quiet_step dstep_run]; intros H.
  - cbn [fst]. unfold after_change. apply negb_true_iff in H. rewrite H. reflexivity.
  - apply negb_true_iff in H. rewrite H. reflexivity.
  - destruct (d_async (dom_of D d) && b && negb (nth d (s_rst st) false)) eqn:E; [|reflexivity].
    cbn [negb orb] in H. cbn [fst]. unfold after_change. apply negb_true_iff in H. rewrite H. reflexivity.
  - apply andb_true_iff in H. destruct H as [He H]. apply negb_true_iff in He. rewrite He.
    destruct (d_async (dom_of D d) && rb && negb (nth d (s_rst st) false)) eqn:E; [|reflexivity].
    cbn [negb orb] in H. cbn [fst]. unfold after_change. apply negb_true_iff in H. rewrite H. reflexivity.
Qed.

(* clock and reset changed by one command: an active edge runs the process with the NEW reset level *)
Lemma both_step_edge f7 bf D d cb rb st out :
  is_edge (d_pos (dom_of D d)) (nth d (s_clk st) false) cb = true ->
  fst (dstep_run f7 bf D (TBoth d cb rb) st out) = fst (proc_run bf D d rb (s_env st) out).
Proof. intros H. cbn [dstep_run]. rewrite H. destruct (proc_run bf D d rb (s_env st) out). reflexivity. Qed.

(* an active edge: the statements see the values before the edge; the registers then step from those same values *)
Lemma edge_step_spec f7 bf D d b st out :
  is_edge (d_pos (dom_of D d)) (nth d (s_clk st) false) b = true ->
  dstep_run f7 bf D (TClk d b) st out =
  match exec_b bf (ds_sigs D) (s_env st) (d_prog (dom_of D d)) out with
  | Cont out' =>
      let env' := update_regs (ds_sigs D) (s_env st) (nth d (s_rst st) false) d (ds_regs D) (s_env st) in
      (after_change bf D (s_env st) env' out', DS env' (set_nthb d b (s_clk st)) (s_rst st))
  | s => (s, DS (s_env st) (set_nthb d b (s_clk st)) (s_rst st))
  end.
Proof.
  intros H. cbn [dstep_run]. rewrite H. unfold proc_run.
  destruct (exec_b bf (ds_sigs D) (s_env st) (d_prog (dom_of D d)) out); reflexivity.
Qed.

(* a change of the reset never emits when no comb statement exists (documented semantics) *)
Lemma reset_step_silent bf D d b st out : ds_comb D = PSkip ->
  fst (dstep_run false bf D (TRst d b) st out) = Cont out.
Proof.
  intros Hc. cbn [dstep_run].
  destruct (d_async (dom_of D d) && b && negb (nth d (s_rst st) false)); [|reflexivity].
  cbn [fst]. unfold after_change. rewrite Hc. cbn. reflexivity.
Qed.

(* ------------------------------------------------------------------ *)
(* completeness of the recogniser: every string of the grammar is accepted, with the record it was rendered from *)

Definition is_type_char (c : Z) : bool :=
  (c =? 98) || (c =? 111) || (c =? 100) || (c =? 120) || (c =? 88) || (c =? 99) || (c =? 115).
Definition cls6 (c : Z) : bool := is_type_char c || (c =? 95).
Definition cls5 (c : Z) : bool := cls6 c || ((48 <=? c) && (c <=? 57)).
Definition cls3 (c : Z) : bool := cls5 c || (c =? 35).
Definition cls2 (c : Z) : bool := cls3 c || (c =? 45) || (c =? 43) || (c =? 32).

Definition head_ok (P : Z -> bool) (s : list Z) : bool := match s with [] => true | c :: _ => P c end.

Lemma head_ok_forall (P Q : Z -> bool) s : (forall c, Q c = true -> P c = true) ->
  Forall (fun c => Q c = true) s -> head_ok P s = true.
Proof. intros H Hs. destruct Hs; cbn; auto. Qed.

Lemma eat_flag k (b : bool) rest : (b = false -> head_ok (fun c => negb (k =? c)) rest = true) ->
  eat (Z.eqb k) (flag b k ++ rest) = (b, rest).
Proof.
  intros H. destruct b; cbn [flag app eat].
  - rewrite Z.eqb_refl. reflexivity.
  - specialize (H eq_refl). destruct rest as [|c r]; [reflexivity|]. cbn in H. cbn [eat].
    destruct (k =? c); [discriminate|reflexivity].
Qed.

Lemma eat_digits_app r : forall acc w rest, Forall (fun d => 48 <= d <= 57) r ->
  head_ok (fun c => negb (is_digit c)) rest = true ->
  eat_digits r acc = (w, []) -> eat_digits (r ++ rest) acc = (w, rest).
Proof.
  induction r as [|c r IH]; intros acc w rest Hr Hh He.
  - cbn in He. injection He as <-. cbn [app]. destruct rest as [|x t]; [reflexivity|].
    cbn in Hh. cbn [eat_digits]. destruct (is_digit x); [discriminate|reflexivity].
  - inversion Hr; subst. cbn [app eat_digits] in *.
    assert (is_digit c = true) as -> by (unfold is_digit; lia). rewrite H2 in He || idtac.
    assert (Hd : is_digit c = true) by (unfold is_digit; lia). rewrite Hd in He. apply IH; auto.
Qed.

Lemma type_tail_forall ty : Forall (fun c => is_type_char c = true) (opt_char (option_map type_char ty)).
Proof. destruct ty as [[]|]; cbn; repeat constructor. Qed.

Lemma parse_raw_complete sp wd :
  (f_fill sp <> None -> f_align sp <> None /\ f_fill sp <> Some 10) ->
  (f_fill sp = None \/ f_align sp <> None) ->
  width_digits (f_width sp) wd ->
  parse_raw (render_spec sp wd) = Some sp.
Proof.
  destruct sp as [fill al sg alt zero w grp ty]. cbn [f_fill f_align f_width]. intros Hfill _ Hwd.
  unfold render_spec. cbn [f_fill f_align f_sign f_alt f_zero f_width f_group f_type].
  set (T7 := opt_char (option_map type_char ty)).
  set (T6 := flag grp 95 ++ T7). set (T5 := wd ++ T6). set (T4 := flag zero 48 ++ T5).
  set (T3 := flag alt 35 ++ T4). set (T2 := opt_char (option_map sign_char sg) ++ T3).
  assert (F7 : Forall (fun c => is_type_char c = true) T7) by apply type_tail_forall.
  assert (F6 : Forall (fun c => cls6 c = true) T6).
  { unfold T6. apply Forall_app. split.
    - destruct grp; cbn; repeat constructor.
    - eapply Forall_impl; [|exact F7]. cbn. intros c Hc. unfold cls6. rewrite Hc. reflexivity. }
  assert (Hwdd : Forall (fun d => 48 <= d <= 57) wd).
  { destruct wd as [|c r]; [constructor|]. cbn in Hwd. destruct Hwd as (Hc & Hr & _). constructor; [lia|exact Hr]. }
  assert (F5 : Forall (fun c => cls5 c = true) T5).
  { unfold T5. apply Forall_app. split.
    - eapply Forall_impl; [|exact Hwdd]. cbn. intros c Hc. unfold cls5. lia.
    - eapply Forall_impl; [|exact F6]. cbn. intros c Hc. unfold cls5. rewrite Hc. reflexivity. }
  assert (F4 : Forall (fun c => cls5 c = true) T4).
  { unfold T4. apply Forall_app. split; [destruct zero; cbn; repeat constructor|exact F5]. }
  assert (F3 : Forall (fun c => cls3 c = true) T3).
  { unfold T3. apply Forall_app. split; [destruct alt; cbn; repeat constructor|].
    eapply Forall_impl; [|exact F4]. cbn. intros c Hc. unfold cls3. rewrite Hc. reflexivity. }
  assert (F2 : Forall (fun c => cls2 c = true) T2).
  { unfold T2. apply Forall_app. split; [destruct sg as [[]|]; cbn; repeat constructor|].
    eapply Forall_impl; [|exact F3]. cbn. intros c Hc. unfold cls2. rewrite Hc. reflexivity. }
  assert (NA : forall c, cls2 c = true -> is_align_char c = false).
  { intros c. unfold cls2, cls3, cls5, cls6, is_type_char, is_align_char. lia. }
  (* stage 1 *)
  assert (S1 : parse_fill_align (opt_char fill ++ opt_char (option_map align_char al) ++ T2)
               = (fill, option_map align_char al, T2)).
  { assert (Hh : head_ok (fun c => negb (is_align_char c)) T2 = true).
    { eapply head_ok_forall; [|exact F2]. intros c Hc. rewrite (NA c Hc). reflexivity. }
    assert (Hh2 : match T2 with _ :: c2 :: _ => is_align_char c2 = false | _ => True end).
    { destruct F2 as [|c0 t0 _ [|c1 t1 H1 _]]; auto. }
    destruct fill as [c|], al as [a|]; cbn [opt_char option_map app].
    - destruct (Hfill ltac:(discriminate)) as [_ Hn]. unfold parse_fill_align.
      assert (is_align_char (align_char a) = true) as -> by (destruct a; reflexivity).
      assert (c <> 10) by congruence. destruct (c =? 10) eqn:E; [lia|]. reflexivity.
    - destruct (Hfill ltac:(discriminate)) as [Hc _]. congruence.
    - unfold parse_fill_align. assert (Ha : is_align_char (align_char a) = true) by (destruct a; reflexivity).
      destruct T2 as [|x r]; [rewrite Ha; reflexivity|]. cbn in Hh.
      destruct (is_align_char x); [discriminate|]. cbn [andb]. rewrite Ha. reflexivity.
    - unfold parse_fill_align. destruct T2 as [|x [|y r]]; [reflexivity| |].
      + cbn in Hh. destruct (is_align_char x); [discriminate|reflexivity].
      + cbn in Hh. rewrite Hh2. cbn [andb]. destruct (is_align_char x); [discriminate|reflexivity]. }
  unfold parse_raw. rewrite S1.
  assert (Hal : match option_map align_char al with Some a => align_of a | None => None end = al)
    by (destruct al as [[]|]; reflexivity).
  rewrite Hal.
  assert (Hbad : match option_map align_char al, al with Some _, None => true | _, _ => false end = false)
    by (destruct al; reflexivity).
  rewrite Hbad.
  (* stage 2: sign *)
  assert (S2 : (match T2 with c :: _ => sign_of c | [] => None end) = sg /\
               (match (match T2 with c :: _ => sign_of c | [] => None end), T2 with Some _, _ :: r => r | _, _ => T2 end) = T3).
  { unfold T2. destruct sg as [[]|]; cbn [option_map opt_char app sign_char]; try (split; reflexivity).
    assert (Hh : head_ok (fun c => match sign_of c with None => true | Some _ => false end) T3 = true).
    { eapply head_ok_forall; [|exact F3]. intros c. unfold cls3, cls5, cls6, is_type_char, sign_of.
      intros Hc. destruct (c =? 45) eqn:E1; [lia|]. destruct (c =? 43) eqn:E2; [lia|]. destruct (c =? 32) eqn:E3; [lia|reflexivity]. }
    destruct T3 as [|x r]; [split; reflexivity|]. cbn in Hh. destruct (sign_of x); [discriminate|split; reflexivity]. }
  destruct S2 as [S2a S2b]. rewrite S2b, S2a.
  (* stages 3, 4 *)
  unfold T3. rewrite eat_flag.
  2:{ intros _. eapply head_ok_forall; [|exact F4]. intros c. unfold cls5, cls6, is_type_char. lia. }
  unfold T4. rewrite eat_flag.
  2:{ intros _. unfold T5. destruct wd as [|c r].
      - cbn [app]. eapply head_ok_forall; [|exact F6]. intros c. unfold cls6, is_type_char. lia.
      - cbn [width_digits] in Hwd. destruct Hwd as (Hc & _). cbn [app head_ok]. lia. }
  (* stage 5: width *)
  assert (S5 : eat_width T5 = (w, T6)).
  { unfold T5. assert (Hh : head_ok (fun c => negb (is_digit c)) T6 = true).
    { eapply head_ok_forall; [|exact F6]. intros c. unfold cls6, is_type_char, is_digit. lia. }
    destruct wd as [|c r].
    - cbn in Hwd. subst w. cbn [app]. unfold eat_width. destruct T6 as [|x t]; [reflexivity|].
      cbn in Hh. unfold is_digit in Hh. destruct ((49 <=? x) && (x <=? 57)) eqn:E; [lia|reflexivity].
    - cbn in Hwd. destruct Hwd as (Hc & Hr & He). cbn [app]. unfold eat_width.
      destruct ((49 <=? c) && (c <=? 57)) eqn:E; [|lia]. apply eat_digits_app; auto. }
  rewrite S5. unfold T6. rewrite eat_flag.
  2:{ intros _. eapply head_ok_forall; [|exact F7]. intros c. unfold is_type_char. lia. }
  unfold T7. destruct ty as [[]|]; reflexivity.
Qed.

(* ------------------------------------------------------------------ *)
(* the lowering of If/Elif/Else and Switch/Case to the priority chain preserves the DSL meaning *)

Lemma land_step m t (x : bool) :
  Z.land (2 * m + Z.b2z x) t = 2 * Z.land m (Z.div2 t) + Z.b2z (x && Z.odd t).
Proof.
  apply Z.bits_inj'. intros n Hn. rewrite Z.land_spec.
  rewrite (Z.div2_odd t) at 1.
  destruct (Z.eq_dec n 0) as [->|Hn0].
  - rewrite !Z.testbit_0_r. reflexivity.
  - replace n with (Z.succ (n - 1)) by lia. rewrite !Z.testbit_succ_r by lia. rewrite Z.land_spec. reflexivity.
Qed.

Definition pstep (c : Z) (mv : Z * Z) : Z * Z :=
  (2 * fst mv + (if c =? 45 then 0 else 1), 2 * snd mv + (if c =? 49 then 1 else 0)).

Lemma pat_mv_rev p : pat_mv p = fold_right pstep (0, 0) (rev p).
Proof. unfold pat_mv. symmetry. exact (fold_left_rev_right pstep p (0, 0)). Qed.

Lemma pat_lsb_spec l : forall test,
  (snd (fold_right pstep (0, 0) l) =? Z.land (fst (fold_right pstep (0, 0) l)) test) = pat_matches_lsb l test.
Proof.
  induction l as [|c r IH]; intros test; cbn [fold_right pat_matches_lsb].
  - cbn. reflexivity.
  - set (mv := fold_right pstep (0, 0) r) in *. unfold pstep at 1 2. cbn [fst snd].
    specialize (IH (Z.div2 test)).
    replace (if c =? 45 then 0 else 1) with (Z.b2z (negb (c =? 45))) by (destruct (c =? 45); reflexivity).
    rewrite land_step. rewrite <- IH.
    destruct (c =? 45) eqn:E45.
    + assert (c =? 49 = false) as -> by lia. cbn [negb andb Z.b2z]. lia.
    + cbn [negb andb]. destruct (c =? 49), (Z.odd test); cbn [Z.b2z Bool.eqb]; lia.
Qed.

Lemma pat_mv_spec p test :
  (snd (pat_mv p) =? Z.land (fst (pat_mv p)) test) = pat_matches p test.
Proof. rewrite pat_mv_rev. apply pat_lsb_spec. Qed.

Lemma existsb_pats ps test :
  existsb (fun mv => snd mv =? Z.land (fst mv) test) (map pat_mv ps) = existsb (fun p => pat_matches p test) ps.
Proof. induction ps as [|p ps IH]; cbn [map existsb]; [reflexivity|]. rewrite pat_mv_spec, IH. reflexivity. Qed.

Scheme dstmt_mind := Induction for dstmt Sort Prop
  with dprog_mind := Induction for dprog Sort Prop
  with darms_mind := Induction for darms Sort Prop
  with dcases_mind := Induction for dcases Sort Prop.
Combined Scheme dsl_mutind from dstmt_mind, dprog_mind, darms_mind, dcases_mind.

Lemma lower_correct sigs env :
  (forall s out, exec sigs env (lower_stmt s) out = dexec_stmt sigs env s out) /\
  (forall p out, exec sigs env (lower_prog p) out = dexec_prog sigs env p out) /\
  (forall a els out, exec sigs env (lower_arms a els) out = dexec_arms sigs env a out (exec sigs env els out)) /\
  (forall cs i out, exec sigs env (lower_cases i cs) out = dexec_cases sigs env i cs out).
Proof.
  apply dsl_mutind.
  - intros f out. reflexivity.
  - intros k t m out. reflexivity.
  - intros arms IHa els IHe out. cbn [lower_stmt dexec_stmt]. rewrite IHa, IHe. reflexivity.
  - intros i cs IHc out. cbn [lower_stmt dexec_stmt]. apply IHc.
  - intros out. reflexivity.
  - intros s IHs r IHr out. cbn [lower_prog dexec_prog exec]. rewrite IHs.
    destruct (dexec_stmt sigs env s out); [apply IHr|reflexivity].
  - intros els out. reflexivity.
  - intros i b IHb r IHr els out. cbn [lower_arms dexec_arms exec eval_cond]. fold (sig_test sigs env i).
    destruct (negb (sig_test sigs env i =? 0)); [apply IHb|apply IHr].
  - intros i out. reflexivity.
  - intros pats b IHb r IHr i out. cbn [lower_cases dexec_cases exec eval_cond]. fold (sig_test sigs env i).
    destruct pats as [ps|].
    + rewrite existsb_pats. destruct (existsb _ ps); [apply IHb|apply IHr].
    + cbn [existsb fst snd]. rewrite Z.land_0_l. cbn [Z.eqb orb]. apply IHb.
Qed.

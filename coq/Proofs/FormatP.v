(* FormatP.v — lemmas about Model/Format.v (C20). *)
From Coq Require Import ZArith List Bool Lia ZifyBool.
From V.Model Require Import Bits Format.
From V.Proofs Require Import BitsP.
Import ListNotations.
Open Scope Z_scope.

(* ------------------------------------------------------------------ *)
(* digits                                                               *)

Definition dstep (b : Z) := fun acc d : Z => acc * b + d.

Lemma undigits_fold b ds : undigits b ds = fold_left (dstep b) ds 0.
Proof. reflexivity. Qed.

(* reading the digits back gives the number — for any fuel *)
Lemma digits_fuel_value fuel b v acc : 0 < b ->
  fold_left (dstep b) (digits_fuel fuel b v acc) 0 = fold_left (dstep b) acc v.
Proof.
  intros Hb. revert v acc. induction fuel as [|f IH]; intros v acc; cbn [digits_fuel].
  - cbn. unfold dstep at 2. reflexivity.
  - destruct (v <? b) eqn:E.
    + cbn. unfold dstep at 2. reflexivity.
    + rewrite IH. cbn [fold_left]. f_equal. unfold dstep.
      pose proof (Z.div_mod v b ltac:(lia)). lia.
Qed.

Lemma digits_value b v : 0 < b -> undigits b (digits b v) = v.
Proof. intros Hb. unfold digits. rewrite undigits_fold, digits_fuel_value by auto. reflexivity. Qed.

Lemma digits_fuel_range fuel b v acc : 2 <= b -> 0 <= v < 2 ^ Z.of_nat fuel ->
  Forall (fun d => 0 <= d < b) acc -> Forall (fun d => 0 <= d < b) (digits_fuel fuel b v acc).
Proof.
  intros Hb. revert v acc. induction fuel as [|f IH]; intros v acc Hv Hacc; cbn [digits_fuel].
  - change (Z.of_nat 0) with 0 in Hv. change (2 ^ 0) with 1 in Hv. constructor; auto. lia.
  - destruct (v <? b) eqn:E.
    + constructor; auto. lia.
    + apply IH.
      * rewrite Nat2Z.inj_succ, Z.pow_succ_r in Hv by lia.
        split; [apply Z.div_pos; lia|].
        apply Z.div_lt_upper_bound; [lia|].
        assert (0 < 2 ^ Z.of_nat f) by (apply Z.pow_pos_nonneg; lia). nia.
      * constructor; auto. apply Z.mod_pos_bound. lia.
Qed.

Lemma log2_fuel v : 0 <= v -> v < 2 ^ Z.of_nat (Z.to_nat (Z.log2 v) + 1).
Proof.
  intros Hv. rewrite Nat2Z.inj_add, Z2Nat.id by apply Z.log2_nonneg.
  change (Z.of_nat 1) with 1.
  destruct (Z.eq_dec v 0) as [->|Hn]; [cbn; lia|].
  replace (Z.log2 v + 1) with (Z.succ (Z.log2 v)) by lia.
  apply Z.log2_spec. lia.
Qed.

Lemma digits_range b v : 2 <= b -> 0 <= v -> Forall (fun d => 0 <= d < b) (digits b v).
Proof. intros Hb Hv. unfold digits. apply digits_fuel_range; auto. split; [lia|apply log2_fuel; auto]. Qed.

Lemma digits_fuel_nonempty fuel b v acc : digits_fuel fuel b v acc <> [].
Proof.
  revert v acc. induction fuel as [|f IH]; intros v acc; cbn [digits_fuel]; [discriminate|].
  destruct (v <? b); [discriminate|apply IH].
Qed.

Lemma digits_nonempty b v : digits b v <> [].
Proof. apply digits_fuel_nonempty. Qed.

Lemma digit_val_char u d : 0 <= d < 16 -> digit_val (digit_char u d) = d.
Proof.
  intros Hd. unfold digit_val, digit_char.
  destruct (d <? 10) eqn:E1.
  - destruct (48 + d <? 58) eqn:E2; lia.
  - destruct u.
    + destruct (55 + d <? 58) eqn:E2; [lia|]. destruct (55 + d <? 97) eqn:E3; lia.
    + destruct (87 + d <? 58) eqn:E2; [lia|]. destruct (87 + d <? 97) eqn:E3; lia.
Qed.

Lemma digit_char_not_minus u d : 0 <= d < 16 -> digit_char u d <> 45.
Proof. intros Hd. unfold digit_char. destruct (d <? 10) eqn:E; destruct u; lia. Qed.

Lemma map_digit_val_char u ds : Forall (fun d => 0 <= d < 16) ds ->
  map digit_val (map (digit_char u) ds) = ds.
Proof.
  induction 1 as [|d ds Hd _ IH]; cbn; [reflexivity|]. rewrite digit_val_char by auto. f_equal; auto.
Qed.

Lemma base_of_bounds t : 2 <= base_of t <= 16.
Proof. destruct t as [[]|]; cbn; lia. Qed.

Lemma digit_text_read t v : undigits (base_of t) (map digit_val (digit_text t v)) = Z.abs v.
Proof.
  unfold digit_text. pose proof (base_of_bounds t) as Hb.
  rewrite map_digit_val_char.
  - apply digits_value. lia.
  - eapply Forall_impl; [|apply digits_range; lia]. cbn; intros; lia.
Qed.

Lemma digit_text_head t v : exists c r, digit_text t v = c :: r /\ c <> 45.
Proof.
  unfold digit_text. pose proof (base_of_bounds t) as Hb.
  pose proof (digits_range (base_of t) (Z.abs v) ltac:(lia) ltac:(lia)) as Hr.
  destruct (digits (base_of t) (Z.abs v)) as [|d ds] eqn:E; [exfalso; eapply digits_nonempty; eauto|].
  inversion Hr; subst. exists (digit_char (upper_of t) d), (map (digit_char (upper_of t)) ds).
  split; [reflexivity|]. apply digit_char_not_minus. lia.
Qed.

(* ------------------------------------------------------------------ *)
(* assemble: lengths                                                     *)

Lemma zlen_app a b : zlen (a ++ b) = zlen a + zlen b.
Proof. unfold zlen. rewrite app_length. lia. Qed.
Lemma zlen_nonneg a : 0 <= zlen a.
Proof. unfold zlen. lia. Qed.
Lemma zlen_pad n c : zlen (pad n c) = Z.max 0 n.
Proof. unfold zlen, pad. rewrite repeat_length. lia. Qed.
Lemma pad_nonpos n c : n <= 0 -> pad n c = [].
Proof. intros H. unfold pad. replace (Z.to_nat n) with O by lia. reflexivity. Qed.

Definition body_of (sp : spec) (dflt : align) (G : option Z) (sgn_txt pre digs rem : list Z) : list Z :=
  let nondigit := zlen sgn_txt + zlen pre + zlen rem in
  let mw := if (eff_fill sp =? 48) && match eff_align sp dflt with AEq => true | _ => false end
            then f_width sp - nondigit else 0 in
  match digs with [] => [] | _ => group_digits G digs mw end.

Lemma assemble_length sp dflt G s p d r :
  zlen (assemble sp dflt G s p d r) =
  Z.max (f_width sp) (zlen s + zlen p + zlen (body_of sp dflt G s p d r) + zlen r).
Proof.
  unfold assemble. fold (body_of sp dflt G s p d r).
  set (body := body_of sp dflt G s p d r).
  pose proof (zlen_nonneg s). pose proof (zlen_nonneg p). pose proof (zlen_nonneg body). pose proof (zlen_nonneg r).
  destruct (eff_align sp dflt); repeat rewrite zlen_app; rewrite zlen_pad; lia.
Qed.

(* the zero-padding mode of CPython: fill '0' together with '=' alignment *)
Definition zero_mode (sp : spec) (dflt : align) : bool :=
  (eff_fill sp =? 48) && match eff_align sp dflt with AEq => true | _ => false end.

Definition with_width (sp : spec) (w : Z) : spec :=
  Spec (f_fill sp) (f_align sp) (f_sign sp) (f_alt sp) (f_zero sp) w (f_group sp) (f_type sp).

Lemma body_of_width_irrelevant sp dflt G s p d r w :
  zero_mode sp dflt = false -> body_of (with_width sp w) dflt G s p d r = body_of sp dflt G s p d r.
Proof.
  unfold zero_mode, body_of, with_width, eff_fill, eff_align; cbn. intros ->. reflexivity.
Qed.

Definition dflt_of (sp : spec) : align := match f_type sp with Some Ts => ALeft | _ => ARight end.

Lemma py_format_length_ge sp v t : py_format sp v = Some t -> f_width sp <= zlen t.
Proof.
  unfold py_format. intros H.
  destruct (f_type sp) as [[]|];
    try (injection H as <-; rewrite assemble_length; lia).
  - destruct ((v <? 0) || (1114111 <? v)); [discriminate|]. injection H as <-. rewrite assemble_length; lia.
  - destruct (utf8_decode (value_bytes v)); [|discriminate]. injection H as <-. rewrite assemble_length; lia.
Qed.

Lemma assemble_length_max sp dflt G s p d r : zero_mode sp dflt = false ->
  zlen (assemble sp dflt G s p d r) = Z.max (f_width sp) (zlen (assemble (with_width sp 0) dflt G s p d r)).
Proof.
  intros Hz. rewrite !assemble_length, (body_of_width_irrelevant sp _ _ _ _ _ _ 0) by exact Hz.
  cbn [f_width with_width].
  pose proof (zlen_nonneg s). pose proof (zlen_nonneg p). pose proof (zlen_nonneg r).
  pose proof (zlen_nonneg (body_of sp dflt G s p d r)). lia.
Qed.

Lemma py_format_length_max sp v t : zero_mode sp (dflt_of sp) = false -> py_format sp v = Some t ->
  exists t0, py_format (with_width sp 0) v = Some t0 /\ zlen t = Z.max (f_width sp) (zlen t0).
Proof.
  intros Hz. unfold py_format, dflt_of in *. change (f_type (with_width sp 0)) with (f_type sp).
  change (f_group (with_width sp 0)) with (f_group sp). change (f_alt (with_width sp 0)) with (f_alt sp).
  change (sign_text (with_width sp 0)) with (sign_text sp).
  intros H.
  destruct (f_type sp) as [[]|].
  1-5, 8: injection H as <-; eexists; split; [reflexivity|]; apply assemble_length_max; exact Hz.
  - destruct ((v <? 0) || (1114111 <? v)); [discriminate|]. injection H as <-. eexists; split; [reflexivity|].
    apply assemble_length_max; exact Hz.
  - destruct (utf8_decode (value_bytes v)) as [txt|]; [|discriminate]. injection H as <-. eexists; split; [reflexivity|].
    apply assemble_length_max; exact Hz.
Qed.

(* ------------------------------------------------------------------ *)
(* plain rendering and the round trip                                    *)

Definition plain (t : option ftype) : spec := Spec None None None false false 0 false t.
Definition numeric (t : option ftype) : Prop := match t with Some Tc | Some Ts => False | _ => True end.

Lemma group_none_nopad digs mw : digs <> [] -> mw <= zlen digs -> group_digits None digs mw = digs.
Proof.
  intros Hne Hmw. unfold group_digits.
  assert (1 <= zlen digs) by (destruct digs; [congruence|unfold zlen; cbn [length]; lia]).
  rewrite pad_nonpos by lia. reflexivity.
Qed.

Lemma digit_text_nonempty t v : digit_text t v <> [].
Proof. destruct (digit_text_head t v) as (c & r & -> & _). discriminate. Qed.

Lemma py_format_plain t v : numeric t ->
  py_format (plain t) v = Some ((if v <? 0 then [45] else []) ++ digit_text t v).
Proof.
  intros Hn. unfold py_format. cbn [f_type plain].
  assert (E : assemble (plain t) ARight None (sign_text (plain t) (v <? 0)) [] (digit_text t v) []
              = (if v <? 0 then [45] else []) ++ digit_text t v).
  { unfold assemble. cbn [eff_fill eff_align plain f_fill f_zero f_align f_width].
    change (32 =? 48) with false. cbn [andb].
    pose proof (digit_text_nonempty t v) as Hne.
    destruct (digit_text t v) as [|c r] eqn:Ed; [congruence|]. rewrite <- Ed in *.
    rewrite group_none_nopad by (auto; pose proof (zlen_nonneg (digit_text t v)); lia).
    rewrite pad_nonpos.
    2:{ unfold zlen. cbn [length]. rewrite Ed. cbn [length]. lia. }
    unfold sign_text. cbn [f_sign plain]. cbn [app]. rewrite !app_nil_r. reflexivity. }
  destruct t as [[]|]; cbn [numeric] in Hn; try contradiction; cbn [f_group f_alt plain]; rewrite E; reflexivity.
Qed.

Lemma read_int_roundtrip t v txt : numeric t -> py_format (plain t) v = Some txt -> read_int (base_of t) txt = v.
Proof.
  intros Hn H. rewrite py_format_plain in H by auto. injection H as <-.
  destruct (v <? 0) eqn:E.
  - cbn [app read_int]. change (45 =? 45) with true. cbn iota. rewrite digit_text_read. lia.
  - cbn [app]. destruct (digit_text_head t v) as (c & r & Ed & Hc).
    pose proof (digit_text_read t v) as Hr. rewrite Ed in *. cbn [read_int].
    destruct (c =? 45) eqn:Ec; [lia|]. rewrite Hr. lia.
Qed.

(* ------------------------------------------------------------------ *)
(* zero fill and sign placement (no grouping)                            *)

Lemma match_nonempty (d X : list Z) : d <> [] -> match d with [] => [] | _ :: _ => X end = X.
Proof. destruct d; congruence. Qed.

Lemma py_format_zero_fill sg alt w t v : numeric t -> 0 <= w ->
  let sp := Spec None None sg alt true w false t in
  let s := sign_text sp (v <? 0) in
  let p := if alt then prefix_of t else [] in
  let d := digit_text t v in
  py_format sp v = Some (s ++ p ++ pad (w - zlen s - zlen p - zlen d) 48 ++ d).
Proof.
  intros Hn Hw sp s p d.
  assert (E : assemble sp ARight None s p d [] = s ++ p ++ pad (w - zlen s - zlen p - zlen d) 48 ++ d).
  { unfold assemble. cbn [eff_fill eff_align sp f_fill f_zero f_align f_width].
    change (48 =? 48) with true. cbn [andb].
    pose proof (digit_text_nonempty t v) as Hne. fold d in Hne.
    assert (1 <= zlen d) by (destruct d; [congruence|unfold zlen; cbn [length]; lia]).
    rewrite (match_nonempty d _ Hne).
    unfold group_digits. change (zlen []) with 0.
    set (mw := w - (zlen s + zlen p + 0)).
    rewrite pad_nonpos with (n := Z.max 0 _).
    2:{ rewrite zlen_app, zlen_pad. lia. }
    match goal with |- context [pad ?n 48 ++ _] =>
      assert (Hpad : pad n 48 = pad (w - zlen s - zlen p - zlen d) 48) by (unfold pad; f_equal; lia) end.
    rewrite Hpad. cbn [app]. rewrite !app_nil_r. reflexivity. }
  unfold py_format. subst s p d.
  destruct t as [[]|]; cbn [numeric] in Hn; try contradiction; cbn [f_type f_group f_alt sp] in *; rewrite E; reflexivity.
Qed.

(* ------------------------------------------------------------------ *)
(* totality on accepted specs                                            *)

Lemma parse_spec_check s sh sp : parse_spec s sh = Some sp -> parse_raw s = Some sp /\ check_shape sp sh = true.
Proof.
  unfold parse_spec. destruct (parse_raw s) as [sp'|]; [|discriminate].
  destruct (check_shape sp' sh) eqn:E; [|discriminate]. intros H; injection H as <-. auto.
Qed.

Lemma check_shape_cs sp sh : check_shape sp sh = true -> is_cs (f_type sp) = true ->
  sgn sh = false /\ f_align sp <> Some AEq /\ f_alt sp = false /\ f_zero sp = false /\ f_sign sp = None /\ f_group sp = false.
Proof.
  unfold check_shape. intros H Hc. rewrite Hc in H.
  destruct (sgn sh), (f_align sp) as [[]|], (f_alt sp), (f_zero sp), (f_sign sp), (f_group sp);
    cbn in H; try discriminate; repeat split; congruence.
Qed.

Lemma check_shape_s sp sh : check_shape sp sh = true -> f_type sp = Some Ts -> width sh mod 8 = 0.
Proof.
  unfold check_shape. intros H Ht. rewrite Ht in H. apply andb_true_iff in H. destruct H as [_ H]. lia.
Qed.

Lemma accepted_total s sh sp v : parse_spec s sh = Some sp -> in_range sh v ->
  (f_type sp = Some Tc -> v <= 1114111) ->
  (f_type sp = Some Ts -> utf8_decode (value_bytes v) <> None) ->
  exists t, py_format sp v = Some t.
Proof.
  intros Hp Hr Hc Hs. apply parse_spec_check in Hp. destruct Hp as [_ Hk].
  unfold py_format. destruct (f_type sp) as [[]|] eqn:Et; try (eexists; reflexivity).
  - destruct (check_shape_cs sp sh Hk) as (Hsg & _); [rewrite Et; reflexivity|].
    unfold in_range in Hr. rewrite Hsg in Hr. specialize (Hc eq_refl).
    destruct ((v <? 0) || (1114111 <? v)) eqn:E; [lia|]. eexists; reflexivity.
  - specialize (Hs eq_refl). destruct (utf8_decode (value_bytes v)); [eexists; reflexivity|congruence].
Qed.

(* 'c' is the code point, 's' the decoded bytes *)
Lemma py_format_c v : 0 <= v <= 1114111 -> py_format (plain (Some Tc)) v = Some [v].
Proof.
  intros Hv. unfold py_format. cbn [f_type plain].
  destruct ((v <? 0) || (1114111 <? v)) eqn:E; [lia|]. reflexivity.
Qed.

Lemma py_format_s v : py_format (plain (Some Ts)) v = utf8_decode (value_bytes v).
Proof.
  unfold py_format. cbn [f_type plain]. destruct (utf8_decode (value_bytes v)) as [t|]; [|reflexivity].
  unfold assemble. cbn [eff_fill eff_align plain f_fill f_zero f_align f_width].
  change (32 =? 48) with false. cbn [andb app].
  rewrite pad_nonpos; [rewrite app_nil_r; reflexivity|].
  pose proof (zlen_nonneg t). change (zlen []) with 0. lia.
Qed.

Lemma all_bytes_value v : 0 <= v -> undigits 256 (rev (all_bytes v)) = v /\ Forall (fun b => 0 <= b < 256) (all_bytes v).
Proof.
  intros Hv. unfold all_bytes. rewrite rev_involutive. split; [apply digits_value; lia|].
  apply Forall_rev. apply digits_range; lia.
Qed.

(* ------------------------------------------------------------------ *)
(* emit_format uses the value in its own shape                           *)

Definition env_ok (sigs : list shape) (env : list Z) (i : nat) : Prop :=
  wf_shape (sig_shape sigs i) = true /\ in_range (sig_shape sigs i) (sig_val env i).
Definition vexpr_ok (sigs : list shape) (env : list Z) (e : vexpr) : Prop :=
  match e with
  | VSig i | VAsU i | VInv i | VNeg i => env_ok sigs env i
  | VAsS i => env_ok sigs env i /\ 1 <= width (sig_shape sigs i)
  end.

Lemma wf_width s : wf_shape s = true -> 0 <= width s.
Proof. unfold wf_shape. destruct (sgn s); lia. Qed.

Lemma norm_raw_denote sigs env e : vexpr_ok sigs env e ->
  norm (vshape sigs e) (vraw sigs env e) = vdenote sigs env e.
Proof.
  destruct e as [i|i|i|i|i]; cbn [vexpr_ok vshape vraw vdenote].
  - intros [Hwf Hr]. apply norm_id; auto.
  - intros _. reflexivity.
  - intros _. reflexivity.
  - intros [Hwf Hr]. set (s := sig_shape sigs i) in *. set (v := sig_val env i) in *.
    pose proof (wf_width s Hwf) as Hw. pose proof (pow2_pos (width s) Hw) as Hp.
    destruct (mask_congr (width s) v Hw) as [k Hk].
    symmetry. unfold in_range, wf_shape in *. destruct (sgn s) eqn:Es.
    + apply (norm_unique s _ _ k); [unfold wf_shape; rewrite Es; auto| unfold in_range; rewrite Es; lia|].
      rewrite Hk. unfold Z.lnot. lia.
    + apply (norm_unique s _ _ (k + 1)); [unfold wf_shape; rewrite Es; auto| unfold in_range; rewrite Es; lia|].
      rewrite Hk. unfold Z.lnot. lia.
  - intros [Hwf Hr]. rewrite (norm_id _ _ Hwf Hr). set (s := sig_shape sigs i) in *. set (v := sig_val env i) in *.
    pose proof (wf_width s Hwf) as Hw. rewrite norm_signed. apply sext_small; [lia|].
    replace (width s + 1 - 1) with (width s) by lia.
    unfold in_range, wf_shape in *. destruct (sgn s) eqn:Es.
    + pose proof (pow2_split (width s) ltac:(lia)). pose proof (pow2_pos (width s - 1) ltac:(lia)). lia.
    + lia.
Qed.

Lemma emit_field_shape_value sp sigs env e : vexpr_ok sigs env e ->
  emit_field sp (vshape sigs e) (vraw sigs env e) =
  match py_format sp (vdenote sigs env e) with
  | Some t => Ok t
  | None => Err (match f_type sp with Some Ts => 3 | _ => 2 end)
  end.
Proof. intros Hok. unfold emit_field. rewrite norm_raw_denote by auto. reflexivity. Qed.

(* ------------------------------------------------------------------ *)
(* activity: a statement acts iff all enclosing conditions hold           *)

Lemma outcome_eta (o : outcome) : match o with Cont x => Cont x | s => s end = o.
Proof. destruct o; reflexivity. Qed.

Lemma scan_app sigs env a b out :
  scan sigs env (a ++ b) out = match scan sigs env a out with Cont o => scan sigs env b o | s => s end.
Proof.
  revert out. induction a as [|[path l] a IH]; intros out; cbn [app scan]; [reflexivity|].
  destruct (path_holds sigs env path); [|apply IH].
  destruct (fire sigs env l out); [apply IH|reflexivity].
Qed.

Lemma scan_dead sigs env p : forall path out, path_holds sigs env path = false ->
  scan sigs env (leaves p path) out = Cont out.
Proof.
  induction p as [|a IHa b IHb|f|k t m|c t IHt e IHe]; intros path out Hp; cbn [leaves scan].
  - reflexivity.
  - rewrite scan_app, IHa by auto. apply IHb; auto.
  - rewrite Hp. reflexivity.
  - rewrite Hp. reflexivity.
  - rewrite scan_app, IHt; [apply IHe|]; cbn [path_holds forallb fst snd]; fold (path_holds sigs env path);
      rewrite Hp; apply andb_false_r.
Qed.

Lemma exec_scan_path sigs env p : forall path out, path_holds sigs env path = true ->
  exec sigs env p out = scan sigs env (leaves p path) out.
Proof.
  induction p as [|a IHa b IHb|f|k t m|c t IHt e IHe]; intros path out Hp; cbn [leaves scan exec].
  - reflexivity.
  - rewrite scan_app, <- (IHa path out Hp). destruct (exec sigs env a out); [apply IHb; auto|reflexivity].
  - rewrite Hp. cbn [fire]. destruct (fire_print sigs env f out); reflexivity.
  - rewrite Hp. cbn [fire]. destruct (fire_prop sigs env k t m out); reflexivity.
  - rewrite scan_app. destruct (eval_cond sigs env c) eqn:Ec.
    + rewrite <- (IHt ((c, true) :: path) out).
      2:{ cbn [path_holds forallb fst snd]. fold (path_holds sigs env path). rewrite Ec, Hp. reflexivity. }
      destruct (exec sigs env t out); [|reflexivity].
      rewrite scan_dead; [reflexivity|]. cbn [path_holds forallb fst snd]. rewrite Ec. reflexivity.
    + rewrite scan_dead.
      2:{ cbn [path_holds forallb fst snd]. rewrite Ec. reflexivity. }
      apply IHe. cbn [path_holds forallb fst snd]. fold (path_holds sigs env path). rewrite Ec, Hp. reflexivity.
Qed.

Lemma exec_scan sigs env p out : exec sigs env p out = scan sigs env (leaves p []) out.
Proof. apply exec_scan_path. reflexivity. Qed.

(* a statement nested under a list of conditions *)
Definition nest (cs : list cond) (body : prog) : prog := fold_right (fun c b => PIf c b PSkip) body cs.

Lemma exec_nest sigs env cs body out :
  exec sigs env (nest cs body) out =
  if forallb (eval_cond sigs env) cs then exec sigs env body out else Cont out.
Proof.
  induction cs as [|c cs IH]; cbn [nest fold_right forallb exec]; [reflexivity|].
  fold (nest cs body). destruct (eval_cond sigs env c); cbn [andb]; [apply IH|reflexivity].
Qed.

(* only active edges run the process *)
Lemma run_steps_edges sigs pos p steps : forall env clk idx n out,
  fst (run_steps sigs pos p steps env clk idx out) =
  fst (run_edges sigs p (edge_envs sigs pos steps env clk) n out).
Proof.
  induction steps as [|st steps IH]; intros env clk idx n out; cbn [run_steps edge_envs run_edges]; [reflexivity|].
  destruct st as [i v|b|b]; try apply IH.
  destruct (is_edge pos clk b); [|apply IH].
  cbn [run_edges]. destruct (exec sigs env p out); [apply IH|reflexivity].
Qed.

(* ------------------------------------------------------------------ *)
(* Assert / Assume stop at the first failing edge; Cover never stops      *)

Lemma fire_outcome sigs env pl out : leaf_renders sigs env pl = true -> path_holds sigs env (fst pl) = true ->
  if leaf_fails sigs env pl
  then exists m, fire sigs env (snd pl) out = Stop out 1 m
  else exists o, fire sigs env (snd pl) out = Cont o.
Proof.
  destruct pl as [path l]. unfold leaf_renders, leaf_fails. cbn [fst snd]. intros Hr Hp. rewrite Hp. cbn [andb].
  destruct l as [f|k t m]; cbn [fire].
  - unfold fire_print. destruct (emit_format sigs env f); [eexists; reflexivity|discriminate].
  - unfold fire_prop. destruct k.
    + destruct (norm (vshape sigs t) (vraw sigs env t) =? 0).
      * destruct m as [f|]; [destruct (emit_format sigs env f); [eexists; reflexivity|discriminate]|eexists; reflexivity].
      * eexists; reflexivity.
    + destruct (norm (vshape sigs t) (vraw sigs env t) =? 0).
      * destruct m as [f|]; [destruct (emit_format sigs env f); [eexists; reflexivity|discriminate]|eexists; reflexivity].
      * eexists; reflexivity.
    + destruct m as [f|]; [|eexists; reflexivity].
      destruct (norm (vshape sigs t) (vraw sigs env t) =? 0); [eexists; reflexivity|].
      destruct (emit_format sigs env f); [eexists; reflexivity|discriminate].
Qed.

Lemma leaf_fails_inactive sigs env pl : path_holds sigs env (fst pl) = false -> leaf_fails sigs env pl = false.
Proof. unfold leaf_fails. intros ->. destruct (snd pl) as [|[] ? ?]; reflexivity. Qed.

Lemma scan_outcome sigs env ls : forall out, forallb (leaf_renders sigs env) ls = true ->
  if existsb (leaf_fails sigs env) ls
  then exists o m, scan sigs env ls out = Stop o 1 m
  else exists o, scan sigs env ls out = Cont o.
Proof.
  induction ls as [|[path l] ls IH]; intros out Hr; cbn [existsb scan]; [eexists; reflexivity|].
  cbn [forallb] in Hr. apply andb_true_iff in Hr. destruct Hr as [Hr1 Hr2].
  destruct (path_holds sigs env path) eqn:Hp.
  - pose proof (fire_outcome sigs env (path, l) out Hr1 Hp) as Hf. cbn [snd] in Hf.
    destruct (leaf_fails sigs env (path, l)); cbn [orb].
    + destruct Hf as [m ->]. eexists; eexists; reflexivity.
    + destruct Hf as [o ->]. apply IH; auto.
  - rewrite (leaf_fails_inactive sigs env (path, l)) by exact Hp. cbn [orb]. apply IH; auto.
Qed.

Lemma exec_outcome sigs env p out : edge_renders sigs env p = true ->
  if edge_fails sigs env p
  then exists o m, exec sigs env p out = Stop o 1 m
  else exists o, exec sigs env p out = Cont o.
Proof. intros Hr. rewrite exec_scan. apply scan_outcome. exact Hr. Qed.

(* index of the first failing edge *)
Fixpoint first_fail (sigs : list shape) (p : prog) (envs : list (list Z)) (n : nat) : option nat :=
  match envs with
  | [] => None
  | env :: r => if edge_fails sigs env p then Some n else first_fail sigs p r (S n)
  end.

Lemma run_edges_first_fail sigs p envs : forall n out,
  Forall (fun env => edge_renders sigs env p = true) envs ->
  match first_fail sigs p envs n with
  | Some k => exists o m, run_edges sigs p envs n out = (Stop o 1 m, k)
  | None => exists o, run_edges sigs p envs n out = (Cont o, (n + length envs)%nat)
  end.
Proof.
  induction envs as [|env envs IH]; intros n out Hall; cbn [first_fail run_edges length].
  - exists out. f_equal. lia.
  - inversion Hall as [|? ? Hr Hrest]; subst.
    pose proof (exec_outcome sigs env p out Hr) as Ho.
    destruct (edge_fails sigs env p).
    + destruct Ho as (o & m & ->). eexists; eexists; reflexivity.
    + destruct Ho as (o & ->). specialize (IH (S n) o Hrest).
      replace (n + S (length envs))%nat with (S n + length envs)%nat by lia. exact IH.
Qed.

Lemma first_fail_spec sigs p envs : forall n k, first_fail sigs p envs n = Some k ->
  (n <= k)%nat /\ edge_fails sigs (nth (k - n) envs []) p = true /\
  forall j, (j < k - n)%nat -> edge_fails sigs (nth j envs []) p = false.
Proof.
  induction envs as [|env envs IH]; intros n k; cbn [first_fail]; [discriminate|].
  destruct (edge_fails sigs env p) eqn:E.
  - intros H; injection H as <-. replace (n - n)%nat with O by lia. cbn [nth]. repeat split; auto. intros j Hj; lia.
  - intros H. destruct (IH (S n) k H) as (Hle & Hk & Hbefore).
    split; [lia|]. replace (k - n)%nat with (S (k - S n)) by lia. cbn [nth]. split; [exact Hk|].
    intros [|j] Hj; cbn [nth]; [exact E|]. apply Hbefore. lia.
Qed.

Lemma first_fail_none sigs p envs : forall n, first_fail sigs p envs n = None ->
  forall env, In env envs -> edge_fails sigs env p = false.
Proof.
  induction envs as [|e envs IH]; intros n H env Hin; cbn [first_fail] in H; [destruct Hin|].
  destruct (edge_fails sigs e p) eqn:E; [discriminate|].
  destruct Hin as [<-|Hin]; [exact E|]. eapply IH; eauto.
Qed.

Fixpoint only_cover (p : prog) : bool :=
  match p with
  | PSkip | PPrint _ => true
  | PSeq a b => only_cover a && only_cover b
  | PProp k _ _ => match k with KCover => true | _ => false end
  | PIf _ t e => only_cover t && only_cover e
  end.

Lemma only_cover_never_fails sigs env p : only_cover p = true -> forall path,
  existsb (leaf_fails sigs env) (leaves p path) = false.
Proof.
  induction p as [|a IHa b IHb|f|k t m|c t IHt e IHe]; cbn [only_cover leaves]; intros H path.
  - reflexivity.
  - apply andb_true_iff in H. destruct H. rewrite existsb_app, IHa, IHb; auto.
  - reflexivity.
  - destruct k; try discriminate. reflexivity.
  - apply andb_true_iff in H. destruct H. rewrite existsb_app, IHt, IHe; auto.
Qed.

(* construction-time validation: a program that was built has only accepted field specs *)
Fixpoint format_fields (f : format) : list (vexpr * list Z) :=
  match f with [] => [] | CLit _ :: r => format_fields r | CField e s :: r => (e, s) :: format_fields r end.

Lemma format_ok_fields sigs f : format_ok sigs f = true ->
  forall e s, In (e, s) (format_fields f) -> exists sp, parse_spec s (vshape sigs e) = Some sp.
Proof.
  induction f as [|[t|e0 s0] f IH]; cbn [format_ok format_fields]; intros H e s Hin; [destruct Hin|auto|].
  unfold field_spec in H. destruct (parse_spec s0 (vshape sigs e0)) as [sp|] eqn:E; [|discriminate].
  destruct Hin as [Heq|Hin]; [injection Heq as <- <-; eauto|auto].
Qed.

Definition leaf_formats (l : leaf) : list format :=
  match l with LPrint f => [f] | LProp _ _ (Some f) => [f] | LProp _ _ None => [] end.

Lemma prog_ok_leaves sigs p : prog_ok sigs p = true -> forall path pl f,
  In pl (leaves p path) -> In f (leaf_formats (snd pl)) -> format_ok sigs f = true.
Proof.
  induction p as [|a IHa b IHb|f0|k t m|c t IHt e IHe]; cbn [prog_ok leaves]; intros H path pl f Hin Hf.
  - destruct Hin.
  - apply andb_true_iff in H. destruct H. apply in_app_or in Hin. destruct Hin; eauto.
  - destruct Hin as [<-|[]]. cbn in Hf. destruct Hf as [<-|[]]. exact H.
  - destruct Hin as [<-|[]]. cbn [snd leaf_formats] in Hf. destruct m as [f1|]; [|destruct Hf].
    destruct Hf as [<-|[]]. exact H.
  - apply andb_true_iff in H. destruct H. apply in_app_or in Hin. destruct Hin; eauto.
Qed.

(* ------------------------------------------------------------------ *)
(* '_' grouping: removing the separators leaves zeros followed by the digits *)

Definition strip (l : list Z) : list Z := filter (fun c => negb (c =? 95)) l.

Lemma strip_app a b : strip (a ++ b) = strip a ++ strip b.
Proof. apply filter_app. Qed.

Lemma strip_clean l : Forall (fun c => c <> 95) l -> strip l = l.
Proof.
  induction 1 as [|c l Hc _ IH]; [reflexivity|]. cbn [strip filter]. fold (strip l).
  destruct (c =? 95) eqn:E; [lia|]. cbn [negb]. f_equal. exact IH.
Qed.

Lemma strip_pad n : strip (pad n 48) = pad n 48.
Proof. apply strip_clean. unfold pad. apply Forall_forall. intros x Hx. apply repeat_spec in Hx. lia. Qed.

Lemma pad_app a b c : 0 <= a -> 0 <= b -> pad a c ++ pad b c = pad (a + b) c.
Proof. intros Ha Hb. unfold pad. rewrite Z2Nat.inj_add by lia. symmetry. apply repeat_app. Qed.

Lemma group_loop_strip fuel G : 1 <= G -> forall rd mw first acc,
  Forall (fun c => c <> 95) rd -> (length rd + Z.to_nat mw < fuel)%nat ->
  exists k, 0 <= k /\ strip (group_loop fuel G rd mw first acc) = pad k 48 ++ rev rd ++ strip acc.
Proof.
  intros HG. induction fuel as [|f IH]; intros rd mw first acc Hrd Hfuel; [lia|].
  cbn [group_loop].
  set (remaining := zlen rd). set (len := Z.min G (Z.max (Z.max remaining mw) 1)).
  set (n_zeros := Z.max 0 (len - remaining)). set (n_chars := Z.max 0 (Z.min remaining len)).
  assert (Hrem : 0 <= remaining) by apply zlen_nonneg.
  assert (Hlen : 1 <= len) by (unfold len; lia).
  set (taken := firstn (Z.to_nat n_chars) rd). set (rest := skipn (Z.to_nat n_chars) rd).
  assert (Hsplit : rd = taken ++ rest) by (symmetry; apply firstn_skipn).
  assert (Hrest : zlen rest = remaining - n_chars).
  { unfold zlen, rest. rewrite skipn_length. unfold remaining, zlen in *. lia. }
  assert (Htk : Forall (fun c => c <> 95) taken /\ Forall (fun c => c <> 95) rest).
  { rewrite Hsplit in Hrd. apply Forall_app in Hrd. exact Hrd. }
  destruct Htk as [Htk Hrs].
  assert (Hacc' : strip (pad n_zeros 48 ++ rev taken ++ (if first then [] else [95]) ++ acc)
                  = pad n_zeros 48 ++ rev taken ++ strip acc).
  { rewrite !strip_app, strip_pad, (strip_clean (rev taken)) by (apply Forall_rev; auto).
    destruct first; reflexivity. }
  destruct ((zlen rest <=? 0) && (mw - len <=? 0)) eqn:Estop.
  - exists n_zeros. split; [unfold n_zeros; lia|]. rewrite Hacc'.
    assert (rest = []) by (destruct rest; [reflexivity|unfold zlen in Estop; cbn [length] in Estop; lia]).
    rewrite Hsplit, H, app_nil_r. reflexivity.
  - destruct (IH rest (mw - len - 1) false (pad n_zeros 48 ++ rev taken ++ (if first then [] else [95]) ++ acc) Hrs)
      as (k & Hk & Hres).
    { assert (Z.of_nat (length rest) = remaining - n_chars) by exact Hrest.
      assert (Z.of_nat (length rd) = remaining) by reflexivity.
      unfold n_chars in *. lia. }
    rewrite Hres, Hacc'.
    destruct (Z.eq_dec n_zeros 0) as [Hz|Hz].
    + exists k. split; [auto|]. rewrite Hz. unfold pad at 2. cbn [Z.to_nat repeat app].
      rewrite Hsplit, rev_app_distr, <- !app_assoc. reflexivity.
    + assert (rest = []).
      { assert (zlen rest = 0) by (unfold n_zeros, n_chars in *; lia).
        destruct rest; [reflexivity|unfold zlen in *; cbn [length] in *; lia]. }
      exists (k + n_zeros). split; [unfold n_zeros in *; lia|].
      rewrite H, Hsplit, H, app_nil_r. cbn [rev app].
      rewrite app_assoc, pad_app by (unfold n_zeros; lia). reflexivity.
Qed.

Lemma digit_char_not_sep u d : 0 <= d < 16 -> digit_char u d <> 95.
Proof. intros Hd. unfold digit_char. destruct (d <? 10) eqn:E; destruct u; lia. Qed.

Lemma digit_text_clean t v : Forall (fun c => c <> 95) (digit_text t v).
Proof.
  unfold digit_text. pose proof (base_of_bounds t) as Hb. apply Forall_map.
  eapply Forall_impl; [|apply (digits_range (base_of t) (Z.abs v)); lia].
  cbn. intros d Hd. apply digit_char_not_sep. lia.
Qed.

Lemma group_digits_strip G digs mw : (forall g, G = Some g -> 1 <= g) -> digs <> [] ->
  Forall (fun c => c <> 95) digs ->
  exists k, 0 <= k /\ strip (group_digits G digs mw) = pad k 48 ++ digs.
Proof.
  intros HG Hne Hd. unfold group_digits. destruct G as [g|].
  - destruct (group_loop_strip (length digs + Z.to_nat mw + 1) g (HG g eq_refl) (rev digs) mw true [])
      as (k & Hk & H).
    + apply Forall_rev; auto.
    + rewrite rev_length. lia.
    + exists k. split; auto. rewrite H, rev_involutive. cbn [strip filter]. rewrite app_nil_r. reflexivity.
  - eexists. split; [|rewrite strip_app, strip_pad, strip_clean by auto; reflexivity].
    assert (1 <= zlen digs) by (destruct digs; [congruence|unfold zlen; cbn [length]; lia]). lia.
Qed.

(* zero flag with '_': sign, prefix, then a body that is zeros + digits once the separators are removed *)
Lemma py_format_zero_fill_grouped sg alt w grp t v : numeric t -> 0 <= w ->
  let sp := Spec None None sg alt true w grp t in
  let s := sign_text sp (v <? 0) in
  let p := if alt then prefix_of t else [] in
  exists body k, 0 <= k /\ py_format sp v = Some (s ++ p ++ body) /\ strip body = pad k 48 ++ digit_text t v.
Proof.
  intros Hn Hw sp s p.
  set (G := if grp then Some (group_size t) else None).
  assert (HG : forall g, G = Some g -> 1 <= g).
  { intros g. unfold G. destruct grp; [|discriminate]. intros H; injection H as <-. destruct t as [[]|]; cbn; lia. }
  assert (E : exists body k, 0 <= k /\ assemble sp ARight G s p (digit_text t v) [] = s ++ p ++ body /\
                             strip body = pad k 48 ++ digit_text t v).
  { unfold assemble. cbn [eff_fill eff_align sp f_fill f_zero f_align f_width].
    change (48 =? 48) with true. cbn [andb].
    pose proof (digit_text_nonempty t v) as Hne.
    rewrite (match_nonempty (digit_text t v) _ Hne).
    set (mw := w - (zlen s + zlen p + zlen [])).
    destruct (group_digits_strip G (digit_text t v) mw HG Hne (digit_text_clean t v)) as (k & Hk & Hs).
    set (np := Z.max 0 (w - (zlen s + zlen p + zlen []) - zlen (group_digits G (digit_text t v) mw))).
    exists (pad np 48 ++ group_digits G (digit_text t v) mw), (np + k).
    split; [unfold np; lia|]. split.
    - rewrite app_nil_r. reflexivity.
    - rewrite strip_app, strip_pad, Hs, app_assoc, pad_app by (unfold np; lia). reflexivity. }
  destruct E as (body & k & Hk & E & Hs). exists body, k. split; [auto|]. split; [|exact Hs].
  unfold py_format. subst s p G.
  destruct t as [[]|]; cbn [numeric] in Hn; try contradiction; cbn [f_type f_group f_alt sp] in *; rewrite E; reflexivity.
Qed.

(* ------------------------------------------------------------------ *)
(* parse_raw accepts only strings of the grammar
   [[fill]align][sign]['#']['0'][width]['_'][type]                       *)

Definition opt_char (o : option Z) : list Z := match o with Some c => [c] | None => [] end.
Definition flag (b : bool) (c : Z) : list Z := if b then [c] else [].

Definition render_spec (sp : spec) (wd : list Z) : list Z :=
  opt_char (f_fill sp) ++ opt_char (option_map align_char (f_align sp))
  ++ opt_char (option_map sign_char (f_sign sp))
  ++ flag (f_alt sp) 35 ++ flag (f_zero sp) 48 ++ wd ++ flag (f_group sp) 95
  ++ opt_char (option_map type_char (f_type sp)).

(* wd is the decimal numeral of w without leading zero (empty when the width is absent) *)
Definition width_digits (w : Z) (wd : list Z) : Prop :=
  match wd with
  | [] => w = 0
  | c :: r => 49 <= c <= 57 /\ Forall (fun d => 48 <= d <= 57) r /\ eat_digits r (c - 48) = (w, [])
  end.

Lemma align_of_char a x : align_of a = Some x -> a = align_char x.
Proof.
  unfold align_of. destruct (a =? 60) eqn:E1; [intros H; injection H as <-; cbn; lia|].
  destruct (a =? 62) eqn:E2; [intros H; injection H as <-; cbn; lia|].
  destruct (a =? 61) eqn:E3; [intros H; injection H as <-; cbn; lia|discriminate].
Qed.

Lemma sign_of_char a x : sign_of a = Some x -> a = sign_char x.
Proof.
  unfold sign_of. destruct (a =? 45) eqn:E1; [intros H; injection H as <-; cbn; lia|].
  destruct (a =? 43) eqn:E2; [intros H; injection H as <-; cbn; lia|].
  destruct (a =? 32) eqn:E3; [intros H; injection H as <-; cbn; lia|discriminate].
Qed.

Lemma type_of_char a x : type_of a = Some x -> a = type_char x.
Proof.
  unfold type_of.
  repeat match goal with |- context [if ?c =? ?k then _ else _] =>
    destruct (c =? k) eqn:?; [intros H; injection H as <-; cbn; lia|] end.
  discriminate.
Qed.

Lemma parse_fill_align_sound s fill al s1 : parse_fill_align s = (fill, al, s1) ->
  s = opt_char fill ++ opt_char al ++ s1 /\ (fill <> None -> al <> None /\ fill <> Some 10).
Proof.
  unfold parse_fill_align. destruct s as [|c [|a r]].
  - intros H; injection H as <- <- <-. split; [reflexivity|congruence].
  - destruct (is_align_char c); intros H; injection H as <- <- <-; (split; [reflexivity|congruence]).
  - destruct (is_align_char a && negb (c =? 10)) eqn:E.
    + intros H; injection H as <- <- <-. split; [reflexivity|]. intros _. split; [discriminate|].
      intros H; injection H as ->. cbn in E. rewrite andb_false_r in E. discriminate.
    + destruct (is_align_char c); intros H; injection H as <- <- <-; (split; [reflexivity|congruence]).
Qed.

Lemma eat_sound k s b r : eat (Z.eqb k) s = (b, r) -> s = flag b k ++ r.
Proof.
  unfold eat. destruct s as [|c s]; [intros H; injection H as <- <-; reflexivity|].
  destruct (k =? c) eqn:E; intros H; injection H as <- <-; cbn; [f_equal; lia|reflexivity].
Qed.

Lemma eat_digits_sound s : forall acc w r, eat_digits s acc = (w, r) ->
  exists ds, s = ds ++ r /\ Forall (fun d => 48 <= d <= 57) ds /\ eat_digits ds acc = (w, []).
Proof.
  induction s as [|c s IH]; intros acc w r; cbn [eat_digits].
  - intros H; injection H as <- <-. exists []. repeat split; auto.
  - destruct (is_digit c) eqn:E.
    + intros H. destruct (IH _ _ _ H) as (ds & -> & Hd & He). exists (c :: ds).
      split; [reflexivity|]. split; [constructor; [unfold is_digit in E; lia|auto]|].
      cbn [eat_digits]. rewrite E. exact He.
    + intros H; injection H as <- <-. exists []. repeat split; auto.
Qed.

Lemma eat_width_sound s w r : eat_width s = (w, r) -> exists wd, s = wd ++ r /\ width_digits w wd.
Proof.
  unfold eat_width. destruct s as [|c s]; [intros H; injection H as <- <-; exists []; split; reflexivity|].
  destruct ((49 <=? c) && (c <=? 57)) eqn:E.
  - intros H. destruct (eat_digits_sound _ _ _ _ H) as (ds & -> & Hd & He).
    exists (c :: ds). split; [reflexivity|]. cbn [width_digits]. repeat split; auto; lia.
  - intros H; injection H as <- <-. exists []. split; reflexivity.
Qed.

Lemma parse_raw_sound s sp : parse_raw s = Some sp ->
  exists wd, s = render_spec sp wd /\ width_digits (f_width sp) wd /\
             (f_fill sp <> None -> f_align sp <> None /\ f_fill sp <> Some 10).
Proof.
  unfold parse_raw.
  destruct (parse_fill_align s) as [[fill al] s1] eqn:E1.
  apply parse_fill_align_sound in E1. destruct E1 as [Hs Hfill].
  set (sg := match s1 with c :: _ => sign_of c | [] => None end).
  set (s2 := match sg, s1 with Some _, _ :: r => r | _, _ => s1 end).
  assert (Hsg : s1 = opt_char (option_map sign_char sg) ++ s2).
  { unfold s2, sg. destruct s1 as [|c r]; [reflexivity|]. destruct (sign_of c) eqn:Ec; [|reflexivity].
    apply sign_of_char in Ec. subst c. reflexivity. }
  clearbody sg s2.
  destruct (eat (Z.eqb 35) s2) as [alt s3] eqn:E3. apply eat_sound in E3.
  destruct (eat (Z.eqb 48) s3) as [zero s4] eqn:E4. apply eat_sound in E4.
  destruct (eat_width s4) as [w s5] eqn:E5. apply eat_width_sound in E5. destruct E5 as (wd & E5 & Hwd).
  destruct (eat (Z.eqb 95) s5) as [grp s6] eqn:E6. apply eat_sound in E6.
  assert (Hal : forall x, match al with Some a => align_of a | None => None end = x ->
                match al, x with Some _, None => true | _, _ => false end = false ->
                opt_char al = opt_char (option_map align_char x) /\ (al <> None -> x <> None)).
  { intros x Hx Hb. destruct al as [a|]; [|subst x; split; [reflexivity|congruence]].
    destruct x as [x|]; [|discriminate]. apply align_of_char in Hx. subst a. split; [reflexivity|discriminate]. }
  destruct (match al with Some a => align_of a | None => None end) as [x|] eqn:Ex.
  - destruct (Hal (Some x) eq_refl) as [Hal1 Hal2]; [destruct al; reflexivity|].
    assert (Hb : match al, Some x with Some _, None => true | _, _ => false end = false) by (destruct al; reflexivity).
    rewrite Hb.
    destruct s6 as [|t [|? ?]]; try discriminate.
    + intros H; injection H as <-. exists wd. unfold render_spec. cbn [f_fill f_align f_sign f_alt f_zero f_width f_group f_type].
      split; [|split; [exact Hwd|]].
      * rewrite Hs, Hal1, Hsg, E3, E4, E5, E6. cbn [option_map opt_char]. rewrite app_nil_r. reflexivity.
      * intros Hf. destruct (Hfill Hf) as [Ha Hn]. split; [discriminate|exact Hn].
    + destruct (type_of t) as [ty|] eqn:Et; [|discriminate]. apply type_of_char in Et. subst t.
      intros H; injection H as <-. exists wd. unfold render_spec. cbn [f_fill f_align f_sign f_alt f_zero f_width f_group f_type].
      split; [|split; [exact Hwd|]].
      * rewrite Hs, Hal1, Hsg, E3, E4, E5, E6. reflexivity.
      * intros Hf. destruct (Hfill Hf) as [Ha Hn]. split; [discriminate|exact Hn].
  - destruct al as [a|]; [discriminate|].
    assert (Hf0 : fill = None).
    { destruct fill; [|reflexivity]. destruct Hfill as [Ha _]; [discriminate|congruence]. }
    subst fill.
    destruct s6 as [|t [|? ?]]; try discriminate.
    + intros H; injection H as <-. exists wd. unfold render_spec. cbn [f_fill f_align f_sign f_alt f_zero f_width f_group f_type].
      split; [|split; [exact Hwd|congruence]].
      rewrite Hs, Hsg, E3, E4, E5, E6. cbn [option_map opt_char app]. rewrite app_nil_r. reflexivity.
    + destruct (type_of t) as [ty|] eqn:Et; [|discriminate]. apply type_of_char in Et. subst t.
      intros H; injection H as <-. exists wd. unfold render_spec. cbn [f_fill f_align f_sign f_alt f_zero f_width f_group f_type].
      split; [|split; [exact Hwd|congruence]].
      rewrite Hs, Hsg, E3, E4, E5, E6. reflexivity.
Qed.

(* ------------------------------------------------------------------ *)
(* a whole format: the emitted text is str.format of the values in their own shapes *)

(* SPEC: literal text as is, every field formatted by Python from the Python-integer value of its expression *)
Fixpoint spec_text (sigs : list shape) (env : list Z) (f : format) : option (list Z) :=
  match f with
  | [] => Some []
  | CLit t :: r => option_map (app t) (spec_text sigs env r)
  | CField e s :: r =>
      match field_spec sigs e s with
      | Some sp => match py_format sp (vdenote sigs env e), spec_text sigs env r with
                   | Some t, Some t' => Some (t ++ t')
                   | _, _ => None
                   end
      | None => None
      end
  end.

Fixpoint format_wf (sigs : list shape) (env : list Z) (f : format) : Prop :=
  match f with
  | [] => True
  | CLit _ :: r => format_wf sigs env r
  | CField e s :: r =>
      vexpr_ok sigs env e /\ format_wf sigs env r
  end.

Lemma py_format_s_decodes sp v t : f_type sp = Some Ts -> py_format sp v = Some t ->
  exists b, utf8_decode (value_bytes v) = Some b.
Proof.
  unfold py_format. intros ->. destruct (utf8_decode (value_bytes v)) as [b|]; [eauto|discriminate].
Qed.

Lemma args_check_ok sigs env f txt : format_wf sigs env f -> spec_text sigs env f = Some txt ->
  args_check sigs env f = true.
Proof.
  revert txt. induction f as [|[t|e s] f IH]; intros txt Hwf Hs; cbn [args_check]; [reflexivity| |].
  - cbn [spec_text] in Hs. destruct (spec_text sigs env f) as [t'|]; [|discriminate]. eapply IH; eauto.
  - cbn [spec_text format_wf] in *. destruct Hwf as (Hok & Hwf).
    destruct (field_spec sigs e s) as [sp|]; [|discriminate].
    destruct (py_format sp (vdenote sigs env e)) as [t|] eqn:Ep; [|discriminate].
    destruct (spec_text sigs env f) as [t'|]; [|discriminate].
    rewrite norm_raw_denote by auto.
    destruct (f_type sp) as [[]|] eqn:Et; try (eapply IH; eauto).
    destruct (py_format_s_decodes sp _ _ Et Ep) as [b ->]. eapply IH; eauto.
Qed.

Lemma render_ok sigs env f : forall txt acc, format_wf sigs env f -> spec_text sigs env f = Some txt ->
  render sigs env f acc = Ok (acc ++ txt).
Proof.
  induction f as [|[t|e s] f IH]; intros txt acc Hwf Hs; cbn [render spec_text format_wf] in *.
  - injection Hs as <-. rewrite app_nil_r. reflexivity.
  - destruct (spec_text sigs env f) as [t'|]; [|discriminate]. injection Hs as <-.
    rewrite (IH t' (acc ++ t)) by auto. rewrite app_assoc. reflexivity.
  - destruct Hwf as (Hok & Hwf).
    destruct (field_spec sigs e s) as [sp|]; [|discriminate].
    destruct (py_format sp (vdenote sigs env e)) as [t|] eqn:Ep; [|discriminate].
    destruct (spec_text sigs env f) as [t'|]; [|discriminate]. injection Hs as <-.
    rewrite emit_field_shape_value by auto. rewrite Ep.
    rewrite (IH t' (acc ++ t)) by auto. rewrite app_assoc. reflexivity.
Qed.

Lemma emit_format_spec sigs env f txt : format_wf sigs env f -> spec_text sigs env f = Some txt ->
  emit_format sigs env f = Ok txt.
Proof.
  intros Hwf Hs. unfold emit_format. rewrite (args_check_ok sigs env f txt) by auto.
  rewrite (render_ok sigs env f txt []) by auto. reflexivity.
Qed.

Lemma fire_print_spec sigs env f txt out : format_wf sigs env f -> spec_text sigs env f = Some txt ->
  fire_print sigs env f out = Cont (out ++ txt ++ [10]).
Proof. intros Hwf Hs. unfold fire_print. rewrite (emit_format_spec sigs env f txt) by auto. reflexivity. Qed.

Lemma fire_assert_spec sigs env k t f txt out : k <> KCover -> format_wf sigs env f -> spec_text sigs env f = Some txt ->
  vexpr_ok sigs env t ->
  fire_prop sigs env k t (Some f) out =
  if vdenote sigs env t =? 0 then Stop out 1 (assert_text k ++ [58; 32] ++ txt) else Cont out.
Proof.
  intros Hk Hwf Hs Hok. unfold fire_prop. rewrite norm_raw_denote by auto.
  rewrite (emit_format_spec sigs env f txt) by auto. destruct k; try congruence; reflexivity.
Qed.

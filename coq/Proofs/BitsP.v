(* BitsP.v — basic laws of mask / sext / norm / bit_length. *)
From Coq Require Import ZArith List Bool Lia ZifyBool.
From V.Model Require Import Bits.
Open Scope Z_scope.

Lemma pow2_pos w : 0 <= w -> 0 < 2 ^ w.
Proof. intros; apply Z.pow_pos_nonneg; lia. Qed.

Lemma pow2_split w : 1 <= w -> 2 ^ w = 2 * 2 ^ (w - 1).
Proof. intros; rewrite <- Z.pow_succ_r by lia; f_equal; lia. Qed.

Lemma pow2_mono a b : 0 <= a <= b -> 2 ^ a <= 2 ^ b.
Proof. intros; apply Z.pow_le_mono_r; lia. Qed.

Lemma pow2_mono_lt a b : 0 <= a < b -> 2 ^ a < 2 ^ b.
Proof. intros; apply Z.pow_lt_mono_r; lia. Qed.

Lemma mask_range w v : 0 <= w -> 0 <= mask w v < 2 ^ w.
Proof. intros; unfold mask; apply Z.mod_pos_bound, pow2_pos; auto. Qed.

Lemma mask_small w v : 0 <= v < 2 ^ w -> mask w v = v.
Proof. intros; unfold mask; apply Z.mod_small; auto. Qed.

Lemma mask_idem w v : 0 <= w -> mask w (mask w v) = mask w v.
Proof. intros; apply mask_small, mask_range; auto. Qed.

Lemma mask_add_mul w v k : 0 <= w -> mask w (v + k * 2 ^ w) = mask w v.
Proof. intros; unfold mask; apply Z.mod_add; pose proof (pow2_pos w); lia. Qed.

Lemma mask_land w v : 0 <= w -> Z.land v (Z.shiftl 1 w - 1) = mask w v.
Proof.
  intros. rewrite Z.shiftl_1_l. replace (2 ^ w - 1) with (Z.ones w).
  - apply Z.land_ones; auto.
  - rewrite Z.ones_equiv; lia.
Qed.

Lemma mask_land_pow w v : 0 <= w -> Z.land v (2 ^ w - 1) = mask w v.
Proof. intros. rewrite <- mask_land by auto. rewrite Z.shiftl_1_l. reflexivity. Qed.

Lemma sext_range w v : 1 <= w -> - 2 ^ (w - 1) <= sext w v < 2 ^ (w - 1).
Proof.
  intros Hw; unfold sext. pose proof (mask_range w v ltac:(lia)) as Hm; unfold mask in Hm.
  pose proof (pow2_split w Hw).
  destruct (2 ^ (w - 1) <=? v mod 2 ^ w) eqn:E; lia.
Qed.

Lemma sext_small w v : 1 <= w -> - 2 ^ (w - 1) <= v < 2 ^ (w - 1) -> sext w v = v.
Proof.
  intros Hw Hv; unfold sext. pose proof (pow2_split w Hw) as Hs.
  pose proof (pow2_pos (w-1) ltac:(lia)).
  destruct (Z_lt_le_dec v 0).
  - replace (v mod 2 ^ w) with (v + 2 ^ w).
    + destruct (2 ^ (w - 1) <=? v + 2 ^ w) eqn:E; lia.
    + symmetry. replace (v + 2 ^ w) with (v + 1 * 2 ^ w) by lia.
      rewrite <- (Z.mod_add v 1 (2 ^ w)) by lia. apply Z.mod_small; lia.
  - rewrite Z.mod_small by lia. destruct (2 ^ (w - 1) <=? v) eqn:E; lia.
Qed.

Lemma sext_congr w v : 1 <= w -> exists k, sext w v = v + k * 2 ^ w.
Proof.
  intros Hw; unfold sext. pose proof (pow2_pos w ltac:(lia)).
  pose proof (Z.div_mod v (2 ^ w) ltac:(lia)).
  destruct (2 ^ (w - 1) <=? v mod 2 ^ w).
  - exists (- (v / 2 ^ w) - 1); lia.
  - exists (- (v / 2 ^ w)); lia.
Qed.

Lemma mask_congr w v : 0 <= w -> exists k, mask w v = v + k * 2 ^ w.
Proof.
  intros Hw; unfold mask. pose proof (pow2_pos w Hw).
  pose proof (Z.div_mod v (2 ^ w) ltac:(lia)). exists (- (v / 2 ^ w)); lia.
Qed.

Lemma sext_add_mul w v k : 1 <= w -> sext w (v + k * 2 ^ w) = sext w v.
Proof. intros; unfold sext. rewrite Z.mod_add; auto. pose proof (pow2_pos w); lia. Qed.

Lemma in_rangeb_spec s v : in_rangeb s v = true <-> in_range s v.
Proof. unfold in_rangeb, in_range; destruct (sgn s); lia. Qed.

Lemma norm_in_range s v : wf_shape s = true -> in_range s (norm s v).
Proof.
  unfold wf_shape, in_range, norm; destruct (sgn s); intros.
  - apply sext_range; lia.
  - apply mask_range; lia.
Qed.

Lemma norm_id s v : wf_shape s = true -> in_range s v -> norm s v = v.
Proof.
  unfold wf_shape, in_range, norm; destruct (sgn s); intros.
  - apply sext_small; lia.
  - apply mask_small; lia.
Qed.

Lemma norm_congr s v : wf_shape s = true -> exists k, norm s v = v + k * 2 ^ width s.
Proof.
  unfold wf_shape, norm; destruct (sgn s); intros.
  - apply sext_congr; lia.
  - apply mask_congr; lia.
Qed.

Lemma norm_add_mul s v k : wf_shape s = true -> norm s (v + k * 2 ^ width s) = norm s v.
Proof.
  unfold wf_shape, norm; destruct (sgn s); intros.
  - apply sext_add_mul; lia.
  - apply mask_add_mul; lia.
Qed.

(* uniqueness: the value in range congruent to v is norm s v *)
Lemma norm_unique s v r k : wf_shape s = true -> in_range s r -> r = v + k * 2 ^ width s ->
  r = norm s v.
Proof.
  intros Hwf Hr ->. rewrite <- (norm_add_mul s v k Hwf). symmetry; apply norm_id; auto.
Qed.

Lemma norm_idem s v : wf_shape s = true -> norm s (norm s v) = norm s v.
Proof. intros; apply norm_id; auto using norm_in_range. Qed.

(* bit_length *)
Lemma bit_length_nonneg n : 0 <= bit_length n.
Proof. unfold bit_length. destruct (n =? 0); [lia|]. pose proof (Z.log2_nonneg (Z.abs n)); lia. Qed.

Lemma bit_length_spec n : 0 < n -> 2 ^ (bit_length n - 1) <= n < 2 ^ bit_length n.
Proof.
  intros Hn. unfold bit_length. destruct (n =? 0) eqn:E; [lia|].
  rewrite Z.abs_eq by lia. replace (Z.log2 n + 1 - 1) with (Z.log2 n) by lia.
  replace (Z.log2 n + 1) with (Z.succ (Z.log2 n)) by lia. apply Z.log2_spec; auto.
Qed.

Lemma bit_length_0 : bit_length 0 = 0.
Proof. reflexivity. Qed.

Lemma bit_length_upper n : 0 <= n -> n < 2 ^ bit_length n.
Proof.
  intros. destruct (Z.eq_dec n 0) as [->|]; [reflexivity|]. apply bit_length_spec; lia.
Qed.

(* minimality: n < 2^w -> bit_length n <= w *)
Lemma bit_length_min n w : 0 <= n -> 0 <= w -> n < 2 ^ w -> bit_length n <= w.
Proof.
  intros Hn Hw Hlt. destruct (Z.eq_dec n 0) as [->|Hne]; [rewrite bit_length_0; lia|].
  pose proof (bit_length_spec n ltac:(lia)) as [Hlo _].
  destruct (Z_lt_le_dec w (bit_length n)); [|lia].
  pose proof (pow2_mono w (bit_length n - 1) ltac:(lia)). lia.
Qed.

(* ---- bit-level characterisations ---- *)
Lemma testbit_mask w v i : 0 <= w -> Z.testbit (mask w v) i = (i <? w) && Z.testbit v i.
Proof. intros; unfold mask; apply Z.testbit_mod_pow2; auto. Qed.

Lemma msb_test w v : 1 <= w -> (2 ^ (w - 1) <=? v mod 2 ^ w) = Z.testbit v (w - 1).
Proof.
  intros Hw. rewrite <- (Z.mod_pow2_bits_low v w (w - 1)) by lia.
  pose proof (Z.mod_pos_bound v (2 ^ w) (pow2_pos w ltac:(lia))) as Hm.
  set (m := v mod 2 ^ w) in *. pose proof (pow2_split w Hw) as Hs.
  pose proof (pow2_pos (w - 1) ltac:(lia)) as Hp.
  destruct (Z.testbit m (w - 1)) eqn:E.
  - apply Z.testbit_true in E; [|lia].
    apply Z.leb_le. destruct (Z_lt_le_dec m (2 ^ (w - 1))); [|lia].
    rewrite Z.div_small in E by lia. discriminate.
  - apply Z.leb_gt. destruct (Z_lt_le_dec m (2 ^ (w - 1))); [lia|].
    assert (m / 2 ^ (w - 1) = 1) as Hd.
    { symmetry; apply (Z.div_unique m (2 ^ (w - 1)) 1 (m - 2 ^ (w - 1))); lia. }
    assert (Z.testbit m (w - 1) = true) as Ht.
    { apply Z.testbit_true; [lia|]. rewrite Hd. reflexivity. }
    congruence.
Qed.

Lemma neg_pow2_lnot w : 0 <= w -> - 2 ^ w = Z.lnot (Z.ones w).
Proof. intros; unfold Z.lnot; rewrite Z.ones_equiv; lia. Qed.

Lemma testbit_neg_pow2 w i : 0 <= w -> 0 <= i -> Z.testbit (- 2 ^ w) i = (w <=? i).
Proof.
  intros. rewrite neg_pow2_lnot by auto. rewrite Z.lnot_spec by auto.
  rewrite Z.testbit_ones_nonneg by auto. destruct (i <? w) eqn:E; lia.
Qed.

(* m - 2^w for 0 <= m < 2^w is m with all bits from w upward set *)
Lemma sub_pow2_lor w m : 0 <= w -> 0 <= m < 2 ^ w -> m - 2 ^ w = Z.lor m (- 2 ^ w).
Proof.
  intros Hw Hm.
  assert (Z.land m (- 2 ^ w) = 0) as Hd.
  { apply Z.bits_inj'; intros i Hi. rewrite Z.land_spec, Z.bits_0, testbit_neg_pow2 by auto.
    destruct (w <=? i) eqn:E; [|apply andb_false_r].
    rewrite andb_true_r. rewrite <- (Z.mod_small m (2 ^ w)) by auto.
    apply Z.mod_pow2_bits_high; lia. }
  replace (m - 2 ^ w) with (m + - 2 ^ w) by lia.
  rewrite Z.add_nocarry_lxor by auto. apply Z.lxor_lor; auto.
Qed.

Lemma testbit_sext w v i : 1 <= w -> 0 <= i ->
  Z.testbit (sext w v) i = Z.testbit v (if i <? w then i else w - 1).
Proof.
  intros Hw Hi. unfold sext. rewrite msb_test by auto.
  pose proof (Z.mod_pos_bound v (2 ^ w) (pow2_pos w ltac:(lia))) as Hm.
  destruct (Z.testbit v (w - 1)) eqn:E.
  - rewrite sub_pow2_lor by (auto; lia). rewrite Z.lor_spec, testbit_neg_pow2 by lia.
    rewrite Z.testbit_mod_pow2 by lia.
    destruct (i <? w) eqn:E2.
    + replace (w <=? i) with false by lia. rewrite orb_false_r. reflexivity.
    + replace (w <=? i) with true by lia. rewrite orb_true_r. auto.
  - rewrite Z.testbit_mod_pow2 by lia. destruct (i <? w); auto.
Qed.

Lemma testbit_norm s v i : wf_shape s = true -> 0 <= i ->
  Z.testbit (norm s v) i =
  if sgn s then Z.testbit v (if i <? width s then i else width s - 1)
  else (i <? width s) && Z.testbit v i.
Proof.
  unfold wf_shape, norm. destruct (sgn s); intros.
  - apply testbit_sext; lia.
  - apply testbit_mask; lia.
Qed.

Lemma sext_mask w v : 1 <= w -> sext w (mask w v) = sext w v.
Proof. intros; unfold sext, mask. rewrite Z.mod_mod; auto. pose proof (pow2_pos w); lia. Qed.

Lemma mask_sext w v : 1 <= w -> mask w (sext w v) = mask w v.
Proof.
  intros. destruct (sext_congr w v H) as [k ->]. apply mask_add_mul; lia.
Qed.

Lemma mask_mask_le a b v : 0 <= a <= b -> mask a (mask b v) = mask a v.
Proof.
  intros. apply Z.bits_inj'; intros i Hi. rewrite !testbit_mask by lia.
  destruct (i <? a) eqn:E; simpl; auto. replace (i <? b) with true by lia. reflexivity.
Qed.

(* disjoint or = add *)
Lemma lor_shiftl_add a b n : 0 <= n -> 0 <= a < 2 ^ n -> Z.lor a (Z.shiftl b n) = a + b * 2 ^ n.
Proof.
  intros Hn Ha. rewrite Z.shiftl_mul_pow2 by auto.
  assert (Z.land a (b * 2 ^ n) = 0) as Hd.
  { apply Z.bits_inj'; intros i Hi. rewrite Z.land_spec, Z.bits_0.
    destruct (Z_lt_le_dec i n).
    - rewrite Z.mul_pow2_bits_low by lia. apply andb_false_r.
    - rewrite <- (Z.mod_small a (2 ^ n)) by auto. rewrite Z.mod_pow2_bits_high by lia. reflexivity. }
  rewrite <- Z.lxor_lor by auto. symmetry. apply Z.add_nocarry_lxor; auto.
Qed.

Lemma testbit_div_pow2 v n i : 0 <= n -> 0 <= i -> Z.testbit (v / 2 ^ n) i = Z.testbit v (i + n).
Proof. intros. rewrite <- Z.shiftr_div_pow2 by auto. apply Z.shiftr_spec; auto. Qed.

Lemma norm_unsigned w x : norm (Sh w false) x = mask w x.
Proof. reflexivity. Qed.
Lemma norm_signed w x : norm (Sh w true) x = sext w x.
Proof. reflexivity. Qed.

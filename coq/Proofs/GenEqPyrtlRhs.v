(* GenEqPyrtlRhs.v — the Python source text that amaranth/sim/_pyrtl.py _RHSValueCompiler returns for a value node,
   as regenerated from the f-string templates of /repo by translator/unit_pyrtl_rhs.py (coq/Gen/PyRtlRhsGen.v),
   equals the hand-written model Model/PyRTL.v on ALL inputs (every operator, every shape, every raw integer, every
   meaning `self_` / `rrhs_` of the code compiled for the sub-values).  No well-formedness hypothesis anywhere.
   A semantic change of a template / helper / mask either cannot be translated or breaks one of these lemmas. *)
From Coq Require Import ZArith List Bool Lia.
From V.Model Require Import Bits Shape Ast Denote PyRTL.
From V.Gen Require PyRtlRhsGen.
Import ListNotations.
Open Scope Z_scope.

Module G := PyRtlRhsGen.

(* ---------- _ValueCompiler.helpers ---------- *)
Lemma gen_h_sign_eq v s : G.h_sign v s = py_sign v s.
Proof. unfold G.h_sign, py_sign. destruct (Z.land v s =? 0); reflexivity. Qed.

Lemma gen_h_zdiv_eq l r : G.h_zdiv l r = zdiv l r.
Proof. reflexivity. Qed.

Lemma gen_h_zmod_eq l r : G.h_zmod l r = zmod l r.
Proof. reflexivity. Qed.

(* ---------- _RHSValueCompiler.sign and the local mask()/sign() of on_Operator ---------- *)
Lemma gen_sign_eq (self_ : expr -> Z) a : G.g_sign self_ a = rsign (shape_of a) (self_ a).
Proof. unfold G.g_sign, rsign, rmask. rewrite gen_h_sign_eq. reflexivity. Qed.

(* the inlined local sign(): same text as g_sign *)
Local Ltac fold_sign self_ :=
  repeat match goal with
  | |- context [if sgn (shape_of ?a) then G.h_sign ?m ?k else ?m'] =>
      change (if sgn (shape_of a) then G.h_sign m k else m') with (G.g_sign self_ a)
  end.

(* ---------- on_Operator ---------- *)
Lemma gen_op1_eq (self_ : expr -> Z) o a : G.g_op1 self_ o a = rtl_op1 o (shape_of a) (self_ a).
Proof.
  destruct o; cbn [G.g_op1 rtl_op1]; fold_sign self_; rewrite ?gen_sign_eq; unfold rmask, parity; reflexivity.
Qed.

Lemma gen_op2_eq (self_ : expr -> Z) o a b :
  G.g_op2 self_ o a b = rtl_op2 o (rsign (shape_of a) (self_ a)) (rsign (shape_of b) (self_ b)).
Proof.
  destruct o; cbn [G.g_op2 rtl_op2]; fold_sign self_; rewrite ?gen_sign_eq; reflexivity.
Qed.

(* ---------- on_Const / on_Signal ---------- *)
Lemma gen_const_eq en v s : G.g_const v s = eval_rtl en (EConst v s).
Proof. reflexivity. Qed.

Lemma gen_signal_eq mode en i s : G.g_signal mode en i s = eval_rtl en (ESig i s).
Proof. destruct mode; reflexivity. Qed.

(* ---------- on_Slice / on_Part ---------- *)
Lemma gen_slice_eq (self_ : expr -> Z) a lo hi : G.g_slice self_ a lo hi = rmask (hi - lo) (Z.shiftr (self_ a) lo).
Proof. reflexivity. Qed.

Lemma gen_part_eq (self_ rrhs_ : expr -> Z) a off w st :
  G.g_part self_ rrhs_ a off w st =
  rmask w (Z.shiftr (rsign (shape_of a) (self_ a)) (st * rmask (ewidth off) (rrhs_ off))).
Proof. unfold G.g_part. fold_sign self_. rewrite gen_sign_eq. reflexivity. Qed.

(* ---------- on_Concat ---------- *)
Lemma fold_lor_acc l : forall x, fold_left Z.lor l x = Z.lor x (fold_left Z.lor l 0).
Proof.
  induction l as [|y l IH]; intros x; cbn [fold_left].
  - rewrite Z.lor_0_r. reflexivity.
  - rewrite IH, (IH (Z.lor 0 y)), Z.lor_0_l, Z.lor_assoc. reflexivity.
Qed.

Lemma gen_concat_eq (self_ : expr -> Z) parts :
  G.g_concat self_ parts = rtl_cat (map (fun p => (self_ p, ewidth p)) parts) 0.
Proof.
  unfold G.g_concat.
  match goal with |- ?F parts [] 0 = _ =>
    enough (H : forall gp off, F parts gp off =
                 Z.lor (fold_left Z.lor gp 0) (rtl_cat (map (fun p => (self_ p, ewidth p)) parts) off))
      by (rewrite H; cbn [fold_left]; apply Z.lor_0_l)
  end.
  induction parts as [|p parts IH]; intros gp off.
  - cbn [map rtl_cat]. rewrite Z.lor_0_r. destruct gp as [|x r]; [reflexivity|].
    cbn [fold_left]. rewrite Z.lor_0_l. reflexivity.
  - rewrite IH. cbn [map rtl_cat]. rewrite fold_left_app. cbn [fold_left]. unfold rmask, ewidth.
    rewrite Z.lor_assoc. reflexivity.
Qed.

(* ---------- the model evaluator satisfies the regenerated node equations ---------- *)
(* eval_rtl en is a fixed point of the regenerated one-node compilers, for every node kind except SwitchValue
   (statement emission of on_SwitchValue / _emit_switch is not translated) *)
Lemma gen_rhs_nodes_eq mode en :
  (forall v s, eval_rtl en (EConst v s) = G.g_const v s) /\
  (forall i s, eval_rtl en (ESig i s) = G.g_signal mode en i s) /\
  (forall o a, eval_rtl en (EOp1 o a) = G.g_op1 (eval_rtl en) o a) /\
  (forall o a b, eval_rtl en (EOp2 o a b) = G.g_op2 (eval_rtl en) o a b) /\
  (forall a lo hi, eval_rtl en (ESlice a lo hi) = G.g_slice (eval_rtl en) a lo hi) /\
  (forall a off w st, eval_rtl en (EPart a off w st) = G.g_part (eval_rtl en) (eval_rtl en) a off w st) /\
  (forall parts, eval_rtl en (ECat parts) = G.g_concat (eval_rtl en) parts).
Proof.
  repeat match goal with |- _ /\ _ => split end; intros.
  - reflexivity.
  - symmetry. apply gen_signal_eq.
  - rewrite gen_op1_eq. reflexivity.
  - rewrite gen_op2_eq. reflexivity.
  - rewrite gen_slice_eq. reflexivity.
  - rewrite gen_part_eq. reflexivity.
  - rewrite gen_concat_eq. reflexivity.
Qed.

(* value committed by rtl_drive uses the same sign(): rsign is the regenerated sign() *)
Lemma gen_drive_eq s en e : rtl_drive s en e = rsign s (G.g_sign (eval_rtl en) e).
Proof. unfold rtl_drive. rewrite gen_sign_eq. reflexivity. Qed.

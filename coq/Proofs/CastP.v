(* CastP.v — C10 (added after the coverage audit): initial values of signals and memory rows, enumeration classes. *)
From Coq Require Import ZArith List Bool Lia ZifyBool.
From V.Model Require Import Bits Shape Cast.
From V.Proofs Require Import BitsP ShapeP.
Import ListNotations.
Open Scope Z_scope.

(* ---------- `v in range(a, b, st)` ---------- *)
Lemma range_mem_iff a b st v : st <> 0 -> range_mem a b st v = true <-> range_elem a b st v.
Proof.
  intros Hst. unfold range_mem, range_elem. split.
  - intros H. destruct (0 <? st) eqn:E.
    + assert (Hv : a <= v < b /\ (v - a) mod st = 0) by lia. destruct Hv as [Hr Hm].
      exists ((v - a) / st). pose proof (Z.div_mod (v - a) st ltac:(lia)) as Hdm. rewrite Hm in Hdm.
      unfold range_nth. split; [|lia].
      assert (0 <= (v - a) / st) by (apply Z.div_pos; lia).
      split; [lia|]. unfold range_len. rewrite E. replace (a <? b) with true by lia.
      assert ((v - a) / st <= (b - a - 1) / st) by (apply Z.div_le_mono; lia). lia.
    + assert (Hv : b < v <= a /\ (a - v) mod (- st) = 0) by lia. destruct Hv as [Hr Hm].
      exists ((a - v) / (- st)). pose proof (Z.div_mod (a - v) (- st) ltac:(lia)) as Hdm. rewrite Hm in Hdm.
      unfold range_nth. split; [|lia].
      assert (0 <= (a - v) / (- st)) by (apply Z.div_pos; lia).
      split; [lia|]. unfold range_len. rewrite E. replace (b <? a) with true by lia.
      assert ((a - v) / (- st) <= (a - b - 1) / (- st)) by (apply Z.div_le_mono; lia). lia.
  - intros (k & Hk & ->). pose proof (range_len_spec a b st k Hst Hk) as Hs. unfold range_nth in *.
    destruct (0 <? st) eqn:E.
    + replace (a + k * st - a) with (k * st) by ring. rewrite Z.mod_mul by lia. lia.
    + replace (a - (a + k * st)) with (k * (- st)) by ring. rewrite Z.mod_mul by lia. lia.
Qed.

(* ---------- _get_init_value ---------- *)
(* an int initial value on a Shape: wrapped exactly like a constant of that shape *)
Theorem init_int_wrapped s v : wf_shape s = true ->
  get_init_value (SShape s) (IInt v) = Ok (norm s v).
Proof. intros H. cbn. rewrite const_norm_spec by auto. reflexivity. Qed.

(* an initial value that is given (int, enum member, constant expression) on a range: accepted exactly when the VALUE it
   stands for is an element of the range, and then that value is kept as it is *)
Theorem init_range_spec a b st i r : st <> 0 -> i <> INone ->
  get_init_value (SRange a b st) i = Ok r <-> (range_elem a b st (init_const_value i) /\ r = init_const_value i).
Proof.
  intros Hst Hi. set (v := init_const_value i).
  assert (Hg : get_init_value (SRange a b st) i =
               if range_mem a b st v then Ok (const_norm (cast_range a b st) v) else Err 4).
  { destruct i; try reflexivity. congruence. }
  rewrite Hg. rewrite <- range_mem_iff by auto.
  destruct (range_mem a b st v) eqn:E.
  - assert (Hn : const_norm (cast_range a b st) v = v).
    { rewrite const_norm_spec by apply cast_range_wf. apply norm_id; [apply cast_range_wf|].
      apply cast_range_represents; auto. apply range_mem_iff; auto. }
    rewrite Hn. split; [intros H; injection H as <-; auto|intros [_ ->]; reflexivity].
  - split; [discriminate|intros [H _]; discriminate].
Qed.

Theorem init_range_rejects a b st i : st <> 0 -> i <> INone -> ~ range_elem a b st (init_const_value i) ->
  get_init_value (SRange a b st) i = Err 4.
Proof.
  intros Hst Hi Hn. destruct (get_init_value (SRange a b st) i) as [r|c] eqn:E.
  - exfalso. apply Hn. apply (init_range_spec a b st i r Hst Hi). exact E.
  - destruct i; try congruence; cbn in E; destruct (range_mem _ _ _ _); congruence.
Qed.

(* the value a constant expression / an enum member stands for *)
Lemma init_value_expr e : cwf e = true -> init_const_value (IExpr e) = norm (cshape e) (cdenote e).
Proof. intros He. cbn. destruct (const_cast_eval e He) as [Hc _]. rewrite Hc. reflexivity. Qed.
Lemma init_value_enum ms v : In v ms -> init_const_value (IEnum ms v) = v.
Proof.
  intros Hin. cbn.
  assert (Hw : wf_shape (cast_enum ms) = true).
  { rewrite cast_enum_is_unify. apply unify_wf. apply Forall_forall. intros t Ht. apply in_map_iff in Ht.
    destruct Ht as (x & <- & _). apply const_shape_wf. }
  rewrite const_norm_spec by auto. apply norm_id; auto. apply cast_enum_represents; auto.
Qed.

(* a constant expression (Const / Cat / Slice) as the initial value: its evaluation, wrapped into the signal's shape *)
Theorem init_expr_spec s e : wf_shape s = true -> cwf e = true ->
  get_init_value (SShape s) (IExpr e) = Ok (norm s (norm (cshape e) (cdenote e))).
Proof.
  intros Hs He. change (get_init_value (SShape s) (IExpr e)) with (@Ok Z (const_norm s (init_const_value (IExpr e)))).
  rewrite init_value_expr by auto. rewrite const_norm_spec by auto. reflexivity.
Qed.

(* a member of an integer enumeration as the initial value: its value (it fits the class's shape) wrapped into the signal's *)
Theorem init_enum_spec s ms v : wf_shape s = true -> In v ms ->
  get_init_value (SShape s) (IEnum ms v) = Ok (norm s v).
Proof.
  intros Hs Hin. change (get_init_value (SShape s) (IEnum ms v)) with (@Ok Z (const_norm s (init_const_value (IEnum ms v)))).
  rewrite init_value_enum by auto. rewrite const_norm_spec by auto. reflexivity.
Qed.

(* ---------- MemoryData.Init ---------- *)
Lemma init_rows_spec sp : forall elems l, init_rows sp elems = Ok l ->
  length l = length elems /\ forall i, (i < length elems)%nat -> get_init_value sp (nth i elems INone) = Ok (nth i l 0).
Proof.
  induction elems as [|x r IH]; intros l H; cbn [init_rows] in H.
  - injection H as <-. split; [reflexivity|]. intros i Hi. inversion Hi.
  - destruct (get_init_value sp x) as [v|c] eqn:Ex; [|discriminate].
    destruct (init_rows sp r) as [l'|c]; [|discriminate]. injection H as <-.
    destruct (IH l' eq_refl) as [Hlen Hnth]. split; [cbn; congruence|].
    intros [|i] Hi; [exact Ex|]. cbn [nth]. apply Hnth. cbn in Hi. lia.
Qed.

(* every given row is converted exactly like a signal's initial value, the rows that are not given are 0, and the result
   has `depth` rows *)
Theorem mem_init_rows sp depth elems rows : mem_init sp depth elems = Ok rows ->
  Z.of_nat (length rows) = depth /\
  (forall i, (i < length elems)%nat -> get_init_value sp (nth i elems INone) = Ok (nth i rows 0)) /\
  (forall i, (length elems <= i)%nat -> nth i rows 0 = 0).
Proof.
  unfold mem_init. intros H. destruct (depth <? 0) eqn:Ed; [discriminate|].
  destruct (depth <? Z.of_nat (length elems)) eqn:El; [discriminate|].
  destruct (init_rows sp elems) as [l|c] eqn:Er; [|discriminate]. injection H as <-.
  destruct (init_rows_spec sp elems l Er) as [Hlen Hnth]. split; [|split].
  - rewrite app_length, repeat_length. lia.
  - intros i Hi. rewrite app_nth1 by lia. apply Hnth; auto.
  - intros i Hi. rewrite app_nth2 by lia.
    apply nth_repeat.
Qed.

(* a row that cannot be converted, or more rows than the depth, rejects the whole memory *)
Theorem mem_init_rejects sp depth elems c : mem_init sp depth elems = Err c ->
  depth < 0 \/ depth < Z.of_nat (length elems) \/ exists i, (i < length elems)%nat /\ get_init_value sp (nth i elems INone) = Err c.
Proof.
  unfold mem_init. intros H. destruct (depth <? 0) eqn:Ed; [left; lia|].
  destruct (depth <? Z.of_nat (length elems)) eqn:El; [right; left; lia|]. right; right.
  destruct (init_rows sp elems) as [l|c'] eqn:Er; [discriminate|]. injection H as ->.
  clear Ed El. induction elems as [|x r IH]; cbn [init_rows] in Er; [discriminate|].
  destruct (get_init_value sp x) as [v|c''] eqn:Ex.
  - destruct (init_rows sp r) as [l'|c3] eqn:Er'; [discriminate|]. injection Er as ->.
    destruct (IH eq_refl) as (i & Hi & He). exists (S i). split; [cbn; lia|exact He].
  - injection Er as ->. exists O. split; [cbn; lia|exact Ex].
Qed.

(* ---------- enumeration classes ---------- *)
Lemma cast_enum_shapes_is_unify l : cast_enum_shapes l = unify l.
Proof.
  unfold cast_enum_shapes, unify.
  assert (Hinv : forall (l : list shape) (uw sw : Z) (hs : bool) (acc : shape),
    0 <= uw ->
    acc = (if hs then Sh (Z.max sw (uw + 1)) true else Sh uw false) -> (hs = false -> sw = 0) ->
    fold_left enum_step l acc =
    (let '(uw', sw', hs') := fold_left unify_acc l (uw, sw, hs) in
     if hs' then Sh (Z.max sw' (uw' + 1)) true else Sh uw' false)).
  { clear l. induction l as [|s l IH]; intros uw sw hs acc Huw Hacc Hsw; simpl.
    - auto.
    - subst acc. destruct (sgn s) eqn:Es.
      + apply IH; [auto| |discriminate].
        unfold enum_step. destruct hs; simpl; rewrite Es; simpl.
        * f_equal; lia.
        * rewrite (Hsw eq_refl). f_equal; lia.
      + apply IH; [lia| |auto].
        unfold enum_step. destruct hs; simpl; rewrite Es; simpl; f_equal; lia. }
  apply (Hinv l 0 0 false); auto; lia.
Qed.

Lemma cast_enum_as_shapes ms : cast_enum ms = cast_enum_shapes (map const_shape ms).
Proof. reflexivity. Qed.

(* Flag / IntFlag classes count every declared member (multi-bit masks and aliases included) *)
Lemma cast_flag_all ms : cast_flag ms = cast_enum ms.
Proof. reflexivity. Qed.

(* CastP.v — C10 (added after the coverage audit): initial values of signals and memory rows, enumeration classes. *)
From Coq Require Import ZArith List Bool Lia ZifyBool.
From V.Model Require Import Bits Shape Cast.
From V.Proofs Require Import BitsP ShapeP.
Import ListNotations.
Open Scope Z_scope.

(* ---------- `v in range(a, b, st)` ---------- *)
Lemma range_mem_iff a b st v : st <> 0 -> range_mem a b st v = true <-> range_elem a b st v.
Proof.
  intros Hst. unfold range_mem, range_elem. split.
  - intros H. destruct (0 <? st) eqn:E.
    + assert (Hv : a <= v < b /\ (v - a) mod st = 0) by lia. destruct Hv as [Hr Hm].
      exists ((v - a) / st). pose proof (Z.div_mod (v - a) st ltac:(lia)) as Hdm. rewrite Hm in Hdm.
      unfold range_nth. split; [|lia].
      assert (0 <= (v - a) / st) by (apply Z.div_pos; lia).
      split; [lia|]. unfold range_len. rewrite E. replace (a <? b) with true by lia.
      assert ((v - a) / st <= (b - a - 1) / st) by (apply Z.div_le_mono; lia). lia.
    + assert (Hv : b < v <= a /\ (a - v) mod (- st) = 0) by lia. destruct Hv as [Hr Hm].
      exists ((a - v) / (- st)). pose proof (Z.div_mod (a - v) (- st) ltac:(lia)) as Hdm. rewrite Hm in Hdm.
      unfold range_nth. split; [|lia].
      assert (0 <= (a - v) / (- st)) by (apply Z.div_pos; lia).
      split; [lia|]. unfold range_len. rewrite E. replace (b <? a) with true by lia.
      assert ((a - v) / (- st) <= (a - b - 1) / (- st)) by (apply Z.div_le_mono; lia). lia.
  - intros (k & Hk & ->). pose proof (range_len_spec a b st k Hst Hk) as Hs. unfold range_nth in *.
    destruct (0 <? st) eqn:E.
    + replace (a + k * st - a) with (k * st) by ring. rewrite Z.mod_mul by lia. lia.
    + replace (a - (a + k * st)) with (k * (- st)) by ring. rewrite Z.mod_mul by lia. lia.
Qed.

(* ---------- _get_init_value ---------- *)
(* an int initial value on a Shape: wrapped exactly like a constant of that shape *)
Theorem init_int_wrapped s v : wf_shape s = true ->
  get_init_value (SShape s) (IInt v) = Ok (norm s v).
Proof. intros H. cbn. rewrite const_norm_spec by auto. reflexivity. Qed.

(* an int initial value on a range: accepted exactly when it is an element, and then kept as it is *)
Theorem init_range_spec a b st v r : st <> 0 ->
  get_init_value (SRange a b st) (IInt v) = Ok r <-> (range_elem a b st v /\ r = v).
Proof.
  intros Hst. cbn [get_init_value spec_shape]. rewrite <- range_mem_iff by auto.
  destruct (range_mem a b st v) eqn:E.
  - assert (Hn : const_norm (cast_range a b st) v = v).
    { rewrite const_norm_spec by apply cast_range_wf. apply norm_id; [apply cast_range_wf|].
      apply cast_range_represents; auto. apply range_mem_iff; auto. }
    rewrite Hn. split; [intros H; injection H as <-; auto|intros [_ ->]; reflexivity].
  - split; [discriminate|intros [H _]; discriminate].
Qed.

Theorem init_range_rejects a b st v : st <> 0 -> ~ range_elem a b st v ->
  get_init_value (SRange a b st) (IInt v) = Err 4.
Proof.
  intros Hst Hn. cbn [get_init_value]. destruct (range_mem a b st v) eqn:E; [|reflexivity].
  exfalso. apply Hn. apply range_mem_iff; auto.
Qed.

(* a constant expression (Const / Cat / Slice) as the initial value: its evaluation, wrapped into the signal's shape *)
Theorem init_expr_spec s e : wf_shape s = true -> cwf e = true ->
  get_init_value (SShape s) (IExpr e) = Ok (norm s (norm (cshape e) (cdenote e))).
Proof.
  intros Hs He. cbn [get_init_value spec_shape]. destruct (const_cast_eval e He) as [Hc _]. rewrite Hc. cbn [fst].
  rewrite const_norm_spec by auto. reflexivity.
Qed.

(* a member of an integer enumeration as the initial value: its value (it fits the class's shape) wrapped into the signal's *)
Theorem init_enum_spec s ms v : wf_shape s = true -> In v ms ->
  get_init_value (SShape s) (IEnum ms v) = Ok (norm s v).
Proof.
  intros Hs Hin. cbn [get_init_value spec_shape].
  assert (Hw : wf_shape (cast_enum ms) = true).
  { rewrite cast_enum_is_unify. apply unify_wf. apply Forall_forall. intros t Ht. apply in_map_iff in Ht.
    destruct Ht as (x & <- & _). apply const_shape_wf. }
  rewrite (const_norm_spec (cast_enum ms)) by auto. rewrite (norm_id (cast_enum ms)) by (auto; apply cast_enum_represents; auto).
  rewrite const_norm_spec by auto. reflexivity.
Qed.

(* ---------- MemoryData.Init ---------- *)
Lemma init_rows_spec sp : forall elems l, init_rows sp elems = Ok l ->
  length l = length elems /\ forall i, (i < length elems)%nat -> get_init_value sp (nth i elems INone) = Ok (nth i l 0).
Proof.
  induction elems as [|x r IH]; intros l H; cbn [init_rows] in H.
  - injection H as <-. split; [reflexivity|]. intros i Hi. inversion Hi.
  - destruct (get_init_value sp x) as [v|c] eqn:Ex; [|discriminate].
    destruct (init_rows sp r) as [l'|c]; [|discriminate]. injection H as <-.
    destruct (IH l' eq_refl) as [Hlen Hnth]. split; [cbn; congruence|].
    intros [|i] Hi; [exact Ex|]. cbn [nth]. apply Hnth. cbn in Hi. lia.
Qed.

(* every given row is converted exactly like a signal's initial value, the rows that are not given are 0, and the result
   has `depth` rows *)
Theorem mem_init_rows sp depth elems rows : mem_init sp depth elems = Ok rows ->
  Z.of_nat (length rows) = depth /\
  (forall i, (i < length elems)%nat -> get_init_value sp (nth i elems INone) = Ok (nth i rows 0)) /\
  (forall i, (length elems <= i)%nat -> nth i rows 0 = 0).
Proof.
  unfold mem_init. intros H. destruct (depth <? 0) eqn:Ed; [discriminate|].
  destruct (depth <? Z.of_nat (length elems)) eqn:El; [discriminate|].
  destruct (init_rows sp elems) as [l|c] eqn:Er; [|discriminate]. injection H as <-.
  destruct (init_rows_spec sp elems l Er) as [Hlen Hnth]. split; [|split].
  - rewrite app_length, repeat_length. lia.
  - intros i Hi. rewrite app_nth1 by lia. apply Hnth; auto.
  - intros i Hi. rewrite app_nth2 by lia.
    apply nth_repeat.
Qed.

(* a row that cannot be converted, or more rows than the depth, rejects the whole memory *)
Theorem mem_init_rejects sp depth elems c : mem_init sp depth elems = Err c ->
  depth < 0 \/ depth < Z.of_nat (length elems) \/ exists i, (i < length elems)%nat /\ get_init_value sp (nth i elems INone) = Err c.
Proof.
  unfold mem_init. intros H. destruct (depth <? 0) eqn:Ed; [left; lia|].
  destruct (depth <? Z.of_nat (length elems)) eqn:El; [right; left; lia|]. right; right.
  destruct (init_rows sp elems) as [l|c'] eqn:Er; [discriminate|]. injection H as ->.
  clear Ed El. induction elems as [|x r IH]; cbn [init_rows] in Er; [discriminate|].
  destruct (get_init_value sp x) as [v|c''] eqn:Ex.
  - destruct (init_rows sp r) as [l'|c3] eqn:Er'; [discriminate|]. injection Er as ->.
    destruct (IH eq_refl) as (i & Hi & He). exists (S i). split; [cbn; lia|exact He].
  - injection Er as ->. exists O. split; [cbn; lia|exact Ex].
Qed.

(* ---------- enumeration classes ---------- *)
Lemma cast_enum_shapes_is_unify l : cast_enum_shapes l = unify l.
Proof.
  unfold cast_enum_shapes, unify.
  assert (Hinv : forall (l : list shape) (uw sw : Z) (hs : bool) (acc : shape),
    0 <= uw ->
    acc = (if hs then Sh (Z.max sw (uw + 1)) true else Sh uw false) -> (hs = false -> sw = 0) ->
    fold_left enum_step l acc =
    (let '(uw', sw', hs') := fold_left unify_acc l (uw, sw, hs) in
     if hs' then Sh (Z.max sw' (uw' + 1)) true else Sh uw' false)).
  { clear l. induction l as [|s l IH]; intros uw sw hs acc Huw Hacc Hsw; simpl.
    - auto.
    - subst acc. destruct (sgn s) eqn:Es.
      + apply IH; [auto| |discriminate].
        unfold enum_step. destruct hs; simpl; rewrite Es; simpl.
        * f_equal; lia.
        * rewrite (Hsw eq_refl). f_equal; lia.
      + apply IH; [lia| |auto].
        unfold enum_step. destruct hs; simpl; rewrite Es; simpl; f_equal; lia. }
  apply (Hinv l 0 0 false); auto; lia.
Qed.

Lemma cast_enum_as_shapes ms : cast_enum ms = cast_enum_shapes (map const_shape ms).
Proof. reflexivity. Qed.

(* Flag classes: the shape represents every single-bit member … *)
Theorem cast_flag_singles ms v : In v ms -> single_bit v = true -> in_range (cast_flag ms) v.
Proof. intros Hin Hs. unfold cast_flag. apply cast_enum_represents. apply filter_In. auto. Qed.

(* … but NOT every member: a multi-bit member whose bits are not all named by single-bit members is skipped by the
   iteration of the class (CPython >= 3.11), so it does not count — class F(Flag): A = 1; C = 6 casts to unsigned(1) *)
Theorem cast_flag_refuted : exists ms v, In v ms /\ 0 < v /\ ~ in_range (cast_flag ms) v /\
  const_norm (cast_flag ms) v <> v.
Proof. exists [1; 6], 6. vm_compute. repeat split; try congruence; try (left; reflexivity); intuition congruence. Qed.

(* IoP.v — proofs about Model/Io.v (property C18). *)
From Coq Require Import ZArith List Bool Lia ZifyBool.
From V.Model Require Import Bits Io.
From V.Proofs Require Import BitsP.
Import ListNotations.
Open Scope Z_scope.

(* ================================================================== Direction *)
Lemma dir_eqb_eq a b : dir_eqb a b = true <-> a = b.
Proof. destruct a, b; simpl; split; intros H; try reflexivity; discriminate. Qed.

Lemma dir_eqb_refl a : dir_eqb a a = true.
Proof. destruct a; reflexivity. Qed.

Lemma dir_and_comm a b : dir_and a b = dir_and b a.
Proof. destruct a, b; reflexivity. Qed.

Lemma dir_and_idem a : dir_and a a = Ok a.
Proof. destruct a; reflexivity. Qed.

Lemma dir_and_bidir_l a : dir_and DBidir a = Ok a.
Proof. destruct a; reflexivity. Qed.

Lemma dir_and_bidir_r a : dir_and a DBidir = Ok a.
Proof. destruct a; reflexivity. Qed.

Lemma dir_and_in_out : dir_and DIn DOut = Err EValue /\ dir_and DOut DIn = Err EValue.
Proof. split; reflexivity. Qed.

(* the result is the narrower direction; failure exactly for Input with Output *)
Lemma dir_and_spec a b :
  match dir_and a b with
  | Ok d => (d = a /\ (b = a \/ b = DBidir)) \/ (d = b /\ a = DBidir)
  | Err e => e = EValue /\ ((a = DIn /\ b = DOut) \/ (a = DOut /\ b = DIn))
  end.
Proof. destruct a, b; simpl; auto 6. Qed.

Lemma dir_and_assoc a b c :
  bind (dir_and a b) (fun d => dir_and d c) = bind (dir_and b c) (fun d => dir_and a d).
Proof. destruct a, b, c; reflexivity. Qed.

(* a buffer accepts a port iff the port allows the buffer's direction *)
Lemma buffer_check_spec bd pd :
  buffer_check bd pd = Ok tt <-> (pd = bd \/ pd = DBidir).
Proof. destruct bd, pd; simpl; split; intros H; auto; try discriminate; destruct H; discriminate. Qed.

Lemma buffer_check_err bd pd : buffer_check bd pd <> Ok tt -> buffer_check bd pd = Err EValue.
Proof. destruct bd, pd; simpl; intros H; auto; contradiction. Qed.

(* ================================================================== refs *)
Lemma ref_eqb_eq a b : ref_eqb a b = true <-> a = b.
Proof.
  destruct a as [a1 a2], b as [b1 b2]; unfold ref_eqb; simpl.
  rewrite andb_true_iff, !Nat.eqb_eq. split; [intros [-> ->]; reflexivity|intros H; inversion H; auto].
Qed.

Lemma ref_eqb_refl a : ref_eqb a a = true.
Proof. apply ref_eqb_eq; reflexivity. Qed.

Lemma ref_eqb_neq a b : a <> b -> ref_eqb a b = false.
Proof. intros H. destruct (ref_eqb a b) eqn:E; auto. apply ref_eqb_eq in E. contradiction. Qed.

Lemma upd_same st r v : upd st r v r = v.
Proof. unfold upd. rewrite ref_eqb_refl. reflexivity. Qed.

Lemma upd_other st r v r' : r <> r' -> upd st r v r' = st r'.
Proof. intros H. unfold upd. rewrite ref_eqb_neq; auto. Qed.

(* ================================================================== Cat assignment / reading *)
Lemma assign_cat_other refs : forall st v r, ~ In r refs -> assign_cat st refs v r = st r.
Proof.
  induction refs as [|x rs IH]; intros st v r Hn; simpl; auto.
  rewrite IH by (intros H; apply Hn; right; exact H).
  apply upd_other. intros ->. apply Hn. left; reflexivity.
Qed.

(* without duplicated wires, wire number k receives bit k *)
Lemma assign_cat_nth refs : forall st v k r, NoDup refs -> nth_error refs k = Some r ->
  assign_cat st refs v r = Z.testbit v (Z.of_nat k).
Proof.
  induction refs as [|x rs IH]; intros st v k r Hnd Hk.
  - destruct k; discriminate.
  - inversion Hnd as [|? ? Hx Hrs]; subst. destruct k as [|k]; cbn [assign_cat nth_error] in *.
    + inversion Hk; subst. rewrite assign_cat_other by exact Hx. rewrite upd_same. symmetry. apply Z.bit0_odd.
    + rewrite (IH _ _ k r Hrs Hk). rewrite Z.div2_spec, Z.shiftr_spec by lia.
      f_equal. lia.
Qed.

(* in general the last occurrence wins *)
Lemma assign_cat_last refs : forall st v k r, nth_error refs k = Some r ->
  (forall j, (k < j)%nat -> nth_error refs j <> Some r) ->
  assign_cat st refs v r = Z.testbit v (Z.of_nat k).
Proof.
  induction refs as [|x rs IH]; intros st v k r Hk Hlast.
  - destruct k; discriminate.
  - destruct k as [|k]; cbn [assign_cat nth_error] in *.
    + inversion Hk; subst. rewrite assign_cat_other.
      * rewrite upd_same. symmetry. apply Z.bit0_odd.
      * intros Hin. apply In_nth_error in Hin. destruct Hin as [j Hj]. apply (Hlast (S j)); [lia|exact Hj].
    + rewrite (IH _ _ k r Hk).
      * rewrite Z.div2_spec, Z.shiftr_spec by lia. f_equal. lia.
      * intros j Hj. apply (Hlast (S j)). lia.
Qed.

Lemma read_cat_bit st refs : forall k, 0 <= k ->
  Z.testbit (read_cat st refs) k =
  match nth_error refs (Z.to_nat k) with Some r => st r | None => false end.
Proof.
  induction refs as [|x rs IH]; intros k Hk; cbn [read_cat loopback].
  - rewrite Z.testbit_0_l. destruct (Z.to_nat k); reflexivity.
  - destruct (Z.eq_dec k 0) as [->|Hne].
    + change (Z.to_nat 0) with 0%nat. cbn [nth_error]. apply Z.testbit_0_r.
    + replace k with (Z.succ (k - 1)) at 1 by lia. rewrite Z.testbit_succ_r by lia.
      rewrite IH by lia. replace (Z.to_nat k) with (S (Z.to_nat (k - 1))) by lia. reflexivity.
Qed.

Lemma read_cat_range st refs : 0 <= read_cat st refs < 2 ^ zlen refs.
Proof.
  unfold zlen. induction refs as [|x rs IH].
  - simpl. lia.
  - cbn [length read_cat]. rewrite Nat2Z.inj_succ, Z.pow_succ_r by lia.
    set (P := 2 ^ Z.of_nat (length rs)) in *. set (R := read_cat st rs) in *.
    destruct (st x); cbn [Z.b2z]; lia.
Qed.

Lemma loopback_bit st refs : forall k, 0 <= k ->
  Z.testbit (loopback st refs) k =
  match nth_error refs (Z.to_nat k) with
  | Some r => if s_oe st r then s_o st r else s_i st r
  | None => false end.
Proof.
  induction refs as [|x rs IH]; intros k Hk; cbn [read_cat loopback].
  - rewrite Z.testbit_0_l. destruct (Z.to_nat k); reflexivity.
  - destruct (Z.eq_dec k 0) as [->|Hne].
    + change (Z.to_nat 0) with 0%nat. cbn [nth_error]. apply Z.testbit_0_r.
    + replace k with (Z.succ (k - 1)) at 1 by lia. rewrite Z.testbit_succ_r by lia.
      rewrite IH by lia. replace (Z.to_nat k) with (S (Z.to_nat (k - 1))) by lia. reflexivity.
Qed.

Lemma replicate_bit_bit n b : forall k, 0 <= k ->
  Z.testbit (replicate_bit n b) k = (k <? Z.of_nat n) && b.
Proof.
  induction n as [|n IH]; intros k Hk.
  - simpl. rewrite Z.testbit_0_l. destruct (k <? 0) eqn:E; [lia|reflexivity].
  - cbn [replicate_bit]. destruct (Z.eq_dec k 0) as [->|Hne].
    + rewrite Z.testbit_0_r. destruct (0 <? Z.of_nat (S n)) eqn:E; [reflexivity|lia].
    + replace k with (Z.succ (k - 1)) at 1 by lia. rewrite Z.testbit_succ_r by lia. rewrite IH by lia.
      f_equal. destruct (k - 1 <? Z.of_nat n) eqn:E1, (k <? Z.of_nat (S n)) eqn:E2; try reflexivity; lia.
Qed.

(* the inversion constant: bit k is invert[k] *)
Lemma b2z_testbit b n : Z.testbit (Z.b2z b) n = b && (n =? 0).
Proof.
  destruct b; cbn [Z.b2z andb].
  - destruct n as [|p|p]; [reflexivity|destruct p; reflexivity|reflexivity].
  - apply Z.bits_0.
Qed.

Lemma inv_mask_from_bit inv : forall idx k, 0 <= idx -> 0 <= k ->
  Z.testbit (inv_mask_from idx inv) k =
  if k <? idx then false else match nth_error inv (Z.to_nat (k - idx)) with Some b => b | None => false end.
Proof.
  induction inv as [|b r IH]; intros idx k Hi Hk; cbn [inv_mask_from].
  - rewrite Z.testbit_0_l. destruct (k <? idx); [reflexivity|]. destruct (Z.to_nat (k - idx)); reflexivity.
  - assert (Hdisj : Z.land (Z.shiftl (Z.b2z b) idx) (inv_mask_from (idx + 1) r) = 0).
    { apply Z.bits_inj'. intros n Hn. rewrite Z.land_spec, Z.bits_0, IH by lia.
      destruct (n <? idx + 1) eqn:E; [apply andb_false_r|].
      rewrite Z.shiftl_spec, b2z_testbit by lia.
      destruct (Z.eqb_spec (n - idx) 0); [lia|]. rewrite andb_false_r. reflexivity. }
    rewrite (Z.add_nocarry_lxor _ _ Hdisj).
    rewrite Z.lxor_spec, IH by lia. rewrite Z.shiftl_spec, b2z_testbit by lia.
    destruct (k <? idx) eqn:E1.
    + destruct (k <? idx + 1) eqn:E2; [|lia]. destruct (Z.eqb_spec (k - idx) 0); [lia|].
      rewrite andb_false_r. reflexivity.
    + destruct (Z.eqb_spec (k - idx) 0) as [Hz|Hnz].
      * rewrite Hz. change (Z.to_nat 0) with 0%nat. cbn [nth_error].
        destruct (k <? idx + 1) eqn:E2; [|lia]. rewrite andb_true_r, xorb_false_r. reflexivity.
      * destruct (k <? idx + 1) eqn:E2; [lia|]. rewrite andb_false_r, xorb_false_l.
        replace (Z.to_nat (k - idx)) with (S (Z.to_nat (k - (idx + 1)))) by lia. reflexivity.
Qed.

Lemma inv_mask_bit inv k : 0 <= k ->
  Z.testbit (inv_mask inv) k = match nth_error inv (Z.to_nat k) with Some b => b | None => false end.
Proof.
  intros Hk. unfold inv_mask. rewrite inv_mask_from_bit by lia.
  destruct (k <? 0) eqn:E; [lia|]. rewrite Z.sub_0_r. reflexivity.
Qed.

Lemma inv_mask_from_nonneg inv : forall idx, 0 <= idx -> 0 <= inv_mask_from idx inv.
Proof.
  induction inv as [|b r IH]; intros idx Hi; cbn [inv_mask_from]; [lia|].
  specialize (IH (idx + 1) ltac:(lia)). assert (0 <= Z.shiftl (Z.b2z b) idx).
  { apply Z.shiftl_nonneg. destruct b; simpl; lia. } lia.
Qed.

(* 0 <= invert < 2^len: the xor never widens the buffer's o *)
Lemma inv_mask_range inv : 0 <= inv_mask inv < 2 ^ zlen inv.
Proof.
  assert (H0 : 0 <= inv_mask inv) by (apply inv_mask_from_nonneg; lia).
  split; [exact H0|]. destruct (Z.eq_dec (inv_mask inv) 0) as [->|Hne].
  - apply pow2_pos. unfold zlen; lia.
  - apply Z.log2_lt_pow2; [lia|]. destruct (Z.lt_ge_cases (Z.log2 (inv_mask inv)) (zlen inv)) as [|Hge]; auto.
    exfalso. assert (Hb : Z.testbit (inv_mask inv) (Z.log2 (inv_mask inv)) = true) by (apply Z.bit_log2; lia).
    rewrite inv_mask_bit in Hb by (apply Z.log2_nonneg).
    destruct (nth_error inv (Z.to_nat (Z.log2 (inv_mask inv)))) eqn:E; [|discriminate].
    assert (Hlt : (Z.to_nat (Z.log2 (inv_mask inv)) < length inv)%nat) by (apply nth_error_Some; congruence).
    unfold zlen in Hge. lia.
Qed.

(* the `if invert != 0` shortcut is only an optimisation *)
Lemma xor_shortcut m v : (if m =? 0 then v else Z.lxor v m) = Z.lxor v m.
Proof. destruct (Z.eqb_spec m 0) as [->|]; [rewrite Z.lxor_0_r|]; reflexivity. Qed.

(* ================================================================== Buffer on a simulation port *)
Definition nthb (l : list bool) (k : nat) : bool := match nth_error l k with Some b => b | None => false end.

Lemma nthb_beyond l k : (length l <= k)%nat -> nthb l k = false.
Proof. intros H. unfold nthb. apply nth_error_None in H. rewrite H. reflexivity. Qed.

Lemma inv_mask_nthb inv k : 0 <= k -> Z.testbit (inv_mask inv) k = nthb inv (Z.to_nat k).
Proof. intros; apply inv_mask_bit; auto. Qed.

(* output side, per wire: port.o = o xor invert, every port.oe wire = oe; wires outside the port and the
   input signals are untouched *)
Lemma buffer_out_bits p bd o oe st : bd <> DIn -> NoDup (p_refs p) ->
  let st' := fst (buffer_comb bd p o oe st) in
  (forall k r, nth_error (p_refs p) k = Some r ->
     s_o st' r = xorb (Z.testbit o (Z.of_nat k)) (nthb (p_inv p) k) /\ s_oe st' r = Z.odd oe)
  /\ (forall r, ~ In r (p_refs p) -> s_o st' r = s_o st r /\ s_oe st' r = s_oe st r)
  /\ (forall r, s_i st' r = s_i st r).
Proof.
  intros Hbd Hnd. unfold buffer_comb. rewrite xor_shortcut.
  assert (Hst : fst (match bd with
             | DIn => st
             | _ => PS (s_i st) (assign_cat (s_o st) (p_refs p) (Z.lxor o (inv_mask (p_inv p))))
                       (assign_cat (s_oe st) (p_refs p) (replicate_bit (length (p_refs p)) (Z.odd oe)))
             end, 0) = PS (s_i st) (assign_cat (s_o st) (p_refs p) (Z.lxor o (inv_mask (p_inv p))))
                       (assign_cat (s_oe st) (p_refs p) (replicate_bit (length (p_refs p)) (Z.odd oe)))).
  { destruct bd; [contradiction|reflexivity|reflexivity]. }
  cbn [fst] in *. rewrite Hst. cbn [s_o s_oe s_i]. repeat split.
  - rewrite (assign_cat_nth _ _ _ k r Hnd H). rewrite Z.lxor_spec, inv_mask_nthb by lia.
    rewrite Nat2Z.id. reflexivity.
  - rewrite (assign_cat_nth _ _ _ k r Hnd H). rewrite replicate_bit_bit by lia.
    assert (Hlt : (k < length (p_refs p))%nat) by (apply nth_error_Some; congruence).
    destruct (Z.of_nat k <? Z.of_nat (length (p_refs p))) eqn:E; [reflexivity|lia].
  - apply assign_cat_other; auto.
  - apply assign_cat_other; auto.
Qed.

Lemma nth_error_zlen {A} (l : list A) n : 0 <= n ->
  match nth_error l (Z.to_nat n) with Some _ => n < zlen l | None => zlen l <= n end.
Proof.
  intros Hn. unfold zlen. destruct (nth_error l (Z.to_nat n)) eqn:E.
  - assert ((Z.to_nat n < length l)%nat) by (apply nth_error_Some; congruence). lia.
  - apply nth_error_None in E. lia.
Qed.

(* output side, as words *)
Lemma buffer_out_word p bd o oe st : bd <> DIn -> NoDup (p_refs p) -> length (p_inv p) = length (p_refs p) ->
  let st' := fst (buffer_comb bd p o oe st) in
  read_cat (s_o st') (p_refs p) = Z.lxor (mask (plen p) o) (inv_mask (p_inv p)) /\
  read_cat (s_oe st') (p_refs p) = (if Z.odd oe then 2 ^ plen p - 1 else 0).
Proof.
  intros Hbd Hnd Hlen st'. destruct (buffer_out_bits p bd o oe st Hbd Hnd) as (Hb & _ & _).
  fold st' in Hb. unfold plen. assert (Hw : 0 <= zlen (p_refs p)) by (unfold zlen; lia). split.
  - apply Z.bits_inj'. intros n Hn. rewrite read_cat_bit, Z.lxor_spec, testbit_mask, inv_mask_nthb by lia.
    pose proof (nth_error_zlen (p_refs p) n Hn) as Hz.
    destruct (nth_error (p_refs p) (Z.to_nat n)) as [r|] eqn:E.
    + destruct (Hb _ _ E) as [-> _]. rewrite Z2Nat.id by lia.
      destruct (n <? zlen (p_refs p)) eqn:E2; [reflexivity|lia].
    + destruct (n <? zlen (p_refs p)) eqn:E2; [lia|]. rewrite nthb_beyond; [reflexivity|].
      rewrite Hlen. unfold zlen in Hz. lia.
  - apply Z.bits_inj'. intros n Hn. rewrite read_cat_bit by lia.
    pose proof (nth_error_zlen (p_refs p) n Hn) as Hz.
    destruct (nth_error (p_refs p) (Z.to_nat n)) as [r|] eqn:E.
    + destruct (Hb _ _ E) as [_ ->]. destruct (Z.odd oe).
      * change (2 ^ zlen (p_refs p) - 1) with (Z.pred (2 ^ zlen (p_refs p))). rewrite <- Z.ones_equiv.
        rewrite Z.ones_spec_low by lia. reflexivity.
      * rewrite Z.bits_0. reflexivity.
    + destruct (Z.odd oe).
      * change (2 ^ zlen (p_refs p) - 1) with (Z.pred (2 ^ zlen (p_refs p))). rewrite <- Z.ones_equiv.
        rewrite Z.ones_spec_high by lia. reflexivity.
      * rewrite Z.bits_0. reflexivity.
Qed.

(* input side *)
Lemma buffer_in_word p o oe st :
  buffer_comb DIn p o oe st = (st, Z.lxor (read_cat (s_i st) (p_refs p)) (inv_mask (p_inv p))).
Proof. unfold buffer_comb. rewrite xor_shortcut. reflexivity. Qed.

Lemma buffer_in_bits p o oe st k : 
  Z.testbit (snd (buffer_comb DIn p o oe st)) (Z.of_nat k) =
  xorb (match nth_error (p_refs p) k with Some r => s_i st r | None => false end) (nthb (p_inv p) k).
Proof.
  rewrite buffer_in_word. cbn [snd]. rewrite Z.lxor_spec, read_cat_bit, inv_mask_nthb by lia.
  rewrite Nat2Z.id. reflexivity.
Qed.

(* bidirectional: the driven value is looped back while enabled *)
Lemma buffer_bidir_bits p o oe st k r : NoDup (p_refs p) -> nth_error (p_refs p) k = Some r ->
  Z.testbit (snd (buffer_comb DBidir p o oe st)) (Z.of_nat k) =
  if Z.odd oe then Z.testbit o (Z.of_nat k) else xorb (s_i st r) (nthb (p_inv p) k).
Proof.
  intros Hnd Hk. assert (Hbd : DBidir <> DIn) by discriminate.
  destruct (buffer_out_bits p DBidir o oe st Hbd Hnd) as (Hb & _ & Hi).
  destruct (Hb _ _ Hk) as [Ho Hoe]. unfold buffer_comb in *. rewrite xor_shortcut in *. cbn [fst snd] in *.
  rewrite xor_shortcut. rewrite Z.lxor_spec, loopback_bit, inv_mask_nthb by lia. rewrite Nat2Z.id, Hk.
  rewrite Hoe, Ho, Hi. destruct (Z.odd oe); [|reflexivity].
  rewrite xorb_assoc, xorb_nilpotent, xorb_false_r. reflexivity.
Qed.

Lemma buffer_bidir_word p o oe st : NoDup (p_refs p) -> length (p_inv p) = length (p_refs p) ->
  snd (buffer_comb DBidir p o oe st) =
  if Z.odd oe then mask (plen p) o else Z.lxor (read_cat (s_i st) (p_refs p)) (inv_mask (p_inv p)).
Proof.
  intros Hnd Hlen. assert (Hw : 0 <= zlen (p_refs p)) by (unfold zlen; lia).
  apply Z.bits_inj'. intros n Hn. pose proof (nth_error_zlen (p_refs p) n Hn) as Hz.
  destruct (nth_error (p_refs p) (Z.to_nat n)) as [r|] eqn:E.
  - rewrite <- (Z2Nat.id n) at 1 by lia. rewrite (buffer_bidir_bits p o oe st _ r Hnd E).
    rewrite Z2Nat.id by lia. destruct (Z.odd oe).
    + unfold plen. rewrite testbit_mask by lia. destruct (n <? zlen (p_refs p)) eqn:E2; [reflexivity|lia].
    + rewrite Z.lxor_spec, read_cat_bit, inv_mask_nthb, E by lia. reflexivity.
  - (* beyond the width everything is 0 *)
    assert (Hnb : nthb (p_inv p) (Z.to_nat n) = false).
    { apply nthb_beyond. rewrite Hlen. unfold zlen in Hz. lia. }
    transitivity false.
    + unfold buffer_comb. cbn [snd]. rewrite !xor_shortcut, Z.lxor_spec, loopback_bit, inv_mask_nthb, E, Hnb by lia.
      reflexivity.
    + destruct (Z.odd oe).
      * unfold plen. rewrite testbit_mask by lia. destruct (n <? zlen (p_refs p)) eqn:E2; [lia|reflexivity].
      * rewrite Z.lxor_spec, read_cat_bit, inv_mask_nthb, E, Hnb by lia. reflexivity.
Qed.

(* an Output buffer has no i, an Input buffer drives nothing *)
Lemma buffer_out_no_i p o oe st : snd (buffer_comb DOut p o oe st) = 0.
Proof. reflexivity. Qed.
Lemma buffer_in_drives_nothing p o oe st : fst (buffer_comb DIn p o oe st) = st.
Proof. reflexivity. Qed.

Lemma loopback_nonneg st refs : 0 <= loopback st refs.
Proof.
  induction refs as [|x rs IH]; cbn [loopback]; [lia|].
  match goal with |- context [Z.b2z ?b] => destruct b end; cbn [Z.b2z]; lia.
Qed.

(* the buffer's i always fits the port width *)
Lemma buffer_i_range p bd o oe st : length (p_inv p) = length (p_refs p) ->
  0 <= snd (buffer_comb bd p o oe st) < 2 ^ plen p.
Proof.
  intros Hlen. assert (Hw : 0 <= plen p) by (unfold plen, zlen; lia).
  assert (Hgen : forall v, (forall n, plen p <= n -> Z.testbit v n = false) -> 0 <= v -> 0 <= v < 2 ^ plen p).
  { intros v Hv H0. split; auto. destruct (Z.eq_dec v 0) as [->|Hne]; [apply pow2_pos; auto|].
    apply Z.log2_lt_pow2; [lia|]. destruct (Z.lt_ge_cases (Z.log2 v) (plen p)); auto.
    pose proof (Z.bit_log2 v ltac:(lia)) as Hb. rewrite Hv in Hb by lia. discriminate. }
  assert (Hm : forall n, plen p <= n -> Z.testbit (inv_mask (p_inv p)) n = false).
  { intros n Hn. rewrite inv_mask_nthb by lia. apply nthb_beyond. rewrite Hlen. unfold plen, zlen in Hn. lia. }
  pose proof (inv_mask_range (p_inv p)) as Hmr.
  assert (Hx : forall v, 0 <= v < 2 ^ plen p -> 0 <= Z.lxor v (inv_mask (p_inv p)) < 2 ^ plen p).
  { intros v Hv. apply Hgen.
    - intros n Hn. rewrite Z.lxor_spec, Hm by lia. rewrite xorb_false_r.
      destruct (Z.eq_dec v 0) as [->|Hne]; [apply Z.bits_0|].
      apply Z.bits_above_log2; [lia|]. assert (Z.log2 v < plen p) by (apply Z.log2_lt_pow2; lia). lia.
    - apply Z.lxor_nonneg. lia. }
  unfold buffer_comb. cbn [snd]. destruct bd.
  - rewrite xor_shortcut. apply Hx. apply read_cat_range.
  - split; [lia|apply pow2_pos; auto].
  - rewrite xor_shortcut. apply Hx. apply Hgen.
    + intros n Hn. rewrite loopback_bit by lia. pose proof (nth_error_zlen (p_refs p) n ltac:(lia)) as Hz.
      destruct (nth_error (p_refs p) (Z.to_nat n)); [unfold plen in Hn; lia|reflexivity].
    + apply loopback_nonneg.
Qed.

(* IoP.v — proofs about Model/Io.v (property C18). *)
From Coq Require Import ZArith List Bool Lia ZifyBool.
From V.Model Require Import Bits Io.
From V.Proofs Require Import BitsP.
Import ListNotations.
Open Scope Z_scope.

(* ================================================================== Direction *)
Lemma dir_eqb_eq a b : dir_eqb a b = true <-> a = b.
Proof. destruct a, b; simpl; split; intros H; try reflexivity; discriminate. Qed.

Lemma dir_eqb_refl a : dir_eqb a a = true.
Proof. destruct a; reflexivity. Qed.

Lemma dir_and_comm a b : dir_and a b = dir_and b a.
Proof. destruct a, b; reflexivity. Qed.

Lemma dir_and_idem a : dir_and a a = Ok a.
Proof. destruct a; reflexivity. Qed.

Lemma dir_and_bidir_l a : dir_and DBidir a = Ok a.
Proof. destruct a; reflexivity. Qed.

Lemma dir_and_bidir_r a : dir_and a DBidir = Ok a.
Proof. destruct a; reflexivity. Qed.

Lemma dir_and_in_out : dir_and DIn DOut = Err EValue /\ dir_and DOut DIn = Err EValue.
Proof. split; reflexivity. Qed.

(* the result is the narrower direction; failure exactly for Input with Output *)
Lemma dir_and_spec a b :
  match dir_and a b with
  | Ok d => (d = a /\ (b = a \/ b = DBidir)) \/ (d = b /\ a = DBidir)
  | Err e => e = EValue /\ ((a = DIn /\ b = DOut) \/ (a = DOut /\ b = DIn))
  end.
Proof. destruct a, b; simpl; auto 6. Qed.

Lemma dir_and_assoc a b c :
  bind (dir_and a b) (fun d => dir_and d c) = bind (dir_and b c) (fun d => dir_and a d).
Proof. destruct a, b, c; reflexivity. Qed.

(* a buffer accepts a port iff the port allows the buffer's direction *)
Lemma buffer_check_spec bd pd :
  buffer_check bd pd = Ok tt <-> (pd = bd \/ pd = DBidir).
Proof. destruct bd, pd; simpl; split; intros H; auto; try discriminate; destruct H; discriminate. Qed.

Lemma buffer_check_err bd pd : buffer_check bd pd <> Ok tt -> buffer_check bd pd = Err EValue.
Proof. destruct bd, pd; simpl; intros H; auto; contradiction. Qed.

(* ================================================================== refs *)
Lemma ref_eqb_eq a b : ref_eqb a b = true <-> a = b.
Proof.
  destruct a as [a1 a2], b as [b1 b2]; unfold ref_eqb; simpl.
  rewrite andb_true_iff, !Nat.eqb_eq. split; [intros [-> ->]; reflexivity|intros H; inversion H; auto].
Qed.

Lemma ref_eqb_refl a : ref_eqb a a = true.
Proof. apply ref_eqb_eq; reflexivity. Qed.

Lemma ref_eqb_neq a b : a <> b -> ref_eqb a b = false.
Proof. intros H. destruct (ref_eqb a b) eqn:E; auto. apply ref_eqb_eq in E. contradiction. Qed.

Lemma upd_same st r v : upd st r v r = v.
Proof. unfold upd. rewrite ref_eqb_refl. reflexivity. Qed.

Lemma upd_other st r v r' : r <> r' -> upd st r v r' = st r'.
Proof. intros H. unfold upd. rewrite ref_eqb_neq; auto. Qed.

(* ================================================================== Cat assignment / reading *)
Lemma assign_cat_other refs : forall st v r, ~ In r refs -> assign_cat st refs v r = st r.
Proof.
  induction refs as [|x rs IH]; intros st v r Hn; simpl; auto.
  rewrite IH by (intros H; apply Hn; right; exact H).
  apply upd_other. intros ->. apply Hn. left; reflexivity.
Qed.

(* without duplicated wires, wire number k receives bit k *)
Lemma assign_cat_nth refs : forall st v k r, NoDup refs -> nth_error refs k = Some r ->
  assign_cat st refs v r = Z.testbit v (Z.of_nat k).
Proof.
  induction refs as [|x rs IH]; intros st v k r Hnd Hk.
  - destruct k; discriminate.
  - inversion Hnd as [|? ? Hx Hrs]; subst. destruct k as [|k]; cbn [assign_cat nth_error] in *.
    + inversion Hk; subst. rewrite assign_cat_other by exact Hx. rewrite upd_same. symmetry. apply Z.bit0_odd.
    + rewrite (IH _ _ k r Hrs Hk). rewrite Z.div2_spec, Z.shiftr_spec by lia.
      f_equal. lia.
Qed.

(* in general the last occurrence wins *)
Lemma assign_cat_last refs : forall st v k r, nth_error refs k = Some r ->
  (forall j, (k < j)%nat -> nth_error refs j <> Some r) ->
  assign_cat st refs v r = Z.testbit v (Z.of_nat k).
Proof.
  induction refs as [|x rs IH]; intros st v k r Hk Hlast.
  - destruct k; discriminate.
  - destruct k as [|k]; cbn [assign_cat nth_error] in *.
    + inversion Hk; subst. rewrite assign_cat_other.
      * rewrite upd_same. symmetry. apply Z.bit0_odd.
      * intros Hin. apply In_nth_error in Hin. destruct Hin as [j Hj]. apply (Hlast (S j)); [lia|exact Hj].
    + rewrite (IH _ _ k r Hk).
      * rewrite Z.div2_spec, Z.shiftr_spec by lia. f_equal. lia.
      * intros j Hj. apply (Hlast (S j)). lia.
Qed.

Lemma read_cat_bit st refs : forall k, 0 <= k ->
  Z.testbit (read_cat st refs) k =
  match nth_error refs (Z.to_nat k) with Some r => st r | None => false end.
Proof.
  induction refs as [|x rs IH]; intros k Hk; cbn [read_cat loopback].
  - rewrite Z.testbit_0_l. destruct (Z.to_nat k); reflexivity.
  - destruct (Z.eq_dec k 0) as [->|Hne].
    + change (Z.to_nat 0) with 0%nat. cbn [nth_error]. apply Z.testbit_0_r.
    + replace k with (Z.succ (k - 1)) at 1 by lia. rewrite Z.testbit_succ_r by lia.
      rewrite IH by lia. replace (Z.to_nat k) with (S (Z.to_nat (k - 1))) by lia. reflexivity.
Qed.

Lemma read_cat_range st refs : 0 <= read_cat st refs < 2 ^ zlen refs.
Proof.
  unfold zlen. induction refs as [|x rs IH].
  - simpl. lia.
  - cbn [length read_cat]. rewrite Nat2Z.inj_succ, Z.pow_succ_r by lia.
    set (P := 2 ^ Z.of_nat (length rs)) in *. set (R := read_cat st rs) in *.
    destruct (st x); cbn [Z.b2z]; lia.
Qed.

Lemma loopback_bit st refs : forall k, 0 <= k ->
  Z.testbit (loopback st refs) k =
  match nth_error refs (Z.to_nat k) with
  | Some r => if s_oe st r then s_o st r else s_i st r
  | None => false end.
Proof.
  induction refs as [|x rs IH]; intros k Hk; cbn [read_cat loopback].
  - rewrite Z.testbit_0_l. destruct (Z.to_nat k); reflexivity.
  - destruct (Z.eq_dec k 0) as [->|Hne].
    + change (Z.to_nat 0) with 0%nat. cbn [nth_error]. apply Z.testbit_0_r.
    + replace k with (Z.succ (k - 1)) at 1 by lia. rewrite Z.testbit_succ_r by lia.
      rewrite IH by lia. replace (Z.to_nat k) with (S (Z.to_nat (k - 1))) by lia. reflexivity.
Qed.

Lemma replicate_bit_bit n b : forall k, 0 <= k ->
  Z.testbit (replicate_bit n b) k = (k <? Z.of_nat n) && b.
Proof.
  induction n as [|n IH]; intros k Hk.
  - simpl. rewrite Z.testbit_0_l. destruct (k <? 0) eqn:E; [lia|reflexivity].
  - cbn [replicate_bit]. destruct (Z.eq_dec k 0) as [->|Hne].
    + rewrite Z.testbit_0_r. destruct (0 <? Z.of_nat (S n)) eqn:E; [reflexivity|lia].
    + replace k with (Z.succ (k - 1)) at 1 by lia. rewrite Z.testbit_succ_r by lia. rewrite IH by lia.
      f_equal. destruct (k - 1 <? Z.of_nat n) eqn:E1, (k <? Z.of_nat (S n)) eqn:E2; try reflexivity; lia.
Qed.

(* the inversion constant: bit k is invert[k] *)
Lemma b2z_testbit b n : Z.testbit (Z.b2z b) n = b && (n =? 0).
Proof.
  destruct b; cbn [Z.b2z andb].
  - destruct n as [|p|p]; [reflexivity|destruct p; reflexivity|reflexivity].
  - apply Z.bits_0.
Qed.

Lemma inv_mask_from_bit inv : forall idx k, 0 <= idx -> 0 <= k ->
  Z.testbit (inv_mask_from idx inv) k =
  if k <? idx then false else match nth_error inv (Z.to_nat (k - idx)) with Some b => b | None => false end.
Proof.
  induction inv as [|b r IH]; intros idx k Hi Hk; cbn [inv_mask_from].
  - rewrite Z.testbit_0_l. destruct (k <? idx); [reflexivity|]. destruct (Z.to_nat (k - idx)); reflexivity.
  - assert (Hdisj : Z.land (Z.shiftl (Z.b2z b) idx) (inv_mask_from (idx + 1) r) = 0).
    { apply Z.bits_inj'. intros n Hn. rewrite Z.land_spec, Z.bits_0, IH by lia.
      destruct (n <? idx + 1) eqn:E; [apply andb_false_r|].
      rewrite Z.shiftl_spec, b2z_testbit by lia.
      destruct (Z.eqb_spec (n - idx) 0); [lia|]. rewrite andb_false_r. reflexivity. }
    rewrite (Z.add_nocarry_lxor _ _ Hdisj).
    rewrite Z.lxor_spec, IH by lia. rewrite Z.shiftl_spec, b2z_testbit by lia.
    destruct (k <? idx) eqn:E1.
    + destruct (k <? idx + 1) eqn:E2; [|lia]. destruct (Z.eqb_spec (k - idx) 0); [lia|].
      rewrite andb_false_r. reflexivity.
    + destruct (Z.eqb_spec (k - idx) 0) as [Hz|Hnz].
      * rewrite Hz. change (Z.to_nat 0) with 0%nat. cbn [nth_error].
        destruct (k <? idx + 1) eqn:E2; [|lia]. rewrite andb_true_r, xorb_false_r. reflexivity.
      * destruct (k <? idx + 1) eqn:E2; [lia|]. rewrite andb_false_r, xorb_false_l.
        replace (Z.to_nat (k - idx)) with (S (Z.to_nat (k - (idx + 1)))) by lia. reflexivity.
Qed.

Lemma inv_mask_bit inv k : 0 <= k ->
  Z.testbit (inv_mask inv) k = match nth_error inv (Z.to_nat k) with Some b => b | None => false end.
Proof.
  intros Hk. unfold inv_mask. rewrite inv_mask_from_bit by lia.
  destruct (k <? 0) eqn:E; [lia|]. rewrite Z.sub_0_r. reflexivity.
Qed.

Lemma inv_mask_from_nonneg inv : forall idx, 0 <= idx -> 0 <= inv_mask_from idx inv.
Proof.
  induction inv as [|b r IH]; intros idx Hi; cbn [inv_mask_from]; [lia|].
  specialize (IH (idx + 1) ltac:(lia)). assert (0 <= Z.shiftl (Z.b2z b) idx).
  { apply Z.shiftl_nonneg. destruct b; simpl; lia. } lia.
Qed.

(* 0 <= invert < 2^len: the xor never widens the buffer's o *)
Lemma inv_mask_range inv : 0 <= inv_mask inv < 2 ^ zlen inv.
Proof.
  assert (H0 : 0 <= inv_mask inv) by (apply inv_mask_from_nonneg; lia).
  split; [exact H0|]. destruct (Z.eq_dec (inv_mask inv) 0) as [->|Hne].
  - apply pow2_pos. unfold zlen; lia.
  - apply Z.log2_lt_pow2; [lia|]. destruct (Z.lt_ge_cases (Z.log2 (inv_mask inv)) (zlen inv)) as [|Hge]; auto.
    exfalso. assert (Hb : Z.testbit (inv_mask inv) (Z.log2 (inv_mask inv)) = true) by (apply Z.bit_log2; lia).
    rewrite inv_mask_bit in Hb by (apply Z.log2_nonneg).
    destruct (nth_error inv (Z.to_nat (Z.log2 (inv_mask inv)))) eqn:E; [|discriminate].
    assert (Hlt : (Z.to_nat (Z.log2 (inv_mask inv)) < length inv)%nat) by (apply nth_error_Some; congruence).
    unfold zlen in Hge. lia.
Qed.

(* the `if invert != 0` shortcut is only an optimisation *)
Lemma xor_shortcut m v : (if m =? 0 then v else Z.lxor v m) = Z.lxor v m.
Proof. destruct (Z.eqb_spec m 0) as [->|]; [rewrite Z.lxor_0_r|]; reflexivity. Qed.

(* ================================================================== Buffer on a simulation port *)
Definition nthb (l : list bool) (k : nat) : bool := match nth_error l k with Some b => b | None => false end.

Lemma nthb_beyond l k : (length l <= k)%nat -> nthb l k = false.
Proof. intros H. unfold nthb. apply nth_error_None in H. rewrite H. reflexivity. Qed.

Lemma inv_mask_nthb inv k : 0 <= k -> Z.testbit (inv_mask inv) k = nthb inv (Z.to_nat k).
Proof. intros; apply inv_mask_bit; auto. Qed.

(* output side, per wire: port.o = o xor invert, every port.oe wire = oe; wires outside the port and the
   input signals are untouched *)
Lemma buffer_out_bits p bd o oe st : bd <> DIn -> NoDup (p_refs p) ->
  let st' := fst (buffer_comb bd p o oe st) in
  (forall k r, nth_error (p_refs p) k = Some r ->
     s_o st' r = xorb (Z.testbit o (Z.of_nat k)) (nthb (p_inv p) k) /\ s_oe st' r = Z.odd oe)
  /\ (forall r, ~ In r (p_refs p) -> s_o st' r = s_o st r /\ s_oe st' r = s_oe st r)
  /\ (forall r, s_i st' r = s_i st r).
Proof.
  intros Hbd Hnd. unfold buffer_comb. rewrite xor_shortcut.
  assert (Hst : fst (match bd with
             | DIn => st
             | _ => PS (s_i st) (assign_cat (s_o st) (p_refs p) (Z.lxor o (inv_mask (p_inv p))))
                       (assign_cat (s_oe st) (p_refs p) (replicate_bit (length (p_refs p)) (Z.odd oe)))
             end, 0) = PS (s_i st) (assign_cat (s_o st) (p_refs p) (Z.lxor o (inv_mask (p_inv p))))
                       (assign_cat (s_oe st) (p_refs p) (replicate_bit (length (p_refs p)) (Z.odd oe)))).
  { destruct bd; [contradiction|reflexivity|reflexivity]. }
  cbn [fst] in *. rewrite Hst. cbn [s_o s_oe s_i]. repeat split.
  - rewrite (assign_cat_nth _ _ _ k r Hnd H). rewrite Z.lxor_spec, inv_mask_nthb by lia.
    rewrite Nat2Z.id. reflexivity.
  - rewrite (assign_cat_nth _ _ _ k r Hnd H). rewrite replicate_bit_bit by lia.
    assert (Hlt : (k < length (p_refs p))%nat) by (apply nth_error_Some; congruence).
    destruct (Z.of_nat k <? Z.of_nat (length (p_refs p))) eqn:E; [reflexivity|lia].
  - apply assign_cat_other; auto.
  - apply assign_cat_other; auto.
Qed.

Lemma nth_error_zlen {A} (l : list A) n : 0 <= n ->
  match nth_error l (Z.to_nat n) with Some _ => n < zlen l | None => zlen l <= n end.
Proof.
  intros Hn. unfold zlen. destruct (nth_error l (Z.to_nat n)) eqn:E.
  - assert ((Z.to_nat n < length l)%nat) by (apply nth_error_Some; congruence). lia.
  - apply nth_error_None in E. lia.
Qed.

(* output side, as words *)
Lemma buffer_out_word p bd o oe st : bd <> DIn -> NoDup (p_refs p) -> length (p_inv p) = length (p_refs p) ->
  let st' := fst (buffer_comb bd p o oe st) in
  read_cat (s_o st') (p_refs p) = Z.lxor (mask (plen p) o) (inv_mask (p_inv p)) /\
  read_cat (s_oe st') (p_refs p) = (if Z.odd oe then 2 ^ plen p - 1 else 0).
Proof.
  intros Hbd Hnd Hlen st'. destruct (buffer_out_bits p bd o oe st Hbd Hnd) as (Hb & _ & _).
  fold st' in Hb. unfold plen. assert (Hw : 0 <= zlen (p_refs p)) by (unfold zlen; lia). split.
  - apply Z.bits_inj'. intros n Hn. rewrite read_cat_bit, Z.lxor_spec, testbit_mask, inv_mask_nthb by lia.
    pose proof (nth_error_zlen (p_refs p) n Hn) as Hz.
    destruct (nth_error (p_refs p) (Z.to_nat n)) as [r|] eqn:E.
    + destruct (Hb _ _ E) as [-> _]. rewrite Z2Nat.id by lia.
      destruct (n <? zlen (p_refs p)) eqn:E2; [reflexivity|lia].
    + destruct (n <? zlen (p_refs p)) eqn:E2; [lia|]. rewrite nthb_beyond; [reflexivity|].
      rewrite Hlen. unfold zlen in Hz. lia.
  - apply Z.bits_inj'. intros n Hn. rewrite read_cat_bit by lia.
    pose proof (nth_error_zlen (p_refs p) n Hn) as Hz.
    destruct (nth_error (p_refs p) (Z.to_nat n)) as [r|] eqn:E.
    + destruct (Hb _ _ E) as [_ ->]. destruct (Z.odd oe).
      * change (2 ^ zlen (p_refs p) - 1) with (Z.pred (2 ^ zlen (p_refs p))). rewrite <- Z.ones_equiv.
        rewrite Z.ones_spec_low by lia. reflexivity.
      * rewrite Z.bits_0. reflexivity.
    + destruct (Z.odd oe).
      * change (2 ^ zlen (p_refs p) - 1) with (Z.pred (2 ^ zlen (p_refs p))). rewrite <- Z.ones_equiv.
        rewrite Z.ones_spec_high by lia. reflexivity.
      * rewrite Z.bits_0. reflexivity.
Qed.

(* input side *)
Lemma buffer_in_word p o oe st :
  buffer_comb DIn p o oe st = (st, Z.lxor (read_cat (s_i st) (p_refs p)) (inv_mask (p_inv p))).
Proof. unfold buffer_comb. rewrite xor_shortcut. reflexivity. Qed.

Lemma buffer_in_bits p o oe st k : 
  Z.testbit (snd (buffer_comb DIn p o oe st)) (Z.of_nat k) =
  xorb (match nth_error (p_refs p) k with Some r => s_i st r | None => false end) (nthb (p_inv p) k).
Proof.
  rewrite buffer_in_word. cbn [snd]. rewrite Z.lxor_spec, read_cat_bit, inv_mask_nthb by lia.
  rewrite Nat2Z.id. reflexivity.
Qed.

(* bidirectional: the driven value is looped back while enabled *)
Lemma buffer_bidir_bits p o oe st k r : NoDup (p_refs p) -> nth_error (p_refs p) k = Some r ->
  Z.testbit (snd (buffer_comb DBidir p o oe st)) (Z.of_nat k) =
  if Z.odd oe then Z.testbit o (Z.of_nat k) else xorb (s_i st r) (nthb (p_inv p) k).
Proof.
  intros Hnd Hk. assert (Hbd : DBidir <> DIn) by discriminate.
  destruct (buffer_out_bits p DBidir o oe st Hbd Hnd) as (Hb & _ & Hi).
  destruct (Hb _ _ Hk) as [Ho Hoe]. unfold buffer_comb in *. rewrite xor_shortcut in *. cbn [fst snd] in *.
  rewrite xor_shortcut. rewrite Z.lxor_spec, loopback_bit, inv_mask_nthb by lia. rewrite Nat2Z.id, Hk.
  rewrite Hoe, Ho, Hi. destruct (Z.odd oe); [|reflexivity].
  rewrite xorb_assoc, xorb_nilpotent, xorb_false_r. reflexivity.
Qed.

Lemma buffer_bidir_word p o oe st : NoDup (p_refs p) -> length (p_inv p) = length (p_refs p) ->
  snd (buffer_comb DBidir p o oe st) =
  if Z.odd oe then mask (plen p) o else Z.lxor (read_cat (s_i st) (p_refs p)) (inv_mask (p_inv p)).
Proof.
  intros Hnd Hlen. assert (Hw : 0 <= zlen (p_refs p)) by (unfold zlen; lia).
  apply Z.bits_inj'. intros n Hn. pose proof (nth_error_zlen (p_refs p) n Hn) as Hz.
  destruct (nth_error (p_refs p) (Z.to_nat n)) as [r|] eqn:E.
  - rewrite <- (Z2Nat.id n) at 1 by lia. rewrite (buffer_bidir_bits p o oe st _ r Hnd E).
    rewrite Z2Nat.id by lia. destruct (Z.odd oe).
    + unfold plen. rewrite testbit_mask by lia. destruct (n <? zlen (p_refs p)) eqn:E2; [reflexivity|lia].
    + rewrite Z.lxor_spec, read_cat_bit, inv_mask_nthb, E by lia. reflexivity.
  - (* beyond the width everything is 0 *)
    assert (Hnb : nthb (p_inv p) (Z.to_nat n) = false).
    { apply nthb_beyond. rewrite Hlen. unfold zlen in Hz. lia. }
    transitivity false.
    + unfold buffer_comb. cbn [snd]. rewrite !xor_shortcut, Z.lxor_spec, loopback_bit, inv_mask_nthb, E, Hnb by lia.
      reflexivity.
    + destruct (Z.odd oe).
      * unfold plen. rewrite testbit_mask by lia. destruct (n <? zlen (p_refs p)) eqn:E2; [lia|reflexivity].
      * rewrite Z.lxor_spec, read_cat_bit, inv_mask_nthb, E, Hnb by lia. reflexivity.
Qed.

(* an Output buffer has no i, an Input buffer drives nothing *)
Lemma buffer_out_no_i p o oe st : snd (buffer_comb DOut p o oe st) = 0.
Proof. reflexivity. Qed.
Lemma buffer_in_drives_nothing p o oe st : fst (buffer_comb DIn p o oe st) = st.
Proof. reflexivity. Qed.

Lemma loopback_nonneg st refs : 0 <= loopback st refs.
Proof.
  induction refs as [|x rs IH]; cbn [loopback]; [lia|].
  match goal with |- context [Z.b2z ?b] => destruct b end; cbn [Z.b2z]; lia.
Qed.

(* the buffer's i always fits the port width *)
Lemma buffer_i_range p bd o oe st : length (p_inv p) = length (p_refs p) ->
  0 <= snd (buffer_comb bd p o oe st) < 2 ^ plen p.
Proof.
  intros Hlen. assert (Hw : 0 <= plen p) by (unfold plen, zlen; lia).
  assert (Hgen : forall v, (forall n, plen p <= n -> Z.testbit v n = false) -> 0 <= v -> 0 <= v < 2 ^ plen p).
  { intros v Hv H0. split; auto. destruct (Z.eq_dec v 0) as [->|Hne]; [apply pow2_pos; auto|].
    apply Z.log2_lt_pow2; [lia|]. destruct (Z.lt_ge_cases (Z.log2 v) (plen p)); auto.
    pose proof (Z.bit_log2 v ltac:(lia)) as Hb. rewrite Hv in Hb by lia. discriminate. }
  assert (Hm : forall n, plen p <= n -> Z.testbit (inv_mask (p_inv p)) n = false).
  { intros n Hn. rewrite inv_mask_nthb by lia. apply nthb_beyond. rewrite Hlen. unfold plen, zlen in Hn. lia. }
  pose proof (inv_mask_range (p_inv p)) as Hmr.
  assert (Hx : forall v, 0 <= v < 2 ^ plen p -> 0 <= Z.lxor v (inv_mask (p_inv p)) < 2 ^ plen p).
  { intros v Hv. apply Hgen.
    - intros n Hn. rewrite Z.lxor_spec, Hm by lia. rewrite xorb_false_r.
      destruct (Z.eq_dec v 0) as [->|Hne]; [apply Z.bits_0|].
      apply Z.bits_above_log2; [lia|]. assert (Z.log2 v < plen p) by (apply Z.log2_lt_pow2; lia). lia.
    - apply Z.lxor_nonneg. lia. }
  unfold buffer_comb. cbn [snd]. destruct bd.
  - rewrite xor_shortcut. apply Hx. apply read_cat_range.
  - split; [lia|apply pow2_pos; auto].
  - rewrite xor_shortcut. apply Hx. apply Hgen.
    + intros n Hn. rewrite loopback_bit by lia. pose proof (nth_error_zlen (p_refs p) n ltac:(lia)) as Hz.
      destruct (nth_error (p_refs p) (Z.to_nat n)); [unfold plen in Hn; lia|reflexivity].
    + apply loopback_nonneg.
Qed.

(* ================================================================== FFBuffer *)
Lemma odd_mask1 v : Z.odd (mask 1 v) = Z.odd v.
Proof.
  rewrite <- !Z.bit0_odd. rewrite testbit_mask by lia. reflexivity.
Qed.

Lemma ff_run_snoc bd p evs e :
  ff_run_state bd p (evs ++ [e]) = ff_step bd p (ff_run_state bd p evs) e.
Proof. unfold ff_run_state. rewrite fold_left_app. reflexivity. Qed.

Lemma assign_cat_ext refs : forall s v v',
  (forall k, 0 <= k < Z.of_nat (length refs) -> Z.testbit v k = Z.testbit v' k) ->
  assign_cat s refs v = assign_cat s refs v'.
Proof.
  induction refs as [|x rs IH]; intros s v v' H; cbn [assign_cat]; [reflexivity|].
  rewrite <- !Z.bit0_odd, (H 0) by (cbn [length]; lia). apply IH. intros k Hk.
  rewrite !Z.div2_spec, !Z.shiftr_spec by lia. apply H. cbn [length]; lia.
Qed.

(* the combinational buffer only looks at oe's bit 0 and at o's low bits *)
Lemma buffer_comb_mask bd p o oe st : 
  buffer_comb bd p (mask (plen p) o) (mask 1 oe) st = buffer_comb bd p o oe st.
Proof.
  assert (Hw : 0 <= plen p) by (unfold plen, zlen; lia).
  assert (Ha : forall s v, assign_cat s (p_refs p) (Z.lxor (mask (plen p) v) (inv_mask (p_inv p))) =
                           assign_cat s (p_refs p) (Z.lxor v (inv_mask (p_inv p)))).
  { intros s v. apply assign_cat_ext. intros k Hk. rewrite !Z.lxor_spec, testbit_mask by lia.
    unfold plen, zlen. destruct (k <? Z.of_nat (length (p_refs p))) eqn:E; [reflexivity|lia]. }
  unfold buffer_comb. rewrite !xor_shortcut, odd_mask1, !Ha. reflexivity.
Qed.

(* one register per direction: an edge of o_domain loads o/oe, an edge of i_domain loads the inner buffer's i;
   without the edge the register holds *)
Lemma ff_step_o bd p s e : bd <> DIn ->
  let s' := ff_step bd p s e in
  if ev_eo e then f_o s' = mask (plen p) (ev_o e) /\ f_oe s' = mask 1 (ev_oe e)
  else f_o s' = f_o s /\ f_oe s' = f_oe s.
Proof.
  intros Hbd. unfold ff_step, ff_edge. cbn [f_o f_oe].
  assert (dir_eqb bd DIn = false) as -> by (destruct bd; auto; contradiction).
  destruct (ev_eo e); cbn [andb negb]; auto.
Qed.

Lemma ff_step_i bd p s e : bd <> DOut -> length (p_inv p) = length (p_refs p) ->
  let s' := ff_step bd p s e in
  if ev_ei e then f_i s' = snd (buffer_comb bd p (f_o s) (f_oe s) (ev_st e))
  else f_i s' = f_i s.
Proof.
  intros Hbd Hlen. unfold ff_step, ff_edge, ff_comb. cbn [f_i].
  assert (dir_eqb bd DOut = false) as -> by (destruct bd; auto; contradiction).
  destruct (ev_ei e); cbn [andb negb]; auto.
  apply mask_small. apply buffer_i_range; auto.
Qed.

(* registers of the unused direction never move *)
Lemma ff_step_unused bd p s e :
  (bd = DIn -> f_o (ff_step bd p s e) = f_o s /\ f_oe (ff_step bd p s e) = f_oe s) /\
  (bd = DOut -> f_i (ff_step bd p s e) = f_i s).
Proof.
  split; intros ->; unfold ff_step, ff_edge; cbn; rewrite ?andb_false_r; auto.
Qed.

(* what the port shows after an o_domain edge is the combinational buffer applied to the sampled o/oe *)
Lemma ff_port_after_edge bd p evs e st : bd <> DIn -> ev_eo e = true ->
  fst (ff_comb bd p (ff_run_state bd p (evs ++ [e])) st) = fst (buffer_comb bd p (ev_o e) (ev_oe e) st).
Proof.
  intros Hbd He. rewrite ff_run_snoc. pose proof (ff_step_o bd p (ff_run_state bd p evs) e Hbd) as H.
  cbn zeta in H. rewrite He in H. destruct H as [Ho Hoe]. unfold ff_comb. rewrite Ho, Hoe, buffer_comb_mask.
  reflexivity.
Qed.

Lemma ff_port_hold bd p evs e st : ev_eo e = false ->
  fst (ff_comb bd p (ff_run_state bd p (evs ++ [e])) st) = fst (ff_comb bd p (ff_run_state bd p evs) st).
Proof.
  intros He. rewrite ff_run_snoc. unfold ff_comb, ff_step, ff_edge. rewrite He. cbn [andb f_o f_oe].
  unfold buffer_comb. cbn [fst]. reflexivity.
Qed.

(* ================================================================== netlist: every I/O wire used once *)
Definition ref_eq_dec : forall a b : ref, {a = b} + {a <> b}.
Proof. decide equality; apply Nat.eq_dec. Defined.

Lemma mem_ref_In r l : mem_ref r l = true <-> In r l.
Proof.
  induction l as [|x t IH]; simpl; [split; [discriminate|tauto]|].
  rewrite orb_true_iff, IH, ref_eqb_eq. split; intros [H|H]; auto.
Qed.

Lemma nodup_app_iff {A} (a b : list A) :
  NoDup (a ++ b) <-> NoDup a /\ NoDup b /\ (forall x, In x a -> ~ In x b).
Proof.
  induction a as [|x a IH]; simpl.
  - split; [intros H; repeat split; auto; constructor|tauto].
  - split.
    + intros H. inversion H as [|? ? Hx Hr]; subst. apply IH in Hr. destruct Hr as (Ha & Hb & Hd).
      repeat split; auto.
      * constructor; auto. intros Hin. apply Hx. apply in_or_app; auto.
      * intros y [->|Hy]; [intros Hin; apply Hx; apply in_or_app; auto|apply Hd; auto].
    + intros (Ha & Hb & Hd). inversion Ha as [|? ? Hx Hr]; subst. constructor.
      * intros Hin. apply in_app_or in Hin. destruct Hin as [Hin|Hin]; [auto|]. apply (Hd x); auto.
      * apply IH. repeat split; auto.
Qed.

Lemma use_nets_spec nets : forall used,
  match use_nets used nets with
  | Ok u => u = rev nets ++ used /\ NoDup nets /\ (forall r, In r nets -> ~ In r used)
  | Err e => e = EConflict /\ ~ (NoDup nets /\ (forall r, In r nets -> ~ In r used))
  end.
Proof.
  induction nets as [|n t IH]; intros used; cbn [use_nets].
  - repeat split; auto. constructor.
  - destruct (mem_ref n used) eqn:E.
    + split; auto. intros [_ Hd]. apply (Hd n); [left; auto|]. apply mem_ref_In; auto.
    + assert (Hn : ~ In n used) by (intros H; apply mem_ref_In in H; congruence).
      specialize (IH (n :: used)). destruct (use_nets (n :: used) t) as [u|e].
      * destruct IH as (-> & Hnd & Hd). repeat split.
        -- cbn [rev]. rewrite <- app_assoc. reflexivity.
        -- constructor; auto. intros Hin. apply (Hd n Hin). left; auto.
        -- intros r [->|Hr]; auto. intros Hin. apply (Hd r Hr). right; auto.
      * destruct IH as (-> & Hbad). split; auto. intros [Hnd Hd]. apply Hbad.
        inversion Hnd as [|? ? Hx Hr]; subst. split; auto.
        intros r Hr' [<-|Hin]; [contradiction|]. apply (Hd r); [right; auto|auto].
Qed.

Lemma use_nets_app a : forall used b,
  use_nets used (a ++ b) = bind (use_nets used a) (fun u => use_nets u b).
Proof.
  induction a as [|x a IH]; intros used b; cbn [use_nets app bind]; [reflexivity|].
  destruct (mem_ref x used); [reflexivity|apply IH].
Qed.

(* threading the used-set through the cells = one pass over all their wires *)
Lemma emit_cells_flat cs : forall used, emit_cells used cs = use_nets used (flat_map c_port cs).
Proof.
  induction cs as [|c r IH]; intros used; cbn [emit_cells flat_map]; [reflexivity|].
  rewrite use_nets_app. destruct (use_nets used (c_port c)); cbn [bind]; auto.
Qed.

Definition all_wires (cs : list cell) : list ref := flat_map c_port cs.

Lemma build_netlist_spec bufs :
  match build_netlist bufs with
  | Ok cells => cells = netlist_cells bufs /\ NoDup (all_wires cells) /\
                (forall r, In r (all_wires cells) -> count_occ ref_eq_dec (all_wires cells) r = 1%nat)
  | Err e => e = EConflict /\ ~ NoDup (all_wires (netlist_cells bufs))
  end.
Proof.
  unfold build_netlist. rewrite emit_cells_flat.
  pose proof (use_nets_spec (flat_map c_port (netlist_cells bufs)) []) as H.
  destruct (use_nets [] (flat_map c_port (netlist_cells bufs))) as [u|e]; cbn [bind].
  - destruct H as (_ & Hnd & _). split; [reflexivity|]. split; [exact Hnd|].
    intros r Hr. apply NoDup_count_occ'; assumption.
  - destruct H as (-> & Hbad). split; [reflexivity|]. intros Hnd. apply Hbad. split; [exact Hnd|].
    intros r _ [].
Qed.

(* the wires a generic Buffer uses: the whole port; for a differential port also the n half unless the
   buffer is an Input buffer (only the p half gets a cell then) *)
Definition used_wires (bd : dir) (p : port) : list ref :=
  match p_kind p with
  | KSim => []
  | KSingle => p_refs p
  | KDiff => match bd with DIn => p_refs p | _ => p_refs p ++ p_nrefs p end
  end.

Lemma buffer_cells_wires bd p : all_wires (fst (buffer_cells bd p)) = used_wires bd p.
Proof.
  unfold buffer_cells, used_wires, all_wires. destruct (p_kind p), bd; cbn; rewrite ?app_nil_r; reflexivity.
Qed.

Lemma netlist_wires bufs :
  all_wires (netlist_cells bufs) = flat_map (fun bp => used_wires (fst bp) (snd bp)) bufs.
Proof.
  unfold netlist_cells, all_wires. induction bufs as [|bp r IH]; cbn [flat_map]; [reflexivity|].
  rewrite flat_map_app. fold (all_wires (fst (buffer_cells (fst bp) (snd bp)))).
  rewrite buffer_cells_wires, IH. reflexivity.
Qed.

(* cell structure: the pad side is the raw port, direction as requested, n half always a pure output *)
Lemma buffer_cells_shape bd p :
  match p_kind p with
  | KSim => fst (buffer_cells bd p) = []
  | KSingle => map c_port (fst (buffer_cells bd p)) = [p_refs p] /\ map c_dir (fst (buffer_cells bd p)) = [bd]
  | KDiff => match bd with
             | DIn => map c_port (fst (buffer_cells bd p)) = [p_refs p] /\ map c_dir (fst (buffer_cells bd p)) = [DIn]
             | _ => map c_port (fst (buffer_cells bd p)) = [p_refs p; p_nrefs p] /\
                    map c_dir (fst (buffer_cells bd p)) = [bd; DOut]
             end
  end.
Proof. unfold buffer_cells. destruct (p_kind p), bd; cbn; auto. Qed.

Lemma obit_at_none r port : forall obs, ~ In r port -> obit_at r port obs = None.
Proof.
  induction port as [|x t IH]; intros obs Hn; [reflexivity|]. destruct obs as [|b bt]; [reflexivity|].
  cbn [obit_at]. rewrite ref_eqb_neq by (intros ->; apply Hn; left; auto). apply IH. intros H; apply Hn; right; auto.
Qed.

Lemma obit_at_nth port : forall inv j k r, NoDup port -> length inv = length port ->
  nth_error port k = Some r ->
  obit_at r port (obits_from j inv) = Some (OB (j + k) (nthb inv k)).
Proof.
  induction port as [|x t IH]; intros inv j k r Hnd Hlen Hk; [destruct k; discriminate|].
  destruct inv as [|b bt]; [discriminate|]. cbn [obits_from obit_at].
  inversion Hnd as [|? ? Hx Ht]; subst. destruct k as [|k]; cbn [nth_error] in Hk.
  - inversion Hk; subst. rewrite ref_eqb_refl. rewrite Nat.add_0_r. reflexivity.
  - rewrite ref_eqb_neq.
    + rewrite (IH bt (S j) k r Ht); [|cbn [length] in Hlen; lia|exact Hk].
      unfold nthb. cbn [nth_error]. f_equal. f_equal. lia.
    + intros <-. apply Hx. eapply nth_error_In; eauto.
Qed.

Lemma obit_at_neg r port obs :
  obit_at r port (neg_obits obs) = option_map (fun x => OB (ob_k x) (negb (ob_inv x))) (obit_at r port obs).
Proof.
  revert obs. induction port as [|x t IH]; intros obs; [reflexivity|]. destruct obs as [|b bt]; [reflexivity|].
  cbn [neg_obits map obit_at]. destruct (ref_eqb r x); [reflexivity|apply IH].
Qed.

(* inversion on the fabric side, output: the p (or only) wire k carries o[k] xor invert[k] while enabled,
   the n wire its complement, nothing is driven while disabled or by an Input buffer *)
Lemma pad_drive_p bd p o oe k r : p_kind p <> KSim -> bd <> DIn ->
  NoDup (p_refs p) -> length (p_inv p) = length (p_refs p) -> nth_error (p_refs p) k = Some r ->
  pad_drive (fst (buffer_cells bd p)) o oe r =
  if oe then Some (xorb (Z.testbit o (Z.of_nat k)) (nthb (p_inv p) k)) else None.
Proof.
  intros Hk Hbd Hnd Hlen Hn. pose proof (obit_at_nth (p_refs p) (p_inv p) 0 k r Hnd Hlen Hn) as Hob.
  unfold buffer_cells. destruct (p_kind p); [contradiction| |]; destruct bd; try contradiction;
    cbn [fst pad_drive c_port c_o]; rewrite Hob; reflexivity.
Qed.

Lemma pad_drive_n bd p o oe k r : p_kind p = KDiff -> bd <> DIn ->
  NoDup (p_refs p ++ p_nrefs p) -> length (p_inv p) = length (p_refs p) ->
  length (p_nrefs p) = length (p_refs p) -> nth_error (p_nrefs p) k = Some r ->
  pad_drive (fst (buffer_cells bd p)) o oe r =
  if oe then Some (negb (xorb (Z.testbit o (Z.of_nat k)) (nthb (p_inv p) k))) else None.
Proof.
  intros Hk Hbd Hnd Hlen Hlen2 Hn. apply nodup_app_iff in Hnd. destruct Hnd as (Hp & Hnn & Hd).
  assert (Hnotp : ~ In r (p_refs p)).
  { intros Hin. apply (Hd r Hin). eapply nth_error_In; eauto. }
  pose proof (obit_at_nth (p_nrefs p) (p_inv p) 0 k r Hnn ltac:(lia) Hn) as Hob.
  unfold buffer_cells. rewrite Hk. destruct bd; try contradiction;
    cbn [fst pad_drive c_port c_o]; rewrite (obit_at_none r (p_refs p)) by exact Hnotp;
    rewrite obit_at_neg, Hob; cbn [option_map ob_k ob_inv]; destruct oe; try reflexivity;
    rewrite negb_xorb_r; reflexivity.
Qed.

Lemma pad_drive_input p o oe r : pad_drive (fst (buffer_cells DIn p)) o oe r = None.
Proof. unfold buffer_cells. destruct (p_kind p); cbn; destruct (p_refs p); reflexivity. Qed.

(* inversion on the fabric side, input: i[k] = pad value of wire k of the (p half of the) port xor invert[k] *)
Lemma ibits_from_nth inv : forall j k, (k < length inv)%nat ->
  nth_error (ibits_from j inv) k = Some (IB 0 (j + k) (nthb inv k)).
Proof.
  induction inv as [|b t IH]; intros j k Hk; [cbn in Hk; lia|]. destruct k as [|k]; cbn [ibits_from nth_error].
  - rewrite Nat.add_0_r. reflexivity.
  - rewrite IH by (cbn [length] in Hk; lia). unfold nthb. cbn [nth_error]. f_equal. f_equal. lia.
Qed.

Lemma ibits_from_length inv j : length (ibits_from j inv) = length inv.
Proof. revert j. induction inv as [|b t IH]; intros j; cbn; auto. Qed.

Lemma buffer_cells_i bd p pad k r : p_kind p <> KSim -> bd <> DOut ->
  length (p_inv p) = length (p_refs p) -> nth_error (p_refs p) k = Some r ->
  length (snd (buffer_cells bd p)) = length (p_refs p) /\
  exists b, nth_error (snd (buffer_cells bd p)) k = Some b /\
            ibit_value (fst (buffer_cells bd p)) pad b = xorb (pad r) (nthb (p_inv p) k).
Proof.
  intros Hk Hbd Hlen Hn.
  assert (Hlt : (k < length (p_inv p))%nat) by (rewrite Hlen; apply nth_error_Some; congruence).
  pose proof (ibits_from_nth (p_inv p) 0 k Hlt) as Hib. pose proof (ibits_from_length (p_inv p) 0) as Hil.
  unfold buffer_cells. destruct (p_kind p); [contradiction| |]; destruct bd; try contradiction; cbn [fst snd];
    (split; [lia|]); eexists; (split; [exact Hib|]); unfold ibit_value; cbn [ib_cell ib_bit ib_inv nth_error c_port Nat.add];
    rewrite Hn; reflexivity.
Qed.

Lemma buffer_cells_no_i p : snd (buffer_cells DOut p) = [].
Proof. unfold buffer_cells. destruct (p_kind p); reflexivity. Qed.

(* ================================================================== Python slicing *)
Lemma slice_indices_bounds n k a b s : 0 <= n -> slice_indices n k = Ok (a, b, s) ->
  s <> 0 /\ (0 < s -> 0 <= a <= n /\ 0 <= b <= n) /\ (s < 0 -> -1 <= a < n /\ -1 <= b < n).
Proof.
  intros Hn. unfold slice_indices, clamp_index.
  destruct (sl_step k) as [st|]; destruct (sl_start k) as [x|]; destruct (sl_stop k) as [y|];
    repeat match goal with |- context [if ?c then _ else _] => destruct c eqn:? end;
    intros H; inversion H; subst; lia.
Qed.

Lemma slice_indices_err n k e : slice_indices n k = Err e -> e = EValue /\ sl_step k = Some 0.
Proof.
  unfold slice_indices. destruct (sl_step k) as [st|]; cbn.
  - destruct (Z.eqb_spec st 0) as [->|]; [intros H; inversion H; auto|discriminate].
  - discriminate.
Qed.

Lemma range_len_nonneg a b s : s <> 0 -> 0 <= range_len a b s.
Proof.
  intros Hs. unfold range_len. destruct (0 <? s) eqn:E.
  - destruct (a <? b) eqn:E2; [|lia]. assert (0 <= (b - a - 1) / s) by (apply Z.div_pos; lia). lia.
  - destruct (b <? a) eqn:E2; [|lia]. assert (0 <= (a - b - 1) / - s) by (apply Z.div_pos; lia). lia.
Qed.

Lemma range_list_length a b s : length (range_list a b s) = Z.to_nat (range_len a b s).
Proof. unfold range_list. rewrite map_length, seq_length. reflexivity. Qed.

Lemma range_list_nth a b s j : (j < Z.to_nat (range_len a b s))%nat ->
  nth_error (range_list a b s) j = Some (a + Z.of_nat j * s).
Proof.
  intros Hj. unfold range_list. rewrite nth_error_map, nth_error_nth' with (d := 0%nat) by (rewrite seq_length; exact Hj).
  rewrite seq_nth by exact Hj. reflexivity.
Qed.

(* every index produced by range over slice.indices(n) is a valid position *)
Lemma range_in_bounds n k a b s j : 0 <= n -> slice_indices n k = Ok (a, b, s) ->
  0 <= j < range_len a b s -> 0 <= a + j * s < n.
Proof.
  intros Hn Hk Hj. destruct (slice_indices_bounds n k a b s Hn Hk) as (Hs & Hp & Hm).
  unfold range_len in Hj. destruct (0 <? s) eqn:E.
  - destruct (Hp ltac:(lia)) as [Ha Hb]. destruct (a <? b) eqn:E2; [|lia].
    pose proof (Z.mul_div_le (b - a - 1) s ltac:(lia)) as Hd.
    assert (j * s <= (b - a - 1) / s * s) by nia. nia.
  - destruct (Hm ltac:(lia)) as [Ha Hb]. destruct (b <? a) eqn:E2; [|lia].
    pose proof (Z.mul_div_le (a - b - 1) (- s) ltac:(lia)) as Hd.
    assert (j * (- s) <= (a - b - 1) / (- s) * (- s)) by nia. nia.
Qed.

Definition valid_idx {A} (l : list A) (idxs : list Z) : Prop := Forall (fun i => 0 <= i < zlen l) idxs.

Lemma range_list_valid {A} (l : list A) k a b s : slice_indices (zlen l) k = Ok (a, b, s) ->
  valid_idx l (range_list a b s).
Proof.
  intros Hk. apply Forall_forall. intros i Hi. apply In_nth_error in Hi. destruct Hi as [j Hj].
  assert (Hlt : (j < Z.to_nat (range_len a b s))%nat).
  { rewrite <- range_list_length. apply nth_error_Some. congruence. }
  rewrite range_list_nth in Hj by exact Hlt. inversion Hj; subst.
  apply (range_in_bounds (zlen l) k a b s); [unfold zlen; lia|exact Hk|lia].
Qed.

Lemma sel_nil {A} idxs : sel (@nil A) idxs = [].
Proof.
  unfold sel. induction idxs as [|i t IH]; cbn [flat_map]; [reflexivity|]. rewrite IH.
  destruct (i <? 0); [reflexivity|]. destruct (Z.to_nat i); reflexivity.
Qed.

Lemma sel_cons_valid {A} (l : list A) i t : 0 <= i < zlen l ->
  exists x, nth_error l (Z.to_nat i) = Some x /\ sel l (i :: t) = x :: sel l t.
Proof.
  intros Hi. unfold sel. cbn [flat_map]. destruct (i <? 0) eqn:E; [lia|].
  destruct (nth_error l (Z.to_nat i)) as [x|] eqn:E2.
  - exists x. split; reflexivity.
  - apply nth_error_None in E2. unfold zlen in Hi. lia.
Qed.

Lemma sel_length {A} (l : list A) idxs : valid_idx l idxs -> length (sel l idxs) = length idxs.
Proof.
  induction 1 as [|i t Hi Ht IH]; [reflexivity|].
  destruct (sel_cons_valid l i t Hi) as (x & _ & ->). cbn [length]. rewrite IH. reflexivity.
Qed.

(* element j of the selection is the element at position idxs[j] *)
Lemma sel_nth {A} (l : list A) idxs : valid_idx l idxs -> forall j,
  nth_error (sel l idxs) j =
  match nth_error idxs j with Some i => nth_error l (Z.to_nat i) | None => None end.
Proof.
  induction 1 as [|i t Hi Ht IH]; intros j.
  - destruct j; reflexivity.
  - destruct (sel_cons_valid l i t Hi) as (x & Hx & ->). destruct j as [|j]; cbn [nth_error]; [auto|apply IH].
Qed.

Lemma sel_map {A B} (f : A -> B) (l : list A) idxs : sel (map f l) idxs = map f (sel l idxs).
Proof.
  unfold sel. induction idxs as [|i t IH]; cbn [flat_map]; [reflexivity|]. rewrite map_app, IH. f_equal.
  destruct (i <? 0); [reflexivity|]. rewrite nth_error_map. destruct (nth_error l (Z.to_nat i)); reflexivity.
Qed.

Lemma skipn_nth_cons {A} (l : list A) : forall n x, nth_error l n = Some x -> skipn n l = x :: skipn (S n) l.
Proof.
  induction l as [|y t IH]; intros n x H; [destruct n; discriminate|].
  destruct n as [|n]; cbn [nth_error] in H.
  - inversion H; reflexivity.
  - cbn [skipn]. rewrite (IH n x H). reflexivity.
Qed.

Lemma sel_consecutive {A} (l : list A) a : forall m j, (a + j + m <= length l)%nat ->
  sel l (map (fun k => Z.of_nat a + Z.of_nat k * 1) (seq j m)) = firstn m (skipn (a + j) l).
Proof.
  induction m as [|m IH]; intros j Hle; [reflexivity|]. cbn [seq map].
  assert (Hi : 0 <= Z.of_nat a + Z.of_nat j * 1 < zlen l) by (unfold zlen; lia).
  destruct (sel_cons_valid l _ (map (fun k => Z.of_nat a + Z.of_nat k * 1) (seq (S j) m)) Hi) as (x & Hx & ->).
  replace (Z.to_nat (Z.of_nat a + Z.of_nat j * 1)) with (a + j)%nat in Hx by lia.
  rewrite (skipn_nth_cons l _ x Hx). cbn [firstn]. f_equal. rewrite IH by lia. f_equal. f_equal. lia.
Qed.

(* Slice(self, a, b) is the step-1 case of the same selection *)
Lemma slice_is_sel {A} (l : list A) a b : 0 <= a <= b -> b <= zlen l ->
  firstn (Z.to_nat (b - a)) (skipn (Z.to_nat a) l) = sel l (range_list a b 1).
Proof.
  intros Hab Hb. unfold range_list.
  assert (Hlen : range_len a b 1 = b - a).
  { unfold range_len. cbn [Z.ltb Z.compare]. destruct (a <? b) eqn:E; [|lia]. rewrite Z.div_1_r. lia. }
  rewrite Hlen.
  replace (map (fun k : nat => a + Z.of_nat k * 1) (seq 0 (Z.to_nat (b - a))))
    with (map (fun k : nat => Z.of_nat (Z.to_nat a) + Z.of_nat k * 1) (seq 0 (Z.to_nat (b - a))))
    by (rewrite Z2Nat.id by lia; reflexivity).
  rewrite (sel_consecutive l (Z.to_nat a) (Z.to_nat (b - a)) 0) by (unfold zlen in Hb; lia).
  rewrite Nat.add_0_r. reflexivity.
Qed.

(* Value/IOValue slicing: accepted keys give exactly the Python tuple slice; the only difference is the
   IndexError for step 1 with start > stop (x[3:1]), where a tuple gives () *)
Lemma hdl_slice_spec {A} (l : list A) k :
  match slice_indices (zlen l) k with
  | Err e => hdl_slice l k = Err e /\ tuple_slice l k = Err e
  | Ok (a, b, s) =>
      tuple_slice l k = Ok (sel l (range_list a b s)) /\
      (if (s =? 1) && (b <? a) then hdl_slice l k = Err EIndex /\ range_list a b s = []
       else hdl_slice l k = Ok (sel l (range_list a b s)))
  end.
Proof.
  unfold hdl_slice, tuple_slice. destruct (slice_indices (zlen l) k) as [[[a b] s]|e] eqn:Hk; cbn [bind]; auto.
  split; [reflexivity|]. destruct (Z.eqb_spec s 1) as [->|Hs]; cbn [andb]; [|reflexivity].
  destruct (slice_indices_bounds (zlen l) k a b 1 ltac:(unfold zlen; lia) Hk) as (_ & Hp & _).
  destruct (Hp ltac:(lia)) as [Ha Hb]. destruct (b <? a) eqn:E.
  - split; [reflexivity|]. unfold range_list, range_len. cbn [Z.ltb Z.compare].
    destruct (a <? b) eqn:E2; [lia|reflexivity].
  - rewrite slice_is_sel by lia. reflexivity.
Qed.

Lemma firstn1_skipn {A} (l : list A) j x : nth_error l j = Some x -> firstn 1 (skipn j l) = [x].
Proof. intros H. rewrite (skipn_nth_cons l j x H). reflexivity. Qed.

Lemma hdl_index_spec {A} (l : list A) i :
  let n := zlen l in
  if (i <? - n) || (n <=? i) then hdl_index l i = Err EIndex
  else exists x, nth_error l (Z.to_nat (if i <? 0 then i + n else i)) = Some x /\ hdl_index l i = Ok [x].
Proof.
  intros n. unfold hdl_index. fold n. destruct ((i <? - n) || (n <=? i)) eqn:E; [reflexivity|].
  set (j := if i <? 0 then i + n else i). assert (Hj : 0 <= j < n) by (unfold j; destruct (i <? 0) eqn:E2; lia).
  destruct (nth_error l (Z.to_nat j)) as [x|] eqn:E2.
  - exists x. split; [reflexivity|]. rewrite (firstn1_skipn l _ x E2). reflexivity.
  - apply nth_error_None in E2. unfold n, zlen in Hj. lia.
Qed.

Lemma tuple_index_spec {A} (l : list A) i :
  let n := zlen l in
  if (i <? - n) || (n <=? i) then tuple_index l i = Err EIndex
  else exists x, nth_error l (Z.to_nat (if i <? 0 then i + n else i)) = Some x /\ tuple_index l i = Ok x.
Proof.
  intros n. unfold tuple_index. fold n. destruct ((i <? - n) || (n <=? i)) eqn:E.
  - destruct (i <? 0) eqn:E2.
    + replace ((i + n <? 0) || (n <=? i + n)) with true by lia. reflexivity.
    + replace ((i <? 0) || (n <=? i)) with true by lia. reflexivity.
  - set (j := if i <? 0 then i + n else i). assert (Hj : 0 <= j < n) by (unfold j; destruct (i <? 0) eqn:E2; lia).
    replace ((j <? 0) || (n <=? j)) with false by lia.
    destruct (nth_error l (Z.to_nat j)) as [x|] eqn:E2.
    + exists x. split; reflexivity.
    + apply nth_error_None in E2. unfold n, zlen in Hj. lia.
Qed.

(* ================================================================== port algebra *)
Definition wf (p : port) : Prop :=
  length (p_inv p) = length (p_refs p) /\
  match p_kind p with KDiff => length (p_nrefs p) = length (p_refs p) | _ => p_nrefs p = [] end.

Lemma mk_single_ok io inv d : length inv = length io -> mk_single io inv d = Ok (Port KSingle io [] inv d).
Proof. intros H. unfold mk_single. rewrite H, Nat.eqb_refl. reflexivity. Qed.

Lemma mk_diff_ok pr nr inv d : length nr = length pr -> length inv = length pr ->
  mk_diff pr nr inv d = Ok (Port KDiff pr nr inv d).
Proof. intros H1 H2. unfold mk_diff. rewrite H1, H2, !Nat.eqb_refl. reflexivity. Qed.

(* the constructors' length checks can never fire on parts of equal length: one lemma for the three kinds *)
Definition mk_port (k : kind) (r nr : list ref) (inv : list bool) (d : dir) : res port :=
  match k with KSim => Ok (Port KSim r [] inv d) | KSingle => mk_single r inv d | KDiff => mk_diff r nr inv d end.

Lemma mk_port_ok k r nr inv d : length inv = length r ->
  match k with KDiff => length nr = length r | _ => nr = [] end ->
  mk_port k r nr inv d = Ok (Port k r nr inv d) /\ wf (Port k r nr inv d).
Proof.
  intros H1 H2. unfold wf; cbn [p_inv p_refs p_kind p_nrefs]. destruct k; cbn [mk_port]; subst.
  - auto.
  - rewrite mk_single_ok by auto. auto.
  - rewrite mk_diff_ok by auto. auto.
Qed.

Lemma mk_base_wf b x p : mk_base b x = Ok p -> wf p.
Proof.
  destruct x as [d w inv0|d w inv0|d w inv0]; cbn [mk_base]; generalize (norm_inv w inv0); intros inv;
    unfold mk_sim, mk_single, mk_diff, base_refs; rewrite ?map_length, ?seq_length.
  - destruct (Nat.eqb_spec (length inv) w); [|discriminate]. intros H; inversion H; subst.
    unfold wf; cbn. rewrite map_length, seq_length. auto.
  - destruct (Nat.eqb_spec (length inv) w); [|discriminate]. intros H; inversion H; subst.
    unfold wf; cbn. rewrite map_length, seq_length. auto.
  - rewrite Nat.eqb_refl. cbn [negb]. destruct (Nat.eqb_spec (length inv) w); [|discriminate].
    intros H; inversion H; subst. unfold wf; cbn. rewrite !map_length, !seq_length. auto.
Qed.

(* ~p: same wires, same direction, every flag flipped *)
Lemma port_invert_spec p : wf p ->
  port_invert p = Ok (Port (p_kind p) (p_refs p) (p_nrefs p) (map negb (p_inv p)) (p_dir p)) /\
  wf (Port (p_kind p) (p_refs p) (p_nrefs p) (map negb (p_inv p)) (p_dir p)).
Proof.
  intros [H1 H2]. 
  destruct (mk_port_ok (p_kind p) (p_refs p) (p_nrefs p) (map negb (p_inv p)) (p_dir p)) as [Hm Hw];
    [rewrite map_length; exact H1|exact H2|].
  split; [|exact Hw]. rewrite <- Hm. unfold port_invert, mk_port. destruct (p_kind p); try reflexivity.
Qed.

Lemma port_invert_involutive p : wf p -> bind (port_invert p) port_invert = Ok p.
Proof.
  intros Hw. destruct (port_invert_spec p Hw) as [-> Hw2]. cbn [bind].
  destruct (port_invert_spec _ Hw2) as [-> _]. cbn [p_kind p_refs p_nrefs p_inv p_dir].
  rewrite map_map. rewrite (map_ext _ (fun x => x)) by (intros; apply negb_involutive). rewrite map_id.
  destruct p; reflexivity.
Qed.

(* p + q *)
Lemma port_add_spec p q : wf p -> wf q ->
  if negb (kind_eqb (p_kind p) (p_kind q)) then port_add p q = Err EType
  else match dir_and (p_dir p) (p_dir q) with
       | Err e => port_add p q = Err e
       | Ok d => let r := Port (p_kind p) (p_refs p ++ p_refs q) (p_nrefs p ++ p_nrefs q) (p_inv p ++ p_inv q) d in
                 port_add p q = Ok r /\ wf r
       end.
Proof.
  intros [Hp1 Hp2] [Hq1 Hq2]. unfold port_add. destruct (kind_eqb (p_kind p) (p_kind q)) eqn:Ek; cbn [negb]; auto.
  destruct (dir_and (p_dir p) (p_dir q)) as [d|e]; cbn [bind]; auto. cbn zeta.
  assert (Hk : p_kind q = p_kind p) by (destruct (p_kind p), (p_kind q); auto; discriminate).
  rewrite Hk in Hq2.
  destruct (mk_port_ok (p_kind p) (p_refs p ++ p_refs q) (p_nrefs p ++ p_nrefs q) (p_inv p ++ p_inv q) d) as [Hm Hw].
  - rewrite !app_length. lia.
  - destruct (p_kind p); rewrite ?Hp2, ?Hq2, ?app_length; auto; lia.
  - split; [|exact Hw]. rewrite <- Hm. unfold mk_port. destruct (p_kind p); reflexivity.
Qed.

(* p[i] *)
Lemma port_index_spec p i : wf p ->
  let n := plen p in
  if (i <? - n) || (n <=? i) then port_index p i = Err EIndex
  else let j := Z.to_nat (if i <? 0 then i + n else i) in
       exists r b, nth_error (p_refs p) j = Some r /\ nth_error (p_inv p) j = Some b /\
         let q := Port (p_kind p) [r] (match nth_error (p_nrefs p) j with Some x => [x] | None => [] end) [b] (p_dir p) in
         port_index p i = Ok q /\ wf q.
Proof.
  intros [H1 H2] n. unfold n, plen.
  assert (Hzi : zlen (p_inv p) = zlen (p_refs p)) by (unfold zlen; rewrite H1; reflexivity).
  pose proof (hdl_index_spec (p_refs p) i) as Hr. pose proof (tuple_index_spec (p_inv p) i) as Hi.
  pose proof (hdl_index_spec (p_nrefs p) i) as Hn. cbn zeta in Hr, Hi, Hn. rewrite Hzi in Hi.
  destruct ((i <? - zlen (p_refs p)) || (zlen (p_refs p) <=? i)) eqn:E.
  - unfold port_index. rewrite Hr. destruct (p_kind p); reflexivity.
  - destruct Hr as (r & Hr1 & Hr2). destruct Hi as (b & Hi1 & Hi2). exists r, b. cbn zeta.
    split; [exact Hr1|]. split; [exact Hi1|]. unfold port_index. rewrite Hr2, Hi2.
    destruct (p_kind p) eqn:Ek; cbn [bind].
    + rewrite H2. destruct (Z.to_nat _); cbn [nth_error]; (split; [reflexivity|unfold wf; cbn; auto]).
    + rewrite H2. replace (nth_error [] _) with (@None ref) by (destruct (Z.to_nat _); reflexivity).
      rewrite mk_single_ok by reflexivity. cbn. split; [reflexivity|unfold wf; cbn; auto].
    + assert (Hzn : zlen (p_nrefs p) = zlen (p_refs p)) by (unfold zlen; rewrite H2; reflexivity).
      rewrite Hzn, E in Hn. destruct Hn as (x & Hn1 & Hn2). rewrite Hn2, Hn1. cbn [bind].
      rewrite mk_diff_ok by reflexivity. cbn. split; [reflexivity|unfold wf; cbn; auto].
Qed.

(* p[a:b:s] *)
Lemma port_slice_spec p k : wf p ->
  match slice_indices (plen p) k with
  | Err e => port_slice p k = Err e
  | Ok (a, b, s) =>
      if (s =? 1) && (b <? a) then port_slice p k = Err EIndex
      else let idx := range_list a b s in
           let q := Port (p_kind p) (sel (p_refs p) idx) (sel (p_nrefs p) idx) (sel (p_inv p) idx) (p_dir p) in
           port_slice p k = Ok q /\ wf q /\ valid_idx (p_refs p) idx /\ plen q = range_len a b s
  end.
Proof.
  intros [H1 H2]. unfold plen.
  assert (Hzi : zlen (p_inv p) = zlen (p_refs p)) by (unfold zlen; rewrite H1; reflexivity).
  pose proof (hdl_slice_spec (p_refs p) k) as Hr. pose proof (hdl_slice_spec (p_inv p) k) as Hi.
  pose proof (hdl_slice_spec (p_nrefs p) k) as Hn. rewrite Hzi in Hi.
  destruct (slice_indices (zlen (p_refs p)) k) as [[[a b] s]|e] eqn:Hk.
  - destruct Hr as [_ Hr]. destruct Hi as [Hi _].
    destruct ((s =? 1) && (b <? a)) eqn:E.
    + destruct Hr as [Hr _]. unfold port_slice. rewrite Hr. destruct (p_kind p); reflexivity.
    + cbn zeta. set (idx := range_list a b s) in *.
      assert (Hv : valid_idx (p_refs p) idx) by (apply (range_list_valid _ k); exact Hk).
      assert (Hvi : valid_idx (p_inv p) idx) by (apply (range_list_valid _ k); rewrite Hzi; exact Hk).
      assert (Hl1 : length (sel (p_inv p) idx) = length (sel (p_refs p) idx)) by (rewrite !sel_length; auto).
      assert (Hplen : zlen (sel (p_refs p) idx) = range_len a b s).
      { unfold zlen. rewrite sel_length by auto. unfold idx. rewrite range_list_length.
        assert (H0 : 0 <= zlen (p_refs p)) by (unfold zlen; lia).
        destruct (slice_indices_bounds (zlen (p_refs p)) k a b s H0 Hk) as (Hs & _).
        pose proof (range_len_nonneg a b s Hs). lia. }
      destruct (mk_port_ok (p_kind p) (sel (p_refs p) idx) (sel (p_nrefs p) idx) (sel (p_inv p) idx) (p_dir p)) as [Hm Hw].
      * exact Hl1.
      * destruct (p_kind p) eqn:Ek; try (rewrite H2; apply sel_nil).
        assert (Hvn : valid_idx (p_nrefs p) idx).
        { apply (range_list_valid _ k). unfold zlen. rewrite H2. exact Hk. }
        rewrite !sel_length; auto.
      * split; [|split; [exact Hw|split; [exact Hv|exact Hplen]]]. rewrite <- Hm.
        unfold port_slice, mk_port. rewrite Hr, Hi. destruct (p_kind p) eqn:Ek; cbn [bind].
        -- reflexivity.
        -- reflexivity.
        -- assert (Hzn : zlen (p_nrefs p) = zlen (p_refs p)) by (unfold zlen; rewrite H2; reflexivity).
           rewrite Hzn, Hk in Hn. destruct Hn as [_ Hn]. rewrite E in Hn. rewrite Hn. reflexivity.
  - destruct Hr as [Hr _]. unfold port_slice. rewrite Hr. destruct (p_kind p); reflexivity.
Qed.

(* every accepted expression yields a well-formed port *)
Lemma peval_wf env : Forall wf env -> forall e p, peval env e = Ok p -> wf p.
Proof.
  intros Henv. induction e as [b|e IH i|e IH k|a IHa b IHb|e IH]; intros p; cbn [peval].
  - destruct (nth_error env b) as [q|] eqn:E; [|discriminate]. intros H; inversion H; subst.
    eapply Forall_forall; [exact Henv|]. eapply nth_error_In; eauto.
  - destruct (peval env e) as [q|]; [|discriminate]. cbn [bind]. intros H. specialize (IH q eq_refl).
    pose proof (port_index_spec q i IH) as Hs. cbn zeta in Hs.
    destruct ((i <? - plen q) || (plen q <=? i)); [congruence|].
    destruct Hs as (r & b & _ & _ & Hq & Hw). rewrite Hq in H. inversion H; subst. exact Hw.
  - destruct (peval env e) as [q|]; [|discriminate]. cbn [bind]. intros H. specialize (IH q eq_refl).
    pose proof (port_slice_spec q k IH) as Hs. destruct (slice_indices (plen q) k) as [[[a b] s]|]; [|congruence].
    destruct ((s =? 1) && (b <? a)); [congruence|]. destruct Hs as (Hq & Hw & _). rewrite Hq in H.
    inversion H; subst. exact Hw.
  - destruct (peval env a) as [q1|]; [|discriminate]. destruct (peval env b) as [q2|]; [|discriminate]. cbn [bind].
    intros H. pose proof (port_add_spec q1 q2 (IHa q1 eq_refl) (IHb q2 eq_refl)) as Hs.
    destruct (negb (kind_eqb (p_kind q1) (p_kind q2))); [congruence|].
    destruct (dir_and (p_dir q1) (p_dir q2)); [|congruence]. destruct Hs as [Hq Hw]. rewrite Hq in H.
    inversion H; subst. exact Hw.
  - destruct (peval env e) as [q|]; [|discriminate]. cbn [bind]. intros H.
    destruct (port_invert_spec q (IH q eq_refl)) as [Hq Hw]. rewrite Hq in H. inversion H; subst. exact Hw.
Qed.

Lemma mk_env_from_wf xs : forall b env, mk_env_from b xs = Ok env -> Forall wf env.
Proof.
  induction xs as [|x r IH]; intros b env; cbn [mk_env_from].
  - intros H; inversion H; constructor.
  - destruct (mk_base b x) as [p|] eqn:Ep; [|discriminate]. cbn [bind].
    destruct (mk_env_from (S b) r) as [ps|] eqn:Er; [|discriminate]. cbn [bind]. intros H; inversion H; subst.
    constructor; [eapply mk_base_wf; eauto|eapply IH; eauto].
Qed.

(* (p + q)[k] selects from p or from q *)
Lemma port_add_index p q r k : wf p -> wf q -> port_add p q = Ok r -> 0 <= k < plen r ->
  exists x, port_index r k = Ok x /\ p_dir x = p_dir r /\
    if k <? plen p
    then exists y, port_index p k = Ok y /\ p_refs x = p_refs y /\ p_nrefs x = p_nrefs y /\ p_inv x = p_inv y
    else exists y, port_index q (k - plen p) = Ok y /\ p_refs x = p_refs y /\ p_nrefs x = p_nrefs y /\ p_inv x = p_inv y.
Proof.
  intros Hp Hq Hadd Hk. pose proof (port_add_spec p q Hp Hq) as Hs.
  destruct (negb (kind_eqb (p_kind p) (p_kind q))) eqn:Ek; [congruence|].
  destruct (dir_and (p_dir p) (p_dir q)) as [d|]; [|congruence]. cbn zeta in Hs. destruct Hs as [Hr Hwr].
  rewrite Hr in Hadd. inversion Hadd; subst r. clear Hadd Hr.
  assert (Hkq : p_kind q = p_kind p) by (destruct (p_kind p), (p_kind q); auto; discriminate).
  set (r := Port (p_kind p) (p_refs p ++ p_refs q) (p_nrefs p ++ p_nrefs q) (p_inv p ++ p_inv q) d) in *.
  assert (Hlen : plen r = plen p + plen q) by (unfold plen, zlen, r; cbn [p_refs]; rewrite app_length; lia).
  pose proof (port_index_spec r k Hwr) as Sr. cbn zeta in Sr.
  replace ((k <? - plen r) || (plen r <=? k)) with false in Sr by lia.
  replace (k <? 0) with false in Sr by lia.
  destruct Sr as (xr & xb & Hxr & Hxb & Hx & _). eexists. split; [exact Hx|]. split; [reflexivity|].
  cbn [p_refs p_nrefs p_inv]. unfold r in Hxr, Hxb; cbn [p_refs p_inv p_nrefs] in Hxr, Hxb.
  destruct Hp as [Hp1 Hp2]. destruct Hq as [Hq1 Hq2].
  destruct (k <? plen p) eqn:E.
  - pose proof (port_index_spec p k (conj Hp1 Hp2)) as Sp. cbn zeta in Sp.
    replace ((k <? - plen p) || (plen p <=? k)) with false in Sp by lia.
    replace (k <? 0) with false in Sp by lia.
    destruct Sp as (yr & yb & Hyr & Hyb & Hy & _). eexists. split; [exact Hy|]. cbn [p_refs p_nrefs p_inv].
    assert (Hkl : (Z.to_nat k < length (p_refs p))%nat) by (unfold plen, zlen in E; lia).
    rewrite nth_error_app1 in Hxr by exact Hkl. rewrite nth_error_app1 in Hxb by (rewrite Hp1; exact Hkl).
    rewrite Hyr in Hxr. rewrite Hyb in Hxb. inversion Hxr; inversion Hxb; subst.
    repeat split. unfold r; cbn [p_nrefs]. destruct (p_kind p) eqn:Ekp.
    + rewrite Hp2. cbn [app]. rewrite Hkq in Hq2. rewrite Hq2. reflexivity.
    + rewrite Hp2. cbn [app]. rewrite Hkq in Hq2. rewrite Hq2. reflexivity.
    + rewrite nth_error_app1 by (rewrite Hp2; exact Hkl). reflexivity.
  - pose proof (port_index_spec q (k - plen p) (conj Hq1 Hq2)) as Sq. cbn zeta in Sq.
    replace ((k - plen p <? - plen q) || (plen q <=? k - plen p)) with false in Sq by lia.
    replace (k - plen p <? 0) with false in Sq by lia.
    destruct Sq as (yr & yb & Hyr & Hyb & Hy & _). eexists. split; [exact Hy|]. cbn [p_refs p_nrefs p_inv].
    assert (Hkl : (length (p_refs p) <= Z.to_nat k)%nat) by (unfold plen, zlen in E; lia).
    assert (Hsub : Z.to_nat (k - plen p) = (Z.to_nat k - length (p_refs p))%nat) by (unfold plen, zlen; lia).
    rewrite nth_error_app2 in Hxr by exact Hkl. rewrite nth_error_app2 in Hxb by (rewrite Hp1; exact Hkl).
    rewrite Hp1 in Hxb. rewrite <- Hsub in Hxr, Hxb. rewrite Hyr in Hxr. rewrite Hyb in Hxb.
    inversion Hxr; inversion Hxb; subst. repeat split. unfold r; cbn [p_nrefs]. rewrite Hkq in Hq2.
    destruct (p_kind p) eqn:Ekp.
    + rewrite Hp2, Hq2. cbn [app]. destruct (Z.to_nat k), (Z.to_nat (k - plen p)); reflexivity.
    + rewrite Hp2, Hq2. cbn [app]. destruct (Z.to_nat k), (Z.to_nat (k - plen p)); reflexivity.
    + rewrite nth_error_app2 by (rewrite Hp2; exact Hkl). rewrite Hp2, <- Hsub. reflexivity.
Qed.

(* base ports never repeat a wire *)
Lemma base_refs_nodup b w : NoDup (base_refs b w).
Proof.
  unfold base_refs. generalize 0%nat as s. induction w as [|w IH]; intros s; cbn [seq map]; constructor.
  - intros Hin. apply in_map_iff in Hin. destruct Hin as (j & Hj & Hin). inversion Hj; subst.
    apply in_seq in Hin. lia.
  - apply IH.
Qed.

Lemma base_refs_length b w : length (base_refs b w) = w.
Proof. unfold base_refs. rewrite map_length, seq_length. reflexivity. Qed.

(* ================================================================== FFBuffer domains, independent buffers *)
Lemma ff_domains_spec bd idom odom :
  match ff_domains bd idom odom with
  | Ok (i, o) => (bd = DOut -> idom = None) /\ (bd = DIn -> odom = None) /\
                 i = (if dir_eqb bd DOut then None else Some (dom_default idom)) /\
                 o = (if dir_eqb bd DIn then None else Some (dom_default odom))
  | Err e => e = EValue /\ ((bd = DOut /\ idom <> None) \/ (bd = DIn /\ odom <> None))
  end.
Proof.
  unfold ff_domains. destruct bd, idom as [i|], odom as [o|]; cbn; repeat split; auto; try discriminate;
    try (left; split; [reflexivity|discriminate]); try (right; split; [reflexivity|discriminate]).
Qed.

Lemma ff_regs_spec bd pd idom odom d : ffbuffer_init bd pd idom odom = Ok d ->
  ff_regs d = ((if dir_eqb bd DIn then 0%nat else 1%nat, if dir_eqb bd DIn then None else Some (dom_default odom)),
               (if dir_eqb bd DOut then 0%nat else 1%nat, if dir_eqb bd DOut then None else Some (dom_default idom))).
Proof.
  unfold ffbuffer_init. pose proof (ff_domains_spec bd idom odom) as H.
  destruct (ff_domains bd idom odom) as [[i o]|]; [|discriminate]. cbn [bind].
  destruct (buffer_check bd pd); [|discriminate]. cbn [bind]. intros E; inversion E; subst d.
  destruct H as (_ & _ & -> & ->). unfold ff_regs. destruct bd; reflexivity.
Qed.

(* two buffers on ports without a common wire do not disturb each other, in either order *)
Lemma buffers_disjoint p1 p2 bd1 bd2 o1 oe1 o2 oe2 st :
  bd1 <> DIn -> bd2 <> DIn -> NoDup (p_refs p1) -> NoDup (p_refs p2) ->
  (forall r, In r (p_refs p1) -> ~ In r (p_refs p2)) ->
  let st12 := fst (buffer_comb bd2 p2 o2 oe2 (fst (buffer_comb bd1 p1 o1 oe1 st))) in
  let st21 := fst (buffer_comb bd1 p1 o1 oe1 (fst (buffer_comb bd2 p2 o2 oe2 st))) in
  (forall k r, nth_error (p_refs p1) k = Some r ->
     s_o st12 r = xorb (Z.testbit o1 (Z.of_nat k)) (nthb (p_inv p1) k) /\ s_oe st12 r = Z.odd oe1 /\
     s_o st21 r = s_o st12 r /\ s_oe st21 r = s_oe st12 r) /\
  (forall k r, nth_error (p_refs p2) k = Some r ->
     s_o st12 r = xorb (Z.testbit o2 (Z.of_nat k)) (nthb (p_inv p2) k) /\ s_oe st12 r = Z.odd oe2 /\
     s_o st21 r = s_o st12 r /\ s_oe st21 r = s_oe st12 r).
Proof.
  intros H1 H2 N1 N2 Hd st12 st21.
  destruct (buffer_out_bits p1 bd1 o1 oe1 st H1 N1) as (A1 & B1 & _).
  destruct (buffer_out_bits p2 bd2 o2 oe2 st H2 N2) as (A2 & B2 & _).
  destruct (buffer_out_bits p2 bd2 o2 oe2 (fst (buffer_comb bd1 p1 o1 oe1 st)) H2 N2) as (A12 & B12 & _).
  destruct (buffer_out_bits p1 bd1 o1 oe1 (fst (buffer_comb bd2 p2 o2 oe2 st)) H1 N1) as (A21 & B21 & _).
  fold st12 in A12, B12. fold st21 in A21, B21. split; intros k r Hk.
  - assert (Hn : ~ In r (p_refs p2)) by (apply Hd; eapply nth_error_In; eauto).
    destruct (B12 r Hn) as [E1 E2]. destruct (A1 k r Hk) as [E3 E4]. destruct (A21 k r Hk) as [E5 E6].
    rewrite E1, E2, E3, E4, E5, E6. auto.
  - assert (Hn : ~ In r (p_refs p1)).
    { intros Hin. apply (Hd r Hin). eapply nth_error_In; eauto. }
    destruct (B21 r Hn) as [E1 E2]. destruct (A2 k r Hk) as [E3 E4]. destruct (A12 k r Hk) as [E5 E6].
    rewrite E1, E2, E3, E4, E5, E6. auto.
Qed.

(* ================================================================== the simulator's LHS lowering *)
Section lval_induction.
  Variable P : lval -> Prop.
  Hypothesis Hsig : forall b w, P (LSig b w).
  Hypothesis Hslice : forall v lo hi, P v -> P (LSlice v lo hi).
  Hypothesis Hcat : forall ps, Forall P ps -> P (LCat ps).
  Fixpoint lval_ind2 (v : lval) : P v :=
    match v with
    | LSig b w => Hsig b w
    | LSlice v lo hi => Hslice v lo hi (lval_ind2 v)
    | LCat ps => Hcat ps ((fix go (ps : list lval) : Forall P ps :=
                             match ps with
                             | [] => Forall_nil P
                             | p :: r => Forall_cons p (lval_ind2 p) (go r)
                             end) ps)
    end.
End lval_induction.

(* all signal bits named anywhere in the tree (sliced away or not) *)
Fixpoint lv_leaves (v : lval) : list ref :=
  match v with
  | LSig b w => base_refs b w
  | LSlice v _ _ => lv_leaves v
  | LCat ps => (fix go (ps : list lval) : list ref :=
                  match ps with [] => [] | p :: r => lv_leaves p ++ go r end) ps
  end.
Definition alias_free (v : lval) : Prop := NoDup (lv_leaves v).
(* every Slice is taken of an operand that names no signal bit twice *)
Fixpoint slice_safe (v : lval) : Prop :=
  match v with
  | LSig _ _ => True
  | LSlice v _ _ => alias_free v
  | LCat ps => (fix go (ps : list lval) : Prop :=
                  match ps with [] => True | p :: r => slice_safe p /\ go r end) ps
  end.

Lemma lv_wires_cat p r : lv_wires (LCat (p :: r)) = lv_wires p ++ lv_wires (LCat r).
Proof. reflexivity. Qed.
Lemma lv_leaves_cat p r : lv_leaves (LCat (p :: r)) = lv_leaves p ++ lv_leaves (LCat r).
Proof. reflexivity. Qed.
Lemma slice_safe_cat p r : slice_safe (LCat (p :: r)) = (slice_safe p /\ slice_safe (LCat r)).
Proof. reflexivity. Qed.

Fixpoint cat_assign (st : bstate) (ps : list lval) (off : Z) (arg : Z) : bstate :=
  match ps with
  | [] => st
  | p :: r => cat_assign (lv_assign st p (Z.land (Z.ones (zlen (lv_wires p))) (Z.shiftr arg off)))
                         r (off + zlen (lv_wires p)) arg
  end.

Lemma cat_assign_eq arg ps : forall st off,
  (fix go (st : bstate) (ps : list lval) (off : Z) {struct ps} : bstate :=
     match ps with
     | [] => st
     | p :: r => go (lv_assign st p (Z.land (Z.ones (zlen (lv_wires p))) (Z.shiftr arg off)))
                    r (off + zlen (lv_wires p))
     end) st ps off = cat_assign st ps off arg.
Proof. induction ps as [|p r IH]; intros st off; [reflexivity|]. cbn [cat_assign]. rewrite <- IH. reflexivity. Qed.

Lemma lv_assign_cat st ps arg : lv_assign st (LCat ps) arg = cat_assign st ps 0 arg.
Proof. exact (cat_assign_eq arg ps st 0). Qed.

Definition st_eq (a b : bstate) : Prop := forall r, a r = b r.

Lemma upd_steq a b r v : st_eq a b -> st_eq (upd a r v) (upd b r v).
Proof. intros H x. unfold upd. destruct (ref_eqb r x); auto. Qed.

Lemma assign_cat_steq l : forall a b x, st_eq a b -> st_eq (assign_cat a l x) (assign_cat b l x).
Proof. induction l as [|r l IH]; intros a b x H; cbn [assign_cat]; auto. apply IH. apply upd_steq. exact H. Qed.

Lemma read_cat_steq l a b : st_eq a b -> read_cat a l = read_cat b l.
Proof. intros H. induction l as [|r l IH]; cbn [read_cat]; auto. rewrite IH, (H r). reflexivity. Qed.

Lemma assign_cat_app a : forall st b x,
  assign_cat st (a ++ b) x = assign_cat (assign_cat st a x) b (Z.shiftr x (zlen a)).
Proof.
  induction a as [|r a IH]; intros st b x; cbn [app assign_cat].
  - unfold zlen. cbn [length Z.of_nat]. rewrite Z.shiftr_0_r. reflexivity.
  - rewrite IH. f_equal. rewrite Z.div2_spec, Z.shiftr_shiftr by (unfold zlen; lia). f_equal.
    unfold zlen. cbn [length]. lia.
Qed.

Lemma in_firstn {A} (l : list A) : forall n x, In x (firstn n l) -> In x l.
Proof.
  induction l as [|y l IH]; intros n x H; destruct n; cbn [firstn] in H; try contradiction.
  destruct H as [->|H]; [left; auto|right; eapply IH; eauto].
Qed.

Lemma in_skipn {A} (l : list A) : forall n x, In x (skipn n l) -> In x l.
Proof.
  induction l as [|y l IH]; intros n x H; destruct n; cbn [skipn] in H; auto. right. eapply IH; eauto.
Qed.

Lemma nodup_firstn {A} (l : list A) : forall n, NoDup l -> NoDup (firstn n l).
Proof.
  induction l as [|x l IH]; intros n H; destruct n; cbn [firstn]; try constructor.
  - inversion H; subst. intros Hin. apply H2. eapply in_firstn; eauto.
  - inversion H; auto.
Qed.

Lemma nodup_skipn {A} (l : list A) : forall n, NoDup l -> NoDup (skipn n l).
Proof.
  induction l as [|x l IH]; intros n H; destruct n; cbn [skipn]; auto. inversion H; auto.
Qed.

Lemma lv_wires_sub v :
  (forall r, In r (lv_wires v) -> In r (lv_leaves v)) /\ (NoDup (lv_leaves v) -> NoDup (lv_wires v)).
Proof.
  induction v as [b w|v lo hi IH|ps IH] using lval_ind2.
  - split; auto.
  - destruct IH as [I1 I2]. cbn [lv_wires lv_leaves]. split.
    + intros r H. apply I1. eapply in_skipn. eapply in_firstn. exact H.
    + intros H. apply nodup_firstn, nodup_skipn. auto.
  - induction IH as [|p r [P1 P2] _ [R1 R2]].
    + split; [intros r []|intros _; constructor].
    + rewrite lv_wires_cat, lv_leaves_cat. split.
      * intros x H. apply in_app_or in H. apply in_or_app. destruct H; [left; auto|right; auto].
      * intros H. apply nodup_app_iff in H. destruct H as (Hp & Hr & Hd). apply nodup_app_iff.
        split; [auto|]. split; [auto|]. intros x Hx Hx'. apply (Hd x); auto.
Qed.

Lemma alias_free_cat p r : alias_free (LCat (p :: r)) -> alias_free p /\ alias_free (LCat r).
Proof. unfold alias_free. rewrite lv_leaves_cat. intros H. apply nodup_app_iff in H. tauto. Qed.

Lemma alias_free_safe v : alias_free v -> slice_safe v.
Proof.
  induction v as [b w|v lo hi IH|ps IH] using lval_ind2; intros H.
  - exact I.
  - exact H.
  - induction IH as [|p r Hp _ IHr]; [exact I|]. apply alias_free_cat in H. destruct H as [H1 H2].
    rewrite slice_safe_cat. split; auto.
Qed.

Lemma nth_error_firstn_lt {A} (l : list A) : forall n j,
  nth_error (firstn n l) j = if (j <? n)%nat then nth_error l j else None.
Proof.
  induction l as [|x l IH]; intros n j.
  - rewrite firstn_nil. destruct j; destruct (_ <? _)%nat; reflexivity.
  - destruct n; cbn [firstn].
    + destruct j; reflexivity.
    + destruct j; cbn [nth_error]; [reflexivity|]. rewrite IH.
      change (S j <? S n)%nat with (j <? n)%nat. reflexivity.
Qed.

Lemma nth_error_skipn_add {A} (l : list A) : forall lo j, nth_error (skipn lo l) j = nth_error l (lo + j).
Proof.
  induction l as [|x l IH]; intros lo j.
  - rewrite skipn_nil. destruct j, lo; reflexivity.
  - destruct lo; cbn [skipn Nat.add nth_error]; [reflexivity|apply IH].
Qed.

(* the read-modify-write of a Slice, on an operand without repeated wires, is the assignment to the slice *)
Lemma rmw_slice st W lo n x r : NoDup W ->
  assign_cat st W (Z.lor (Z.land (read_cat st W) (Z.lnot (Z.shiftl (Z.ones (Z.of_nat n)) (Z.of_nat lo))))
                         (Z.shiftl (Z.land (Z.ones (Z.of_nat n)) x) (Z.of_nat lo))) r
  = assign_cat st (firstn n (skipn lo W)) x r.
Proof.
  intros Hnd. set (sub := firstn n (skipn lo W)).
  assert (Hsub : forall j, nth_error sub j = if (j <? n)%nat then nth_error W (lo + j) else None).
  { intros j. unfold sub. rewrite nth_error_firstn_lt, nth_error_skipn_add. reflexivity. }
  assert (Hnds : NoDup sub) by (apply nodup_firstn, nodup_skipn; exact Hnd).
  destruct (in_dec ref_eq_dec r W) as [Hin|Hnin].
  - apply In_nth_error in Hin. destruct Hin as [k Hk].
    assert (Hklt : (k < length W)%nat) by (apply nth_error_Some; congruence).
    rewrite (assign_cat_nth W _ _ k r Hnd Hk).
    rewrite Z.lor_spec, Z.land_spec, Z.lnot_spec, !Z.shiftl_spec, Z.land_spec by lia.
    rewrite read_cat_bit by lia. rewrite Nat2Z.id, Hk.
    destruct (Nat.ltb_spec k lo) as [Hlo|Hlo].
    + (* below the slice *)
      rewrite !(Z.testbit_neg_r _ (Z.of_nat k - Z.of_nat lo)) by lia. cbn [negb andb orb].
      rewrite andb_true_r, orb_false_r. symmetry. apply assign_cat_other.
      intros Hin. apply In_nth_error in Hin. destruct Hin as [j Hj]. rewrite Hsub in Hj.
      destruct (j <? n)%nat; [|discriminate].
      assert (k = (lo + j)%nat); [|lia].
      apply (proj1 (NoDup_nth_error W) Hnd); [exact Hklt|congruence].
    + rewrite Z.testbit_ones_nonneg by lia.
      destruct (Z.ltb_spec (Z.of_nat k - Z.of_nat lo) (Z.of_nat n)) as [Hhi|Hhi].
      * (* inside the slice: position k - lo of the sub-list *)
        cbn [negb andb orb]. rewrite andb_false_r. cbn [orb].
        assert (Hj : nth_error sub (k - lo) = Some r).
        { rewrite Hsub. destruct (Nat.ltb_spec (k - lo) n); [|lia]. replace (lo + (k - lo))%nat with k by lia. exact Hk. }
        rewrite (assign_cat_nth sub _ _ (k - lo) r Hnds Hj). f_equal. lia.
      * cbn [negb andb orb]. rewrite andb_true_r, orb_false_r. symmetry. apply assign_cat_other.
        intros Hin. apply In_nth_error in Hin. destruct Hin as [j Hj]. rewrite Hsub in Hj.
        destruct (Nat.ltb_spec j n); [|discriminate].
        assert (k = (lo + j)%nat); [|lia].
        apply (proj1 (NoDup_nth_error W) Hnd); [exact Hklt|congruence].
  - rewrite !assign_cat_other; auto. intros Hin. apply Hnin. eapply in_skipn. eapply in_firstn. exact Hin.
Qed.

(* MAIN: the simulator's lowering equals the per-bit assignment whenever no Slice is taken of an operand that
   names a signal bit twice *)
Lemma lv_assign_flat v : slice_safe v -> forall st st' x, st_eq st st' ->
  st_eq (lv_assign st v x) (assign_cat st' (lv_wires v) x).
Proof.
  induction v as [b w|v lo hi IH|ps IH] using lval_ind2; intros Hs st st' x He.
  - cbn [lv_assign lv_wires]. apply assign_cat_steq. exact He.
  - cbn [slice_safe] in Hs. cbn [lv_assign lv_wires]. intros r.
    rewrite (IH (alias_free_safe v Hs) st st' _ He r). rewrite (read_cat_steq _ st st' He).
    apply rmw_slice. apply (proj2 (lv_wires_sub v)). exact Hs.
  - rewrite lv_assign_cat.
    assert (G : forall off, 0 <= off -> forall st st', st_eq st st' -> slice_safe (LCat ps) ->
                st_eq (cat_assign st ps off x) (assign_cat st' (lv_wires (LCat ps)) (Z.shiftr x off))).
    { clear st st' He Hs. induction IH as [|p r Hp _ IHr]; intros off Hoff st st' He Hs.
      - cbn [cat_assign lv_wires assign_cat]. exact He.
      - rewrite slice_safe_cat in Hs. destruct Hs as [Hsp Hsr]. cbn [cat_assign]. rewrite lv_wires_cat, assign_cat_app.
        rewrite Z.shiftr_shiftr by (unfold zlen; lia). apply IHr; [unfold zlen; lia| |exact Hsr].
        intros q. rewrite (Hp Hsp st st' _ He q).
        rewrite (assign_cat_ext (lv_wires p) st' _ (Z.shiftr x off)); [reflexivity|].
        intros k Hk. rewrite Z.land_spec, Z.ones_spec_low by (unfold zlen; lia). reflexivity. }
    intros q. rewrite (G 0 ltac:(lia) st st' He Hs q). rewrite Z.shiftr_0_r. reflexivity.
Qed.

(* the Value tree built by the port algebra names exactly the port's wires *)
Definition sim_env (env : list port) : Prop :=
  forall b p, nth_error env b = Some p -> p_refs p = base_refs b (length (p_refs p)).

Lemma firstn1_skipn_gen {A} (l : list A) n :
  firstn 1 (skipn n l) = match nth_error l n with Some x => [x] | None => [] end.
Proof.
  destruct (nth_error l n) as [x|] eqn:E; [apply firstn1_skipn; exact E|].
  apply nth_error_None in E. rewrite skipn_all2 by exact E. reflexivity.
Qed.

Lemma lv_bits_wires v idxs : Forall (fun i => 0 <= i) idxs ->
  lv_wires (LCat (map (lv_bit v) idxs)) = sel (lv_wires v) idxs.
Proof.
  induction 1 as [|i t Hi _ IH]; [reflexivity|]. cbn [map]. rewrite lv_wires_cat, IH. unfold sel at 2. cbn [flat_map].
  fold (sel (lv_wires v) t). f_equal. unfold lv_bit. cbn [lv_wires].
  replace (S (Z.to_nat i) - Z.to_nat i)%nat with 1%nat by lia. rewrite firstn1_skipn_gen.
  destruct (i <? 0) eqn:E; [lia|reflexivity].
Qed.

Lemma peval_lv_wires env : sim_env env -> Forall wf env -> forall e p,
  peval env e = Ok p -> lv_wires (peval_lv env e) = p_refs p.
Proof.
  intros Hsim Hwf. induction e as [b|e IH i|e IH k|a IHa b IHb|e IH]; intros p; cbn [peval peval_lv].
  - destruct (nth_error env b) as [q|] eqn:E; [|discriminate]. intros H; inversion H; subst q.
    cbn [lv_wires]. symmetry. apply Hsim. exact E.
  - destruct (peval env e) as [q|] eqn:Eq; [|discriminate]. cbn [bind]. intros H.
    specialize (IH q eq_refl). pose proof (peval_wf env Hwf e q Eq) as Hq.
    pose proof (port_index_spec q i Hq) as Hs. cbn zeta in Hs.
    destruct ((i <? - plen q) || (plen q <=? i)) eqn:Er; [congruence|].
    destruct Hs as (r & b & Hr & _ & Hp & _). rewrite Hp in H. inversion H; subst p. cbn [p_refs].
    unfold lv_index, lv_bit, lv_len. cbn [lv_wires]. rewrite IH. fold (plen q).
    match goal with |- firstn (S ?j - ?j) _ = _ => replace (S j - j)%nat with 1%nat by lia end.
    apply firstn1_skipn. exact Hr.
  - destruct (peval env e) as [q|] eqn:Eq; [|discriminate]. cbn [bind]. intros H.
    specialize (IH q eq_refl). pose proof (peval_wf env Hwf e q Eq) as Hq.
    pose proof (port_slice_spec q k Hq) as Hs. unfold lv_slice, lv_len. rewrite IH. fold (plen q).
    destruct (slice_indices (plen q) k) as [[[a b] s]|] eqn:Ek; [|congruence].
    destruct ((s =? 1) && (b <? a)) eqn:Er; [congruence|]. cbn zeta in Hs. destruct Hs as (Hp & _ & Hv & _).
    rewrite Hp in H. inversion H; subst p. cbn [p_refs].
    assert (H0 : 0 <= plen q) by (unfold plen, zlen; lia).
    destruct (slice_indices_bounds (plen q) k a b s H0 Ek) as (Hs0 & Hpos & _).
    destruct (Z.eqb_spec s 1) as [->|Hs1].
    + cbn [andb] in Er. destruct (Hpos ltac:(lia)) as [Ha Hb]. cbn [lv_wires]. rewrite IH.
      replace (Z.to_nat b - Z.to_nat a)%nat with (Z.to_nat (b - a)) by lia.
      apply slice_is_sel; [lia|]. unfold plen in Hb. lia.
    + rewrite lv_bits_wires, IH; [reflexivity|].
      eapply Forall_impl; [|exact Hv]. cbn beta. intros; lia.
  - destruct (peval env a) as [q1|] eqn:E1; [|discriminate]. destruct (peval env b) as [q2|] eqn:E2; [|discriminate].
    cbn [bind]. intros H. pose proof (port_add_spec q1 q2 (peval_wf env Hwf a q1 E1) (peval_wf env Hwf b q2 E2)) as Hs.
    destruct (negb (kind_eqb (p_kind q1) (p_kind q2))); [congruence|].
    destruct (dir_and (p_dir q1) (p_dir q2)); [|congruence]. destruct Hs as [Hp _]. rewrite Hp in H.
    inversion H; subst p. cbn [p_refs]. rewrite !lv_wires_cat, (IHa q1 eq_refl), (IHb q2 eq_refl).
    cbn [lv_wires]. rewrite app_nil_r. reflexivity.
  - destruct (peval env e) as [q|] eqn:Eq; [|discriminate]. cbn [bind]. intros H.
    destruct (port_invert_spec q (peval_wf env Hwf e q Eq)) as [Hp _]. rewrite Hp in H. inversion H; subst p.
    cbn [p_refs]. apply IH. reflexivity.
Qed.

Lemma loopback_steq l a b : st_eq (s_i a) (s_i b) -> st_eq (s_o a) (s_o b) -> st_eq (s_oe a) (s_oe b) ->
  loopback a l = loopback b l.
Proof. intros Hi Ho He. induction l as [|r l IH]; cbn [loopback]; auto. rewrite IH, (Hi r), (Ho r), (He r). reflexivity. Qed.

(* hence: the simulated Buffer is the per-bit Buffer of the theorems, unless a Slice is taken of an aliased port *)
Lemma buffer_comb_lv_flat bd p v o oe st : slice_safe v -> lv_wires v = p_refs p ->
  st_eq (s_i (fst (buffer_comb_lv bd p v o oe st))) (s_i (fst (buffer_comb bd p o oe st))) /\
  st_eq (s_o (fst (buffer_comb_lv bd p v o oe st))) (s_o (fst (buffer_comb bd p o oe st))) /\
  st_eq (s_oe (fst (buffer_comb_lv bd p v o oe st))) (s_oe (fst (buffer_comb bd p o oe st))) /\
  snd (buffer_comb_lv bd p v o oe st) = snd (buffer_comb bd p o oe st).
Proof.
  intros Hs Hw. unfold buffer_comb_lv, buffer_comb. rewrite <- Hw.
  assert (Hrefl : forall s : bstate, st_eq s s) by (intros s r; reflexivity).
  pose proof (fun s x => lv_assign_flat v Hs s s x (Hrefl s)) as Hf.
  destruct bd; cbn [fst snd s_i s_o s_oe]; (split; [apply Hrefl|]); (split; [try apply Hrefl; try apply Hf|]);
    (split; [try apply Hrefl; try apply Hf|]); try reflexivity.
  assert (Hl : forall a b, st_eq (s_i a) (s_i b) -> st_eq (s_o a) (s_o b) -> st_eq (s_oe a) (s_oe b) ->
               loopback a (lv_wires v) = loopback b (lv_wires v)) by (intros; apply loopback_steq; auto).
  rewrite (Hl _ (PS (s_i st) (assign_cat (s_o st) (lv_wires v)
                                 (if inv_mask (p_inv p) =? 0 then o else Z.lxor o (inv_mask (p_inv p))))
                    (assign_cat (s_oe st) (lv_wires v) (replicate_bit (length (lv_wires v)) (Z.odd oe)))));
    cbn [s_i s_o s_oe]; try reflexivity; try apply Hrefl; apply Hf.
Qed.

Definition is_sim (x : bdesc) : Prop := match x with BSim _ _ _ => True | _ => False end.

Lemma mk_env_from_sim xs : forall b0 env, Forall is_sim xs -> mk_env_from b0 xs = Ok env ->
  forall k p, nth_error env k = Some p -> p_refs p = base_refs (b0 + k) (length (p_refs p)).
Proof.
  induction xs as [|x r IH]; intros b0 env Hs; cbn [mk_env_from].
  - intros H; inversion H; subst. intros k p Hk. destruct k; discriminate.
  - inversion Hs as [|? ? Hx Hr]; subst. destruct (mk_base b0 x) as [q|] eqn:Eq; [|discriminate]. cbn [bind].
    destruct (mk_env_from (S b0) r) as [ps|] eqn:Er; [|discriminate]. cbn [bind]. intros H; inversion H; subst env.
    intros k p Hk. destruct k as [|k]; cbn [nth_error] in Hk.
    + inversion Hk; subst q. destruct x as [d w inv|d w inv|d w inv]; cbn in Hx; try contradiction.
      cbn [mk_base] in Eq. unfold mk_sim in Eq.
      destruct (Nat.eqb (length (norm_inv w inv)) w); [|discriminate]. inversion Eq; subst p. cbn [p_refs].
      rewrite base_refs_length, Nat.add_0_r. reflexivity.
    + replace (b0 + S k)%nat with (S b0 + k)%nat by lia. apply (IH (S b0) ps Hr Er k p Hk).
Qed.

Lemma mk_env_sim_env bds env : Forall is_sim bds -> mk_env bds = Ok env -> sim_env env.
Proof. intros Hs He b p Hb. apply (mk_env_from_sim bds 0%nat env Hs He b p Hb). Qed.

(* ProcessP.v — C02: statements execute as "last active assignment wins, per bit"; the commit masks of
   comb/sync processes cover every assignable bit. *)
From Coq Require Import ZArith List Bool Lia ZifyBool.
From V.Model Require Import Bits Shape Ast Denote PyRTL PyEval Stmt Process.
From V.Proofs Require Import BitsP ShapeP ExprP StmtP.
Import ListNotations.
Open Scope Z_scope.

(* ---------- induction principle for statements ---------- *)
Section stmt_ind'.
  Variable P : stmt -> Prop.
  Hypothesis Has : forall l r, P (SAssign l r).
  Hypothesis Hsw : forall t cs, Forall (fun c => Forall P (snd c)) cs -> P (SSwitch t cs).
  Fixpoint stmt_ind' (s : stmt) : P s :=
    match s with
    | SAssign l r => Has l r
    | SSwitch t cs =>
        Hsw t cs ((fix go (cs : list (option (list pattern) * list stmt)) : Forall (fun c => Forall P (snd c)) cs :=
                     match cs with
                     | [] => Forall_nil _
                     | c :: cs' => Forall_cons _ ((fix run (ss : list stmt) : Forall P ss :=
                                                     match ss with
                                                     | [] => Forall_nil _
                                                     | s' :: ss' => Forall_cons _ (stmt_ind' s') (run ss')
                                                     end) (snd c)) (go cs')
                     end) cs)
    end.
End stmt_ind'.

(* well-formed statements: assignable linear targets, well-formed right-hand sides and tests *)
Fixpoint wf_stmt (s : stmt) : bool :=
  match s with
  | SAssign l r => wf_lhs l && lin l && wf_expr r
  | SSwitch t cs =>
      wf_expr t &&
      forallb (fun c => forallb wf_stmt (snd c) &&
                 match fst c with None => true | Some ps => forallb (pattern_ok (ewidth t)) ps end) cs
  end.

(* everything a statement reads is normalised in curr; every target signal carries its declared shape *)
Fixpoint stmt_ok (ss : nat -> shape) (curr : env) (s : stmt) : Prop :=
  match s with
  | SAssign l r => sig_ok ss l /\ sel_ok curr l /\ env_ok curr r
  | SSwitch t cs =>
      env_ok curr t /\
      (fix go (cs : list (option (list pattern) * list stmt)) : Prop :=
         match cs with
         | [] => True
         | c :: cs' => (fix run (l : list stmt) : Prop :=
                          match l with [] => True | s' :: l' => stmt_ok ss curr s' /\ run l' end) (snd c) /\ go cs'
         end) cs
  end.

Lemma stmt_ok_sw ss curr t cs : stmt_ok ss curr (SSwitch t cs) <->
  env_ok curr t /\ Forall (fun c => Forall (stmt_ok ss curr) (snd c)) cs.
Proof.
  simpl. apply and_iff_compat_l. induction cs as [|c cs IH]; simpl; [split; auto|]. rewrite IH.
  assert (Hrun : forall l, (fix run (l : list stmt) : Prop :=
             match l with [] => True | s' :: l' => stmt_ok ss curr s' /\ run l' end) l <-> Forall (stmt_ok ss curr) l).
  { induction l as [|x l IHl]; simpl; [split; auto|]. rewrite IHl.
    split; [intros [H1 H2]; constructor; auto|intros H; inversion H; auto]. }
  rewrite Hrun. split; [intros [H1 H2]; constructor; auto|intros H; inversion H; auto].
Qed.

(* ---------- SPEC: the active assignments of a statement, in program order ---------- *)
Fixpoint active (curr : env) (s : stmt) : list (expr * expr) :=
  match s with
  | SAssign l r => [(l, r)]
  | SSwitch t cs =>
      let tv := (denote curr t) mod 2 ^ ewidth t in
      (fix go (cs : list (option (list pattern) * list stmt)) : list (expr * expr) :=
         match cs with
         | [] => []
         | c :: cs' => if case_sem tv (fst c)
                       then (fix run (l : list stmt) : list (expr * expr) :=
                               match l with [] => [] | s' :: l' => active curr s' ++ run l' end) (snd c)
                       else go cs'
         end) cs
  end.

Definition active_list (curr : env) (l : list stmt) : list (expr * expr) := flat_map (active curr) l.

Definition do_assign (curr : env) (nx : env) (a : expr * expr) : env :=
  assign_rtl curr (fst a) (rsign (shape_of (snd a)) (eval_rtl curr (snd a))) nx.

Lemma exec_run_fold curr (l : list stmt) nx :
  (fix run (ss : list stmt) (nx : env) : env :=
     match ss with [] => nx | s' :: ss' => run ss' (exec_rtl curr s' nx) end) l nx
  = exec_rtl_list curr l nx.
Proof. revert nx. induction l as [|s l IH]; intros nx; simpl; auto. Qed.

Lemma active_run_flat curr (l : list stmt) :
  (fix run (l : list stmt) : list (expr * expr) :=
     match l with [] => [] | s' :: l' => active curr s' ++ run l' end) l = active_list curr l.
Proof. induction l as [|s l IH]; simpl; [reflexivity|]. rewrite IH. reflexivity. Qed.

(* the compiled statement = the active assignments performed in order *)
Theorem exec_rtl_active curr s : wf_stmt s = true -> (exists ss, stmt_ok ss curr s) ->
  forall nx, exec_rtl curr s nx = fold_left (do_assign curr) (active curr s) nx.
Proof.
  induction s as [l r|t cs IH] using stmt_ind'; intros Hwf [ss Hok] nx.
  - reflexivity.
  - simpl in Hwf. apply andb_prop in Hwf. destruct Hwf as [Hwt Hwcs].
    apply stmt_ok_sw in Hok. destruct Hok as [Het Hok].
    destruct (test_value curr t Hwt Het) as (Htv & Htr & _ & Hwtn).
    simpl exec_rtl. simpl active. rewrite Htv. set (tv := denote curr t mod 2 ^ ewidth t) in *.
    rewrite forallb_forall in Hwcs. rewrite Forall_forall in IH, Hok.
    set (um := use_match (map fst cs)).
    assert (Hgo : forall cs', (forall c, In c cs' -> In c cs) ->
      (fix go (cs : list (option (list pattern) * list stmt)) : env :=
         match cs with
         | [] => nx
         | c :: cs' =>
             if rtl_case_match um tv (fst c)
             then (fix run (ss : list stmt) (nx : env) : env :=
                     match ss with [] => nx | s' :: ss' => run ss' (exec_rtl curr s' nx) end) (snd c) nx
             else go cs'
         end) cs' =
      fold_left (do_assign curr)
        ((fix go (cs : list (option (list pattern) * list stmt)) : list (expr * expr) :=
            match cs with
            | [] => []
            | c :: cs' => if case_sem tv (fst c)
                          then (fix run (l : list stmt) : list (expr * expr) :=
                                  match l with [] => [] | s' :: l' => active curr s' ++ run l' end) (snd c)
                          else go cs'
            end) cs') nx).
    { induction cs' as [|c cs' IHc]; intros Hsub; [reflexivity|].
      assert (Hin : In c cs) by (apply Hsub; left; auto).
      pose proof (Hwcs c Hin) as Hwc. apply andb_prop in Hwc. destruct Hwc as [Hwb Hpat].
      rewrite (rtl_case_match_sem um tv (ewidth t)); auto.
      - destruct (case_sem tv (fst c)).
        + rewrite exec_run_fold, active_run_flat.
          pose proof (IH c Hin) as IHb. pose proof (Hok c Hin) as Hokb.
          rewrite forallb_forall in Hwb. rewrite Forall_forall in IHb, Hokb.
          clear -IHb Hokb Hwb. revert nx. induction (snd c) as [|s l IHl]; intros nx; [reflexivity|].
          simpl. unfold active_list. simpl. rewrite fold_left_app.
          rewrite (IHb s (or_introl eq_refl) (Hwb s (or_introl eq_refl)) (ex_intro _ ss (Hokb s (or_introl eq_refl)))).
          apply IHl; [intros x Hx; apply Hwb; right; auto | intros x Hx; apply IHb; right; auto | intros x Hx; apply Hokb; right; auto].
        + apply IHc. intros x Hx; apply Hsub; right; auto.
      - destruct (fst c) as [ps|]; [|exact I]. apply Forall_forall. intros p Hp.
        rewrite forallb_forall in Hpat. specialize (Hpat p Hp). unfold pattern_ok in Hpat. lia.
      - intros Hum. apply (use_match_in (map fst cs)); auto. apply in_map; auto. }
    apply Hgo; auto.
Qed.

Lemma exec_rtl_list_active curr l : forallb wf_stmt l = true -> (exists ss, Forall (stmt_ok ss curr) l) ->
  forall nx, exec_rtl_list curr l nx = fold_left (do_assign curr) (active_list curr l) nx.
Proof.
  intros Hwf [ss Hok]. induction l as [|s l IH]; intros nx; [reflexivity|].
  simpl in Hwf. apply andb_prop in Hwf. destruct Hwf as [Hs Hl]. inversion Hok; subst.
  unfold exec_rtl_list, active_list. simpl. rewrite fold_left_app.
  rewrite exec_rtl_active by (auto; eexists; eauto). apply IH; auto.
Qed.

(* ---------- last active assignment wins, per bit ---------- *)
(* the last assignment in the list whose target addresses bit b of signal i, with the position *)
Fixpoint last_writer (curr : env) (al : list (expr * expr)) (i : nat) (b : Z) : option (Z * expr) :=
  match al with
  | [] => None
  | a :: al' =>
      match last_writer curr al' i b with
      | Some x => Some x
      | None => match wr curr (fst a) i b with Some k => Some (k, snd a) | None => None end
      end
  end.

Definition assign_ok (ss : nat -> shape) (curr : env) (a : expr * expr) : Prop :=
  wf_lhs (fst a) = true /\ lin (fst a) = true /\ wf_expr (snd a) = true /\
  sig_ok ss (fst a) /\ sel_ok curr (fst a) /\ env_ok curr (snd a).

Theorem last_wins ss curr al : Forall (assign_ok ss curr) al ->
  forall nx i b, 0 <= b < width (ss i) ->
  Z.testbit (fold_left (do_assign curr) al nx i) b =
  match last_writer curr al i b with
  | Some (k, r) => Z.testbit (denote curr r) k      (* bit k of the RHS's own integer value: sign/zero extension *)
  | None => Z.testbit (nx i) b
  end.
Proof.
  induction al as [|a al IH]; intros HF nx i b Hb; [reflexivity|].
  pose proof (Forall_inv HF) as Ha; pose proof (Forall_inv_tail HF) as HF'.
  simpl. rewrite IH by auto. destruct (last_writer curr al i b) as [[k r]|]; [reflexivity|].
  destruct Ha as (H1 & H2 & H3 & H4 & H5 & H6). unfold do_assign.
  rewrite (assign_rtl_bits ss) by auto.
  destruct (wr curr (fst a) i b); [|reflexivity].
  rewrite rsign_norm by (apply wf_shape_of; auto). rewrite rtl_correct by auto. reflexivity.
Qed.

(* ---------- the commit masks cover every assignable bit ---------- *)
Lemma mm_or_bit m i v j b : Z.testbit (mm_or m i v j) b = if Nat.eqb j i then Z.testbit (m j) b || Z.testbit v b else Z.testbit (m j) b.
Proof. unfold mm_or. destruct (Nat.eqb j i); [apply Z.lor_spec|reflexivity]. Qed.

Lemma lhs_mask_mono lhs : forall mask acc i b, Z.testbit (acc i) b = true -> Z.testbit (lhs_mask lhs mask acc i) b = true.
Proof.
  induction lhs as [v s|j s|o a IHa|o a b0 IHa IHb|a lo hi IHa|a off w st IHa IHoff|l IH|t cs IHt IHcs]
    using expr_ind'; intros mask acc i b H; simpl; auto.
  - rewrite mm_or_bit. destruct (Nat.eqb i j); [rewrite H; reflexivity|auto].
  - destruct o; auto.
  - rewrite Forall_forall in IH.
    assert (Hgo : forall ps mask acc, (forall p, In p ps -> In p l) -> Z.testbit (acc i) b = true ->
      Z.testbit ((fix go (ps : list expr) (mask : Z) (acc : maskmap) : maskmap :=
         match ps with [] => acc
         | p :: ps' => go ps' (Z.shiftr mask (ewidth p)) (lhs_mask p mask acc)
         end) ps mask acc i) b = true).
    { induction ps as [|p ps IHps]; intros mask0 acc0 Hsub H0; auto.
      apply IHps; [intros x Hx; apply Hsub; right; auto|]. apply IH; auto. apply Hsub; left; auto. }
    apply Hgo; auto.
  - rewrite Forall_forall in IHcs.
    assert (Hgo : forall cs' acc, (forall c, In c cs' -> In c cs) -> Z.testbit (acc i) b = true ->
      Z.testbit ((fix go (cs : list (option (list pattern) * expr)) (acc : maskmap) : maskmap :=
         match cs with [] => acc | c :: cs' => go cs' (lhs_mask (snd c) mask acc) end) cs' acc i) b = true).
    { induction cs' as [|c cs' IHc]; intros acc0 Hsub H0; auto.
      apply IHc; [intros x Hx; apply Hsub; right; auto|]. apply IHcs; auto. apply Hsub; left; auto. }
    apply Hgo; auto.
Qed.

Lemma lhs_mask_covers curr lhs : wf_lhs lhs = true -> sel_ok curr lhs ->
  forall mask acc i b k, wr curr lhs i b = Some k -> Z.testbit mask k = true -> 0 <= b ->
  Z.testbit (lhs_mask lhs mask acc i) b = true.
Proof.
  induction lhs as [v s|j s|o a IHa|o a b0 IHa IHb|a lo hi IHa|a off w st IHa IHoff|l IH|t cs IHt IHcs]
    using expr_ind'; intros Hwf Hsel mask acc i b k Hwr Hm Hb; simpl in Hwf; try discriminate.
  - simpl in Hwr. destruct (Nat.eqb j i) eqn:E; simpl in Hwr; [|discriminate]. apply Nat.eqb_eq in E. subst j.
    destruct ((0 <=? b) && (b <? width s)) eqn:E2; [|discriminate]. injection Hwr as <-.
    simpl. rewrite mm_or_bit, Nat.eqb_refl. rewrite Z.land_spec, Hm. rewrite Z.shiftl_1_l.
    replace (2 ^ width s - 1) with (Z.ones (width s)) by (rewrite Z.ones_equiv; lia).
    rewrite Z.testbit_ones_nonneg by lia. replace (b <? width s) with true by lia. simpl. apply orb_true_r.
  - destruct o; try discriminate; apply andb_prop in Hwf; destruct Hwf as [H1 H2]; simpl in *; eauto.
  - repeat (apply andb_prop in Hwf; destruct Hwf as [Hwf ?]). simpl in Hwr, Hsel.
    destruct (wr curr a i b) as [k'|] eqn:E; [|discriminate].
    destruct ((lo <=? k') && (k' <? hi)) eqn:E2; [|discriminate]. injection Hwr as <-.
    simpl. eapply IHa; eauto.
    rewrite Z.land_spec, Z.shiftl_spec, Hm, testbit_range_mask by lia. simpl. lia.
  - repeat (apply andb_prop in Hwf; destruct Hwf as [Hwf ?]). simpl in Hwr, Hsel. destruct Hsel as [Hsa _].
    destruct (wr curr a i b) as [k'|] eqn:E; [|discriminate].
    pose proof (wr_range curr a Hwf Hsa i b k' E).
    simpl. eapply IHa; eauto. apply Z.bits_m1; lia.
  - apply sel_ok_cat in Hsel. rewrite forallb_forall in Hwf. rewrite Forall_forall in IH, Hsel.
    simpl in Hwr. simpl lhs_mask.
    assert (Hgo : forall ps offset mask acc k, (forall p, In p ps -> In p l) -> 0 <= offset ->
      (fix go (ps : list expr) (offset : Z) : option Z :=
         match ps with [] => None
         | p :: ps' => match wr curr p i b with Some k => Some (k + offset) | None => go ps' (offset + ewidth p) end
         end) ps offset = Some k ->
      Z.testbit mask (k - offset) = true ->
      Z.testbit ((fix go (ps : list expr) (mask : Z) (acc : maskmap) : maskmap :=
         match ps with [] => acc
         | p :: ps' => go ps' (Z.shiftr mask (ewidth p)) (lhs_mask p mask acc)
         end) ps mask acc i) b = true).
    { induction ps as [|p ps IHps]; intros offset mask0 acc0 k0 Hsub Hoff Hg Hm0; [discriminate|].
      assert (Hin : In p l) by (apply Hsub; left; auto).
      pose proof (ewidth_nonneg p (Hwf p Hin)) as Hpw.
      destruct (wr curr p i b) as [k'|] eqn:E.
      - injection Hg as <-. replace (k' + offset - offset) with k' in Hm0 by lia.
        assert (Z.testbit (lhs_mask p mask0 acc0 i) b = true) as Hp by (eapply IH; eauto).
        clear -Hp. revert Hp. generalize (Z.shiftr mask0 (ewidth p)) (lhs_mask p mask0 acc0).
        induction ps as [|q ps IHq]; intros m a Hp; auto. apply IHq. apply lhs_mask_mono; auto.
      - apply (IHps (offset + ewidth p) _ _ k0); auto; try lia.
        + intros x Hx; apply Hsub; right; auto.
        + assert (offset + ewidth p <= k0).
          { clear -Hg Hwf Hsel Hsub Hpw Hoff.
            assert (forall ps' o, (fix go (ps : list expr) (offset : Z) : option Z :=
               match ps with [] => None
               | p :: ps' => match wr curr p i b with Some k => Some (k + offset) | None => go ps' (offset + ewidth p) end
               end) ps' o = Some k0 -> (forall q, In q ps' -> In q l) -> 0 <= o -> o <= k0) as Hlow.
            { induction ps' as [|q ps' IHq]; intros o' Hg' Hs' Ho'; [discriminate|].
              destruct (wr curr q i b) as [kq|] eqn:Eq.
              - injection Hg' as <-. pose proof (wr_range curr q (Hwf q (Hs' q (or_introl eq_refl))) (Hsel q (Hs' q (or_introl eq_refl))) i b kq Eq). lia.
              - pose proof (ewidth_nonneg q (Hwf q (Hs' q (or_introl eq_refl)))).
                specialize (IHq (o' + ewidth q) Hg' ltac:(intros x Hx; apply Hs'; right; auto) ltac:(lia)). lia. }
            apply (Hlow ps (offset + ewidth p) Hg); [intros x Hx; apply Hsub; right; auto|lia]. }
          rewrite Z.shiftr_spec by lia. replace (k0 - (offset + ewidth p) + ewidth p) with (k0 - offset) by lia. auto. }
    eapply (Hgo l 0 mask acc k); eauto; try lia. rewrite Z.sub_0_r. auto.
  - apply andb_prop in Hwf. destruct Hwf as [Hwt Hwcs]. apply sel_ok_sw in Hsel. destruct Hsel as [Het Hsel].
    rewrite forallb_forall in Hwcs. rewrite Forall_forall in IHcs, Hsel. simpl in Hwr. simpl lhs_mask.
    assert (Hgo : forall cs' acc, (forall c, In c cs' -> In c cs) ->
      (fix go (cs : list (option (list pattern) * expr)) : option Z :=
         match cs with [] => None
         | c :: cs' => if case_sem (denote curr t mod 2 ^ ewidth t) (fst c) then wr curr (snd c) i b else go cs'
         end) cs' = Some k ->
      Z.testbit ((fix go (cs : list (option (list pattern) * expr)) (acc : maskmap) : maskmap :=
         match cs with [] => acc | c :: cs' => go cs' (lhs_mask (snd c) mask acc) end) cs' acc i) b = true).
    { induction cs' as [|c cs' IHc]; intros acc0 Hsub Hg; [discriminate|].
      assert (Hin : In c cs) by (apply Hsub; left; auto).
      pose proof (Hwcs c Hin) as Hwc. apply andb_prop in Hwc. destruct Hwc as [Hwc _].
      destruct (case_sem _ (fst c)).
      - assert (Z.testbit (lhs_mask (snd c) mask acc0 i) b = true) as Hp by (eapply IHcs; eauto).
        clear -Hp. revert Hp. generalize (lhs_mask (snd c) mask acc0).
        induction cs' as [|q cs' IHq]; intros a Hp; auto. apply IHq. apply lhs_mask_mono; auto.
      - apply IHc; auto. intros x Hx; apply Hsub; right; auto. }
    eapply Hgo; eauto.
Qed.

Lemma stmt_mask_mono s : forall acc i b, Z.testbit (acc i) b = true -> Z.testbit (stmt_mask s acc i) b = true.
Proof.
  induction s as [l r|t cs IH] using stmt_ind'; intros acc i b H; simpl.
  - apply lhs_mask_mono; auto.
  - rewrite Forall_forall in IH.
    assert (Hgo : forall cs' acc, (forall c, In c cs' -> In c cs) -> Z.testbit (acc i) b = true ->
      Z.testbit ((fix go (cs : list (option (list pattern) * list stmt)) (acc : maskmap) : maskmap :=
         match cs with
         | [] => acc
         | c :: cs' => go cs' ((fix run (ss : list stmt) (acc : maskmap) : maskmap :=
                                  match ss with [] => acc | s' :: ss' => run ss' (stmt_mask s' acc) end) (snd c) acc)
         end) cs' acc i) b = true).
    { induction cs' as [|c cs' IHc]; intros acc0 Hsub H0; auto.
      apply IHc; [intros x Hx; apply Hsub; right; auto|].
      pose proof (IH c (Hsub c (or_introl eq_refl))) as IHb. rewrite Forall_forall in IHb.
      clear -IHb H0. revert acc0 H0. induction (snd c) as [|s l IHl]; intros acc0 H0; auto.
      apply IHl; [intros x Hx; apply IHb; right; auto|]. apply IHb; auto. left; auto. }
    apply Hgo; auto.
Qed.

Lemma stmts_fold_mono (l : list stmt) : forall acc i b, Z.testbit (acc i) b = true ->
  Z.testbit (fold_left (fun acc s => stmt_mask s acc) l acc i) b = true.
Proof. induction l as [|s l IH]; intros acc i b H; simpl; auto. apply IH. apply stmt_mask_mono; auto. Qed.

(* every bit that some (active or inactive) assignment of the statement can address is in the mask *)
Lemma stmt_mask_covers ss curr s : wf_stmt s = true -> stmt_ok ss curr s ->
  forall acc a i b k, In a (active curr s) -> wr curr (fst a) i b = Some k -> 0 <= b ->
  Z.testbit (stmt_mask s acc i) b = true.
Proof.
  induction s as [l r|t cs IH] using stmt_ind'; intros Hwf Hok acc a i b k Hin Hwr Hb.
  - simpl in Hin. destruct Hin as [<-|[]]. simpl in Hwr, Hwf, Hok.
    apply andb_prop in Hwf. destruct Hwf as [Hwf _]. apply andb_prop in Hwf. destruct Hwf as [Hwl _].
    simpl. eapply lhs_mask_covers; eauto; try tauto.
    pose proof (wr_range curr l Hwl ltac:(tauto) i b k Hwr). apply Z.bits_m1; lia.
  - simpl in Hwf. apply andb_prop in Hwf. destruct Hwf as [Hwt Hwcs].
    apply stmt_ok_sw in Hok. destruct Hok as [Het Hok].
    rewrite forallb_forall in Hwcs. rewrite Forall_forall in IH, Hok. simpl in Hin. simpl stmt_mask.
    assert (Hgo : forall cs' acc, (forall c, In c cs' -> In c cs) ->
      In a ((fix go (cs : list (option (list pattern) * list stmt)) : list (expr * expr) :=
            match cs with
            | [] => []
            | c :: cs' => if case_sem (denote curr t mod 2 ^ ewidth t) (fst c)
                          then (fix run (l : list stmt) : list (expr * expr) :=
                                  match l with [] => [] | s' :: l' => active curr s' ++ run l' end) (snd c)
                          else go cs'
            end) cs') ->
      Z.testbit ((fix go (cs : list (option (list pattern) * list stmt)) (acc : maskmap) : maskmap :=
         match cs with
         | [] => acc
         | c :: cs' => go cs' ((fix run (ss : list stmt) (acc : maskmap) : maskmap :=
                                  match ss with [] => acc | s' :: ss' => run ss' (stmt_mask s' acc) end) (snd c) acc)
         end) cs' acc i) b = true).
    { induction cs' as [|c cs' IHc]; intros acc0 Hsub Hina; [destruct Hina|].
      assert (Hinc : In c cs) by (apply Hsub; left; auto).
      destruct (case_sem _ (fst c)).
      - (* a is in the body of c; later cases only add bits *)
        assert (Hbody : Z.testbit ((fix run (ss : list stmt) (acc : maskmap) : maskmap :=
                   match ss with [] => acc | s' :: ss' => run ss' (stmt_mask s' acc) end) (snd c) acc0 i) b = true).
        { rewrite active_run_flat in Hina. unfold active_list in Hina. apply in_flat_map in Hina.
          destruct Hina as (s0 & Hs0 & Ha0).
          pose proof (IH c Hinc) as IHb. pose proof (Hok c Hinc) as Hokb.
          pose proof (Hwcs c Hinc) as Hwc. apply andb_prop in Hwc. destruct Hwc as [Hwb _].
          rewrite forallb_forall in Hwb. rewrite Forall_forall in IHb, Hokb.
          clear -IHb Hokb Hwb Hs0 Ha0 Hwr Hb. revert acc0. induction (snd c) as [|s l IHl]; intros acc0; [destruct Hs0|].
          destruct Hs0 as [->|Hs0].
          - assert (Z.testbit (stmt_mask s0 acc0 i) b = true) as H1.
            { eapply (IHb s0 (or_introl eq_refl)); eauto; [apply Hwb|apply Hokb]; left; auto. }
            clear -H1. revert H1. generalize (stmt_mask s0 acc0). induction l as [|q l IHq]; intros m H1; auto.
            apply IHq. apply stmt_mask_mono; auto.
          - apply IHl; auto; intros x Hx; [apply IHb|apply Hokb|apply Hwb]; right; auto. }
        clear -Hbody. revert Hbody.
        generalize ((fix run (ss : list stmt) (acc : maskmap) : maskmap :=
                   match ss with [] => acc | s' :: ss' => run ss' (stmt_mask s' acc) end) (snd c) acc0).
        induction cs' as [|q cs' IHq]; intros m Hm; auto. apply IHq.
        clear -Hm. revert m Hm. induction (snd q) as [|s l IHl]; intros m Hm; auto. apply IHl. apply stmt_mask_mono; auto.
      - apply IHc; auto. intros x Hx; apply Hsub; right; auto. }
    apply Hgo; auto.
Qed.

Lemma stmts_mask_covers ss curr (l : list stmt) : forallb wf_stmt l = true -> Forall (stmt_ok ss curr) l ->
  forall a i b k, In a (active_list curr l) -> wr curr (fst a) i b = Some k -> 0 <= b ->
  Z.testbit (stmts_mask l i) b = true.
Proof.
  unfold stmts_mask. generalize (fun _ : nat => 0) as acc.
  induction l as [|s l IH]; intros acc Hwf Hok a i b k Hin Hwr Hb; [destruct Hin|].
  simpl in Hwf. apply andb_prop in Hwf. destruct Hwf as [Hs Hl].
  pose proof (Forall_inv Hok) as Hoks; pose proof (Forall_inv_tail Hok) as Hokl.
  unfold active_list in Hin. simpl in Hin. apply in_app_or in Hin. simpl.
  destruct Hin as [Hin|Hin].
  - apply stmts_fold_mono. eapply stmt_mask_covers; eauto.
  - eapply IH; eauto.
Qed.

Lemma last_writer_in curr al i b k r : last_writer curr al i b = Some (k, r) ->
  exists a, In a al /\ wr curr (fst a) i b = Some k /\ snd a = r.
Proof.
  induction al as [|a al IH]; simpl; [discriminate|].
  destruct (last_writer curr al i b) as [x|] eqn:E.
  - intros H. injection H as ->. destruct (IH eq_refl) as (a' & Hin & H1 & H2). exists a'; auto.
  - destruct (wr curr (fst a) i b) as [k'|] eqn:E2; [|discriminate]. intros H. injection H as <- <-.
    exists a; auto.
Qed.

(* ---------- the comb and sync processes ---------- *)
Lemma testbit_slot_update old value mask b : Z.testbit (slot_update old value mask) b =
  if Z.testbit mask b then Z.testbit value b else Z.testbit old b.
Proof.
  unfold slot_update. destruct (Z_lt_le_dec b 0); [rewrite !Z.testbit_neg_r by lia; reflexivity|].
  rewrite Z.lor_spec, !Z.land_spec, Z.lnot_spec by lia. destruct (Z.testbit mask b); simpl.
  - rewrite andb_false_r, andb_true_r. reflexivity.
  - rewrite andb_true_r, andb_false_r. apply orb_false_r.
Qed.

Lemma testbit_update_mask s m b : wf_shape s = true -> 0 <= b < width s ->
  Z.testbit (update_mask s m) b = Z.testbit m b.
Proof.
  intros Hwf Hb. unfold update_mask. destruct (sgn s && Z.testbit m (width s - 1)); [|reflexivity].
  rewrite Z.lor_spec, shiftl_m1 by lia. rewrite testbit_neg_pow2 by lia.
  replace (width s <=? b) with false by lia. apply orb_false_r.
Qed.

Definition design_ok (ss : nat -> shape) (tab : sigtab) : Prop :=
  forall i, sd_shape (tab i) = ss i /\ wf_shape (ss i) = true.

Lemma active_assign_ok ss curr s : wf_stmt s = true -> stmt_ok ss curr s ->
  Forall (assign_ok ss curr) (active curr s).
Proof.
  induction s as [l r|t cs IH] using stmt_ind'; intros Hwf Hok.
  - simpl in *. apply andb_prop in Hwf. destruct Hwf as [Hwf H3]. apply andb_prop in Hwf. destruct Hwf as [H1 H2].
    constructor; [|constructor]. unfold assign_ok; simpl. tauto.
  - simpl in Hwf. apply andb_prop in Hwf. destruct Hwf as [Hwt Hwcs].
    apply stmt_ok_sw in Hok. destruct Hok as [Het Hok].
    rewrite forallb_forall in Hwcs. rewrite Forall_forall in IH, Hok. simpl active.
    assert (Hgo : forall cs', (forall c, In c cs' -> In c cs) ->
      Forall (assign_ok ss curr)
        ((fix go (cs : list (option (list pattern) * list stmt)) : list (expr * expr) :=
            match cs with
            | [] => []
            | c :: cs' => if case_sem (denote curr t mod 2 ^ ewidth t) (fst c)
                          then (fix run (l : list stmt) : list (expr * expr) :=
                                  match l with [] => [] | s' :: l' => active curr s' ++ run l' end) (snd c)
                          else go cs'
            end) cs')).
    { induction cs' as [|c cs' IHc]; intros Hsub; [constructor|].
      assert (Hinc : In c cs) by (apply Hsub; left; auto).
      destruct (case_sem _ (fst c)).
      - rewrite active_run_flat. unfold active_list.
        pose proof (IH c Hinc) as IHb. pose proof (Hok c Hinc) as Hokb.
        pose proof (Hwcs c Hinc) as Hwc. apply andb_prop in Hwc. destruct Hwc as [Hwb _].
        rewrite forallb_forall in Hwb. rewrite Forall_forall in IHb, Hokb.
        apply Forall_forall. intros a Ha. apply in_flat_map in Ha. destruct Ha as (s0 & Hs0 & Ha0).
        pose proof (IHb s0 Hs0 (Hwb s0 Hs0) (Hokb s0 Hs0)) as HF. rewrite Forall_forall in HF. auto.
      - apply IHc. intros x Hx; apply Hsub; right; auto. }
    apply Hgo; auto.
Qed.

Lemma active_list_ok ss curr (l : list stmt) : forallb wf_stmt l = true -> Forall (stmt_ok ss curr) l ->
  Forall (assign_ok ss curr) (active_list curr l).
Proof.
  intros Hwf Hok. rewrite forallb_forall in Hwf. rewrite Forall_forall in Hok.
  apply Forall_forall. intros a Ha. unfold active_list in Ha. apply in_flat_map in Ha.
  destruct Ha as (s0 & Hs0 & Ha0).
  pose proof (active_assign_ok ss curr s0 (Hwf s0 Hs0) (Hok s0 Hs0)) as HF. rewrite Forall_forall in HF. auto.
Qed.

(* C02, combinational clause: every driven bit equals its initial value overridden by the active assignments
   in program order (the last one wins); bits outside the mask are not touched by this process *)
Theorem comb_process_spec ss tab l st : design_ok ss tab ->
  forallb wf_stmt l = true -> Forall (stmt_ok ss (s_curr st)) l ->
  forall i b, 0 <= b < width (ss i) ->
  Z.testbit (s_next (comb_process tab l st) i) b =
  if Z.testbit (stmts_mask l i) b then
    match last_writer (s_curr st) (active_list (s_curr st) l) i b with
    | Some (k, r) => Z.testbit (denote (s_curr st) r) k
    | None => Z.testbit (sd_init (tab i)) b
    end
  else Z.testbit (s_next st i) b.
Proof.
  intros Hd Hwf Hok i b Hb. destruct (Hd i) as [Hsh Hwfs].
  unfold comb_process. cbn [s_next s_curr].
  destruct (stmts_mask l i =? 0) eqn:E0.
  - apply Z.eqb_eq in E0. rewrite E0, Z.bits_0. reflexivity.
  - rewrite testbit_slot_update, Hsh, testbit_update_mask by auto.
    destruct (Z.testbit (stmts_mask l i) b); [|reflexivity].
    rewrite exec_rtl_list_active by (auto; eexists; eauto).
    rewrite (last_wins ss) by (auto; apply active_list_ok; auto).
    destruct (last_writer (s_curr st) (active_list (s_curr st) l) i b) as [[k r]|]; [reflexivity|].
    rewrite E0. reflexivity.
Qed.

(* every bit some active assignment addresses is in the commit mask: no assignment is lost *)
Theorem mask_covers_writers ss tab l st : design_ok ss tab ->
  forallb wf_stmt l = true -> Forall (stmt_ok ss (s_curr st)) l ->
  forall i b k r, 0 <= b -> last_writer (s_curr st) (active_list (s_curr st) l) i b = Some (k, r) ->
  Z.testbit (stmts_mask l i) b = true.
Proof.
  intros Hd Hwf Hok i b k r Hb Hlw. destruct (last_writer_in _ _ _ _ _ _ Hlw) as (a & Hin & Hwr & _).
  eapply stmts_mask_covers; eauto.
Qed.

(* C02, synchronous clause: at its domain's active edge every driven bit takes its previous value overridden
   by the active assignments (last wins); with the domain reset asserted, non-reset-less signals take init *)
Theorem sync_process_spec ss tab l rst st : design_ok ss tab ->
  forallb wf_stmt l = true -> Forall (stmt_ok ss (s_curr st)) l ->
  forall i b, 0 <= b < width (ss i) ->
  let rst_on := match rst with Some r => negb (Z.land 1 (s_curr st r) =? 0) | None => false end in
  Z.testbit (s_next (sync_process tab l rst st) i) b =
  if Z.testbit (stmts_mask l i) b then
    if rst_on && negb (sd_reset_less (tab i)) then Z.testbit (sd_init (tab i)) b
    else match last_writer (s_curr st) (active_list (s_curr st) l) i b with
         | Some (k, r) => Z.testbit (denote (s_curr st) r) k
         | None => Z.testbit (s_next st i) b
         end
  else Z.testbit (s_next st i) b.
Proof.
  intros Hd Hwf Hok i b Hb rst_on. destruct (Hd i) as [Hsh Hwfs].
  unfold sync_process. cbn [s_next s_curr]. fold rst_on.
  destruct (stmts_mask l i =? 0) eqn:E0.
  - apply Z.eqb_eq in E0. rewrite E0, Z.bits_0. reflexivity.
  - rewrite testbit_slot_update, Hsh, testbit_update_mask by auto.
    destruct (Z.testbit (stmts_mask l i) b); [|reflexivity].
    simpl negb. rewrite andb_true_r.
    destruct (rst_on && negb (sd_reset_less (tab i))); [reflexivity|].
    rewrite exec_rtl_list_active by (auto; eexists; eauto).
    rewrite (last_wins ss) by (auto; apply active_list_ok; auto). reflexivity.
Qed.

(* GenEqXfrm.v — the definitions regenerated from hdl/_xfrm.py (Gen/XfrmGen.v: Fragment.add_statements,
   LHSMaskCollector.visit_value / visit_stmt / chunks, ResetInserter, EnableInserter, DomainRenamer, the __init__
   checks) equal the hand-written model (Model/Xfrm.v, Model/Process.v) on every input, under the guards stated
   with each theorem (dict keys unique, no empty statement list, assignable targets, non-negative widths: what the
   constructors of Fragment / Assign / Shape guarantee). *)
From Coq Require Import ZArith List Bool Lia ZifyBool.
From V.Model Require Import Bits Shape Ast Stmt Process Xfrm.
From V.Model Require Derived.
From V.Proofs Require Import BitsP ExprP XfrmP.
From V.Gen Require Import XfrmGen.
Import ListNotations.
Open Scope Z_scope.


(* ---------- the dict readings against the model's `lookup` ---------- *)
Lemma dict_get_lookup {A} (d : list (nat * A)) k dflt :
  dict_get d k dflt = match lookup k d with Some v => v | None => dflt end.
Proof.
  unfold lookup. induction d as [|p d IH]; simpl; [reflexivity|]. destruct (Nat.eqb (fst p) k); auto.
Qed.
Lemma dict_in_lookup {A} (d : list (nat * A)) k :
  dict_in k d = match lookup k d with Some _ => true | None => false end.
Proof.
  unfold dict_in, lookup. induction d as [|p d IH]; simpl; [reflexivity|]. destruct (Nat.eqb (fst p) k); auto.
Qed.

(* ---------- Fragment.add_statements ---------- *)
Lemma add_step d s : forall l,
  dict_set (dict_setdefault l d (@nil stmt)) d (dict_get (dict_setdefault l d (@nil stmt)) d KeyError_stmts ++ [s])
  = add_stmts_ne d [s] l.
Proof.
  induction l as [|e r IH].
  - unfold dict_setdefault. simpl. rewrite (Nat.eqb_refl d). reflexivity.
  - unfold dict_setdefault in *. cbn [dict_in existsb add_stmts_ne].
    destruct (Nat.eqb (fst e) d) eqn:E.
    + cbn [orb dict_set dict_get]. rewrite E. reflexivity.
    + cbn [orb]. fold (dict_in d r).
      destruct (dict_in d r) eqn:Ein.
      * cbn [dict_set dict_get]. rewrite E. f_equal. exact IH.
      * cbn [app dict_set dict_get]. rewrite E. f_equal. exact IH.
Qed.

Lemma add_ne_cons d s ss : ss <> [] -> forall l, add_stmts_ne d ss (add_stmts_ne d [s] l) = add_stmts_ne d (s :: ss) l.
Proof.
  intros Hne. induction l as [|e r IH]; cbn [add_stmts_ne].
  - cbn [fst snd]. rewrite (Nat.eqb_refl d). reflexivity.
  - destruct (Nat.eqb (fst e) d) eqn:E; cbn [add_stmts_ne fst snd]; rewrite E.
    + rewrite <- app_assoc. reflexivity.
    + f_equal. exact IH.
Qed.

Lemma gen_add_statements_eq d ss l : frag_add_statements d ss l = add_stmts d ss l.
Proof.
  unfold frag_add_statements. cbv zeta. revert l. induction ss as [|s ss IH]; intros l; [reflexivity|].
  cbn [fold_left]. rewrite add_step. rewrite IH. unfold add_stmts. destruct ss as [|s' ss']; [reflexivity|].
  apply add_ne_cons. discriminate.
Qed.


(* ---------- LHSMaskCollector: the SignalDict against (lhs_keys, stmts_mask) ---------- *)
Definition get0 (d : list (nat * Z)) (i : nat) : Z := dict_get d i 0.
Definition keys {A : Type} (d : list (nat * A)) : list nat := map fst d.
Definition add_keys (ks l : list nat) : list nat :=
  fold_left (fun ks x => if existsb (Nat.eqb x) ks then ks else ks ++ [x]) l ks.

Lemma dict_in_keys {A} (d : list (nat * A)) i : dict_in i d = existsb (Nat.eqb i) (keys d).
Proof.
  unfold dict_in, keys. induction d as [|p d IH]; simpl; [reflexivity|]. rewrite IH, (Nat.eqb_sym i). reflexivity.
Qed.
Lemma get0_set d i v : forall j, get0 (dict_set d i v) j = if Nat.eqb j i then v else get0 d j.
Proof.
  unfold get0. induction d as [|p d IH]; intros j; cbn [dict_set dict_get].
  - cbn [fst snd]. rewrite (Nat.eqb_sym i j). reflexivity.
  - destruct (Nat.eqb (fst p) i) eqn:E; cbn [dict_get fst snd].
    + apply Nat.eqb_eq in E. subst i. rewrite (Nat.eqb_sym (fst p) j). destruct (Nat.eqb j (fst p)); reflexivity.
    + destruct (Nat.eqb (fst p) j) eqn:E2.
      * apply Nat.eqb_eq in E2. subst j. rewrite E. reflexivity.
      * apply IH.
Qed.
Lemma dict_get_app_absent {A} (d : list (nat * A)) i j v dflt :
  dict_get (d ++ [(i, v)]) j dflt = if dict_in j d then dict_get d j dflt else if Nat.eqb i j then v else dflt.
Proof.
  unfold dict_in. induction d as [|p d IH]; simpl; [reflexivity|]. destruct (Nat.eqb (fst p) j); simpl; auto.
Qed.
Lemma dict_get_dflt_irrel {A} (d : list (nat * A)) j a b : dict_in j d = true -> dict_get d j a = dict_get d j b.
Proof.
  unfold dict_in. induction d as [|p d IH]; simpl; [discriminate|]. destruct (Nat.eqb (fst p) j); simpl; auto.
Qed.
Lemma dict_get_absent {A} (d : list (nat * A)) j a : dict_in j d = false -> dict_get d j a = a.
Proof.
  unfold dict_in. induction d as [|p d IH]; simpl; [reflexivity|]. destruct (Nat.eqb (fst p) j); simpl; [discriminate|auto].
Qed.
Lemma get0_setdefault d i j : get0 (dict_setdefault d i 0) j = get0 d j.
Proof.
  unfold get0, dict_setdefault. destruct (dict_in i d) eqn:E; [reflexivity|].
  rewrite dict_get_app_absent. destruct (dict_in j d) eqn:Ej; [reflexivity|].
  rewrite (dict_get_absent d j 0 Ej). destruct (Nat.eqb i j); reflexivity.
Qed.
Lemma dict_get_setdefault_key d i : dict_get (dict_setdefault d i 0) i KeyError_Z = get0 d i.
Proof.
  unfold get0, dict_setdefault. destruct (dict_in i d) eqn:E.
  - apply dict_get_dflt_irrel; exact E.
  - rewrite dict_get_app_absent, E, (Nat.eqb_refl i). symmetry. apply dict_get_absent; exact E.
Qed.
Lemma keys_set_in {A} (d : list (nat * A)) i v : dict_in i d = true -> keys (dict_set d i v) = keys d.
Proof.
  unfold dict_in, keys. induction d as [|p d IH]; simpl; [discriminate|].
  destruct (Nat.eqb (fst p) i) eqn:E; simpl; [reflexivity|]. intros H. f_equal. auto.
Qed.
Lemma dict_in_setdefault {A} (d : list (nat * A)) i v : dict_in i (dict_setdefault d i v) = true.
Proof.
  unfold dict_setdefault. destruct (dict_in i d) eqn:E; [exact E|].
  unfold dict_in. rewrite existsb_app. simpl. rewrite (Nat.eqb_refl i). apply orb_true_r.
Qed.
Lemma keys_setdefault {A} (d : list (nat * A)) i v :
  keys (dict_setdefault d i v) = if existsb (Nat.eqb i) (keys d) then keys d else keys d ++ [i].
Proof.
  unfold dict_setdefault. rewrite <- dict_in_keys. destruct (dict_in i d); [reflexivity|]. unfold keys. rewrite map_app. reflexivity.
Qed.

(* masks: the dict read with default 0 is the model's mask map (pointwise) *)
Lemma vv_mask e : forall mask d acc, (forall i, get0 d i = acc i) ->
  forall i, get0 (lhs_visit_value e mask d) i = lhs_mask e mask acc i.
Proof.
  induction e as [v s|j s|o a IH|o a b IHa IHb|a lo hi IH|a off w st IH _|l IH|t cs _ IH] using expr_ind';
    intros mask d acc H i.
  - apply H.
  - cbn [lhs_visit_value lhs_mask]. cbv zeta. rewrite get0_set, dict_get_setdefault_key. unfold mm_or.
    destruct (Nat.eqb i j) eqn:E.
    + apply Nat.eqb_eq in E. subst i. rewrite H. reflexivity.
    + rewrite get0_setdefault. apply H.
  - destruct o; cbn [lhs_visit_value lhs_mask]; cbv zeta; auto.
  - destruct o; cbn [lhs_visit_value lhs_mask]; apply H.
  - cbn [lhs_visit_value lhs_mask]. cbv zeta. apply IH. exact H.
  - cbn [lhs_visit_value lhs_mask]. cbv zeta. apply IH. exact H.
  - cbn [lhs_visit_value lhs_mask]. revert mask d acc H.
    induction l as [|p l IHl]; intros mask d acc H; cbn [fold_left].
    + apply H.
    + inversion IH as [|? ? Hp Hl]; subst. apply (IHl Hl). intros k. apply Hp. exact H.
  - cbn [lhs_visit_value lhs_mask]. revert d acc H.
    induction cs as [|c cs IHc]; intros d acc H; cbn [fold_left].
    + apply H.
    + inversion IH as [|? ? Hp Hl]; subst. destruct c as [ps sub]. cbn [snd] in *. apply (IHc Hl). intros k. apply Hp. exact H.
Qed.

(* targets the collector accepts without an AssertionError (every wf_lhs target is one) *)
Fixpoint lhs_ok (e : expr) : bool :=
  match e with
  | EOp1 OU a | EOp1 OS a => lhs_ok a
  | EOp1 _ _ => false
  | ESlice a _ _ => lhs_ok a
  | EPart a _ _ _ => lhs_ok a
  | ECat parts => forallb lhs_ok parts
  | ESwitch _ cs => forallb (fun c => lhs_ok (snd c)) cs
  | _ => true
  end.

Lemma wf_lhs_ok e : wf_lhs e = true -> lhs_ok e = true.
Proof.
  induction e as [v s|j s|o a IH|o a b IHa IHb|a lo hi IH|a off w st IH _|l IH|t cs _ IH] using expr_ind'; intros H; try reflexivity.
  - destruct o; cbn [wf_lhs lhs_ok] in *; try discriminate; apply andb_true_iff in H; apply IH; apply H.
  - cbn [wf_lhs lhs_ok] in *. rewrite !andb_true_iff in H. apply IH. apply H.
  - cbn [wf_lhs lhs_ok] in *. rewrite !andb_true_iff in H. apply IH. apply H.
  - cbn [wf_lhs lhs_ok] in *. rewrite forallb_forall in *. rewrite Forall_forall in IH. intros x Hx. apply IH; auto.
  - cbn [wf_lhs lhs_ok] in *. apply andb_true_iff in H. destruct H as [_ H]. rewrite forallb_forall in *.
    rewrite Forall_forall in IH. intros x Hx. apply IH; auto. specialize (H x Hx). apply andb_true_iff in H. apply H.
Qed.

Lemma add_keys_app ks a b : add_keys ks (a ++ b) = add_keys (add_keys ks a) b.
Proof. unfold add_keys. apply fold_left_app. Qed.

Lemma vv_keys e : forall mask d, lhs_ok e = true -> keys (lhs_visit_value e mask d) = add_keys (keys d) (sigs_of e).
Proof.
  induction e as [v s|j s|o a IH|o a b IHa IHb|a lo hi IH|a off w st IH _|l IH|t cs _ IH] using expr_ind';
    intros mask d Hok.
  - reflexivity.
  - cbn [lhs_visit_value sigs_of]. cbv zeta. rewrite keys_set_in by apply dict_in_setdefault.
    rewrite keys_setdefault. reflexivity.
  - destruct o; cbn [lhs_ok] in Hok; try discriminate; cbn [lhs_visit_value sigs_of]; cbv zeta; auto.
  - destruct o; reflexivity.
  - cbn [lhs_visit_value sigs_of]. cbv zeta. auto.
  - cbn [lhs_visit_value sigs_of]. cbv zeta. auto.
  - cbn [lhs_visit_value sigs_of lhs_ok] in *. revert mask d.
    induction l as [|p l IHl]; intros mask d; cbn [fold_left flat_map].
    + reflexivity.
    + inversion IH as [|? ? Hp Hl]; subst. cbn [forallb] in Hok. apply andb_true_iff in Hok. destruct Hok as [Ho1 Ho2].
      rewrite add_keys_app. rewrite <- (Hp mask d Ho1). apply (IHl Hl Ho2).
  - cbn [lhs_visit_value sigs_of lhs_ok] in *. revert d.
    induction cs as [|c cs IHc]; intros d; cbn [fold_left flat_map].
    + reflexivity.
    + inversion IH as [|? ? Hp Hl]; subst. destruct c as [ps sub]. cbn [snd forallb] in *.
      apply andb_true_iff in Hok. destruct Hok as [Ho1 Ho2].
      rewrite add_keys_app. rewrite <- (Hp mask d Ho1). apply (IHc Hl Ho2).
Qed.


Fixpoint stmt_ok (s : stmt) : bool :=
  match s with
  | SAssign lhs _ => lhs_ok lhs
  | SSwitch _ cs =>
      (fix go (cs : list (option (list pattern) * list stmt)) : bool :=
         match cs with
         | [] => true
         | c :: cs' => (fix run (ss : list stmt) : bool :=
                          match ss with [] => true | s' :: ss' => stmt_ok s' && run ss' end) (snd c) && go cs'
         end) cs
  end.
Definition stmts_ok (ss : list stmt) : bool := forallb stmt_ok ss.

Lemma stmt_ok_switch t cs : stmt_ok (SSwitch t cs) = forallb (fun c => stmts_ok (snd c)) cs.
Proof.
  cbn [stmt_ok]. induction cs as [|c cs IH]; [reflexivity|]. cbn [forallb]. rewrite <- IH. reflexivity.
Qed.

Definition visit_stmts (ss : list stmt) (d : list (nat * Z)) : list (nat * Z) :=
  fold_left (fun d s => lhs_visit_stmt s d) ss d.

Lemma stmt_mask_switch t cs acc :
  stmt_mask (SSwitch t cs) acc = fold_left (fun acc c => fold_left (fun acc s => stmt_mask s acc) (snd c) acc) cs acc.
Proof.
  cbn [stmt_mask]. revert acc. induction cs as [|c cs IH]; intros acc; [reflexivity|]. cbn [fold_left]. rewrite IH. reflexivity.
Qed.
Lemma stmt_sigs_switch t cs : stmt_sigs (SSwitch t cs) = flat_map (fun c => flat_map stmt_sigs (snd c)) cs.
Proof.
  cbn [stmt_sigs]. induction cs as [|c cs IH]; [reflexivity|]. cbn [flat_map]. rewrite <- IH. reflexivity.
Qed.
Lemma visit_switch t cs d :
  lhs_visit_stmt (SSwitch t cs) d = fold_left (fun d c => visit_stmts (snd c) d) cs d.
Proof.
  cbn [lhs_visit_stmt]. cbv zeta. revert d. induction cs as [|c cs IH]; intros d; [reflexivity|].
  cbn [fold_left]. destruct c as [ps sub]. cbn [snd]. apply IH.
Qed.

Lemma vs_mask s : forall d acc, (forall i, get0 d i = acc i) -> forall i, get0 (lhs_visit_stmt s d) i = stmt_mask s acc i.
Proof.
  induction s as [l r|t cs IH] using stmt_ind2; intros d acc H i.
  - cbn [lhs_visit_stmt stmt_mask]. cbv zeta. apply vv_mask. exact H.
  - rewrite visit_switch, stmt_mask_switch. revert d acc H.
    induction cs as [|c cs IHc]; intros d acc H; cbn [fold_left]; [apply H|].
    inversion IH as [|? ? Hc Hcs]; subst. apply (IHc Hcs). clear IHc Hcs IH.
    unfold visit_stmts. revert d acc H. induction (snd c) as [|s ss IHs]; intros d acc H; cbn [fold_left]; [exact H|].
    inversion Hc as [|? ? Hs Hss]; subst. apply (IHs Hss). intros k. apply Hs. exact H.
Qed.

Lemma vs_keys s : forall d, stmt_ok s = true -> keys (lhs_visit_stmt s d) = add_keys (keys d) (stmt_sigs s).
Proof.
  induction s as [l r|t cs IH] using stmt_ind2; intros d Hok.
  - cbn [lhs_visit_stmt stmt_sigs]. cbv zeta. apply vv_keys. exact Hok.
  - rewrite stmt_ok_switch in Hok. rewrite visit_switch, stmt_sigs_switch. revert d.
    induction cs as [|c cs IHc]; intros d; cbn [fold_left flat_map]; [reflexivity|].
    inversion IH as [|? ? Hc Hcs]; subst. cbn [forallb] in Hok. apply andb_true_iff in Hok. destruct Hok as [Ho1 Ho2].
    rewrite add_keys_app. rewrite (IHc Hcs Ho2). f_equal. clear IHc Hcs IH Ho2.
    unfold visit_stmts, stmts_ok in *. revert d. induction (snd c) as [|s ss IHs]; intros d; cbn [fold_left flat_map]; [reflexivity|].
    inversion Hc as [|? ? Hs Hss]; subst. cbn [forallb] in Ho1. apply andb_true_iff in Ho1. destruct Ho1 as [Hs1 Hs2].
    rewrite add_keys_app. rewrite (IHs Hs2 Hss). f_equal. apply Hs. exact Hs1.
Qed.

Lemma vss_mask ss : forall d acc, (forall i, get0 d i = acc i) ->
  forall i, get0 (visit_stmts ss d) i = fold_left (fun acc s => stmt_mask s acc) ss acc i.
Proof.
  unfold visit_stmts. induction ss as [|s ss IH]; intros d acc H i; cbn [fold_left]; [apply H|].
  apply IH. intros k. apply vs_mask. exact H.
Qed.
Lemma vss_keys ss : forall d, stmts_ok ss = true -> keys (visit_stmts ss d) = add_keys (keys d) (flat_map stmt_sigs ss).
Proof.
  unfold visit_stmts, stmts_ok. induction ss as [|s ss IH]; intros d Hok; cbn [fold_left flat_map]; [reflexivity|].
  cbn [forallb] in Hok. apply andb_true_iff in Hok. destruct Hok as [H1 H2].
  rewrite add_keys_app. rewrite (IH _ H2). f_equal. apply vs_keys. exact H1.
Qed.

Lemma add_keys_uniq l : forall ks seen, (forall x, In x seen <-> In x ks) -> add_keys ks l = ks ++ uniq seen l.
Proof.
  unfold add_keys. induction l as [|x l IH]; intros ks seen Hs; cbn [fold_left uniq].
  - rewrite app_nil_r. reflexivity.
  - assert (E : existsb (Nat.eqb x) ks = existsb (Nat.eqb x) seen).
    { apply eq_true_iff_eq. rewrite !existsb_exists. split; intros [y [Hy Hxy]]; exists y; split; auto; apply Hs; auto. }
    rewrite E. destruct (existsb (Nat.eqb x) seen).
    + apply IH. exact Hs.
    + rewrite (IH (ks ++ [x]) (x :: seen)).
      * rewrite <- app_assoc. reflexivity.
      * intros y. rewrite in_app_iff. simpl. rewrite Hs. tauto.
Qed.

(* the collector run on a process body: keys = lhs_keys (first-visit order), values = stmts_mask *)
Theorem collector_keys ss : stmts_ok ss = true -> keys (visit_stmts ss []) = lhs_keys ss.
Proof.
  intros H. rewrite vss_keys by exact H. unfold lhs_keys. cbn [keys map]. rewrite (add_keys_uniq _ [] []); [reflexivity|tauto].
Qed.
Theorem collector_mask ss i : get0 (visit_stmts ss []) i = stmts_mask ss i.
Proof. unfold stmts_mask. apply vss_mask. reflexivity. Qed.


(* ---------- LHSMaskCollector.chunks: the two while loops against Xfrm.chunks ---------- *)
Notation chunk := (nat * Z * option Z)%type (only parsing).

(* the loops of the generated function, named (lhs_chunks_fuel unfolds to them: chunks_unfold is by reflexivity) *)
Definition inner_loop (extra : nat) (w m : Z) : nat -> Z -> Z :=
  fix go (fuel : nat) (stop : Z) {struct fuel} : Z :=
    match fuel with
    | O => stop
    | S f => if andb (Z.ltb stop w) (Z.eqb (Z.land (Z.shiftr m stop) 1) 1) then go f (Z.add stop 1) else stop
    end.
Definition outer_loop (extra : nat) (sig : nat) (w m : Z) : nat -> list chunk -> Z -> list chunk * Z :=
  fix go (fuel : nat) (y : list chunk) (start : Z) {struct fuel} : list chunk * Z :=
    match fuel with
    | O => (y, start)
    | S f =>
        if Z.ltb start w
        then let '(start', y') :=
               if Z.eqb (Z.land (Z.shiftr m start) 1) 0 then (Z.add start 1, y)
               else let stop := inner_loop extra w m (Z.to_nat (Z.sub w start) + extra)%nat start in
                    (stop, y ++ [(sig, start, Some stop)]) in
             go f y' start'
        else (y, start)
    end.
Definition chunks_sig (extra : nat) (tab : sigtab) (sig : nat) (m : Z) (y : list chunk) : list chunk :=
  let w := width (sd_shape (tab sig)) in
  if Z.eqb m (Z.sub (Z.shiftl 1 w) 1) then y ++ [(sig, 0, None)]
  else fst (outer_loop extra sig w m (Z.to_nat (Z.sub w 0) + extra)%nat y 0).

Lemma chunks_unfold extra tab d :
  lhs_chunks_fuel extra tab d = fold_left (fun y '(sig, m) => chunks_sig extra tab sig m y) d [].
Proof. reflexivity. Qed.

Lemma bit_is_1 m k : 0 <= k -> (Z.land (Z.shiftr m k) 1 =? 1) = Z.testbit m k.
Proof.
  intros Hk. rewrite Z.land_comm, land1. rewrite Z.shiftr_spec by lia. rewrite Z.add_0_l.
  destruct (Z.testbit m k); reflexivity.
Qed.
Lemma bit_is_0 m k : 0 <= k -> (Z.land (Z.shiftr m k) 1 =? 0) = negb (Z.testbit m k).
Proof.
  intros Hk. rewrite Z.land_comm, land1. rewrite Z.shiftr_spec by lia. rewrite Z.add_0_l.
  destruct (Z.testbit m k); reflexivity.
Qed.

Section OneSignal.
Variables (extra : nat) (sig : nat) (w m : Z).

Fixpoint bitsZ (p : Z) (n : nat) : list bool :=
  match n with O => [] | S n' => Z.testbit m p :: bitsZ (p + 1) n' end.
Fixpoint scan (n : nat) (p : Z) : Z :=
  match n with O => p | S n' => if Z.testbit m p then scan n' (p + 1) else p end.

Lemma scan_range n : forall p, p <= scan n p <= p + Z.of_nat n.
Proof.
  induction n as [|n IH]; intros p; cbn [scan]; [lia|]. destruct (Z.testbit m p); [specialize (IH (p + 1))|]; lia.
Qed.

Lemma mask_bits_bitsZ n : forall p, map (fun k => Z.testbit m (Z.of_nat k)) (seq p n) = bitsZ (Z.of_nat p) n.
Proof.
  induction n as [|n IH]; intros p; [reflexivity|]. cbn [seq map bitsZ]. f_equal. rewrite IH. f_equal. lia.
Qed.

Lemma inner_eq n : forall fuel p, 0 <= p -> n = Z.to_nat (w - p) -> (n <= fuel)%nat ->
  inner_loop extra w m fuel p = scan n p.
Proof.
  induction n as [|n IH]; intros fuel p Hp Hn Hf.
  - destruct fuel as [|f]; [reflexivity|]. cbn [inner_loop scan]. replace (p <? w) with false by lia. reflexivity.
  - destruct fuel as [|f]; [lia|]. cbn [inner_loop scan]. replace (p <? w) with true by lia. cbn [andb].
    rewrite bit_is_1 by lia. destruct (Z.testbit m p); [|reflexivity]. apply IH; lia.
Qed.

Lemma runs_some n : forall p st,
  runs (bitsZ p n) p (Some st) =
  (st, scan n p) :: runs (bitsZ (scan n p) (n - Z.to_nat (scan n p - p))) (scan n p) None.
Proof.
  induction n as [|n IH]; intros p st.
  - cbn [scan bitsZ runs]. reflexivity.
  - cbn [scan bitsZ runs]. destruct (Z.testbit m p) eqn:E.
    + rewrite IH. pose proof (scan_range n (p + 1)) as R.
      replace (S n - Z.to_nat (scan n (p + 1) - p))%nat with (n - Z.to_nat (scan n (p + 1) - (p + 1)))%nat by lia.
      reflexivity.
    + replace (S n - Z.to_nat (p - p))%nat with (S n) by lia. cbn [bitsZ runs]. rewrite E. reflexivity.
Qed.

Definition conv (r : Z * Z) : chunk := (sig, fst r, Some (snd r)).

Lemma outer_eq : forall n fuel p y, 0 <= p -> n = Z.to_nat (w - p) -> (n <= fuel)%nat ->
  fst (outer_loop extra sig w m fuel y p) = y ++ map conv (runs (bitsZ p n) p None).
Proof.
  induction n as [n IH] using lt_wf_ind. intros fuel p y Hp Hn Hf.
  destruct n as [|n'].
  - cbn [bitsZ runs map]. rewrite app_nil_r. destruct fuel as [|f]; [reflexivity|].
    cbn [outer_loop]. replace (p <? w) with false by lia. reflexivity.
  - destruct fuel as [|f]; [lia|]. cbn [outer_loop]. replace (p <? w) with true by lia.
    rewrite bit_is_0 by lia. cbn [bitsZ runs]. destruct (Z.testbit m p) eqn:E; cbn [negb].
    + rewrite (inner_eq (S n')) by lia.
      pose proof (scan_range (S n') p) as R. assert (Hq : scan (S n') p = scan n' (p + 1)) by (cbn [scan]; rewrite E; reflexivity).
      pose proof (scan_range n' (p + 1)) as R'.
      rewrite (IH (n' - Z.to_nat (scan (S n') p - (p + 1)))%nat) by lia.
      rewrite runs_some. rewrite <- Hq. cbn [map]. rewrite <- app_assoc. reflexivity.
    + rewrite (IH n') by lia. reflexivity.
Qed.
End OneSignal.

Lemma chunks_sig_eq extra tab sig m y :
  chunks_sig extra tab sig m y =
  y ++ map (fun ch => (sig, fst ch, snd ch)) (chunks (width (sd_shape (tab sig))) m).
Proof.
  unfold chunks_sig, chunks. cbv zeta. set (w := width (sd_shape (tab sig))).
  change (Z.sub (Z.shiftl 1 w) 1) with (Z.shiftl 1 w - 1).
  destruct (m =? Z.shiftl 1 w - 1); [reflexivity|].
  rewrite (outer_eq extra sig w m (Z.to_nat (w - 0))) by lia.
  unfold mask_bits. rewrite (mask_bits_bitsZ m (Z.to_nat w) 0). rewrite map_map.
  replace (Z.to_nat (w - 0)) with (Z.to_nat w) by lia. reflexivity.
Qed.

Lemma chunks_fold extra tab d : forall y,
  fold_left (fun y '(sig, m) => chunks_sig extra tab sig m y) d y =
  y ++ flat_map (fun p => map (fun ch => (fst p, fst ch, snd ch)) (chunks (width (sd_shape (tab (fst p)))) (snd p))) d.
Proof.
  induction d as [|[sig m] d IH]; intros y; cbn [fold_left flat_map].
  - rewrite app_nil_r. reflexivity.
  - rewrite IH, chunks_sig_eq. cbn [fst snd]. rewrite <- app_assoc. reflexivity.
Qed.

(* the generated generator, for ANY amount of extra fuel: the loops end by their conditions, never by exhaustion *)
Theorem gen_chunks_eq extra tab d :
  lhs_chunks_fuel extra tab d =
  flat_map (fun p => map (fun ch => (fst p, fst ch, snd ch)) (chunks (width (sd_shape (tab (fst p)))) (snd p))) d.
Proof. rewrite chunks_unfold, chunks_fold. reflexivity. Qed.


(* ---------- Switch(ctl, [(1, body, None)]) and Mux(ctl, en, Const(0, len(en))) ---------- *)
Lemma testbit_1 k : 0 < k -> Z.testbit 1 k = false.
Proof. intros H. apply Z.bits_above_log2; simpl; lia. Qed.

Lemma bin_pattern_one n : Derived.bin_pattern_nat (S n) 1 = repeat (Some false) n ++ [Some true].
Proof.
  induction n as [|n IH]; [reflexivity|].
  change (Derived.bin_pattern_nat (S (S n)) 1) with (Some (Z.testbit 1 (Z.of_nat (S n))) :: Derived.bin_pattern_nat (S n) 1).
  rewrite IH, testbit_1 by lia. reflexivity.
Qed.
Lemma bin_pattern_zero n : Derived.bin_pattern_nat n 0 = repeat (Some false) n.
Proof. induction n as [|n IH]; [reflexivity|]. cbn [Derived.bin_pattern_nat repeat]. rewrite IH, Z.testbit_0_l. reflexivity. Qed.

Lemma land_1_mask w : 1 <= w -> Z.land 1 (Z.shiftl 1 w - 1) = 1.
Proof.
  intros H. rewrite Z.shiftl_1_l. replace (2 ^ w - 1) with (Z.ones w) by (rewrite Z.ones_equiv; lia).
  rewrite Z.land_ones by lia. apply Z.mod_small. assert (2 ^ 1 <= 2 ^ w) by (apply Z.pow_le_mono_r; lia). lia.
Qed.

Lemma switch_int_key_one c : 0 <= ewidth c -> switch_int_key c 1 = ctl_pats (shape_of c).
Proof.
  unfold switch_int_key, ctl_pats, ewidth. destruct (shape_of c) as [w sg]. cbn [width sgn]. intros Hw.
  cbn [Derived.normalize_patterns Derived.normalize_pattern]. unfold const_norm. cbn [width sgn].
  assert (Hpat : 1 <= w -> Derived.bin_pattern w (Z.land 1 (Z.shiftl 1 w - 1)) = repeat (Some false) (Z.to_nat (w - 1)) ++ [Some true]).
  { intros H1. rewrite land_1_mask by lia. unfold Derived.bin_pattern. replace (Z.to_nat w) with (S (Z.to_nat (w - 1))) by lia.
    apply bin_pattern_one. }
  destruct sg; cbn [andb].
  - destruct (Z.eq_dec w 0) as [->|N0]; [reflexivity|]. destruct (Z.eq_dec w 1) as [->|N1]; [reflexivity|].
    replace (Z.shiftr 1 (w - 1)) with 0.
    2:{ rewrite Z.shiftr_div_pow2 by lia. symmetry. apply Z.div_small. assert (2 ^ 1 <= 2 ^ (w - 1)) by (apply Z.pow_le_mono_r; lia). lia. }
    cbn [Z.odd]. rewrite land_1_mask by lia. cbn [Z.eqb Pos.eqb negb map]. replace (2 <=? w) with true by lia.
    rewrite Hpat by lia. reflexivity.
  - destruct (Z.eq_dec w 0) as [->|N0]; [reflexivity|].
    rewrite land_1_mask by lia. cbn [Z.eqb Pos.eqb negb map]. replace (1 <=? w) with true by lia. rewrite Hpat by lia. reflexivity.
Qed.

Lemma gen_ctl_switch c body : 0 <= ewidth c ->
  SSwitch c [(Some (switch_int_key c 1), body)] = ctl_switch c body.
Proof. intros H. unfold ctl_switch. rewrite switch_int_key_one by exact H. reflexivity. Qed.

Lemma gen_mux_ctl c en : Derived.mk_mux c en (EConst 0 (Sh (ewidth en) false)) = mux_ctl c en.
Proof. unfold Derived.mk_mux, mux_ctl, Derived.bin_pattern. rewrite bin_pattern_zero. reflexivity. Qed.

(* v[a:b] for in-range integer bounds *)
Lemma getitem_slice e a b : 0 <= a <= ewidth e -> 0 <= b <= ewidth e ->
  Derived.oget (Derived.mk_getitem_key e (Derived.Key (Some a) (Some b) None)) = ESlice e a b.
Proof.
  intros Ha Hb. unfold Derived.mk_getitem_key, Derived.py_key_indices. cbn [Derived.kstep Derived.kstart Derived.kstop].
  cbn [Z.eqb Z.ltb Z.compare]. unfold Derived.py_adjust.
  replace (a <? 0) with false by lia. replace (b <? 0) with false by lia.
  rewrite !Z.min_l by lia. reflexivity.
Qed.

(* ---------- the reset statements of ResetInserter._insert_control ---------- *)
Definition reset_step (tab : sigtab) (stmts : list stmt) : chunk -> list stmt :=
  fun '(signal, start, stop) =>
    if sd_reset_less (tab signal) then stmts
    else if andb (Z.eqb start 0) (match stop with None => true | Some _ => false end)
         then stmts ++ [SAssign (ESig signal (sd_shape (tab signal))) (EConst (sd_init (tab signal)) (sd_shape (tab signal)))]
         else stmts ++ [SAssign (Derived.oget (Derived.mk_getitem_key (ESig signal (sd_shape (tab signal)))
                                                 (Derived.Key (Some start) stop None)))
                                (Derived.oget (Derived.mk_getitem_key (EConst (sd_init (tab signal)) (sd_shape (tab signal)))
                                                 (Derived.Key (Some start) stop None)))].

Definition reset_piece (tab : sigtab) (c : chunk) : list stmt :=
  if sd_reset_less (tab (fst (fst c))) then [] else [reset_stmt (fst (fst c)) (tab (fst (fst c))) (snd (fst c), snd c)].

Lemma reset_step_piece tab stmts c :
  wf_chunk (width (sd_shape (tab (fst (fst c))))) (snd (fst c), snd c) ->
  reset_step tab stmts c = stmts ++ reset_piece tab c.
Proof.
  destruct c as [[sig start] stop]. unfold reset_step, reset_piece, wf_chunk, reset_stmt. cbn [fst snd].
  destruct (sd_reset_less (tab sig)); [rewrite app_nil_r; reflexivity|].
  destruct stop as [hi|]; intros Hwf.
  - rewrite andb_false_r. rewrite !getitem_slice by (unfold ewidth; cbn [shape_of]; lia). reflexivity.
  - subst start. reflexivity.
Qed.

Lemma fold_reset_steps tab cs : forall stmts,
  (forall c, In c cs -> wf_chunk (width (sd_shape (tab (fst (fst c))))) (snd (fst c), snd c)) ->
  fold_left (reset_step tab) cs stmts = stmts ++ flat_map (reset_piece tab) cs.
Proof.
  induction cs as [|c cs IH]; intros stmts H; cbn [fold_left flat_map]; [rewrite app_nil_r; reflexivity|].
  rewrite reset_step_piece by (apply H; left; reflexivity). rewrite IH by (intros; apply H; right; assumption).
  rewrite <- app_assoc. reflexivity.
Qed.

Lemma get0_nodup d : NoDup (keys d) -> forall p, In p d -> get0 d (fst p) = snd p.
Proof.
  unfold get0, keys. induction d as [|q d IH]; intros N p Hin; [destruct Hin|]. cbn [map] in N. inversion N as [|? ? Hn N']; subst.
  cbn [dict_get]. destruct Hin as [->|Hin]; [rewrite (Nat.eqb_refl (fst p)); reflexivity|].
  destruct (Nat.eqb (fst q) (fst p)) eqn:E; [|auto].
  apply Nat.eqb_eq in E. exfalso. apply Hn. rewrite E. apply in_map. exact Hin.
Qed.

Lemma fm_cons {A B} (f : A -> list B) x l : flat_map f (x :: l) = f x ++ flat_map f l.
Proof. reflexivity. Qed.

Lemma reset_body tab d : tab_ok tab -> NoDup (keys d) ->
  fold_left (reset_step tab) (lhs_chunks tab d) [] = reset_stmts_of tab (keys d) (get0 d).
Proof.
  intros Ht N. unfold lhs_chunks. rewrite gen_chunks_eq. rewrite fold_reset_steps.
  2:{ intros c Hc. apply in_flat_map in Hc. destruct Hc as [p [Hp Hc]]. apply in_map_iff in Hc. destruct Hc as [ch [<- Hch]].
      cbn [fst snd]. destruct ch as [lo hi].
      assert (W0 : 0 <= width (sd_shape (tab (fst p)))).
      { pose proof (tk_wf tab Ht (fst p)) as W. unfold wf_shape in W. destruct (sgn (sd_shape (tab (fst p)))); lia. }
      apply (chunks_wf _ _ _ W0 Hch). }
  cbn [app]. unfold reset_stmts_of, keys.
  assert (G : forall l, (forall p, In p l -> get0 d (fst p) = snd p) ->
     flat_map (reset_piece tab) (flat_map (fun p => map (fun ch => (fst p, fst ch, snd ch)) (chunks (width (sd_shape (tab (fst p)))) (snd p))) l)
     = flat_map (fun i => if sd_reset_less (tab i) then [] else map (reset_stmt i (tab i)) (chunks (width (sd_shape (tab i))) (get0 d i))) (map fst l)).
  { induction l as [|p l IH]; intros H; [reflexivity|]. rewrite map_cons, !fm_cons, flat_map_app. rewrite IH by (intros; apply H; right; assumption).
    f_equal. rewrite (H p) by (left; reflexivity).
    induction (chunks (width (sd_shape (tab (fst p)))) (snd p)) as [|ch chs IHc]; cbn [map flat_map].
    - destruct (sd_reset_less (tab (fst p))); reflexivity.
    - rewrite IHc. unfold reset_piece at 1. cbn [fst snd]. destruct (sd_reset_less (tab (fst p))); [reflexivity|].
      destruct ch; reflexivity. }
  apply G. apply get0_nodup. exact N.
Qed.

Lemma reset_stmts_of_ext tab ks m m' : (forall i, m i = m' i) -> reset_stmts_of tab ks m = reset_stmts_of tab ks m'.
Proof.
  intros H. unfold reset_stmts_of. induction ks as [|k ks IH]; [reflexivity|]. cbn [flat_map]. rewrite IH, H. reflexivity.
Qed.

(* collector + chunks + reset statements on one process body = the model's reset_stmts *)
Theorem gen_reset_stmts tab ss : tab_ok tab -> stmts_ok ss = true ->
  fold_left (reset_step tab) (lhs_chunks tab (visit_stmts ss [])) [] = reset_stmts tab ss.
Proof.
  intros Ht Hok. rewrite reset_body; [|exact Ht|rewrite collector_keys by exact Hok; apply lhs_keys_nodup].
  rewrite collector_keys by exact Hok. unfold reset_stmts. apply reset_stmts_of_ext. apply collector_mask.
Qed.


(* ---------- the statement dict of a fragment under the two loops of _ControlInserter.on_fragment ---------- *)
(* what Fragment guarantees of its statements dict: keys are unique (a dict) and no list is empty (add_statements
   creates a key only when it appends a statement) *)
Definition entries_ok (st : list (nat * list stmt)) : Prop :=
  NoDup (map fst st) /\ forall e, In e st -> snd e <> [].

Fixpoint frag_ok (Q : nat * list stmt -> Prop) (f : frag) : Prop :=
  match f with
  | Frag st ms subs =>
      entries_ok st /\ (forall e, In e st -> Q e) /\
      (fix all (l : list frag) : Prop := match l with [] => True | x :: r => frag_ok Q x /\ all r end) subs
  end.
Lemma frag_ok_subs Q st ms subs : frag_ok Q (Frag st ms subs) -> Forall (frag_ok Q) subs.
Proof.
  intros [_ [_ H]]. induction subs as [|x r IH]; constructor; [apply H|apply IH; apply H].
Qed.

Definition ctl_wf (ctl : controls) : Prop := forall d c, lookup d ctl = Some c -> 0 <= ewidth c.

Definition copy_entries (st : list (nat * list stmt)) : list (nat * list stmt) :=
  fold_left (fun acc '(d, ss) => frag_add_statements d ss acc) st [].

Lemma copy_entries_id st : entries_ok st -> copy_entries st = st.
Proof.
  intros [N E]. unfold copy_entries.
  assert (G : forall todo done, NoDup (map fst (done ++ todo)) -> (forall e, In e todo -> snd e <> []) ->
              fold_left (fun acc '(d, ss) => frag_add_statements d ss acc) todo done = done ++ todo).
  { induction todo as [|[d ss] todo IH]; intros done Hn He; cbn [fold_left]; [rewrite app_nil_r; reflexivity|].
    rewrite gen_add_statements_eq. rewrite add_stmts_fresh.
    - rewrite IH.
      + rewrite <- app_assoc. reflexivity.
      + rewrite <- app_assoc. exact Hn.
      + intros e H. apply He. right. exact H.
    - apply (He (d, ss)). left. reflexivity.
    - rewrite map_app in Hn. apply NoDup_remove_2 in Hn. intro H. apply Hn. apply in_or_app. left. exact H. }
  apply (G st [] N E).
Qed.

Lemma fold_entries (step : list (nat * list stmt) -> nat * list stmt -> list (nat * list stmt))
      (T : nat * list stmt -> nat * list stmt) (P : nat * list stmt -> Prop) st :
  (forall A e B, P e -> ~ In (fst e) (map fst A) -> step (A ++ e :: B) e = A ++ T e :: B) ->
  (forall e, fst (T e) = fst e) -> NoDup (map fst st) -> (forall e, In e st -> P e) ->
  fold_left step st st = map T st.
Proof.
  intros Hstep Hfst N HP.
  assert (G : forall todo done, NoDup (map fst (done ++ todo)) -> (forall e, In e todo -> P e) ->
              fold_left step todo (map T done ++ todo) = map T (done ++ todo)).
  { induction todo as [|e todo IH]; intros done Hn Hp; cbn [fold_left]; [rewrite !app_nil_r; reflexivity|].
    rewrite Hstep.
    - replace (map T done ++ T e :: todo) with (map T (done ++ [e]) ++ todo) by (rewrite map_app, <- app_assoc; reflexivity).
      rewrite IH.
      + rewrite <- app_assoc. reflexivity.
      + rewrite <- app_assoc. exact Hn.
      + intros x H. apply Hp. right. exact H.
    - apply Hp. left. reflexivity.
    - rewrite map_app in Hn. apply NoDup_remove_2 in Hn. intro H. apply Hn. apply in_or_app. left.
      rewrite map_map in H. erewrite map_ext in H; [exact H|]. intros x. apply Hfst. }
  apply (G st [] N HP).
Qed.

Lemma add_ne_mid d ss x B : forall A, ~ In d (map fst A) -> add_stmts_ne d ss (A ++ (d, x) :: B) = A ++ (d, x ++ ss) :: B.
Proof.
  induction A as [|a A IH]; intros H; cbn [app add_stmts_ne fst snd].
  - rewrite (Nat.eqb_refl d). reflexivity.
  - destruct (Nat.eqb (fst a) d) eqn:E.
    + apply Nat.eqb_eq in E. exfalso. apply H. left. exact E.
    + f_equal. apply IH. intro Hin. apply H. right. exact Hin.
Qed.
Lemma dict_in_mid {A} (X : list (nat * A)) d x B : dict_in d (X ++ (d, x) :: B) = true.
Proof. unfold dict_in. rewrite existsb_app. cbn [existsb fst]. rewrite (Nat.eqb_refl d). rewrite orb_true_r. reflexivity. Qed.
Lemma dict_get_mid {A} d (x : A) B dflt : forall X, ~ In d (map fst X) -> dict_get (X ++ (d, x) :: B) d dflt = x.
Proof.
  induction X as [|a X IH]; intros H; cbn [app dict_get fst snd].
  - rewrite (Nat.eqb_refl d). reflexivity.
  - destruct (Nat.eqb (fst a) d) eqn:E.
    + apply Nat.eqb_eq in E. exfalso. apply H. left. exact E.
    + apply IH. intro Hin. apply H. right. exact Hin.
Qed.
Lemma dict_set_mid {A} d (x v : A) B : forall X, ~ In d (map fst X) -> dict_set (X ++ (d, x) :: B) d v = X ++ (d, v) :: B.
Proof.
  induction X as [|a X IH]; intros H; cbn [app dict_set fst snd].
  - rewrite (Nat.eqb_refl d). reflexivity.
  - destruct (Nat.eqb (fst a) d) eqn:E.
    + apply Nat.eqb_eq in E. exfalso. apply H. left. exact E.
    + f_equal. apply IH. intro Hin. apply H. right. exact Hin.
Qed.

Lemma fold_snoc_map {A B} (F : A -> B) l : forall acc, fold_left (fun a x => a ++ [F x]) l acc = acc ++ map F l.
Proof.
  induction l as [|x l IH]; intros acc; cbn [fold_left map]; [rewrite app_nil_r; reflexivity|].
  rewrite IH, <- app_assoc. reflexivity.
Qed.

(* ---------- memory instances ---------- *)
Lemma map_rp_id l : map (fun p => RP (rp_dom p) (rp_addr p) (rp_data p) (rp_en p) (rp_transp p)) l = l.
Proof. induction l as [|[] l IH]; [reflexivity|]. cbn [map]. rewrite IH. reflexivity. Qed.
Lemma map_wp_id l : map (fun p => WP (wp_dom p) (wp_addr p) (wp_data p) (wp_en p)) l = l.
Proof. induction l as [|[] l IH]; [reflexivity|]. cbn [map]. rewrite IH. reflexivity. Qed.

Lemma gen_reset_on_memory_eq ctl m : reset_on_memory ctl m = m.
Proof. unfold reset_on_memory. cbv zeta. rewrite map_rp_id, map_wp_id. destruct m; reflexivity. Qed.

Lemma gen_enable_on_memory_eq ctl m : enable_on_memory ctl m = enable_mem ctl m.
Proof.
  unfold enable_on_memory, enable_mem. cbv zeta. rewrite map_rp_id, map_wp_id. f_equal.
  - apply map_ext. intros p. unfold enable_wport. rewrite dict_in_lookup, dict_get_lookup.
    destruct (lookup (wp_dom p) ctl) as [c|]; [rewrite gen_mux_ctl; reflexivity|destruct p; reflexivity].
  - apply map_ext. intros p. unfold enable_rport. rewrite dict_in_lookup, dict_get_lookup.
    destruct (lookup (rp_dom p) ctl) as [c|]; [reflexivity|destruct p; reflexivity].
Qed.

(* ---------- ResetInserter ---------- *)
Definition reset_ctl (tab : sigtab) (ctl : controls) : list (nat * list stmt) -> nat * list stmt -> list (nat * list stmt) :=
  fun acc '(domain, sts) =>
    if orb (Nat.eqb domain 0) (negb (dict_in domain ctl)) then acc
    else frag_add_statements domain
           [SSwitch (dict_get ctl domain KeyError_expr)
              [(Some (switch_int_key (dict_get ctl domain KeyError_expr) 1),
                fold_left (reset_step tab) (lhs_chunks tab (visit_stmts sts [])) [])]] acc.

Lemma reset_unfold tab ctl st ms subs :
  reset_on_fragment tab ctl (Frag st ms subs) =
  Frag (fold_left (reset_ctl tab ctl) st (copy_entries st))
       (fold_left (fun a m => a ++ [reset_on_memory ctl m]) ms [])
       (fold_left (fun a s => a ++ [reset_on_fragment tab ctl s]) subs []).
Proof. reflexivity. Qed.

Lemma reset_ctl_step tab ctl : tab_ok tab -> ctl_wf ctl -> forall A e B,
  stmts_ok (snd e) = true -> ~ In (fst e) (map fst A) ->
  reset_ctl tab ctl (A ++ e :: B) e = A ++ reset_entry tab ctl e :: B.
Proof.
  intros Ht Hc A [d ss] B Hok Hn. unfold reset_ctl, reset_entry. cbn [fst snd] in *.
  destruct (Nat.eqb d 0); cbn [orb]; [reflexivity|].
  rewrite dict_in_lookup, dict_get_lookup. destruct (lookup d ctl) as [c|] eqn:El; cbn [negb]; [|reflexivity].
  rewrite gen_add_statements_eq. unfold add_stmts. rewrite add_ne_mid by exact Hn.
  rewrite gen_ctl_switch by (apply (Hc d c El)). rewrite gen_reset_stmts by assumption. reflexivity.
Qed.

Theorem gen_reset_on_fragment_eq tab ctl : tab_ok tab -> ctl_wf ctl ->
  forall f, frag_ok (fun e => stmts_ok (snd e) = true) f -> reset_on_fragment tab ctl f = reset_inserter tab ctl f.
Proof.
  intros Ht Hc. induction f as [st ms subs IH] using frag_ind2. intros Hok.
  pose proof (frag_ok_subs _ _ _ _ Hok) as Hsubs. destruct Hok as [He [HQ _]].
  rewrite reset_unfold. cbn [reset_inserter]. f_equal.
  - rewrite copy_entries_id by exact He.
    apply (fold_entries (reset_ctl tab ctl) (reset_entry tab ctl) (fun e => stmts_ok (snd e) = true)).
    + intros A e B. apply reset_ctl_step; assumption.
    + intros e. apply reset_entry_shape.
    + apply He.
    + exact HQ.
  - rewrite fold_snoc_map. cbn [app]. erewrite map_ext; [apply map_id|]. apply gen_reset_on_memory_eq.
  - rewrite fold_snoc_map. cbn [app]. apply map_ext_in. intros s Hs.
    rewrite Forall_forall in IH, Hsubs. apply IH; auto.
Qed.

(* ---------- EnableInserter ---------- *)
Definition enable_ctl (ctl : controls) : list (nat * list stmt) -> nat * list stmt -> list (nat * list stmt) :=
  fun acc '(domain, sts) =>
    if orb (Nat.eqb domain 0) (negb (dict_in domain ctl)) then acc
    else if dict_in domain acc
         then dict_set acc domain
                [SSwitch (dict_get ctl domain KeyError_expr)
                   [(Some (switch_int_key (dict_get ctl domain KeyError_expr) 1), dict_get acc domain KeyError_stmts)]]
         else acc.

Lemma enable_unfold ctl st ms subs :
  enable_on_fragment ctl (Frag st ms subs) =
  Frag (fold_left (enable_ctl ctl) st (copy_entries st))
       (fold_left (fun a m => a ++ [enable_on_memory ctl m]) ms [])
       (fold_left (fun a s => a ++ [enable_on_fragment ctl s]) subs []).
Proof. reflexivity. Qed.

Lemma enable_ctl_step ctl : ctl_wf ctl -> forall A e B, True -> ~ In (fst e) (map fst A) ->
  enable_ctl ctl (A ++ e :: B) e = A ++ enable_entry ctl e :: B.
Proof.
  intros Hc A [d ss] B _ Hn. unfold enable_ctl, enable_entry. cbn [fst snd] in *.
  destruct (Nat.eqb d 0); cbn [orb]; [reflexivity|].
  rewrite dict_in_lookup, (dict_get_lookup ctl). destruct (lookup d ctl) as [c|] eqn:El; cbn [negb]; [|reflexivity].
  rewrite dict_in_mid, dict_set_mid, dict_get_mid by exact Hn.
  rewrite gen_ctl_switch by (apply (Hc d c El)). reflexivity.
Qed.

Theorem gen_enable_on_fragment_eq ctl : ctl_wf ctl ->
  forall f, frag_ok (fun _ => True) f -> enable_on_fragment ctl f = enable_inserter ctl f.
Proof.
  intros Hc. induction f as [st ms subs IH] using frag_ind2. intros Hok.
  pose proof (frag_ok_subs _ _ _ _ Hok) as Hsubs. destruct Hok as [He [HQ _]].
  rewrite enable_unfold. cbn [enable_inserter]. f_equal.
  - rewrite copy_entries_id by exact He.
    apply (fold_entries (enable_ctl ctl) (enable_entry ctl) (fun _ => True)).
    + apply enable_ctl_step. exact Hc.
    + intros e. apply enable_entry_shape.
    + apply He.
    + auto.
  - rewrite fold_snoc_map. cbn [app]. apply map_ext. apply gen_enable_on_memory_eq.
  - rewrite fold_snoc_map. cbn [app]. apply map_ext_in. intros s Hs.
    rewrite Forall_forall in IH, Hsubs. apply IH; auto.
Qed.


(* ---------- DomainRenamer ---------- *)
(* a predicate on every signal leaf of values / statements / memory ports / fragment trees *)
Section AllSigs.
Variable P : nat -> shape -> bool.
Fixpoint all_sigs (e : expr) : bool :=
  match e with
  | EConst _ _ => true
  | ESig i s => P i s
  | EOp1 _ a => all_sigs a
  | EOp2 _ a b => all_sigs a && all_sigs b
  | ESlice a _ _ => all_sigs a
  | EPart a off _ _ => all_sigs a && all_sigs off
  | ECat ps => forallb all_sigs ps
  | ESwitch t cs => all_sigs t && forallb (fun c => all_sigs (snd c)) cs
  end.
Fixpoint all_sigs_stmt (s : stmt) : bool :=
  match s with
  | SAssign l r => all_sigs l && all_sigs r
  | SSwitch t cs => all_sigs t && forallb (fun c => forallb all_sigs_stmt (snd c)) cs
  end.
Definition all_sigs_mem (m : meminst) : bool :=
  forallb (fun p => all_sigs (wp_addr p) && all_sigs (wp_data p) && all_sigs (wp_en p)) (mi_wports m) &&
  forallb (fun p => all_sigs (rp_addr p) && all_sigs (rp_data p) && all_sigs (rp_en p)) (mi_rports m).
Fixpoint all_sigs_frag (f : frag) : bool :=
  match f with
  | Frag st ms subs =>
      forallb (fun e => forallb all_sigs_stmt (snd e)) st && forallb all_sigs_mem ms && forallb all_sigs_frag subs
  end.
End AllSigs.

(* the renamer with an arbitrary rewriting F of the signal leaves (Xfrm.domain_renamer_cs is F = ren_sig base rho,
   Xfrm.domain_renamer is F = ESig) *)
Definition rn_mem (F : nat -> shape -> expr) (rho : list (nat * nat)) (m : meminst) : meminst :=
  MI (mi_shape m) (mi_depth m) (mi_init m)
     (map (fun p => WP (rename_dom rho (wp_dom p)) (map_sig F (wp_addr p)) (map_sig F (wp_data p)) (map_sig F (wp_en p))) (mi_wports m))
     (map (fun p => RP (rename_dom rho (rp_dom p)) (map_sig F (rp_addr p)) (map_sig F (rp_data p)) (map_sig F (rp_en p)) (rp_transp p)) (mi_rports m)).
Fixpoint rn_frag (F : nat -> shape -> expr) (rho : list (nat * nat)) (f : frag) : frag :=
  match f with
  | Frag st ms subs =>
      Frag (rename_entries rho (map (fun e => (fst e, map (map_sig_stmt F) (snd e))) st))
           (map (rn_mem F rho) ms) (map (rn_frag F rho) subs)
  end.

Lemma map_ext_forallb {A B} (f g : A -> B) (Q : A -> bool) l :
  (forall x, Q x = true -> f x = g x) -> forallb Q l = true -> map f l = map g l.
Proof.
  intros H. induction l as [|x l IH]; [reflexivity|]. cbn [forallb map]. intros Hq. apply andb_true_iff in Hq.
  destruct Hq as [H1 H2]. rewrite (H x H1), (IH H2). reflexivity.
Qed.

Section Ext.
Variables (P : nat -> shape -> bool) (F G : nat -> shape -> expr).
Hypothesis HFG : forall i s, P i s = true -> F i s = G i s.

Lemma map_sig_ext_all e : all_sigs P e = true -> map_sig F e = map_sig G e.
Proof.
  induction e as [v s|j s|o a IH|o a b IHa IHb|a lo hi IH|a off w st IHa IHo|l IH|t cs IHt IH] using expr_ind';
    cbn [all_sigs map_sig]; intros H; repeat (apply andb_true_iff in H; destruct H as [? H]).
  - reflexivity.
  - apply HFG. exact H.
  - rewrite IH by assumption. reflexivity.
  - rewrite IHa, IHb by assumption. reflexivity.
  - rewrite IH by assumption. reflexivity.
  - rewrite IHa, IHo by assumption. reflexivity.
  - f_equal. rewrite forallb_forall in H. rewrite Forall_forall in IH. apply map_ext_in. intros x Hx. apply IH; auto.
  - rewrite IHt by assumption. f_equal. rewrite forallb_forall in H. rewrite Forall_forall in IH.
    apply map_ext_in. intros x Hx. rewrite (IH x Hx) by (apply H; exact Hx). reflexivity.
Qed.

Lemma map_sig_stmt_ext_all s : all_sigs_stmt P s = true -> map_sig_stmt F s = map_sig_stmt G s.
Proof.
  induction s as [l r|t cs IH] using stmt_ind2; cbn [all_sigs_stmt map_sig_stmt]; intros H;
    apply andb_true_iff in H; destruct H as [H1 H2].
  - rewrite (map_sig_ext_all l H1), (map_sig_ext_all r H2). reflexivity.
  - rewrite (map_sig_ext_all t H1). f_equal. rewrite forallb_forall in H2. rewrite Forall_forall in IH.
    apply map_ext_in. intros c Hc. f_equal. specialize (IH c Hc). specialize (H2 c Hc).
    rewrite forallb_forall in H2. rewrite Forall_forall in IH. apply map_ext_in. intros x Hx. apply IH; auto.
Qed.

Lemma rn_mem_ext rho m : all_sigs_mem P m = true -> rn_mem F rho m = rn_mem G rho m.
Proof.
  unfold all_sigs_mem, rn_mem. intros H. apply andb_true_iff in H. destruct H as [Hw Hr]. f_equal.
  - eapply map_ext_forallb; [|exact Hw]. intros p Hp. cbn beta in Hp. rewrite !andb_true_iff in Hp. destruct Hp as [[H1 H2] H3].
    rewrite (map_sig_ext_all _ H1), (map_sig_ext_all _ H2), (map_sig_ext_all _ H3). reflexivity.
  - eapply map_ext_forallb; [|exact Hr]. intros p Hp. cbn beta in Hp. rewrite !andb_true_iff in Hp. destruct Hp as [[H1 H2] H3].
    rewrite (map_sig_ext_all _ H1), (map_sig_ext_all _ H2), (map_sig_ext_all _ H3). reflexivity.
Qed.

Lemma rn_frag_ext rho f : all_sigs_frag P f = true -> rn_frag F rho f = rn_frag G rho f.
Proof.
  induction f as [st ms subs IH] using frag_ind2. cbn [all_sigs_frag rn_frag]. intros H.
  rewrite !andb_true_iff in H. destruct H as [[Hst Hms] Hsubs]. f_equal.
  - f_equal. eapply map_ext_forallb; [|exact Hst]. intros e He. cbn beta in He. f_equal.
    eapply map_ext_forallb; [|exact He]. apply map_sig_stmt_ext_all.
  - eapply map_ext_forallb; [|exact Hms]. apply rn_mem_ext.
  - rewrite forallb_forall in Hsubs. rewrite Forall_forall in IH. apply map_ext_in. intros s Hs. apply IH; auto.
Qed.
End Ext.

Lemma map_sig_id e : map_sig (fun i s => ESig i s) e = e.
Proof.
  induction e as [v s|j s|o a IH|o a b IHa IHb|a lo hi IH|a off w st IHa IHo|l IH|t cs IHt IH] using expr_ind';
    cbn [map_sig]; try congruence.
  - f_equal. rewrite <- (map_id l) at 2. apply map_ext_in. intros x Hx. rewrite Forall_forall in IH. auto.
  - rewrite IHt. f_equal. rewrite <- (map_id cs) at 2. apply map_ext_in. intros [ps x] Hx. rewrite Forall_forall in IH.
    specialize (IH _ Hx). cbn [fst snd] in *. rewrite IH. reflexivity.
Qed.
Lemma map_sig_stmt_id s : map_sig_stmt (fun i s => ESig i s) s = s.
Proof.
  induction s as [l r|t cs IH] using stmt_ind2; cbn [map_sig_stmt]; rewrite ?map_sig_id; [reflexivity|]. f_equal.
  rewrite <- (map_id cs) at 2. apply map_ext_in. intros [ps ss] Hc. cbn [fst snd]. f_equal.
  rewrite Forall_forall in IH. specialize (IH _ Hc). cbn [snd] in IH.
  rewrite <- (map_id ss) at 2. apply map_ext_in. intros x Hx. rewrite Forall_forall in IH. auto.
Qed.

Lemma rn_frag_cs base rho f : rn_frag (ren_sig base rho) rho f = domain_renamer_cs base rho f.
Proof.
  induction f as [st ms subs IH] using frag_ind2. cbn [rn_frag domain_renamer_cs]. f_equal.
  rewrite Forall_forall in IH. apply map_ext_in. exact IH.
Qed.
Lemma rn_frag_plain rho f : rn_frag (fun i s => ESig i s) rho f = domain_renamer rho f.
Proof.
  induction f as [st ms subs IH] using frag_ind2. cbn [rn_frag domain_renamer]. f_equal.
  - f_equal. rewrite <- (map_id st) at 2. apply map_ext. intros [d ss]. cbn [fst snd]. f_equal.
    rewrite <- (map_id ss) at 2. apply map_ext. apply map_sig_stmt_id.
  - apply map_ext. intros m. unfold rn_mem, rename_mem. f_equal; apply map_ext; intros p; rewrite !map_sig_id; reflexivity.
  - rewrite Forall_forall in IH. apply map_ext_in. exact IH.
Qed.

(* what the regenerated value transformer does on a signal leaf (the ESig branch of rename_on_value) *)
Definition gen_sig (base : nat) (rho : list (nat * nat)) (i : nat) (s : shape) : expr :=
  match cs_decode base i with
  | Some (d, O) => if dict_in d rho then ESig (cs_index base (dict_get rho d KeyError_dom) 0) (Sh 1 false) else ESig i s
  | Some (d, S k) =>
      if dict_in d rho then ESig (cs_index base (dict_get rho d KeyError_dom) (if Nat.eqb k 0 then 1 else 2)%nat) (Sh 1 false)
      else ESig i s
  | None => ESig i s
  end.

Lemma gen_rename_on_value_eq base rho e : rename_on_value base rho e = map_sig (gen_sig base rho) e.
Proof.
  induction e as [v s|j s|o a IH|o a b IHa IHb|a lo hi IH|a off w st IHa IHo|l IH|t cs IHt IH] using expr_ind'.
  - reflexivity.
  - reflexivity.
  - destruct o; cbn [rename_on_value map_sig]; cbv zeta; rewrite IH; reflexivity.
  - destruct o; cbn [rename_on_value map_sig]; cbv zeta; rewrite IHa, IHb; reflexivity.
  - cbn [rename_on_value map_sig]. cbv zeta. rewrite IH. reflexivity.
  - cbn [rename_on_value map_sig]. cbv zeta. rewrite IHa, IHo. reflexivity.
  - cbn [rename_on_value map_sig]. cbv zeta. f_equal. apply map_ext_in. intros x Hx.
    rewrite Forall_forall in IH. apply IH. exact Hx.
  - cbn [rename_on_value map_sig]. cbv zeta. rewrite IHt. f_equal. apply map_ext_in. intros [ps x] Hx.
    rewrite Forall_forall in IH. specialize (IH _ Hx). cbn [fst snd] in *. rewrite IH. reflexivity.
Qed.

Lemma gen_rename_on_statement_eq base rho s : rename_on_statement base rho s = map_sig_stmt (gen_sig base rho) s.
Proof.
  induction s as [l r|t cs IH] using stmt_ind2.
  - cbn [rename_on_statement map_sig_stmt]. cbv zeta. rewrite !gen_rename_on_value_eq. reflexivity.
  - cbn [rename_on_statement map_sig_stmt]. cbv zeta. rewrite gen_rename_on_value_eq. f_equal.
    apply map_ext_in. intros [ps ss] Hc. cbn [fst snd]. f_equal.
    rewrite Forall_forall in IH. specialize (IH _ Hc). cbn [snd] in IH.
    apply map_ext_in. intros x Hx. rewrite Forall_forall in IH. apply IH. exact Hx.
Qed.

Lemma rename_dom_get rho d : dict_get rho d d = rename_dom rho d.
Proof. unfold rename_dom. apply dict_get_lookup. Qed.
Lemma rename_dom_if rho d : (if dict_in d rho then dict_get rho d KeyError_dom else d) = rename_dom rho d.
Proof. unfold rename_dom. rewrite dict_in_lookup, dict_get_lookup. destruct (lookup d rho); reflexivity. Qed.

Lemma gen_rename_on_memory_eq base rho m : rename_on_memory base rho m = rn_mem (gen_sig base rho) rho m.
Proof.
  unfold rename_on_memory, rn_mem. cbv zeta. rewrite map_rp_id, map_wp_id, !map_map. f_equal.
  - apply map_ext. intros p. cbn [wp_dom wp_addr wp_data wp_en]. rewrite rename_dom_if, !gen_rename_on_value_eq. reflexivity.
  - apply map_ext. intros p. cbn [rp_dom rp_addr rp_data rp_en rp_transp]. rewrite rename_dom_if, !gen_rename_on_value_eq. reflexivity.
Qed.

Lemma rename_unfold base rho st ms subs :
  rename_on_fragment base rho (Frag st ms subs) =
  Frag (fold_left (fun acc '(d, ss) => frag_add_statements (dict_get rho d d) (map (fun x => rename_on_statement base rho x) ss) acc) st [])
       (fold_left (fun a m => a ++ [rename_on_memory base rho m]) ms [])
       (fold_left (fun a s => a ++ [rename_on_fragment base rho s]) subs []).
Proof. reflexivity. Qed.

(* no guard: every fragment tree, every map, every base *)
Theorem gen_rename_on_fragment_eq base rho f : rename_on_fragment base rho f = rn_frag (gen_sig base rho) rho f.
Proof.
  induction f as [st ms subs IH] using frag_ind2. rewrite rename_unfold. cbn [rn_frag]. f_equal.
  - unfold rename_entries. generalize (@nil (nat * list stmt)). induction st as [|[d ss] st IHs]; intros acc; [reflexivity|].
    cbn [fold_left map fst snd]. rewrite gen_add_statements_eq, rename_dom_get.
    erewrite (map_ext _ (map_sig_stmt (gen_sig base rho))) by (intros; apply gen_rename_on_statement_eq). apply IHs.
  - rewrite fold_snoc_map. cbn [app]. apply map_ext. apply gen_rename_on_memory_eq.
  - rewrite fold_snoc_map. cbn [app]. apply map_ext_in. intros s Hs. rewrite Forall_forall in IH. apply IH. exact Hs.
Qed.

(* late-bound signals carry the shape unsigned(1) (ClockSignal.shape() / ResetSignal.shape()) *)
Definition cs_shape_ok (base : nat) (i : nat) (s : shape) : bool :=
  match cs_decode base i with Some _ => shape_eqb s (Sh 1 false) | None => true end.

Lemma cs_index_decode base i d k : cs_decode base i = Some (d, k) -> cs_index base d k = i /\ (k < 3)%nat.
Proof.
  unfold cs_decode, cs_index. destruct (Nat.ltb i base) eqn:E; [discriminate|]. apply Nat.ltb_ge in E. intros H.
  assert (Hd : d = ((i - base) / 3)%nat) by congruence. assert (Hk : k = ((i - base) mod 3)%nat) by congruence.
  pose proof (Nat.mod_upper_bound (i - base) 3 ltac:(lia)) as Hu. pose proof (Nat.div_mod (i - base) 3 ltac:(lia)) as Hdm.
  rewrite <- Hd, <- Hk in *. split; lia.
Qed.

Lemma shape_eqb_true a b : shape_eqb a b = true -> a = b.
Proof.
  unfold shape_eqb. destruct a as [wa sa], b as [wb sb]. cbn [width sgn]. intros H. apply andb_true_iff in H.
  destruct H as [H1 H2]. apply Z.eqb_eq in H1. apply Bool.eqb_prop in H2. subst. reflexivity.
Qed.

Lemma gen_sig_cs base rho i s : cs_shape_ok base i s = true -> gen_sig base rho i s = ren_sig base rho i s.
Proof.
  unfold cs_shape_ok, gen_sig, ren_sig. destruct (cs_decode base i) as [[d k]|] eqn:E; [|reflexivity].
  intros Hs. apply shape_eqb_true in Hs. subst s. destruct (cs_index_decode _ _ _ _ E) as [Hi Hk]. cbn [fst snd].
  rewrite <- (rename_dom_if rho d). destruct k as [|k].
  - destruct (dict_in d rho); [reflexivity|]. rewrite Hi. reflexivity.
  - destruct (dict_in d rho); [|rewrite Hi; reflexivity].
    destruct k as [|[|k]]; [reflexivity|reflexivity|lia].
Qed.
Lemma gen_sig_plain base rho i s : Nat.ltb i base = true -> gen_sig base rho i s = ESig i s.
Proof. unfold gen_sig, cs_decode. intros ->. reflexivity. Qed.

(* DomainRenamer with ClockSignal / ResetSignal: the model's domain_renamer_cs *)
Theorem gen_rename_cs base rho f : all_sigs_frag (cs_shape_ok base) f = true ->
  rename_on_fragment base rho f = domain_renamer_cs base rho f.
Proof.
  intros H. rewrite gen_rename_on_fragment_eq, <- rn_frag_cs. apply (rn_frag_ext (cs_shape_ok base)); [|exact H].
  intros i s. apply gen_sig_cs.
Qed.
(* without late-bound signals (every signal index below base): the plain renamer *)
Theorem gen_rename_plain base rho f : all_sigs_frag (fun i _ => Nat.ltb i base) f = true ->
  rename_on_fragment base rho f = domain_renamer rho f.
Proof.
  intros H. rewrite gen_rename_on_fragment_eq, <- rn_frag_plain. apply (rn_frag_ext (fun i _ => Nat.ltb i base)); [|exact H].
  intros i s. apply gen_sig_plain.
Qed.
Theorem gen_rename_value_cs base rho e : all_sigs (cs_shape_ok base) e = true ->
  rename_on_value base rho e = map_sig (ren_sig base rho) e.
Proof.
  intros H. rewrite gen_rename_on_value_eq. apply (map_sig_ext_all (cs_shape_ok base)); [|exact H]. intros i s. apply gen_sig_cs.
Qed.
Theorem gen_rename_value_plain base rho e : all_sigs (fun i _ => Nat.ltb i base) e = true -> rename_on_value base rho e = e.
Proof.
  intros H. rewrite gen_rename_on_value_eq. rewrite <- (map_sig_id e) at 2.
  apply (map_sig_ext_all (fun i _ => Nat.ltb i base)); [|exact H]. intros i s. apply gen_sig_plain.
Qed.
(* ---------- __init__: which control dicts / domain maps are accepted ---------- *)
Lemma gen_control_init_dict_eq ctl : control_init_dict ctl = if dict_in 0%nat ctl then None else Some ctl.
Proof. reflexivity. Qed.
Lemma gen_control_init_value_eq sync c :
  control_init_value sync c = if Nat.eqb sync 0 then None else Some [(sync, c)].
Proof. unfold control_init_value. cbv zeta. unfold dict_in. cbn [existsb fst]. rewrite orb_false_r. reflexivity. Qed.

(* an accepted dict names no control for "comb": the `domain == "comb"` test of on_fragment (reset_entry /
   enable_entry: Nat.eqb (fst e) 0) is then implied by the lookup *)
Lemma control_init_dict_spec ctl ctl' : control_init_dict ctl = Some ctl' <-> ctl' = ctl /\ lookup 0%nat ctl = None.
Proof.
  rewrite gen_control_init_dict_eq, dict_in_lookup. destruct (lookup 0%nat ctl); split.
  - discriminate.
  - intros [_ H]. discriminate.
  - intros H. injection H as <-. auto.
  - intros [-> _]. reflexivity.
Qed.

Definition rename_ok (rho : list (nat * nat)) : bool := forallb (fun p => negb (Nat.eqb (fst p) 0) && negb (Nat.eqb (snd p) 0)) rho.

Lemma rename_loop rho : forall ok,
  fold_left (fun (ok : option unit) '(src, dst) =>
               match ok with None => None | Some tt => if Nat.eqb src 0 then None else if Nat.eqb dst 0 then None else Some tt end)
            rho ok = match ok with None => None | Some _ => if rename_ok rho then Some tt else None end.
Proof.
  unfold rename_ok. induction rho as [|[s d] rho IH]; intros ok; cbn [fold_left forallb fst snd].
  - destruct ok as [[]|]; reflexivity.
  - rewrite IH. destruct ok as [[]|]; [|reflexivity]. destruct (Nat.eqb s 0), (Nat.eqb d 0); cbn [negb andb]; reflexivity.
Qed.

Lemma gen_rename_init_dict_eq rho : rename_init_dict rho = if rename_ok rho then Some rho else None.
Proof. unfold rename_init_dict. rewrite rename_loop. destruct (rename_ok rho); reflexivity. Qed.
Lemma gen_rename_init_str_eq sync d : rename_init_str sync d = if rename_ok [(sync, d)] then Some [(sync, d)] else None.
Proof. unfold rename_init_str. cbv zeta. rewrite rename_loop. destruct (rename_ok [(sync, d)]); reflexivity. Qed.
